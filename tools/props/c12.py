#!/usr/bin/env python3
"""C12  Configuration selection honours -D/-U and covers guarded code.

prove:      coq/theories/Properties_C12.v (coverage refuted for the property's family by two
            minimal trees; coverage proved for the sub-family okf 0 at any depth; cut at
            --max-configs; -D/-U honoured by every configuration)
correspond: X1  extracted get_configs (Cfg/Run.v) vs the real Preprocessor::getConfigs (harness/vh_c12.cpp)
            X2  extracted analysed/covered_ids vs the real binary (Checking-lines and planted findings)
search:     the property itself evaluated on the implementation: lines kept under none of the
            configurations the real getConfigs returns (shrunk to a minimal tree), -D/-U honoured
            by the real binary's findings.
"""
import concurrent.futures
import hashlib
import itertools
import os
import re
import subprocess
import sys
import tempfile

sys.path.insert(0, os.path.dirname(os.path.dirname(os.path.abspath(__file__))))
import vlib
from props import cfg_common as G

PID = "C12"

# the two Coq witnesses (Cfg/Proofs.v refute1, refute2) and snippets of test/testpreprocessor.cpp
T_REFUTE1 = [("g", "d", b"X", [("g", "d", b"A", [], [], []), ("g", "d", b"B", [("c",)], [], None)], [], None)]
T_REFUTE2 = [("g", "N", b"A", [("g", "d", b"C", [("c",)], [], None)], [], None)]
CORPUS = [
    T_REFUTE1, T_REFUTE2,
    [("c",)],
    [("g", "d", b"A", [("c",)], [], None)],
    [("g", "d", b"A", [("c",)], [], [("c",)])],
    [("g", "n", b"A", [("c",)], [], [("c",)])],
    [("g", "D", b"A", [("c",)], [("E", b"B", [("c",)])], [("c",)])],
    [("g", "d", b"A", [("c",)], [], None), ("g", "D", b"A", [("c",)], [], None), ("g", "N", b"A", [("c",)], [], None)],
    [("g", "N", b"A", [("c",)], [], None), ("g", "d", b"A", [("c",)], [], None)],
    [("g", "d", b"A", [("g", "d", b"B", [("c",)], [], None)], [], None), ("g", "d", b"B", [("c",)], [], None)],
]


def kept_py(fields, S):
    """the nested-conditional semantics (search oracle only)"""
    st, out = [], []
    for f in fields:
        k = f[:1]
        live = all(s == "T" for s in st)
        if k in b"dnDN":
            if not live:
                st.append("A")
            else:
                v = (f[1:] in S) == (k in b"dD")
                st.append("T" if v else "E")
        elif k in b"EF":
            if st[-1] == "T":
                st[-1] = "A"
            elif st[-1] == "E" and all(s == "T" for s in st[:-1]) and ((f[1:] in S) == (k == b"E")):
                st[-1] = "T"
        elif k == b"e":
            st[-1] = "T" if st[-1] == "E" else "A"
        elif k == b"x":
            st.pop()
        elif live:
            out.append(int(f[1:]))
    return out


def reachable(fields, D=(), U=()):
    ms = [m for m in G.macros_of(fields) if m not in D and m not in U]
    ms = ms[:10]
    res = set()
    for r in range(len(ms) + 1):
        for sub in itertools.combinations(ms, r):
            res.update(kept_py(fields, set(sub) | set(D)))
    return res


def impl_configs(vh, cases):
    rc, out, err = vlib.run_lines([vh, "configs"], [vlib.enc_case(c) for c in cases])
    if len(out) != len(cases):
        raise vlib.BuildError("harness died on configs: " + err[-500:])
    return [vlib.dec_line(o) for o in out]


def uncovered_on_impl(model, vh, field_lists):
    """property on the implementation: ids kept under none of the real getConfigs' configurations"""
    cases = [[b"", b""] + f for f in field_lists]
    cfgs = impl_configs(vh, cases)
    lines = [vlib.enc_case([b"uncov", b"", b"", b"%d" % len(cs)] + list(cs) + f) for cs, f in zip(cfgs, field_lists)]
    rc, out, err = vlib.run_lines([model], lines)
    res = []
    for cs, o in zip(cfgs, out):
        d = vlib.dec_line(o)
        res.append((cs, [] if d == [b"B"] else [int(x) for x in d]))
    return res


def shrink(model, vh, tree):
    cur = tree
    for _ in range(200):
        cands = [c for c in G.shrink_candidates(cur) if c]
        if not cands:
            break
        res = uncovered_on_impl(model, vh, [G.flatten(c) for c in cands])
        nxt = None
        for c, (cs, unc) in zip(cands, res):
            if unc and len(cs) <= 12 and not (cs and cs[0] == b"!exc"):
                nxt = c
                break
        if nxt is None:
            break
        cur = nxt
    return cur


def report_uncovered(run, model, vh, tree, prefix, what, key=None):
    small = shrink(model, vh, tree)
    f = G.flatten(small)
    (cs, unc), = uncovered_on_impl(model, vh, [f])
    key = key or "%s:%s" % (prefix, G.canonical(small))
    src, where = G.render_source(f)
    run.violation(key, "%s: line(s) with index %s reachable but analysed in none of the %d configurations %s" %
                  (what, unc, len(cs), [vlib.show(c) for c in cs]),
                  {"source": src, "uncovered_planted_index": unc, "configurations_of_real_getConfigs": [vlib.show(c) for c in cs],
                   "reachable_with": "define the macros guarding the line, e.g. cppcheck -D...; without -D no finding is reported for it",
                   "how": "save `source` as t.c; build/repo/bin/cppcheck t.c   (expected: arrayIndexOutOfBounds for vv[%s]); "
                          "or: echo '%s' | build/harness/vh_c12 configs" % (unc[0] if unc else "?", vlib.enc_case([b"", b""] + f))})
    return key


def run_binary(args):
    path, argv = args
    import time
    for _ in range(60):              # the shared binary is briefly absent while another check relinks it
        if os.path.exists(argv[0]):
            break
        time.sleep(5)
    for attempt in range(4):         # a run that dies while the binary is being replaced prints nothing: repeat it
        try:
            r = subprocess.run(argv + [path], stdout=subprocess.PIPE, stderr=subprocess.PIPE, timeout=300)
        except OSError:
            time.sleep(5)
            continue
        if r.returncode >= 0 and b"Checking" in r.stdout:
            break
        time.sleep(5)
    return r.stdout.decode("latin-1"), r.stderr.decode("latin-1")


def check(run, replay):
    quick = run.tier == "quick"
    rng = run.rng
    run.trusted_base += [
        "Coq 8.16.1 kernel (coqc); vm_compute only in the refutation witnesses and the non-vacuity Examples",
        "extraction: Require Extraction + ExtrOcamlBasic only; ocaml/driver.ml",
        "harness/vh_c12.cpp (renders directive fields as source lines, calls Preprocessor::getConfigs); tools/props/cfg_common.py renders the same text for the binary",
        "modelled, not verified: lib/preprocessor.cpp getConfigs/cfg/hasDefine/isUndefined/getConfigsElseIsFalse/gotoEndIf/readcondition (defined(m), !defined(m) only), "
        "createDUI + simplecpp's defines loop (dui_defs), lib/cppcheck.cpp configuration loop (getMaxConfigs, force, cut, userDefines merge)",
        "configuration strings are modelled structurally (item = name with/without '=name'); their rendering and std::set order are compared with the real strings by X1; "
        "macro names without ';' '=' and -D values '1' only",
        "not modelled: #error handling, include guards/#include, #define/#undef in the file, #if expressions other than defined(m)/!defined(m), library defines, "
        "the token-hash purge (does not change the reported set; X2 compares findings)",
    ]
    run.assumptions += ["g++ compiles /repo faithfully", "a planted `vv[i]=0` on `int vv[1]` (i>=3) is reported as arrayIndexOutOfBounds whenever its line is analysed (checked by X2 itself)"]
    run.extra["rule"] = ("trees: depth 1-4(5), 0-3 nodes per level, group prob .55, else prob .5, elif prob .25, kinds #ifdef/#ifndef/#if defined/#if !defined; "
                         "half with pairwise distinct macros, half drawn with replacement from 3-26 names (names chosen so that '=' sorts between them); "
                         "-D/-U: each macro of the file with prob .2/.2 in half of the cases. non-trivial: getConfigs returns >= 3 configurations (X1), "
                         "tree has a group nested in a group (cover), run analyses >= 2 configurations or uses -D/-U (X2); distinct = distinct case")

    vlib.ensure_repo_build()
    ok = run.prove()
    have_model = ok or os.path.exists(os.path.join(vlib.COQ, "theories/Cfg/Run.vo"))
    if not ok:
        run.violation("proof:" + PID, "Properties_C12.vo does not build: " + str(run.proof_error())[:300],
                      {"broken": "proof", "detail": run.proof_error()}, found_input=False)
    if not have_model:
        return
    model = vlib.build_model(PID)
    vh = vlib.build_harness(PID)

    # ---- X1: getConfigs
    n = 4000 if quick else 150000
    cases = []
    for t in CORPUS:
        cases.append([b"", b""] + G.flatten(t))
    for i in range(n):
        f = G.flatten(G.gen_tree(rng, distinct=(i % 2 == 0), maxdepth=4 if i % 5 else 5))
        d, u = G.gen_user(rng, f)
        cases.append([b";".join(d), b";".join(u)] + f)
    seen = set()
    ucases = []
    for c in cases:
        k = tuple(c)
        if k not in seen:
            seen.add(k)
            ucases.append(c)
    diffs = vlib.correspond(run, "getConfigs", model, [vh, "configs"], ucases, tag="configs",
                            nontrivial=lambda c, m, i: tuple(c) if len(m) >= 3 else None,
                            bucket=lambda c, m, i: "cfgs%s%s" % (min(len(m), 13) if len(m) < 13 else "13+", ",DU" if c[0] or c[1] else ""))
    for c, m, i in sorted(diffs, key=lambda d: len(d[0]))[:3]:
        f = c[2:]
        src, _ = G.render_source(f)
        # the property on the implementation for this input
        found = False
        if not c[0] and not c[1] and not (i and i[0] == "!exc"):
            lines = [vlib.enc_case([b"uncov", b"", b"", b"%d" % len(i)] + list(i) + f)]
            _, out, _ = vlib.run_lines([model], lines)
            unc = [int(x) for x in vlib.dec_line(out[0]) if x != b"B"]
            reach = reachable(f)
            unc = [x for x in unc if x in reach]
            if unc and len(i) <= 12:
                found = True
        key = "getConfigs:" + hashlib.sha1(vlib.enc_case(c).encode()).hexdigest()[:12]
        run.violation(key, "Preprocessor::getConfigs differs from the model: -D%s -U%s model %s, real %s%s" %
                      (vlib.show(c[0]), vlib.show(c[1]), vlib.show(m), vlib.show(i), " (a reachable line is uncovered)" if found else ""),
                      {"source": src, "userDefines": vlib.show(c[0]), "userUndefs": vlib.show(c[1]), "model": vlib.show(m), "real": vlib.show(i),
                       "how": "echo '%s' | build/harness/vh_c12 configs" % vlib.enc_case(c)}, found_input=found)

    # ---- the property on the implementation: coverage over the property's family
    n = 1500 if quick else 60000
    trees = [T_REFUTE1, T_REFUTE2] + [G.gen_tree(rng, distinct=True, allow_elif=False, maxdepth=rng.choice([2, 3, 3, 4])) for _ in range(n)]
    res = uncovered_on_impl(model, vh, [G.flatten(t) for t in trees])
    fail = []
    for t, (cs, unc) in zip(trees, res):
        nested = any(n_[0] == "g" and any(b_[0] == "g" for b_ in n_[3] + (n_[5] or [])) for n_ in t)
        fits = len(cs) <= 12
        run.count("cover(family)", None, nontrivial=G.canonical(t) if nested else None,
                  bucket="uncovered" if unc and fits else ("covered" if fits else "more-than-12-configs"))
        if unc and fits:
            fail.append((t, set(unc)))
    run.stream("cover(family)")["disagreements"] = len(fail)
    run.extra["family_trees_with_uncovered_line"] = len(fail)
    # name the cause: a line is explained by repair R iff the (unrepaired) model also leaves it
    # uncovered and the model with only R switched on covers it
    causes = {}
    if fail:
        def fix(a, b):
            _, out, _ = vlib.run_lines([model], [vlib.enc_case([b"fix", b"", b"", a, b] + G.flatten(t)) for t, _ in fail])
            return [set(int(x) for x in vlib.dec_line(o) if x != b"B") for o in out]
        u00, u10, u01, u11 = fix(b"0", b"0"), fix(b"1", b"0"), fix(b"0", b"1"), fix(b"1", b"1")
        for (t, unc), m00, m10, m01, m11 in zip(fail, u00, u10, u01, u11):
            if not unc <= m00:
                c = None                                   # the model does not predict it
            elif not (unc & m10):
                c = "else-of-ifdef-pops-parent-config"
            elif not (unc & m01):
                c = "if-not-defined-stacked-as-defined"
            elif not (unc & m11):
                c = "both-causes"
            else:
                c = None
            causes.setdefault(c, []).append(t)
    run.extra["uncovered_by_cause"] = {str(k): len(v) for k, v in causes.items()}
    for c, ts in sorted(causes.items(), key=lambda kv: str(kv[0])):
        if c is None:
            shapes = {}
            for t in ts[:6]:
                small = shrink(model, vh, t)
                shapes.setdefault(G.canonical(small), small)
            for k, small in sorted(shapes.items()):
                report_uncovered(run, model, vh, small, "uncovered", "configuration coverage (not explained by a known cause)")
        else:
            small = shrink(model, vh, min(ts, key=lambda t: len(G.flatten(t))))
            report_uncovered(run, model, vh, small, "uncovered", "configuration coverage", key="uncovered:" + c)
            if len(run.samples) < 12:
                run.samples.append({"stream": "cover(family)", "cause": c, "minimal_source": G.render_source(G.flatten(small))[0]})

    # ---- the proved sub-family on the implementation
    n = 1500 if quick else 60000
    trees = [G.gen_okf(rng) for _ in range(n)]
    res = uncovered_on_impl(model, vh, [G.flatten(t) for t in trees])
    for t, (cs, unc) in zip(trees, res):
        nested = any(n_[0] == "g" and any(b_[0] == "g" for b_ in n_[3] + (n_[5] or [])) for n_ in t)
        run.count("cover(okf)", None, nontrivial=G.canonical(t) if nested else None,
                  bucket="cfgs%d" % min(len(cs), 13))
        if unc:
            run.stream("cover(okf)")["disagreements"] += 1
            if run.stream("cover(okf)")["disagreements"] <= 2:
                report_uncovered(run, model, vh, t, "okf-uncovered", "sub-family of C12_configs_cover_partial")

    # ---- X2: the real binary
    n = 80 if quick else 2500
    tmp = tempfile.mkdtemp(prefix="c12x2_")
    jobs, metas = [], []
    fixed = [(T_REFUTE1, [], [], b"", False), (T_REFUTE2, [], [], b"", False)]
    for i in range(n):
        if i < len(fixed):
            t, d, u, opt, force = fixed[i]
            f = G.flatten(t)
        else:
            f = G.flatten(G.gen_tree(rng, distinct=(i % 2 == 0), maxdepth=3))
            d, u = G.gen_user(rng, f, p=0.5)
            opt = rng.choice([b"", b"", b"1", b"2", b"3", b"5", b"20"])
            force = rng.random() < 0.2
            if force:
                opt = b""
        src, where = G.render_source(f)
        p = os.path.join(tmp, "t%d.c" % i)
        with open(p, "w") as fh:
            fh.write(src)
        argv = [vlib.CPPCHECK, "--template={line}"] + ["-D" + x.decode() for x in d] + ["-U" + x.decode() for x in u]
        if opt:
            argv.append("--max-configs=" + opt.decode())
        if force:
            argv.append("--force")
        jobs.append((p, argv))
        metas.append((f, d, u, opt, force, where, src, argv))
    with concurrent.futures.ThreadPoolExecutor(max_workers=6) as ex:
        outs = list(ex.map(run_binary, jobs))
    mlines = [vlib.enc_case([b"e2e", b";".join(d), b";".join(u), opt, b"1" if force else b"0"] + f)
              for (f, d, u, opt, force, where, src, argv) in metas]
    _, mo, _ = vlib.run_lines([model], mlines)
    bad = 0
    for (f, d, u, opt, force, where, src, argv), (out, err), ml in zip(metas, outs, mo):
        cfgs = [m.group(1) for m in re.finditer(r"^Checking \S+: (.*)\.\.\.$", out, re.M)]
        ids = sorted({where[int(l)] for l in err.split() if l.isdigit() and int(l) in where})
        res = vlib.dec_line(ml)
        k = res.index(b"|")
        mcfgs = [x.decode() for x in res[:k] if x]
        mids = sorted({int(x) for x in res[k + 1:]})
        run.count("binary", None, nontrivial=tuple(f + d + u + [opt]) if (len(cfgs) >= 2 or d or u) else None,
                  bucket="%s%s%s" % ("D" if d else "", "U" if u else "", ",force" if force else (",max" + opt.decode() if opt else "")) or "default")
        if len(run.samples) < 12 and len(cfgs) >= 2:
            run.samples.append({"stream": "binary", "args": argv[1:], "source": src, "checking": cfgs, "reported_planted_indices": ids})
        if cfgs == mcfgs and ids == mids:
            continue
        run.stream("binary")["disagreements"] += 1
        bad += 1
        if bad > 3:
            continue
        # the property itself on this run
        dset, uset = set(d) - set(u), set(u)               # simplecpp: -U wins over -D
        reach = reachable(f, sorted(dset), sorted(uset))
        wrongly = [i for i in ids if i not in reach]          # reported although impossible under -D/-U
        found = bool(wrongly)
        why = "finding for a line that -D/-U exclude: %s" % wrongly if wrongly else ""
        if not found:
            for c in cfgs:
                names = {x.split("=")[0] for x in c.split(";")}
                if any(x.decode() not in names for x in dset) or any(x.decode() in names for x in uset - set(d)):
                    found, why = True, "analysed configuration %r ignores -D/-U" % c
        if not found and not d and not u and not opt and not force and len(cfgs) + 1 <= 12:
            miss = sorted(reachable(f) - set(ids))
            allowed = set(mids)
            if miss and not set(miss) <= (reachable(f) - allowed):
                found, why = True, "reachable lines %s not analysed" % miss
        key = "binary:" + hashlib.sha1((src + " ".join(argv[1:])).encode()).hexdigest()[:12]
        run.violation(key, "cppcheck %s: Checking-lines %s findings %s, model: %s %s %s" % (" ".join(argv[1:]), cfgs, ids, mcfgs, mids, why),
                      {"source": src, "args": argv[1:], "real_checking_lines": cfgs, "real_planted_indices_reported": ids,
                       "model_checking_lines": mcfgs, "model_indices": mids, "property": why,
                       "how": "save `source` as t.c and run build/repo/bin/cppcheck --template={line} <args> t.c"}, found_input=found)
    for p, _ in jobs:
        try:
            os.remove(p)
        except OSError:
            pass
    try:
        os.rmdir(tmp)
    except OSError:
        pass


if __name__ == "__main__":
    vlib.main(check, PID)
