"""Generators and runners shared by the C22 check: correspondence cases for the summary
model (X1) and multi-file projects for the three-mode run of the real binary (X2)."""
import os
import shutil
import subprocess
import tempfile

SPECIAL = b'<>&"\'\n\t\r\x00;#'
IDS = [b"h.h:1:6", b"h.h:2:6", b"h.h:3:5", b"a.c:7:1", b"x y.h:10:12"]
NAMES = [b"f", b"g", b"fwd", b"use_it", b"ns::h", b"operator[]"]
FILES = [b"a.c", b"b.c", b"dir.x/c d.cpp", b"h.h"]
ENTITYISH = [b"&lt;", b"&gt;", b"&amp;", b"&quot;", b"&apos;", b"&#10;", b"&#09;", b"&#13;", b"&#65;", b"&#x41;", b"&#0;", b"&#200;",
             b"&#;", b"&amp", b"&bogus;", b"&", b"&&lt;", b"&#1234567890;", b"&#0065;", b"\r\n", b"\n\r", b"\r", b"\n", b"\r\r\n"]


def hostile(rng, maxlen=6):
    n = rng.randint(0, maxlen)
    out = bytearray()
    for _ in range(n):
        r = rng.random()
        if r < 0.45:
            out.append(rng.choice(b"abXz09 ._"))
        elif r < 0.78:
            out.append(rng.choice(SPECIAL))
        elif r < 0.88:
            out.append(rng.randint(0x80, 0xff))
        elif r < 0.95:
            out.append(rng.randint(1, 31))
        else:
            out.append(rng.choice(b"~\x7f\\/"))
    return bytes(out)


def ident(rng):
    return bytes(rng.choice(b"abcpqxyz_") for _ in range(rng.randint(1, 4)))


P_RAW = [0.2]     # probability that an unescaped attribute gets a special character / entity inserted
P_EDGE = [0.12]   # probability of an edge value for an integer
ARGNRS = [[1, 1, 2, 3]]


def rawish(rng, pool):
    """text for an attribute the code writes without escaping (call-id, my-id, my-argname)"""
    r = rng.random()
    if r < 1 - P_RAW[0]:
        return rng.choice(pool)
    r = 0.8 + 0.2 * rng.random()
    base = bytearray(rng.choice(pool))
    pos = rng.randint(0, len(base))
    if r < 0.9:
        ins = rng.choice(ENTITYISH)
    else:
        ins = bytes([rng.choice(b'&"<>\n\r\x00\xe9;#\'\t')])
    return bytes(base[:pos]) + ins + bytes(base[pos:])


def gen_toxml(rng):
    return [hostile(rng, 12)]


def gen_rawattr(rng):
    r = rng.random()
    if r < 0.5:
        parts = [rng.choice(ENTITYISH + [b"a", b"b;", b" ", b"x"]) for _ in range(rng.randint(1, 4))]
        return [b"".join(parts)]
    return [hostile(rng, 8).replace(b'"', b"q") if r < 0.85 else hostile(rng, 8)]


def esc_text(rng, plain_pool, p_hostile):
    return hostile(rng, 7) if rng.random() < p_hostile else rng.choice(plain_pool)


def path_file(rng, p_hostile):
    # FileLocation's constructor runs Path::simplifyPath on the name; the model covers names it leaves alone
    if rng.random() < p_hostile:
        # (toxml turns NUL into the two characters \0, whose backslash simplifyPath then rewrites)
        return hostile(rng, 6).replace(b"/", b"_").replace(b"\\", b"_").replace(b".", b"d").replace(b"\x00", b"n")
    return rng.choice([b"a.c", b"b.c", b"h.h", b"c d.cpp"])


def small_or_edge(rng, small, edges):
    return rng.choice(edges) if rng.random() < P_EDGE[0] else rng.choice(small)


def gen_loc(rng, p_hostile):
    return [esc_text(rng, FILES, p_hostile), small_or_edge(rng, list(range(0, 40)), [0, 2147483647, 65536]),
            small_or_edge(rng, list(range(0, 30)), [0, 2147483647])]


def gen_floc(rng, p_hostile):
    return [path_file(rng, p_hostile), small_or_edge(rng, list(range(0, 40)), [-1, 2147483647, -2147483648]),
            small_or_edge(rng, list(range(0, 30)), [4294967295, 2147483648]), esc_text(rng, [b"Assignment 'p=0', assigned value is 0", b"info"], p_hostile)]


def gen_fc(rng, p_hostile, ids=IDS, kind=None):
    vt = small_or_edge(rng, [0, 4, 7], [1, 2, 3, 5, 6, 8, 9, 10, 255])
    if kind is not None and rng.random() < 0.8:
        vt = {0: 0, 1: 4, 2: 7, 3: 7}[kind]
    if vt == 7:
        val = small_or_edge(rng, [8, 40, 4, 20], [-1, 0, 9223372036854775807])
    elif vt == 0:
        val = small_or_edge(rng, [0, 0, 0, 1], [-1, 9223372036854775807, -9223372036854775808])
    else:
        val = small_or_edge(rng, [0], [5, -3])
    path = [gen_floc(rng, p_hostile) for _ in range(rng.choice([0, 0, 1, 2]))]
    f = [rawish(rng, ids), small_or_edge(rng, ARGNRS[0], [0, -1, 2147483647]), esc_text(rng, NAMES, p_hostile)] + \
        gen_loc(rng, p_hostile) + \
        [esc_text(rng, [b"0", b"&x", b"buf", b"p->q[1]", b"a<b"], p_hostile), vt, val, small_or_edge(rng, [0, 0, 0, 0, 1, 2, 3], [255, 7]),
         rng.random() < 0.25, len(path)]
    for p in path:
        f += p
    return f


def gen_nc(rng, p_hostile, ids=IDS):
    return [rawish(rng, ids), small_or_edge(rng, ARGNRS[0], [0, -1, 2147483647]), esc_text(rng, NAMES, p_hostile)] + \
        gen_loc(rng, p_hostile) + [rawish(rng, ids), small_or_edge(rng, ARGNRS[0], [0, 2147483647])]


def gen_uu(rng, p_hostile, ids=IDS):
    return [rawish(rng, ids), small_or_edge(rng, ARGNRS[0], [0, 2147483647]), rawish(rng, [b"p", b"buf", b"q_1", b"arg\xc3\xa9"])] + \
        gen_loc(rng, p_hostile) + [small_or_edge(rng, [0, 20, 8, 28, -4], [9223372036854775807, -9223372036854775808])]


def gen_ctu_fields(rng, p_hostile, ids=IDS, kind=None, nf=None, nn=None):
    nf = rng.randint(0, 3) if nf is None else nf
    nn = rng.randint(0, 3) if nn is None else nn
    out = [nf]
    for _ in range(nf):
        out += gen_fc(rng, p_hostile, ids, kind)
    out.append(nn)
    for _ in range(nn):
        out += gen_nc(rng, p_hostile, ids)
    return out


def gen_ctu_case(rng):
    return gen_ctu_fields(rng, rng.choice([0.0, 0.15, 0.5]))


def gen_ctucfgs_case(rng):
    """one source, 1-3 configurations, each with its own CTU summary"""
    n = rng.choice([1, 2, 2, 3])
    p = rng.choice([0.0, 0.0, 0.15])
    out = [n]
    for _ in range(n):
        out += gen_ctu_fields(rng, p, nf=rng.randint(0, 2), nn=rng.randint(0, 2))
    return out


def gen_uu_case(rng):
    n = rng.randint(0, 3)
    p = rng.choice([0.0, 0.15, 0.5])
    out = [n]
    for _ in range(n):
        out += gen_uu(rng, p)
    return out


def gen_wp_pair(rng):
    """the same summaries with the CTU part (mode 0) in memory and (mode 1) written and read back"""
    kind = rng.randint(0, 3)
    P_RAW[0], P_EDGE[0], ARGNRS[0] = 0.01, 0.03, [1, 1, 1, 2]
    try:
        return gen_wp_pair1(rng, kind)
    finally:
        P_RAW[0], P_EDGE[0], ARGNRS[0] = 0.2, 0.12, [1, 1, 2, 3]


def gen_wp_pair1(rng, kind):
    ids = IDS[:rng.choice([2, 3, 4])]
    warn = rng.random() < 0.5
    depth = rng.choice([0, 1, 2, 2, 2, 3, 4, 6, 10])
    body = gen_ctu_fields(rng, 0.0, ids, kind, nf=rng.randint(1, 4), nn=rng.choice([0, 1, 1, 2, 3, 5]))
    n = rng.randint(1, 3)
    body.append(n)
    for _ in range(n):
        body += gen_uu(rng, 0.0, ids)
    return [[kind, warn, depth, m, b"src/file0.c"] + body for m in (0, 1)]


def chain_case(depth_chain, kind=0, mode=1, depth=10):
    """deterministic corpus: caller -> f1 -> ... -> sink through `depth_chain` forwarding functions"""
    ids = [("h.h:%d:6" % (i + 1)).encode() for i in range(depth_chain + 1)]
    vt, val = {0: (0, 0), 1: (4, 0), 2: (7, 8), 3: (7, 8)}[kind]
    fcs = [1, ids[0], 1, b"f0", b"a.c", 3, 5, b"0" if kind == 0 else b"x", vt, val, 0, False, 0]
    ncs = [depth_chain]
    for i in range(depth_chain):
        ncs += [ids[i + 1], 1, ("f%d" % (i + 1)).encode(), b"b.c", 10 + i, 5, ids[i], 1]
    uus = [1, ids[depth_chain], 1, b"p", b"c.c", 20, 12, 20]
    return [kind, True, depth, mode, b"c.c"] + fcs + ncs + uus


# --------------------------------------------------------------------------- X2: projects for the real binary
WP_IDS = ("ctunullpointer", "ctunullpointerOutOfMemory", "ctunullpointerOutOfResources", "ctuuninitvar", "ctuArrayIndex",
          "ctuPointerArith", "ctuOneDefinitionRuleViolation", "unusedFunction", "staticFunction")
TEMPLATE = "--template={id}|{severity}|{file}:{line}:{column}|{message}|{callstack}"


def gen_project(rng):
    """returns (files: {name: text}, sources: [names], options: [..], shape: str)"""
    cpp = rng.random() < 0.5
    ext = ".cpp" if cpp else ".c"
    nfun = rng.randint(3, 7)
    nsrc = rng.randint(2, 4)
    srcs = ["s%d%s" % (i, ext) for i in range(nsrc)]
    roles = []
    for i in range(nfun):
        r = rng.random()
        if i > 0 and r < 0.45:
            tgt = rng.randrange(0, i) if rng.random() < 0.9 else rng.randrange(0, nfun)
            roles.append(("fwd", tgt))
        elif r < 0.65:
            roles.append(("deref", None))
        elif r < 0.8:
            roles.append(("index", rng.choice([1, 5, 9])))
        elif r < 0.92:
            roles.append(("arith", rng.choice([2, 7])))
        else:
            roles.append(("nop", None))
    hdr = ["int f%d(int *p);" % i for i in range(nfun)]
    ncall = rng.randint(2, 6)
    hdr += ["void c%d(void);" % j for j in range(ncall)]
    nunused = rng.randint(0, 2)
    hdr += ["void u%d(void);" % j for j in range(nunused)]
    body = {s: ['#include "h.h"'] for s in srcs}
    for i, (role, arg) in enumerate(roles):
        s = rng.choice(srcs)
        if role == "fwd":
            body[s].append("int f%d(int *p) { return f%d(p); }" % (i, arg))
        elif role == "deref":
            body[s].append("int f%d(int *p) { return *p; }" % i)
        elif role == "index":
            body[s].append("int f%d(int *p) { return p[%d]; }" % (i, arg))
        elif role == "arith":
            body[s].append("int f%d(int *p) { return *(p + %d); }" % (i, arg))
        else:
            body[s].append("int f%d(int *p) { (void)p; return 0; }" % i)
    multicfg = rng.random() < 0.5      # some sources are analysed under several preprocessor configurations (no -D is given)

    def call_stmt(t):
        k = rng.random()
        if k < 0.35:
            return "f%d(0);" % t
        if k < 0.6:
            return "int x; f%d(&x);" % t
        if k < 0.85:
            return "int a[%d]; a[0] = 0; f%d(a);" % (rng.choice([2, 4, 16]), t)
        return "int y = 1; f%d(&y);" % t

    ncfg = 0
    for j in range(ncall):
        s = rng.choice(srcs)
        t = rng.randrange(0, nfun)
        if multicfg and rng.random() < 0.6:
            # the call site differs per configuration; a helper may be called in one configuration only
            ncfg += 1
            macro = rng.choice(["ALT", "LEGACY_API", "CFG%d" % j])
            extra = ("u%d(); " % rng.randrange(0, nunused)) if nunused and rng.random() < 0.5 else ""
            a, b = "%s%s" % (extra, call_stmt(t)), call_stmt(rng.randrange(0, nfun))
            if rng.random() < 0.5:
                a, b = b, a
            if rng.random() < 0.3:
                body[s].append("void c%d(void) {\n#ifdef %s\n    %s\n#endif\n}" % (j, macro, a))
            else:
                body[s].append("void c%d(void) {\n#ifdef %s\n    %s\n#else\n    %s\n#endif\n}" % (j, macro, a, b))
        else:
            body[s].append("void c%d(void) { %s }" % (j, call_stmt(t)))
    for j in range(nunused):
        body[rng.choice(srcs)].append("void u%d(void) { }" % j)
    used = [j for j in range(ncall) if rng.random() < 0.8]
    body[srcs[0]].append("int main(void) { %s return 0; }" % " ".join("c%d();" % j for j in used))
    if cpp:
        defs = ["struct S { int a; };", "struct S { long a; long b; };", "struct S { int a; };", "struct T { char c; };", "struct T { char c; int d; };"]
        for s in srcs:
            if rng.random() < 0.6:
                body[s].insert(1, rng.choice(defs))
    files = {"h.h": "\n".join(hdr) + "\n"}
    for s in srcs:
        files[s] = "\n".join(body[s]) + "\n"
    opts = ["--enable=style,unusedFunction"]
    d = rng.choice([None, None, 1, 3, 6, 10])
    if d is not None:
        opts.append("--max-ctu-depth=%d" % d)
    nfwd = sum(1 for r, _ in roles if r == "fwd")
    shape = "%s,src%d,fwd%d,depth%s,cfgsplit%d" % ("cpp" if cpp else "c", nsrc, min(nfwd, 3), d if d is not None else "dflt", min(ncfg, 3))
    return files, srcs, opts, shape


WITNESS = ({"h.h": "void f(int *p);\nvoid g(int *q);\n",
            "a.c": '#include "h.h"\nvoid caller(void) {\n    f(0);\n}\n',
            "b.c": '#include "h.h"\nvoid f(int *p) {\n    g(p);\n}\n',
            "c.c": '#include "h.h"\nvoid g(int *q) {\n    *q = 1;\n}\n'}, ["a.c", "b.c", "c.c"], [], "witness")


# a header whose name contains a double quote: the function ids (file:line:col) carry it
WITNESS_QUOTE = ({'h"x.h': "void g(int *q);\n",
                  "a.c": '#include <h"x.h>\nvoid caller(void) {\n    g(0);\n}\n',
                  "c.c": '#include <h"x.h>\nvoid g(int *q) {\n    *q = 1;\n}\n'}, ["a.c", "c.c"], ["-I."], "witness-quote")


# a source file with a non-ASCII name: toxml turns every byte > 0x7f of a stored file name into 'x'
WITNESS_NONASCII = ({"h.h": "void g(int *q);\n",
                     "\u00e4.c": '#include "h.h"\nvoid caller(void) {\n    g(0);\n}\n',
                     "c.c": '#include "h.h"\nvoid g(int *q) {\n    *q = 1;\n}\n'}, ["\u00e4.c", "c.c"], [], "witness-nonascii")


# one source analysed under two configurations (no -D): the null call and the call of helper() exist only under LEGACY_API
WITNESS_MULTICFG = ({"api.h": "void use(int *p);\nvoid fill(int *p);\nvoid helper(void);\n",
                     "caller.c": '#include "api.h"\nstatic void always(void)\n{\n    int buf[2] = {0, 0};\n    fill(buf);\n}\nstatic void caller(void)\n{\n'
                                 '#ifdef LEGACY_API\n    use(0);\n    helper();\n#else\n    int v = 0;\n    use(&v);\n#endif\n}\n'
                                 'int main(void)\n{\n    always();\n    caller();\n    return 0;\n}\n',
                     "callee.c": '#include "api.h"\nvoid use(int *p)\n{\n    *p = 1;\n}\nvoid fill(int *p)\n{\n    p[0] = 1;\n    p[1] = 2;\n}\nvoid helper(void)\n{\n}\n'},
                    ["caller.c", "callee.c"], ["--enable=style,unusedFunction"], "witness-multicfg")


def xed(line):
    return "".join("x" if ord(ch) > 0x7f else ch for ch in line)


def explained_by_lossy_toxml(project, res):
    """every difference is a finding whose text is the in-memory one with the bytes > 0x7f replaced by 'x'"""
    a = res["A"]
    if not any(ord(ch) > 0x7f for x in a for ch in x):
        return False
    ax = {xed(x) for x in a}
    for m in ("B1", "B2", "C"):
        for line in res[m] - a:
            if line not in ax:
                return False
        for line in a - res[m]:
            if xed(line) not in res[m]:
                return False
    return differs(res)


def explained_by_unescaped_id(project, res):
    """the project has a '"' in a header name, mode A has findings, and the build-dir modes fail to load the analyzer info"""
    if not any('"' in n for n in project[0]):
        return False
    for m in ("B2", "C"):
        if not any(x.startswith("internalError|") and "failed to load" in x for x in res[m]):
            return False
    return True


def wp_lines(out):
    res = set()
    for line in out.splitlines():
        i = line.split("|", 1)[0]
        if i in WP_IDS or i == "internalError" or i.startswith("cppcheck"):
            res.add(line)
    return res


def run_modes(cppcheck, project, keep=False):
    """A: -j1, summaries in memory.  B1/B2: -j1 with a fresh build dir, first run and cached second run.
    C: -j2 with a fresh build dir.  Returns ({mode: set(lines)}, dir or None)."""
    files, srcs, opts, _ = project
    d = tempfile.mkdtemp(prefix="c22_", dir="/tmp")
    try:
        for n, t in files.items():
            with open(os.path.join(d, n).encode("utf-8"), "w") as f:
                f.write(t)
        res = {}

        def go(extra):
            p = subprocess.run([cppcheck, "-q", TEMPLATE] + opts + extra + [x.encode("utf-8") for x in srcs], cwd=d, stdout=subprocess.PIPE, stderr=subprocess.STDOUT, timeout=300)
            return wp_lines(p.stdout.decode("latin-1"))   # one character per byte
        res["A"] = go(["-j1"])
        os.mkdir(os.path.join(d, "bd1"))
        res["B1"] = go(["-j1", "--cppcheck-build-dir=bd1"])
        res["B2"] = go(["-j1", "--cppcheck-build-dir=bd1"])
        os.mkdir(os.path.join(d, "bd2"))
        res["C"] = go(["-j2", "--cppcheck-build-dir=bd2"])
        return res, (d if keep else None)
    finally:
        if not keep:
            shutil.rmtree(d, ignore_errors=True)


def stack_len(line):
    return line.rsplit("|", 1)[-1].count("[")


def split_static(res):
    """staticFunction lines apart from the rest"""
    st = {m: {x for x in v if x.startswith("staticFunction|")} for m, v in res.items()}
    rest = {m: {x for x in v if not x.startswith("staticFunction|")} for m, v in res.items()}
    return st, rest


def differs(res):
    return any(res[m] != res["A"] for m in ("B1", "B2", "C"))


def explained_by_nested_drop(res):
    """True when every difference is a CTU finding with a forwarding function on its path that is
    reported from in-memory summaries and lost from stored ones, or its replacement: a shorter path
    to the same place that the stored summaries still contain."""
    a = res["A"]
    nested_keys = {tuple(x.split("|")[:3]) for x in a
                   if x.startswith("ctu") and not x.startswith("ctuOneDefinitionRuleViolation") and stack_len(x) >= 3}
    for m in ("B1", "B2", "C"):
        for line in a - res[m]:
            if tuple(line.split("|")[:3]) not in nested_keys or stack_len(line) < 3:
                return False
        for line in res[m] - a:
            if tuple(line.split("|")[:3]) not in nested_keys:
                return False
    return differs(res)
