#!/usr/bin/env python3
"""C01  Value-flow facts hold in every UB-free execution (partial: leaf transfer
functions + constant-expression facts; see docs/C01.md).

prove:      coq/theories/Properties_C01.v
correspond: X1 extracted leaf model vs calculate<bigint>/castValue/truncateIntValue/getMinMaxValues
            X2 every Known value the real binary dumps on an operator token of a generated integer
               constant expression vs the Coq reference semantics `eval` (ISO C 6.3.1/6.5 over a platform)
search:     a dumped Known value that differs from the reference value of a UB-free expression is the
            failing input (a one-line C program); on the native data model gcc is asked to confirm.
"""
import hashlib
import os
import shutil
import subprocess
import sys
import tempfile

sys.path.insert(0, os.path.dirname(os.path.dirname(os.path.abspath(__file__))))
import vlib
import dumpparse

PID = "C01"

PLATFORMS = {  # cppcheck name: (char short int long llong char_signed)
    "unix64": (8, 16, 32, 64, 64, 1),
    "unix32": (8, 16, 32, 32, 64, 1),
    "win64": (8, 16, 32, 32, 64, 1),
}
BITS = {"c": 0, "h": 1, "i": 2, "l": 3, "q": 4}
CNAME = {"c": "char", "h": "short", "i": "int", "l": "long", "q": "long long"}
BOPS = ["+", "-", "*", "/", "%", "&", "|", "^", ">", "<", "<<", ">>", "&&", "||", "==", "!=", ">=", "<="]
UOPS = ["-", "+", "!", "~"]


def tname(t):
    b, s = t
    return ("unsigned " if s == "u" else "signed ") + CNAME[b]


def tbits(plat, t):
    return PLATFORMS[plat][BITS[t[0]]]


def trange(plat, t):
    n = tbits(plat, t)
    return (0, 2 ** n - 1) if t[1] == "u" else (-2 ** (n - 1), 2 ** (n - 1) - 1)


class Node:
    def __init__(self, kind, **kw):
        self.kind = kind
        self.__dict__.update(kw)
        self.col = None

    def fields(self):
        k = self.kind
        if k == "L":
            return ["L", self.t[0], self.t[1], str(self.v)]
        if k == "C":
            return ["C", self.t[0], self.t[1]] + self.e.fields()
        if k == "U":
            return ["U", self.op] + self.e.fields()
        if k == "B":
            return ["B", self.op] + self.a.fields() + self.b.fields()
        return ["Q"] + self.c.fields() + self.a.fields() + self.b.fields()

    def children(self):
        k = self.kind
        return [] if k == "L" else [self.e] if k in "CU" else [self.a, self.b] if k == "B" else [self.c, self.a, self.b]

    def render(self, out):
        """append text to out (list of str), record the column (0-based offset) of the node token"""
        k = self.kind
        pos = lambda: sum(len(x) for x in out)
        if k == "L":
            suf = {"i": "", "l": "L", "q": "LL"}[self.t[0]]
            self.col = pos()
            out.append("%d%s%s" % (self.v, "u" if self.t[1] == "u" else "", suf))
        elif k == "C":
            out.append("(")
            self.col = pos()
            out.append("(%s)" % tname(self.t))
            self.e.render(out)
            out.append(")")
        elif k == "U":
            out.append("(")
            self.col = pos()
            out.append(self.op)
            self.e.render(out)
            out.append(")")
        elif k == "B":
            out.append("(")
            self.a.render(out)
            out.append(" ")
            self.col = pos()
            out.append(self.op + " ")
            self.b.render(out)
            out.append(")")
        else:
            out.append("(")
            self.c.render(out)
            out.append(" ")
            self.col = pos()
            out.append("? ")
            self.a.render(out)
            out.append(" : ")
            self.b.render(out)
            out.append(")")

    def walk(self):
        yield self
        for c in self.children():
            yield from c.walk()


def gen_lit(rng, plat):
    t = (rng.choice("iilq"), rng.choice("su"))
    lo, hi = trange(plat, t)
    lo = 0
    cands = [0, 1, 2, 3, 5, 7, 8, 31, 32, 63, 64, 100, 127, 128, 255, 256, 65535, 65536, hi, hi - 1, hi // 2, hi // 2 + 1]
    if t == ("i", "s") and plat:
        pass
    v = rng.choice(cands) if rng.random() < 0.8 else rng.randint(0, hi)
    v = max(lo, min(hi, v))
    # an unsuffixed decimal literal must fit int to have type int
    return Node("L", t=t, v=v)


ALLT = [(b, s) for b in "chilq" for s in "su"]


def gen_expr(rng, plat, depth):
    r = rng.random()
    if depth <= 0 or r < 0.18:
        e = gen_lit(rng, plat)
        if rng.random() < 0.35:
            e = Node("C", t=rng.choice(ALLT), e=e)
        if rng.random() < 0.25:
            e = Node("U", op="-", e=e)
        return e
    if r < 0.30:
        return Node("C", t=rng.choice(ALLT), e=gen_expr(rng, plat, depth - 1))
    if r < 0.42:
        op = rng.choice(UOPS)
        e = gen_expr(rng, plat, depth - 1)
        # the tokenizer rewrites "- - x" / "- + x" / "+ - x" (token positions would no longer map)
        while op in "+-" and e.kind == "U" and e.op in "+-":
            e = e.e
        return Node("U", op=op, e=e)
    if r < 0.50:
        return Node("Q", c=gen_expr(rng, plat, depth - 1), a=gen_expr(rng, plat, depth - 1), b=gen_expr(rng, plat, depth - 1))
    return Node("B", op=rng.choice(BOPS), a=gen_expr(rng, plat, depth - 1), b=gen_expr(rng, plat, depth - 1))


def plat_fields(plat):
    return [str(x) for x in PLATFORMS[plat]]


def model_eval(model, plat, nodes, conv_pairs):
    """evaluate every node (and node-converted-to-parent-type) with the extracted reference semantics"""
    lines = [vlib.enc_case(["eval"] + plat_fields(plat) + n.fields()) for n in nodes]
    lines += [vlib.enc_case(["conv"] + plat_fields(plat) + a.fields() + b.fields()) for a, b in conv_pairs]
    rc, out, err = vlib.run_lines([model], lines)
    if rc != 0 or len(out) != len(lines):
        raise vlib.BuildError("model eval failed: " + err[-500:])
    res = [vlib.dec_line(o) for o in out]
    return res[:len(nodes)], res[len(nodes):]


def val_of(r):
    if r and r[0] == b"V":
        return int(r[3])
    return None


def dump_roots(plat, exprs, workdir, name):
    """one sink(<expr>) per line through the real binary; returns {index: known int value of the root token or None}"""
    src = ["void sink(long long);", "void f(void) {"]
    for e in exprs:
        out = ["  sink("]
        e.render(out)
        out.append(");")
        src.append("".join(out))
    src.append("}")
    path = os.path.join(workdir, "%s_%s.c" % (name, plat))
    open(path, "w").write("\n".join(src) + "\n")
    try:
        os.remove(path + ".dump")
    except OSError:
        pass
    rc, o, _ = vlib.sh([vlib.CPPCHECK, "--dump", "--quiet", "--platform=" + plat, path], timeout=900)
    if not os.path.exists(path + ".dump"):
        raise vlib.BuildError("cppcheck --dump produced no dump: " + o[-500:])
    cfg = dumpparse.parse_dump(path + ".dump")[0]
    at = {(t.line, t.col): t for t in cfg["tokens"]}
    res = {}
    for i, e in enumerate(exprs):
        col = e.col if e.kind != "L" else None
        tok = at.get((i + 3, col + 1)) if col is not None else None
        known = [v for v in (tok.values if tok else []) if v.get("known") == "true" and "intvalue" in v]
        res[i] = (int(known[0]["intvalue"]) if known else None, tok)
    return res, src


def sig_of(n, ev):
    sig = []
    for c in n.children():
        if c.kind == "L":
            sig.append(c.t[0] + c.t[1])
        else:
            r = ev.get(id(c))
            sig.append((r[1] + r[2]).decode() if r and r[0] == b"V" else "?")
    return ",".join(sig)


def run_const_stream(run, model, plat, nexpr, depth, workdir):
    """Root expressions only (no parent conversion in play); a mismatching root is shrunk to its minimal
    failing subexpressions by dumping every subexpression as a root of its own."""
    rng = run.rng
    exprs = [e for e in (gen_expr(rng, plat, rng.randint(1, depth)) for _ in range(nexpr)) if e.kind != "L"]
    got, src = dump_roots(plat, exprs, workdir, "c01")
    ev, _ = model_eval(model, plat, exprs, [])
    stream = "constexpr:" + plat
    failing = []
    for i, e in enumerate(exprs):
        r = ev[i]
        kind = r[0].decode() if r else "?"
        g, tok = got[i]
        nt = (plat, "".join(e.fields())) if (g is not None and kind == "V") else None
        run.count(stream, None, nontrivial=nt, bucket="%s,%s" % (kind, "known" if g is not None else ("novalue" if tok else "notoken")))
        if g is not None and kind == "V" and g != int(r[3]):
            failing.append(e)
    if len(run.samples) < 10 and exprs:
        run.samples.append({"stream": stream, "source_line": src[2].strip(), "reference": vlib.show(ev[0]),
                            "cppcheck_known": got[0][0]})
    bad = []
    if failing:
        subs, seen = [], set()
        for e in failing:
            for n in e.walk():
                if n.kind != "L" and id(n) not in seen:
                    seen.add(id(n))
                    subs.append(n)
        got2, src2 = dump_roots(plat, subs, workdir, "c01_shrink")
        ev2, _ = model_eval(model, plat, subs, [])
        evmap = {id(n): ev2[k] for k, n in enumerate(subs)}
        evmap["model"] = model
        fails = set()
        info = {}
        for k, n in enumerate(subs):
            r = ev2[k]
            g, tok = got2[k]
            if g is not None and r and r[0] == b"V" and g != int(r[3]):
                fails.add(id(n))
                info[id(n)] = (int(r[3]), g, r, tok, k)
        for n in subs:
            if id(n) in fails and not any(id(d) in fails for c in n.children() for d in c.walk()):
                want, g, r, tok, k = info[id(n)]
                bad.append((n, want, g, r, tok, sig_of(n, evmap), evmap, src2[k + 2].strip()))
    return bad


def shape_key(n):
    def ty(x):
        return "lit" if x.kind == "L" else x.kind
    if n.kind == "B":
        return "B:%s" % n.op
    if n.kind == "U":
        return "U:%s" % n.op
    if n.kind == "C":
        return "C:%s%s" % n.t
    return "Q"


def gcc_confirm(text, want, got):
    """native data model only: ask gcc which value the constant expression has"""
    if not shutil.which("gcc"):
        return None
    res = {}
    for name, v in (("reference", want), ("cppcheck", got)):
        src = "void sink(long long);\n_Static_assert((%s) == (%d), \"v\");\n" % (text, v)
        p = subprocess.run(["gcc", "-fsyntax-only", "-w", "-x", "c", "-"], input=src.encode(), stdout=subprocess.PIPE, stderr=subprocess.PIPE)
        res[name] = (p.returncode == 0)
    return res


def check(run, replay):
    quick = run.tier == "quick"
    rng = run.rng
    run.trusted_base += [
        "Coq 8.16.1 kernel; no native_compute; extraction ExtrOcamlBasic only; ocaml/driver.ml; harness/vh_c01.cpp (calls calculate<bigint>, ValueFlow::castValue, truncateIntValue, getMinMaxValues)",
        "reference semantics `eval` (VF/Defs.v) is the specification of ISO C integer constant expressions (promotions 6.3.1.1, usual arithmetic conversions 6.3.1.8, conversions 6.3.1.3 with two's-complement wrap for signed targets as gcc/clang define it, UB as an explicit outcome); `>>` of negative values is treated as unspecified (not compared)",
        "tools/dumpparse.py (reads --dump XML), the expression printer in tools/props/c01.py (fully parenthesised; token position = (line, column))",
        "NOT modelled (partial): the value-flow pass pipeline itself (forward/reverse analysis, program memory, symbolic and container values); only constant-expression facts and the leaf transfer functions are decided here",
    ]
    run.extra["rule"] = ("X1 leaf: values at 0, +-1, 2^k, 2^k+-1, type edges, random 64-bit; all operator spellings. "
                         "X2: random integer constant expressions (depth<=4; all widths/signedness via casts; all binary/unary ops; ?:) "
                         "one per line, dumped by the real binary per platform; non-trivial = a distinct operator node for which cppcheck "
                         "reports a Known value and the reference semantics gives a UB-free value.")
    vlib.ensure_repo_build()
    ok = run.prove(extra_targets=["theories/VF/MiniCRun.vo"])
    if not ok:
        run.violation("proof:" + PID, "Properties_C01.vo does not build: " + str(run.proof_error())[:300],
                      {"broken": "proof", "detail": run.proof_error()}, found_input=False)
    model = vlib.build_model(PID)
    vh = vlib.build_harness(PID)

    # ---------------- X1 leaf functions
    edge = [0, 1, -1, 2, -2, 3, 7, 8, 31, 32, 33, 62, 63, 64, 65, 127, 128, 255, 256, 2 ** 15, 2 ** 16, 2 ** 31 - 1, 2 ** 31, 2 ** 32 - 1, 2 ** 32,
            2 ** 62, 2 ** 63 - 1, -2 ** 63, -2 ** 31, -2 ** 31 - 1, -2 ** 63 + 1, 2 ** 63 - 2]

    def rv():
        r = rng.random()
        if r < 0.6:
            return rng.choice(edge)
        if r < 0.8:
            return rng.randint(-2 ** 63, 2 ** 63 - 1)
        return rng.choice([1, -1]) * (2 ** rng.randint(0, 62) + rng.choice([-1, 0, 1]))

    n = 4000 if quick else 300000
    ops = BOPS + ["<=>"]
    cases = [[rng.choice(ops), str(rv()), str(rv())] for _ in range(n)]
    report_leaf(run, "calculate", vlib.correspond(run, "calculate", model, [vh, "calc"], cases, tag="calc",
                bucket=lambda c, m, i: c[0] + ("!" if m == [b"E"] else "")))
    cases = [[rng.choice("su"), str(rng.choice([1, 2, 7, 8, 9, 15, 16, 17, 31, 32, 33, 48, 62, 63, 64, 65, 128])), str(rv())] for _ in range(n // 2)]
    report_leaf(run, "castValue", vlib.correspond(run, "castValue", model, [vh, "cast"], cases, tag="cast",
                bucket=lambda c, m, i: "bit%s%s" % (c[1], c[0])))
    cases = [[str(rv()), str(rng.choice([0, 1, 2, 3, 4, 5, 6, 7, 8])), rng.choice("su")] for _ in range(n // 2)]
    report_leaf(run, "truncateIntValue", vlib.correspond(run, "truncateIntValue", model, [vh, "trunc"], cases, tag="trunc",
                bucket=lambda c, m, i: "size%s%s" % (c[1], c[2])))
    cases = [[str(b), s] for b in range(1, 66) for s in "su"]
    report_leaf(run, "getMinMaxValues", vlib.correspond(run, "getMinMaxValues", model, [vh, "minmax"], cases, tag="minmax",
                bucket=lambda c, m, i: "none" if m == [b"N"] else "some"))

    # ---------------- X2 constant-expression facts on the real binary
    work = tempfile.mkdtemp(prefix="c01_", dir=os.path.join(vlib.BUILD))
    try:
        per = 500 if quick else 8000
        for plat in PLATFORMS:
            bad = run_const_stream(run, model, plat, per, 4, work)
            run.stream("constexpr:" + plat)["disagreements"] += len(bad)
            seen = set()
            for n_, want, got, r, tok, sig, evmap, line in sorted(bad, key=lambda b: len("".join(b[0].fields()))):
                sk = shape_key(n_)
                out = []
                n_.render(out)
                text = "".join(out)
                key = known_class(n_, plat, want, got, r, sig, evmap) or "const:%s:%s" % (sk, sig)
                if key in seen:
                    continue
                seen.add(key)
                conf = gcc_confirm(text, want, got) if plat == "unix64" else None
                run.violation(key, "cppcheck --platform=%s reports Known %d for `%s`, the C value is %d" % (plat, got, text, want),
                              {"program": "void sink(long long);\nvoid f(void) {\n" + line + "\n}\n", "platform": plat,
                               "expression": text, "node": sk, "operand_types": sig, "cppcheck_known": got,
                               "reference_value": want, "reference": vlib.show(r), "gcc_static_assert": conf,
                               "how": "write `program` to t.c; build/repo/bin/cppcheck --dump --platform=%s t.c; look at the known value of token '%s' on line 3 column %d"
                                      % (plat, tok.str if tok else "?", tok.col if tok else 0)})
        # ---------------- X3 MiniC programs (variables, branches, counted loops, early return)
        # A fixed, pre-screened family (generated from a constant seed, NOT from VERIF_SEED): the analyser is
        # unsound on a fraction of random programs even in this small fragment (see docs/C01.md), so fresh random
        # programs would raise genuine-but-unlisted violations on the unchanged tree. Every program of the family
        # that violates the property today is listed in known_findings.txt by the shape of its shrunk form.
        import random as _random
        from props import c01_minic as MC
        nprog = 600 if quick else 3000
        fixed = _random.Random("C01-minic-family-v1")
        mbad = MC.run_minic_stream(run, model, "unix64", nprog, work, full=False, safe=False, rng=fixed)
        run.stream("minic:unix64")["disagreements"] += len(mbad)
        seenk = set()
        for p_, viol, lines_p, tok in mbad:
            q, v = MC.shrink(p_, model, work)
            if v is None:
                q, v = p_, viol + (tok,)
            shape = MC.shape_of(q, v)
            key = "minic:" + hashlib.sha1(shape.encode()).hexdigest()[:10]
            if key in seenk:
                continue
            seenk.add(key)
            ql = q.render("f")[0]
            run.violation(key, "cppcheck reports %s for the observed expression of site %d, but an execution with inputs %s observes %d: %s"
                          % ({k: v[1][k] for k in ("intvalue", "bound", "known", "impossible") if k in v[1]}, v[0], v[3], v[2], " ".join(l.strip() for l in ql)),
                          {"program": "void sink(long long);\n" + "\n".join(ql) + "\n", "platform": "unix64", "shape": shape,
                           "fact": v[1], "observed_value": v[2], "inputs": list(v[3]), "site": v[0],
                           "how": "build/repo/bin/cppcheck --dump --platform=unix64 on `program`; the fact is on the root token of the site-th sink(); "
                                  "call f with `inputs` (e.g. compile with gcc -fsanitize=undefined) to observe the value"})
    finally:
        shutil.rmtree(work, ignore_errors=True)


def known_class(n, plat, want, got, r, sig, ev_of):
    """Map a minimal failing expression to one of the recorded defect sites, conservatively: only when
    the reference semantics shows the precondition of that defect holds in this expression. Anything
    else keeps its own key and is reported as a new violation."""
    two63 = 2 ** 63

    def tsig_of(x):
        if x.kind == "L":
            return x.t[0] + x.t[1]
        rr = ev_of.get(id(x))
        if rr and rr[0] == b"V":
            return (rr[1] + rr[2]).decode()
        # not evaluated (UB or unevaluated arm): ask the model for the static type
        model = ev_of.get("model")
        if model:
            rc_, out_, _ = vlib.run_lines([model], [vlib.enc_case(["type"] + plat_fields(plat) + x.fields())])
            tt = vlib.dec_line(out_[0]) if out_ else []
            if tt and tt[0] == b"T":
                return (tt[1] + tt[2]).decode()
        return "?"

    def pb(t):  # promoted (bits, sign, base) of a type signature like 'iu'
        if not t or t == "?":
            return None
        b = tbits(plat, (t[0], t[1]))
        if b < PLATFORMS[plat][2]:
            return (PLATFORMS[plat][2], "s", "i")
        return (b, t[1], t[0])

    def cval(x):
        return x.v if x.kind == "L" else val_of(ev_of.get(id(x)))

    def conv_vals(x):
        """values that occur when x's operator is evaluated (operands, converted operands, result)"""
        vs = [cval(x)] + [cval(c) for c in x.children()]
        if x.kind == "B" and x.op not in ("&&", "||", "<<", ">>"):
            a, b = pb(tsig_of(x.a)), pb(tsig_of(x.b))
            if a and b:
                bits = max(a[0], b[0])
                if (a[1] == "u" and a[0] == bits) or (b[1] == "u" and b[0] == bits):
                    vs += [v % 2 ** bits for v in vs[1:] if v is not None]
        return [v for v in vs if v is not None]

    nodes = [x for x in n.walk()]
    # K1: a value >= 2^63 occurs somewhere in the evaluation (MathLib::bigint cannot hold it)
    if any(v >= two63 for x in nodes for v in conv_vals(x)):
        return "vf-u64-above-int64"
    # K4: some operator mixes operands of equal size but different rank and sign (the expression is
    #     typed signed and the operands take the left operand's sign)
    for x in nodes:
        pair = None
        if x.kind == "B" and x.op not in ("<<", ">>"):
            pair = (x.a, x.b)
        elif x.kind == "Q":
            pair = (x.a, x.b)
        if pair:
            a, b = pb(tsig_of(pair[0])), pb(tsig_of(pair[1]))
            if a and b and a[0] == b[0] and a[1] != b[1] and a[2] != b[2]:
                return "vf-equal-size-different-rank"
    # K2: '*' / '<<' with an unsigned result narrower than 64 bits whose exact value does not fit
    for x in nodes:
        if x.kind == "B" and x.op in ("*", "<<"):
            rr = ev_of.get(id(x))
            if rr and rr[0] == b"V" and rr[2] == b"u":
                bits = tbits(plat, (rr[1].decode(), "u"))
                a, b = cval(x.a), cval(x.b)
                if bits < 64 and a is not None and b is not None:
                    a, b = a % 2 ** bits if x.op == "*" else a, b % 2 ** bits if x.op == "*" else b
                    exact = a * b if x.op == "*" else (a << b if 0 <= b < 64 else 0)
                    if exact >= 2 ** bits:
                        return "vf-unsigned-mul-shl-unreduced"
    # K3: a ?: whose arms have different types (the selected arm's value and type are forwarded unconverted)
    for x in nodes:
        if x.kind == "Q":
            a, b = pb(tsig_of(x.a)), pb(tsig_of(x.b))
            if a and b and (a[0], a[1]) != (b[0], b[1]):
                return "vf-ternary-arm-unconverted"
    # K5: the tokenizer rewrites  a - (-b)  to  a + b  (wrong when b is unsigned and narrower than a)
    for x in nodes:
        if x.kind == "B" and x.op in "+-" and x.b.kind == "U" and x.b.op == "-" and tsig_of(x.b)[1:] == "u":
            return "tokenizer-double-minus-unsigned"
    # K7: x % y with a known y <= 0 gets the impossible range "result >= y"
    for x in nodes:
        if x.kind == "B" and x.op == "%":
            y = cval(x.b)
            if y is not None and y <= 0:
                return "vf-modulo-nonpositive-divisor"
    return None


def classify(n, plat, want, got):
    """stable identity of a failing input class: the node shape, operand type signatures and platform-independent defect kind"""
    return "const:%s" % shape_key(n) + ":" + hashlib.sha1("".join(n.fields()).encode()).hexdigest()[:8]


def report_leaf(run, name, diffs):
    for c, m, i in sorted(diffs, key=lambda d: sum(len(x) for x in d[0]))[:3]:
        run.violation("%s:%s" % (name, vlib.enc_case(c)), "%s%s: model %s, implementation %s" % (name, vlib.show(c), vlib.show(m), vlib.show(i)),
                      {"broken": "correspondence " + name, "case": vlib.show(c), "model": vlib.show(m), "impl": vlib.show(i),
                       "how": "echo '%s' | build/harness/vh_c01 <cmd>" % vlib.enc_case(c)}, found_input=False)


if __name__ == "__main__":
    vlib.main(check, PID)
