"""Generators and encoders for C34 (addon result relaying).

A JSON value is a python tuple tree:  ("n",) ("t",) ("f",) ("i", int) ("d", literal_text) ("s", str)
("a", [values]) ("o", [(key, value), ...])   -- objects keep member order and may repeat keys.
`text(v)` is the line the scripted addon prints, `fields(v)` the encoding sent to the model.
"""
import json

SEVS = ["none", "error", "warning", "style", "performance", "portability", "information", "debug", "internal"]
HOSTILE = ['"', "\\", "/", "<", ">", "&", "'", "\t", "\x01", "\x7f", "é", "中", "\U0001f4a9", "$symbol", "$symbol:", " ", "%", "{", "}", "[", "]", ",", ":", "_", "\n"]
INT64_MAX = 2 ** 63 - 1


def rstr(rng, kind="plain"):
    if kind == "plain":
        return "".join(rng.choice("abcdefXYZ019_-. ") for _ in range(rng.randint(0, 8)))
    n = rng.randint(0, 10)
    return "".join(rng.choice(HOSTILE) if rng.random() < 0.5 else rng.choice("abz09_ ") for _ in range(n))


def rint(rng):
    r = rng.random()
    if r < 0.5:
        return rng.randint(0, 200)
    if r < 0.65:
        return -rng.randint(0, 5)
    if r < 0.8:
        return rng.choice([2 ** 31 - 1, 2 ** 31, 2 ** 32 - 1, 2 ** 32 + 3, 65535, 65536, 65537 + 398, -2 ** 31, -2 ** 31 - 1, 2 ** 63 - 1, -2 ** 63])
    return rng.randint(-2 ** 40, 2 ** 40)


def rnum(rng):
    """an int64 literal, or a number picojson keeps as double"""
    if rng.random() < 0.8:
        return ("i", rint(rng))
    return ("d", rng.choice(["1.5", "3e2", "1E1", "9223372036854775808", "-9223372036854775809", "0.0", "12345678901234567890123"]))


def rany(rng, depth=0):
    r = rng.random()
    if r < 0.15:
        return ("n",)
    if r < 0.25:
        return (rng.choice("tf"),)
    if r < 0.45:
        return rnum(rng)
    if r < 0.7 or depth >= 2:
        return ("s", rstr(rng, rng.choice(["plain", "hostile"])))
    if r < 0.85:
        return ("a", [rany(rng, depth + 1) for _ in range(rng.randint(0, 3))])
    return ("o", [(rstr(rng), rany(rng, depth + 1)) for _ in range(rng.randint(0, 3))])


def text(v, ascii_only=True):
    t = v[0]
    if t == "n":
        return "null"
    if t == "t":
        return "true"
    if t == "f":
        return "false"
    if t == "i":
        return str(v[1])
    if t == "d":
        return v[1]
    if t == "s":
        return json.dumps(v[1], ensure_ascii=ascii_only)
    if t == "a":
        return "[" + ",".join(text(x, ascii_only) for x in v[1]) + "]"
    return "{" + ",".join(json.dumps(k, ensure_ascii=ascii_only) + ":" + text(x, ascii_only) for k, x in v[1]) + "}"


def u8(s):
    return s.encode("utf-8")


def fields(v):
    t = v[0]
    if t in "ntf":
        return [t.encode()]
    if t == "i":
        return [b"i", str(v[1]).encode()]
    if t == "d":
        return [b"d"]
    if t == "s":
        return [b"s", u8(v[1])]
    if t == "a":
        out = [b"a", str(len(v[1])).encode()]
        for x in v[1]:
            out += fields(x)
        return out
    out = [b"o", str(len(v[1])).encode()]
    for k, x in v[1]:
        out += [u8(k)] + fields(x)
    return out


def gen_loc_members(rng, fname):
    return [("file", ("s", rng.choice([fname, fname, "inc.h", "./" + fname, "dir/../" + fname, rstr(rng, "hostile")]))),
            ("linenr", ("i", rint(rng))), ("column", ("i", rint(rng)))]


def gen_result(rng, fname, uniq):
    """one addon result object (mostly well formed, then mutated) -> value"""
    m = []
    r = rng.random()
    if r < 0.6:
        m += gen_loc_members(rng, fname)
    elif r < 0.85:
        items = []
        for _ in range(rng.randint(0, 3)):
            it = gen_loc_members(rng, fname) + [("info", ("s", rstr(rng, rng.choice(["plain", "hostile"]))))]
            if rng.random() < 0.05:
                it.pop(rng.randrange(len(it)))
            items.append(("o", it) if rng.random() < 0.97 else rany(rng))
        m.append(("loc", ("a", items)))
    addon = rng.choice(["ad", "ad", "misra", "premium", "x-y", "", rstr(rng, "hostile")])
    eid = rng.choice(["e%d" % rng.randint(0, 5), "logChecker", "misra-c2012-1.%d" % rng.randint(1, 4), "cert-c-INT31", "autosar-a1", "", rstr(rng, "hostile")])
    msg = "#%s " % uniq + rng.choice(["plain message", rstr(rng, "hostile"), "first\nsecond", "$symbol:sym\nuses $symbol here", "a $symbol_x $symbol", "$symbol"])
    sev = rng.choice(SEVS[1:7] * 3 + ["none", "internal", "debug", "", "ERROR", "Style", "warn", rstr(rng)])
    m += [("addon", ("s", addon)), ("errorId", ("s", eid)), ("message", ("s", msg)), ("severity", ("s", sev))]
    if rng.random() < 0.4:
        m.append(("cwe", ("i", rng.choice([398, 0, 65535, 65536, 70000, -1, 476]))))
    if rng.random() < 0.3:
        m.append(("hash", ("i", rng.choice([0, 1, 12345, 2 ** 63 - 1, -1, -2 ** 63]))))
    if rng.random() < 0.2:
        m.append((rstr(rng) or "extra", rany(rng)))
    # mutations
    r = rng.random()
    if r < 0.04 and m:
        m.pop(rng.randrange(len(m)))                                   # missing field
    elif r < 0.10 and m:
        k = rng.randrange(len(m))
        m[k] = (m[k][0], rany(rng))                                    # wrong type
    elif r < 0.27:
        m.append(("summary", rany(rng)))
    elif r < 0.32:
        m.append(("metric", ("o", [("fileName", ("s", fname)), ("value", ("i", rng.randint(0, 9)))]) if rng.random() < 0.7 else rany(rng)))
    elif r < 0.37 and m:
        k = rng.randrange(len(m))
        m.append((m[k][0], rany(rng) if rng.random() < 0.5 else m[k][1]))   # duplicate key: the last one wins
    elif r < 0.40:
        rng.shuffle(m)
    return ("o", m)


def gen_lines(rng, fname, uniq_prefix):
    """-> list of (line bytes, parse) ; parse = None (not a brace line) | ("ok", value) | ("bad",)"""
    out = []
    n = rng.choice([0, 1, 2, 3, 4, 6, 9])
    prev = None
    for k in range(n):
        r = rng.random()
        if r < 0.70:
            if prev is not None and rng.random() < 0.08:
                v = prev                                                # an exact duplicate
            else:
                v = gen_result(rng, fname, "%s.%d" % (uniq_prefix, k))
            prev = v
            line = text(v, ascii_only=rng.random() < 0.5).encode("utf-8")
            r2 = rng.random()
            if r2 < 0.08:
                cut = rng.randrange(1, len(line) - 1)
                out.append((line[:cut], ("bad",)))                      # truncated: never a complete object
            elif r2 < 0.14:
                out.append((line + rng.choice([b" ", b"\r", b"  \t"]), ("ok", v)))   # trailing blanks are ignored by the parser
            else:
                out.append((line, ("ok", v)))
        elif r < 0.78:
            out.append((b"", None))
        elif r < 0.86:
            out.append((b"Checking " + u8(rstr(rng)) + b"...", None))
        elif r < 0.90:
            out.append((rng.choice([b"{not json", b"{", b"{\"a\":}", b"{\"file\" \"x\"}", b"{]"]), ("bad",)))
        elif r < 0.92:
            out.append((rng.choice([b"Traceback (most recent call last):", b"[1,2]", b" {\"a\":1}", b"null", b"\"str\"", b"checking x", b"}{"]), None))
        else:
            out.append((b"{\"a\":1}" if rng.random() < 0.5 else b"{}", ("ok", ("o", [("a", ("i", 1))]) if False else None)))
            out[-1] = (out[-1][0], ("ok", ("o", [("a", ("i", 1))]) if out[-1][0] != b"{}" else ("o", [])))
    return out


def gen_settings(rng):
    mask = ["0"] * 9
    mask[1] = "1"
    r = rng.random()
    if r < 0.3:
        for i in range(2, 7):
            mask[i] = "1"
    elif r < 0.4:
        mask = ["1"] * 9          # --enable=all fills every severity
    else:
        for i in range(2, 7):
            if rng.random() < 0.5:
                mask[i] = "1"
    prem = [rng.random() < 0.15 for _ in range(3)]
    return "".join(mask), prem


def table_fields(lines):
    """parse table for the model: distinct brace lines with the expected picojson result"""
    seen, out, n = set(), [], 0
    for line, p in lines:
        if p is None or line in seen:
            continue
        seen.add(line)
        n += 1
        if p[0] == "ok":
            out += [line, b"1"] + fields(p[1])
        else:
            out += [line, b"0"]
    return [str(n).encode()] + out
