#!/usr/bin/env python3
"""C27  Severity and certainty options gate findings monotonically   (level: partial).

translate:  tools/translate/severities.py  `cppcheck --errorlist` -> coq/theories/Gate/Gen_Severities.v
prove:      coq/theories/Properties_C27.v  (gate sound, gate monotone, report S sublist / sub-multiset of report S',
            report S = filter (gate S) (report All)) -- thin theorems about the gate
correspond: extracted is_enabled_value vs the real Settings::isEnabled(const ValueFlow::Value*, bool) (harness/vh_c27.cpp)
            the weight: the real binary over test/cfg, samples and generated programs under a covering family of
            option sets (subsets of warning/style/performance/portability/information x --inconclusive):
            (i)  every reported finding passes the model's gate for the run's option set,
            (ii) report(S) is a sub-multiset of report(S') for S <= S', textually identical,
            (iii, measured, not a violation) report(S) = filter (gate S) (report(all))
search:     the failing pair of option sets + input file is the replay
"""
import collections
import hashlib
import itertools
import os
import shutil
import subprocess
import sys
from concurrent.futures import ThreadPoolExecutor

sys.path.insert(0, os.path.dirname(os.path.dirname(os.path.abspath(__file__))))
import vlib
from props import gen_programs as GP
from translate import severities as T

PID = "C27"
GEN = os.path.join(vlib.COQ, "theories", "Gate", "Gen_Severities.v")
WORK = os.path.join(vlib.BUILD, "work", "C27")
FIVE = ["warning", "style", "performance", "portability", "information"]
TEMPLATE = "--template={id}\\t{severity}\\t{inconclusive:inconclusive}\\t{file}\\t{line}\\t{column}\\t{message}"
# run summaries whose text is a function of the option set itself (number of active checkers): not findings about the code
NOT_FINDINGS = ("checkersReport",)


def opt_args(S, inc):
    """command line giving exactly the severity set S (cli: --enable=style also enables warning, performance, portability)"""
    a = []
    if "style" in S:
        a.append("--enable=style")
        a += ["--disable=" + x for x in ("warning", "performance", "portability") if x not in S]
        a += ["--enable=" + x for x in S if x == "information"]
    else:
        a += ["--enable=" + x for x in FIVE if x in S]
    if inc:
        a.append("--inconclusive")
    return a


def mask_of(S):
    return "01" + "".join("1" if x in S else "0" for x in FIVE) + "00"


def option_family(rng, quick):
    sets = [frozenset(), frozenset(FIVE)] + [frozenset([x]) for x in FIVE] + [frozenset(["warning", "style"]), frozenset(["warning", "style", "performance", "portability"])]
    if not quick:
        sets = [frozenset(c) for k in range(6) for c in itertools.combinations(FIVE, k)]
    fam = []
    for S in sets:
        fam.append((S, False))
        if not quick or S in (frozenset(), frozenset(FIVE), frozenset(["warning"]), frozenset(["style"]), frozenset(["warning", "style"])) or rng.random() < 0.3:
            fam.append((S, True))
    return fam


def run_one(job):
    label, cwd, base, S, inc = job
    p = subprocess.run([vlib.CPPCHECK, "-q", TEMPLATE] + opt_args(S, inc) + base, cwd=cwd, stdout=subprocess.PIPE, stderr=subprocess.PIPE, timeout=600)
    rows = []
    for l in p.stderr.decode("utf-8", "replace").split("\n"):
        f = l.split("\t")
        if len(f) >= 7 and f[0] and " " not in f[0]:
            rows.append(tuple(f[:6]) + ("\t".join(f[6:]),))
    return rows


def check(run, replay):
    quick = run.tier == "quick"
    rng = run.rng
    run.level = "proof"
    run.trusted_base += [
        "Coq 8.16.1 kernel (coqc); no vm_compute outside Examples",
        "extraction: ExtrOcamlBasic only; ocaml/driver.ml; harness/vh_c27.cpp (Settings::isEnabled(value, inconclusive))",
        "partial: the theorems are about the model's gate; that the binary's report is `filter (gate S) candidates` with candidates independent of S is checked differentially on the listed inputs only",
        "the text template {id},{severity},{inconclusive},{file},{line},{column},{message} is the `rendering`; checkersReport (text depends on the option set by design) is not a finding",
    ]
    run.assumptions += ["g++ compiles /repo faithfully", "cli: --enable=style implies warning, performance, portability; exact subsets are built with --disable"]
    run.extra["rule"] = ("isenabled: all 9-bit severity masks restricted to {warning on/off} x inconclusive x condition x defaultArg x value-inconclusive x check (exhaustive, 64) + random masks. "
                         "runs: inputs = test/cfg/* (with library), samples/*/*, seeded generated programs; option family = {}, all, singletons, {warning,style}, {w,s,perf,port} "
                         "(thorough: all 32 subsets) x --inconclusive; one evaluation = one (input, option set) run; non-trivial = distinct (input, option set) whose report is non-empty; "
                         "pairs = all S<=S' in the family per input.")
    vlib.ensure_repo_build()
    os.makedirs(WORK, exist_ok=True)
    try:
        el = T.errorlist(vlib.CPPCHECK)
        T.write_gen(GEN, el, "repo %s: %d messages" % (vlib.REPO, len(el)))
    except (T.TranslateError, OSError, ValueError) as ex:
        run.violation("translate:" + hashlib.sha1(str(ex).encode()).hexdigest()[:8], "translator severities.py failed: " + str(ex)[:300],
                      {"broken": "translator", "detail": str(ex)}, found_input=False)
        return
    ok = run.prove(extra_targets=["theories/Gate/Run.vo"])
    if not ok:
        run.violation("proof:" + PID, "Properties_C27.vo does not build: " + str(run.proof_error())[:300],
                      {"broken": "proof", "detail": run.proof_error()}, found_input=False)
    if not os.path.exists(os.path.join(vlib.COQ, "theories/Gate/Run.vo")):
        return
    model = vlib.build_model(PID)
    vh = vlib.build_harness(PID)

    # ---- Settings::isEnabled(value, inconclusive)
    cases = []
    masks = ["010000000", "011000000", "011111100", "010111100", "111111111", "000000000"] + ["".join(rng.choice("01") for _ in range(9)) for _ in range(20 if quick else 400)]
    for m in masks:
        for bits in itertools.product("01", repeat=5):
            cases.append([m.encode()] + [b.encode() for b in bits])
    diffs = vlib.correspond(run, "Settings::isEnabled(value)", model, [vh, "isenabled"], cases, tag="isenabled",
                            nontrivial=lambda c, m, i: tuple(c), bucket=lambda c, m, i: "enabled" if m == [b"1"] else "disabled")
    for c, m, i in diffs[:2]:
        run.violation("isenabled:" + vlib.enc_case(c), "Settings::isEnabled(mask=%s inconclusive=%s, condition=%s defaultArg=%s valueInconclusive=%s, check=%s) = %s, model %s" % (
            tuple(x.decode() for x in c) + (vlib.show(i), vlib.show(m))),
            {"broken": "correspondence Settings::isEnabled", "case": vlib.show(c), "how": "echo '%s' | build/harness/vh_c27 isenabled" % vlib.enc_case(c)}, found_input=False)

    # ---- the differential runs
    inputs = []
    cdir = os.path.join(vlib.VERIF, "corpus", "C27")
    for f in sorted(os.listdir(cdir)) if os.path.isdir(cdir) else []:
        if f.endswith((".c", ".cpp")):
            inputs.append(("corpus/C27/" + f, cdir, [f]))
    cfgdir = os.path.join(vlib.REPO, "test", "cfg")
    for f in sorted(os.listdir(cfgdir)):
        if f.endswith((".c", ".cpp")):
            inputs.append(("test/cfg/" + f, cfgdir, ["--library=" + f.rsplit(".", 1)[0], f]))
    sdir = os.path.join(vlib.REPO, "samples")
    for d in sorted(os.listdir(sdir)):
        for f in sorted(os.listdir(os.path.join(sdir, d))):
            if f.endswith((".c", ".cpp")):
                inputs.append(("samples/%s/%s" % (d, f), os.path.join(sdir, d), [f]))
    gdir = os.path.join(WORK, "gen")
    shutil.rmtree(gdir, ignore_errors=True)
    os.makedirs(gdir)
    for n in range(25 if quick else 400):
        lang, src, picks = GP.gen_program(rng)
        name = "g%d.%s" % (n, lang)
        with open(os.path.join(gdir, name), "w") as fh:
            fh.write(src)
        inputs.append(("generated/" + name, gdir, [name]))
    fam = option_family(rng, quick)
    jobs = [(lab, cwd, base, S, inc) for (lab, cwd, base) in inputs for (S, inc) in fam]
    with ThreadPoolExecutor(max_workers=8) as ex:
        outs = list(ex.map(run_one, jobs))
    reports = {}
    for j, rows in zip(jobs, outs):
        reports[(j[0], j[3], j[4])] = [r for r in rows if r[0] not in NOT_FINDINGS]
    # (i) every reported finding passes the model's gate
    q, qk = [], []
    for (lab, S, inc), rows in reports.items():
        for r in set(rows):
            q.append(vlib.enc_case([b"gate", mask_of(S).encode(), b"1" if inc else b"0", r[1].encode(), b"1" if r[2] else b"0"]))
            qk.append((lab, S, inc, r))
    rcq, qo, qe = vlib.run_lines([model], q) if q else (0, [], "")
    bad_i = [(k, o) for k, o in zip(qk, qo) if vlib.dec_line(o) != [b"1"]]
    seen_keys = {}
    for (lab, S, inc, r), o in sorted(bad_i, key=lambda x: (not x[0][0].startswith("corpus"), not x[0][0].startswith(("samples", "generated")), x[0][0], len(x[0][1]))):
        run.stream("gating (i)")["disagreements"] += 1
        key = "gated:%s:%s" % (r[0], "inconclusive" if (r[2] and not inc) else r[1])
        seen_keys[key] = seen_keys.get(key, 0) + 1
        if seen_keys[key] == 1:
            run.violation(key, "%s: finding %s of severity %s%s is reported although the option set is {%s}%s" % (
                              lab, r[0], r[1], " (inconclusive)" if r[2] else "", ",".join(sorted(S)), " --inconclusive" if inc else ""),
                          {"input": lab, "args": opt_args(S, inc), "finding": list(r), "how": "cppcheck -q <args> <input> (test/cfg inputs need --library=<name>)"})
    run.extra["i_violations_by_key"] = seen_keys
    for (lab, S, inc), rows in reports.items():
        run.count("gating (i)", None, nontrivial=(lab, tuple(sorted(S)), inc) if rows else None,
                  bucket="%d sev%s" % (len(S), ",inc" if inc else ""))
    # (ii) monotone, textually identical ; (iii) measured
    by_input = {}
    for (lab, S, inc) in reports:
        by_input.setdefault(lab, []).append((S, inc))
    lost_keys = {}
    npairs = 0
    dev3 = collections.Counter()
    dev3_examples = []
    for lab, sets in sorted(by_input.items(), key=lambda kv: (not kv[0].startswith("corpus"), not kv[0].startswith(("samples", "generated")), kv[0])):
        top = reports.get((lab, frozenset(FIVE), True))
        for (A, ia) in sets:
            ra = collections.Counter(reports[(lab, A, ia)])
            if top is not None:
                want = collections.Counter(r for r in top if (r[1] == "error" or r[1] in A) and (not r[2] or ia))
                if want != ra:
                    for r in (want - ra):
                        dev3[r[0]] += 1
                        if len(dev3_examples) < 6:
                            dev3_examples.append({"input": lab, "set": sorted(A), "inconclusive": ia, "missing_although_enabled": list(r)})
            for (B, ib) in sets:
                if (A, ia) == (B, ib) or not (A <= B and (ib or not ia)):
                    continue
                npairs += 1
                rb = collections.Counter(reports[(lab, B, ib)])
                lost = ra - rb
                run.count("monotone (ii)", None, nontrivial=(lab, tuple(sorted(A)), ia, tuple(sorted(B)), ib) if ra else None,
                          bucket="holds" if not lost else "LOST")
                if lost:
                    run.stream("monotone (ii)")["disagreements"] += 1
                    for r in sorted(lost):
                        if ("lost:" + r[0]) in lost_keys:
                            lost_keys["lost:" + r[0]] += 1
                            continue
                        lost_keys["lost:" + r[0]] = 1
                        # was it altered (same place and id, other text) or removed?
                        altered = [x for x in (rb - ra) if x[0] == r[0] and x[3:6] == r[3:6]]
                        run.violation("lost:%s" % r[0],
                                      "%s: finding %s (%s) reported with {%s}%s is %s with the larger set {%s}%s" % (
                                          lab, r[0], r[1], ",".join(sorted(A)), " --inconclusive" if ia else "",
                                          "altered" if altered else "removed", ",".join(sorted(B)), " --inconclusive" if ib else ""),
                                      {"input": lab, "smaller": opt_args(A, ia), "larger": opt_args(B, ib), "finding": list(r),
                                       "rendered_with_larger_set": [list(x) for x in altered][:3],
                                       "how": "cppcheck -q '%s' <smaller|larger> <input>: the line is in the first report, not in the second" % TEMPLATE})
    run.extra["ii_violations_by_key"] = lost_keys
    run.extra.update({"inputs": len(inputs), "option_sets": len(fam), "runs": len(jobs), "pairs_checked": npairs,
                      "findings_checked_by_gate": len(q), "listed_messages": len(el),
                      "iii_findings_missing_although_enabled_by_id": dict(dev3.most_common(25)), "iii_examples": dev3_examples})
    run.samples += [{"stream": "runs", "input": k[0], "options": opt_args(k[1], k[2]), "report": [list(r) for r in v[:2]]} for k, v in list(reports.items())[:3] if v][:3]


if __name__ == "__main__":
    vlib.main(check, PID)
