#!/usr/bin/env python3
"""C14  Dump output is well-formed and self-consistent.

prove:      coq/theories/Properties_C14.v  (createLinks: symmetric, matching kinds, properly nested;
            AST setters: parent/operand agreement and acyclicity over any call sequence; toxml
            attribute-safe; resolve total exactly on closed documents; validator sound)
gate:       source scan: no writer of mAstParent/mAstOperand1/2 outside the three setters (the
            closed-world assumption of the AST theorem)
correspond: X1 real Token objects under random astOperand1/astOperand2/astTop call sequences,
            X2 real Tokenizer::createLinks on bracket soups, ErrorLogger::toxml    vs the extracted model
validate:   X3 the extracted check_doc / resolve over real `cppcheck --dump` files (generated programs,
            test/cfg, samples, mutated inputs) + the shipped reader addons/cppcheckdata.py on the same
            files: parsedump must succeed and hold the same edges as the model's resolve
search:     a failing dump is reduced (line removal) while the same verdict persists; replay = input + reference
"""
import hashlib
import os
import re
import shutil
import subprocess
import sys
import time
from concurrent.futures import ThreadPoolExecutor

sys.path.insert(0, os.path.dirname(os.path.dirname(os.path.abspath(__file__))))
import vlib
from props import dump_common as D

PID = "C14"
WORK = os.path.join(vlib.BUILD, "work", PID)
# the reviewed text of the three setters the model transcribes (whitespace-normalised, comments removed)
SETTERS_SHA = None   # filled below


# hand-written inputs: constructs whose dumps once carried (or were suspected to carry) bad references
INLINE_CORPUS = [
    ("c", "struct S { union { int i; float f; }; int k; };\nint g(struct S *s) { return s->i + s->k; }\n"),
    ("cpp", "static union { int i; float f; };\nint g(int x) { i = x; return i; }\n"),
    ("cpp", "struct B { virtual int f(int x) { return x; } };\nstruct D : B { int f(int x) override { int a[3] = {1,2,3}; return a[x] + (x ? 1 : 2); } };\n"
            "template <class T> T id(T t) { return t; }\ntypedef unsigned long ul;\n"
            "int main() { D d; ul u = id<ul>(3); auto l = [&](int k) { return k + u; }; return d.f(l(1)); }\n"),
    ("cpp", "namespace A { namespace B { struct X { struct Y { int z; } y; enum E { e1, e2 } e; }; } }\nint f(A::B::X& x) { return x.y.z + x.e + A::B::X::e2; }\n"),
    ("c", "typedef struct { int a; struct { int b; } in; } T;\nint f(T *t, int (*cb)(int)) { return cb(t->a) + t->in.b + ((int[]){1,2,3})[1]; }\n"),
    ("cpp", "template <int N> struct F { enum { v = N * F<N - 1>::v }; };\ntemplate <> struct F<0> { enum { v = 1 }; };\nint x = F<4>::v; int y = (1 < 2) > 0;\n"),
    ("c", "#define STR(x) #x\nconst char *s = STR(a<b>&\"q\");\nchar c = '\\'';\nchar t[] = \"tab\\there\\x01\";\n"),
]


def model_cmd(model):
    return ["bash", "-c", "ulimit -s unlimited 2>/dev/null || ulimit -s 1000000; exec '%s'" % model]


def run_cppcheck_dump(src, extra=(), timeout=300):
    """cppcheck --dump on a private copy; returns (rc, output, dump path or None)."""
    dump = src + ".dump"
    m = re.match(r"corp\d+_(.*)\.(c|cpp)$", os.path.basename(src))
    if m and os.path.exists(os.path.join(os.path.dirname(vlib.CPPCHECK), "cfg", m.group(1) + ".cfg")):
        extra = list(extra) + ["--library=" + m.group(1)]
    if os.path.exists(dump):
        os.remove(dump)
    cmd = [vlib.CPPCHECK, "--dump", "-q", "--inline-suppr"] + list(extra) + [src]
    rc, out = D.sh_retry(cmd, timeout=timeout, cwd=os.path.dirname(src))
    return rc, out, dump if os.path.exists(dump) else None


class Validator:
    def __init__(self, run, model, reader):
        self.run, self.model, self.reader = run, model, reader
        self.refs = 0
        self.edges = 0
        self.tokens = 0
        self.configs = 0
        self.t_model = self.t_reader = self.t_parse = 0.0

    def verdicts(self, dump):
        return self.verdicts_many([dump])[0]

    def verdicts_many(self, dumps):
        """-> per dump file (problems [(kind, detail)], infos); one model process for all files."""
        pre = []
        lines = []
        t0 = time.time()
        for dump in dumps:
            probs = []
            ok, det = D.raw_scan(dump)
            if not ok:
                probs.append(("rawbyte", det))
            try:
                root, docs = D.docs_of_dump(dump)
            except Exception as e:  # not well-formed
                pre.append((dump, probs + [("xml", "%s: %s" % (type(e).__name__, e))], None, 0))
                continue
            pre.append((dump, probs, docs, len(lines)))
            for d in docs:
                lines.append(vlib.enc_case(["check"] + d.fields()))
                lines.append(vlib.enc_case(["resolve"] + d.fields(True)))
        t1 = time.time()
        self.t_parse += t1 - t0
        outs = []
        if lines:
            rc, outs, err = vlib.run_lines(model_cmd(self.model), lines, timeout=3000)
            if rc != 0 or len(outs) != len(lines):
                raise vlib.BuildError("model died: rc=%s lines %d/%d %s" % (rc, len(outs), len(lines), err[-500:]))
        self.t_model += time.time() - t1
        return [self.judge(dump, probs, docs, outs[off:]) if docs is not None else (probs, []) for dump, probs, docs, off in pre]

    def judge(self, dump, probs, docs, outs):
        t2 = time.time()
        reader_cfgs, reader_exc = None, None
        try:
            reader_cfgs = D.reader_view(self.reader, dump)
        except Exception as e:
            reader_exc = "%s: %s" % (type(e).__name__, e)
        self.t_reader += time.time() - t2
        infos = []
        for k, d in enumerate(docs):
            v = [x.decode("latin-1") for x in vlib.dec_line(outs[2 * k])]
            r = [x.decode("latin-1") for x in vlib.dec_line(outs[2 * k + 1])]
            self.configs += 1
            self.refs += len(d.refs)
            self.tokens += d.ntok
            tokstr = {e[1]: e[2] for e in d.elems if e[0] == "T"}
            if v != ["ok"]:
                probs.append(("model:" + v[0], self.describe(d, v, tokstr)))
            if r[0] == "dangling":
                if reader_exc is None:
                    probs.append(("reader-accepts-dangling", "cfg %r: model resolve says %s" % (d.cfg, r)))
            elif r[0] == "ok":
                if reader_exc is not None:
                    probs.append(("reader-raises", "cfg %r: %s" % (d.cfg, reader_exc)))
                elif reader_cfgs is not None and k < len(reader_cfgs):
                    diffs, ne = D.compare_with_reader(d, reader_cfgs[k][1], r[1:])
                    self.edges += ne
                    if diffs:
                        probs.append(("reader-graph", "cfg %r: %s" % (d.cfg, diffs[:3])))
            else:
                raise vlib.BuildError("model answered %r on a resolve case" % (r[:3],))
            nast = sum(1 for x in d.refs if x[6] == "astParent")
            nlink = sum(1 for x in d.refs if x[6] == "link")
            infos.append((d.cfg, d.ntok, len(d.refs), nast, nlink))
        if reader_exc is not None and not docs:
            probs.append(("reader-raises", reader_exc))
        return probs, infos

    @staticmethod
    def describe(d, v, tokstr):
        def tok(idhex_or_dec, dec=True):
            h = "%x" % int(idhex_or_dec) if dec else idhex_or_dec
            return "token %s '%s'" % (h, tokstr.get(h, "?"))
        if v[0] == "dangling":
            owner = "%x" % int(v[1])
            return "cfg %r: attribute %s of element %s (%s) = %x does not resolve to an element of the required kind in this configuration" % (
                d.cfg, v[2], owner, tokstr.get(owner, "-"), int(v[3]))
        if v[0] in ("ast", "cycle", "link"):
            return "cfg %r: %s inconsistency at %s" % (d.cfg, v[0], tok(v[1]))
        if v[0] in ("bracket", "unmatched", "nesting"):
            toks = [e for e in d.elems if e[0] == "T"]
            i = int(v[1])
            ctx = " ".join(e[2] for e in toks[max(0, i - 6):i + 7])
            return "cfg %r: %s at token position %d ('%s'), context: %s" % (d.cfg, v[0], i, toks[i][2] if i < len(toks) else "?", ctx)
        if v[0] == "dup":
            return "cfg %r: id %x is carried by two elements" % (d.cfg, int(v[1]))
        return "cfg %r: %s" % (d.cfg, v)


def signature(kind, detail):
    """stable identity of a problem class (ids/addresses stripped)."""
    m = re.search(r"attribute (\S+) of element", detail)
    if kind == "model:dangling" and m:
        return "dangling:" + m.group(1)
    s = re.sub(r"\b[0-9a-f]{6,16}\b", "#", detail)
    s = re.sub(r"position \d+", "position #", s)
    return kind + ":" + hashlib.sha1(s.encode()).hexdigest()[:10]


def reduce_input(text, still_fails, budget=60):
    """line-based reduction of a failing input."""
    lines = text.split("\n")
    n = 0
    chunk = max(1, len(lines) // 2)
    while chunk >= 1 and n < budget:
        i = 0
        changed = False
        while i < len(lines) and n < budget:
            cand = lines[:i] + lines[i + chunk:]
            n += 1
            if cand and still_fails("\n".join(cand)):
                lines = cand
                changed = True
            else:
                i += chunk
        if not changed:
            chunk //= 2
    return "\n".join(lines)


def check(run, replay):
    quick = run.tier == "quick"
    rng = run.rng
    run.level = "proof"
    run.trusted_base += [
        "Coq 8.16.1 kernel (coqc); no axioms",
        "extraction: Require Extraction + ExtrOcamlBasic only; N/positive/nat and FMapPositive stay Coq code",
        "ocaml/driver.ml (I/O), harness/vh_common.h + vh_c14.cpp (decode a case; call Token::astOperand1/astOperand2/astTop(tok), Tokenizer::createLinks on TokenList::addtoken tokens, ErrorLogger::toxml; print pointers as positions)",
        "tools/props/dump_common.py: re-shapes a dump (xml.etree/expat) into the model's document (elements, id-valued attributes per the attribute table in that file) and reads the shipped reader's objects; the verdict is the extracted check_doc/resolve",
        "modelled, not verified: lib/tokenize.cpp linkBrackets/createLinks, lib/token.cpp astParent/astOperand1/astOperand2 + token.h astTop, lib/errorlogger.cpp toxml, addons/cppcheckdata.py set_id_map/setId",
        "not modelled: createLinks2 (<>), Tokenizer::dump's printing itself, SymbolDatabase::printXml, Token::printValueFlow, token deletion/swapWithNext/takeData after the AST exists: their effect is covered only by the validator run over real dumps (X3)",
    ]
    run.assumptions += ["g++ compiles /repo faithfully", "python3's xml.etree (expat) is a conforming XML parser"]
    run.extra["rule"] = (
        "ast: pools of 6-10 real tokens, 1-40 calls: a third uniform (45% astOperand1, 45% astOperand2, 10% astTop(tok); 12% nullptr arguments), a third "
        "bottom-up tree building followed by random edits, a third guided by a shadow forest (operand from another tree 97% of the time); non-trivial = sequence whose final heap has >=2 edges or that ends in the cyclic-dependency exception, distinct case. "
        "links: bracket soups over { } ( ) [ ] ; x , < > = 1 (balanced skeleton with 0-2 mutations, or uniform) len 0-30; non-trivial = >=1 pair linked or an unmatched token reported, distinct soup. "
        "dumps: one evaluation = one configuration of one --dump file validated (all id-valued attributes, link symmetry + createLinks equality, AST agreement + acyclicity, reader graph equality); "
        "non-trivial = configuration with >=1 AST edge and >=1 link, distinct (file content, cfg).")

    vlib.ensure_repo_build()

    # ---- gate: the closed-world assumption of the AST theorem
    g = D.ast_writers_gate()
    problems, norm = (g if isinstance(g, tuple) else (g, ""))
    sha = hashlib.sha1(norm.encode()).hexdigest()[:12]
    run.extra["ast_setters_text_sha1"] = sha
    for p in problems:
        run.violation("gate:" + hashlib.sha1(p.encode()).hexdigest()[:8], "AST writer gate: " + p,
                      {"broken": "gate", "detail": p}, found_input=False)

    ok = run.prove(extra_targets=["theories/Dump/Run.vo"])
    have_model = ok or os.path.exists(os.path.join(vlib.COQ, "theories/Dump/Run.vo"))
    if not ok:
        run.violation("proof:" + PID, "Properties_C14.vo does not build: " + str(run.proof_error())[:300],
                      {"broken": "proof", "detail": run.proof_error()}, found_input=False)
    if not have_model:
        return
    model = vlib.build_model(PID)
    vh = vlib.build_harness(PID)

    # ---- X1 AST setters
    n = 6000 if quick else 200000
    cases = [D.gen_ast_case(rng) for _ in range(n // 3)] + [D.gen_tree_case(rng) for _ in range(n // 3)] + [D.gen_guided_case(rng) for _ in range(n // 3)]

    def ast_nt(c, m, i):
        if not m or m[0] == b"F":
            return None
        edges = sum(1 for k in range(2, len(m), 3) if m[k] != b"")
        return tuple(c) if (edges >= 2 or m[0] == b"cyc") else None

    diffs = vlib.correspond(run, "ast-setters", model, [vh, "ast"], cases, tag="ast", nontrivial=ast_nt,
                            bucket=lambda c, m, i: (m[0].decode() if m else "?") + ",ops<=%d" % (10 * ((len(c) // 3 + 9) // 10)))
    for c, m, i in sorted(diffs, key=lambda d: len(d[0]))[:3]:
        if m and m[0] == b"F":
            continue
        key = "ast:" + hashlib.sha1(vlib.enc_case(c).encode()).hexdigest()[:12]
        # the property itself on the implementation's heap: parent/operand agreement
        inv = impl_heap_invariant(i)
        run.violation(key, "Token AST setters: model and implementation differ after %d calls%s" % (len(c) // 3, "; implementation heap breaks parent/operand agreement: " + inv if inv else ""),
                      {"stream": "ast-setters", "case": vlib.show(c), "model": vlib.show(m), "impl": vlib.show(i), "case_line": vlib.enc_case(c),
                       "how": "echo <case_line> | build/harness/vh_c14 ast"}, found_input=bool(inv))
    # the invariant evaluated on every implementation heap of a completed sequence (spec on impl)
    rc, io, _ = vlib.run_lines([vh, "ast"], [vlib.enc_case(c) for c in cases[:2000]])
    for c, line in zip(cases, io):
        f = vlib.dec_line(line)
        if f and f[0] == b"ok":
            inv = impl_heap_invariant(f)
            if inv:
                run.violation("astinv:" + hashlib.sha1(vlib.enc_case(c).encode()).hexdigest()[:12],
                              "real Token objects break parent/operand agreement after a completed call sequence: " + inv,
                              {"case": vlib.show(c), "impl": vlib.show(f), "case_line": vlib.enc_case(c)})
                break

    # ---- X2 createLinks
    n = 6000 if quick else 200000
    cases = [list(c) for c in dict.fromkeys(tuple(D.gen_soup(rng)) for _ in range(n))]
    diffs = vlib.correspond(run, "createLinks", model, [vh, "links"], cases, tag="links",
                            nontrivial=lambda c, m, i: tuple(c) if m and (m[0] == b"U" or any(x != b"" for x in m[1:])) else None,
                            bucket=lambda c, m, i: (m[0].decode() if m else "?") + ",len<=%d" % (5 * ((len(c) + 4) // 5)))
    for c, m, i in sorted(diffs, key=lambda d: len(d[0]))[:3]:
        key = "links:" + hashlib.sha1(vlib.enc_case(c).encode()).hexdigest()[:12]
        bad = impl_links_property(c, i)
        run.violation(key, "createLinks on %r: model %s, implementation %s%s" % (" ".join(x if isinstance(x, str) else x.decode() for x in c), vlib.show(m), vlib.show(i),
                                                                                 "; implementation links are " + bad if bad else ""),
                      {"stream": "createLinks", "tokens": vlib.show(c), "model": vlib.show(m), "impl": vlib.show(i), "case_line": vlib.enc_case(c)},
                      found_input=bool(bad))

    # ---- toxml
    n = 3000 if quick else 100000
    cases = [[D.gen_toxml_input(rng)] for _ in range(n)]
    diffs = vlib.correspond(run, "toxml", model, [vh, "toxml"], cases, tag="toxml",
                            nontrivial=lambda c, m, i: c[0] if any(b in c[0] for b in b"<>&\"'\x00\n\t\r") or any(x > 127 or x < 32 for x in c[0]) else None,
                            bucket=lambda c, m, i: "escaped" if m and m[0] != c[0] else "identity")
    for c, m, i in diffs[:2]:
        out = i[0] if i else b""
        unsafe = any(b in out for b in b"<>\"'") or any(x < 32 or x > 127 for x in out)
        run.violation("toxml:" + c[0].hex(), "toxml(%r): model %r, implementation %r" % (c[0], m, i),
                      {"input": vlib.show(c[0]), "model": vlib.show(m), "impl": vlib.show(i)}, found_input=unsafe)

    # ---- X3 the dump validator
    shutil.rmtree(WORK, ignore_errors=True)
    os.makedirs(WORK, exist_ok=True)
    reader = D.load_reader()
    val = Validator(run, model, reader)
    inputs = []   # (stream, name, path, text or None)
    ngen = 100 if quick else 1500
    for k in range(ngen):
        lang, text = D.gen_dump_program(rng)
        p = os.path.join(WORK, "gen%04d.%s" % (k, lang))
        open(p, "w").write(text)
        inputs.append(("dump-generated", os.path.basename(p), p, text))
    for k, (lang, text) in enumerate(INLINE_CORPUS):
        p = os.path.join(WORK, "inl%03d.%s" % (k, lang))
        open(p, "w").write(text)
        inputs.append(("dump-corpus", "inline%d" % k, p, text))
    corpus = []
    cfgdir = os.path.join(vlib.REPO, "test", "cfg")
    for fn in sorted(os.listdir(cfgdir)):
        if fn.endswith((".c", ".cpp")):
            corpus.append(os.path.join(cfgdir, fn))
    sdir = os.path.join(vlib.REPO, "samples")
    for dn in sorted(os.listdir(sdir)):
        for fn in sorted(os.listdir(os.path.join(sdir, dn))):
            if fn.endswith((".c", ".cpp")):
                corpus.append(os.path.join(sdir, dn, fn))
    corpus.sort(key=os.path.getsize)
    if quick:
        corpus = [c for c in corpus if os.path.getsize(c) < 25000]
    for k, src in enumerate(corpus):
        p = os.path.join(WORK, "corp%03d_%s" % (k, os.path.basename(src)))
        shutil.copy(src, p)
        inputs.append(("dump-corpus", os.path.relpath(src, vlib.REPO), p, None))
    nmut = 80 if quick else 1500
    small = [c for c in corpus if os.path.getsize(c) < 20000] or corpus
    for k in range(nmut):
        if rng.random() < 0.5 and small:
            src = rng.choice(small)
            text = open(src, errors="replace").read()
            ext = os.path.splitext(src)[1]
        else:
            lang, text = D.gen_dump_program(rng)
            ext = "." + lang
        text = D.mutate_text(rng, text)
        p = os.path.join(WORK, "mut%04d%s" % (k, ext))
        open(p, "w", errors="replace").write(text)
        inputs.append(("dump-mutated", os.path.basename(p), p, text))

    known_keys = {k for k, _ in vlib.load_known(PID)[0]}
    t0 = time.time()
    with ThreadPoolExecutor(max_workers=6 if quick else 8) as ex:
        results = list(ex.map(lambda it: run_cppcheck_dump(it[2]), inputs))
    run.extra["dump_wall_s"] = round(time.time() - t0, 1)
    crashed = 0
    reported = 0
    verd = {}
    good = [(it, res) for it, res in zip(inputs, results) if res[2] is not None and not (res[0] < 0 or res[0] in (124, 134, 139))]
    B = 40
    for i in range(0, len(good), B):
        chunk = good[i:i + B]
        for (it, res), v in zip(chunk, val.verdicts_many([res[2] for it, res in chunk])):
            verd[it[2]] = v
    for (stream, name, path, text), (rc, out, dump) in zip(inputs, results):
        if rc < 0 or rc in (124, 134, 139) or (dump is None and "error:" not in out):
            crashed += 1
            if rc != 124:
                run.violation("dumpcrash:" + name, "cppcheck --dump on %s: exit status %s, dump %s" % (name, rc, "missing" if dump is None else "present"),
                              {"input": name, "text": text, "output": out[-1500:]})
            continue
        if dump is None:
            run.count(stream, None, bucket="no-dump(rejected before tokenizing)")
            continue
        probs, infos = verd[path]
        rejected = "syntaxError" in out or "unknownMacro" in out or "internalAstError" in out
        for cfg, ntok, nref, nast, nlink in infos:
            run.count(stream, None, nontrivial=(hashlib.sha1(open(path, "rb").read()).hexdigest()[:12], cfg) if nast and nlink else None,
                      bucket="%s,tokens<=%s" % (os.path.splitext(path)[1][1:], 100 if ntok <= 100 else 1000 if ntok <= 1000 else 10000 if ntok <= 10000 else "10000+"))
        if not infos:
            run.count(stream, None, bucket="no-configuration(%s)" % ("rejected" if rejected else "empty"))
        for kind, detail in probs[:1]:
            if reported >= 6:
                break
            reported += 1
            sig = signature(kind, detail)
            rep = {"stream": stream, "input": name, "problem": kind, "detail": detail, "cppcheck_output": out[-800:],
                   "how": "cppcheck --dump <input>; python3 tools/props/c14.py --replay <dump>  (or python3 -c 'import cppcheckdata; cppcheckdata.parsedump(...)')"}
            src_text = text if text is not None else open(path, errors="replace").read()
            if sig in known_keys:
                rep["input_text"] = src_text[:4000]
            elif len(src_text) < 30000:
                def still(t, kind=kind, ext=os.path.splitext(path)[1]):
                    q = os.path.join(WORK, "red" + ext)
                    open(q, "w").write(t)
                    rc2, out2, d2 = run_cppcheck_dump(q, timeout=60)
                    if d2 is None:
                        return False
                    pr, _ = val.verdicts(d2)
                    return any(k2 == kind for k2, _ in pr)
                red = reduce_input(src_text, still, budget=40 if quick else 200)
                rep["reduced_input"] = red
                q = os.path.join(WORK, "red" + os.path.splitext(path)[1])
                open(q, "w").write(red)
                rc2, out2, d2 = run_cppcheck_dump(q, timeout=60)
                if d2:
                    pr, _ = val.verdicts(d2)
                    for k2, det2 in pr:
                        if k2 == kind:
                            rep["reduced_detail"] = det2
                            sig = signature(kind, det2)
            else:
                rep["input_path"] = path
            run.violation(sig, "dump of %s: %s: %s" % (name, kind, detail[:300]), rep)
    run.extra["dump_files"] = len(inputs)
    run.extra["dump_configurations"] = val.configs
    run.extra["dump_tokens"] = val.tokens
    run.extra["dump_id_attributes_checked"] = val.refs
    run.extra["reader_edges_compared"] = val.edges
    run.extra["dump_timeouts_or_crashes"] = crashed
    run.extra["validator_wall_s"] = {"reshape": round(val.t_parse, 1), "model": round(val.t_model, 1), "reader": round(val.t_reader, 1)}
    if len(run.samples) < 12:
        run.samples.append({"stream": "dump", "files": len(inputs), "configurations": val.configs, "id_attributes": val.refs})
    shutil.rmtree(WORK, ignore_errors=True)


def impl_heap_invariant(f):
    """parent/operand agreement on a printed heap: status done (par op1 op2)*; '' if fine."""
    trip = [f[k:k + 3] for k in range(2, len(f), 3)]

    def num(x):
        return None if x == b"" else int(x)
    for c, t in enumerate(trip):
        p = num(t[0])
        if p is not None and num(trip[p][1]) != c and num(trip[p][2]) != c:
            return "token %d has parent %d which does not have it as operand" % (c, p)
        for w in (1, 2):
            ch = num(t[w])
            if ch is not None and num(trip[ch][0]) != c:
                return "token %d has operand%d %d whose parent is %s" % (c, w, ch, trip[ch][0])
    for c in range(len(trip)):
        x, n = c, 0
        while x is not None and n <= len(trip):
            x = num(trip[x][0])
            n += 1
        if x is not None:
            return "parent chain of token %d does not end" % c
    return ""


def impl_links_property(toks, out):
    """symmetric / matching kinds / nested on the implementation's answer; '' if fine."""
    if not out or out[0] != b"O":
        return ""
    lk = [None if x == b"" else int(x) for x in out[1:]]
    toks = [t if isinstance(t, str) else t.decode() for t in toks]
    pairs = {"{": "}", "(": ")", "[": "]"}
    for i, j in enumerate(lk):
        if j is None:
            if toks[i][:1] in "{}()[]" and toks[i]:
                return "missing for bracket at %d" % i
            continue
        if lk[j] != i:
            return "asymmetric at %d" % i
        a, b = min(i, j), max(i, j)
        if pairs.get(toks[a][:1]) != toks[b][:1]:
            return "of different kinds at %d" % i
        for k in range(a + 1, b):
            if lk[k] is not None and not (a < lk[k] < b):
                return "crossing at %d/%d" % (a, k)
    return ""


if __name__ == "__main__":
    vlib.main(check, PID)
