#!/usr/bin/env python3
"""C15  Parallel execution reports exactly what a single job reports.

translate:  tools/translate/severity.py -> Par/Gen_Severity.v (Severity enum, severityToString /
            severityFromString tables, PipeSignal bytes) from the current source
prove:      coq/theories/Properties_C15.v (codec round trip + refuted witnesses, serialize injective,
            hasToLog order independence over all interleavings of n streams, suppression-state merge)
correspond: X1 extracted model (Par/Run.v) vs harness/vh_c15.cpp: fixInvalidChars, strToInt,
            ErrorMessage::serialize, ErrorMessage::deserialize (valid + malformed wires),
            Executor::hasToLog sequences, SuppressionList::updateSuppressionState
            X2 the real binary: generated multi-file projects, -j1 vs -j2/-j4 thread|process,
            text and XML, compared as multisets incl. unmatchedSuppression lines and exit status
search:     a codec disagreement is turned into a message and the round-trip property itself is
            evaluated on the implementation (rtimpl); an X2 difference is its own replay.
"""
import hashlib
import os
import re
import shutil
import subprocess
import sys
import tempfile

sys.path.insert(0, os.path.dirname(os.path.dirname(os.path.abspath(__file__))))
import vlib
from props import par_common as P
from props import supp_common as G
from translate import severity as T

PID = "C15"
K_FIX = "wire-fixInvalidChars"
K_TAB = "wire-tab-in-filename"


def sha(x):
    return hashlib.sha1(x if isinstance(x, bytes) else x.encode("latin-1")).hexdigest()[:12]


# ------------------------------------------------------------------ X1
def x1(run, model, vh, quick):
    rng = run.rng
    # fixInvalidChars
    cases = [[bytes([b])] for b in range(256)] + [[P.gen_bytes(rng, 24)] for _ in range(1500 if quick else 60000)]
    d = vlib.correspond(run, "fixInvalidChars", model, [vh, "fix"], cases, tag="fix",
                        nontrivial=lambda c, m, i: c[0] if any(b < 32 or b > 126 for b in c[0]) else None,
                        bucket=lambda c, m, i: "escaped" if m != c else "unchanged")
    for c, m, i in d[:2]:
        run.violation("fix:" + sha(c[0]), "fixInvalidChars(%r): model %r, implementation %r" % (c[0], m, i),
                      {"broken": "correspondence fixInvalidChars", "input": vlib.show(c), "model": vlib.show(m), "impl": vlib.show(i)},
                      found_input=False)
    # strToInt
    cases = []
    for _ in range(3000 if quick else 100000):
        k = rng.randrange(4)
        if rng.random() < 0.5:
            s = str(P.gen_num(rng, -2**63 - 5, 2**64 + 5)).encode()
        else:
            s = bytes(rng.choices(b"0123456789+- ax", weights=[3] * 10 + [2, 2, 1, 1, 1], k=rng.randint(0, 6)))
        cases.append([k, s])
    d = vlib.correspond(run, "strToInt", model, [vh, "int"], cases, tag="int",
                        nontrivial=lambda c, m, i: (c[0], c[1]),
                        bucket=lambda c, m, i: ("reject" if m == [b"E"] else "accept") + ",kind%s" % c[0])
    for c, m, i in d[:2]:
        run.violation("int:" + sha(c[1]), "strToInt kind %s on %r: model %r, implementation %r" % (c[0], c[1], m, i),
                      {"broken": "correspondence strToInt", "input": vlib.show(c), "model": vlib.show(m), "impl": vlib.show(i)},
                      found_input=False)
    # serialize
    n = 2500 if quick else 80000
    msgs = [P.gen_msg(rng) for _ in range(n)]
    # frame file names as the implementation stores them (Path::simplifyPath applied once)
    names = sorted({c[i] for c in msgs for i in P.frame_files(c)})
    _, so, _ = vlib.run_lines([vh, "simp"], [vlib.enc_case([x]) for x in names])
    simp = {x: (vlib.dec_line(o) or [b""])[0] for x, o in zip(names, so)}
    _, so2, _ = vlib.run_lines([vh, "simp"], [vlib.enc_case([simp[x]]) for x in names])
    simp2 = {x: (vlib.dec_line(o) or [b""])[0] for x, o in zip(names, so2)}
    not_idem = [x for x in names if simp2[x] != simp[x]]
    run.extra["simplifyPath_not_idempotent_on"] = [vlib.show(x) for x in not_idem[:5]]
    keep = []
    for c in msgs:
        c = list(c)
        if any(c[i] in not_idem for i in P.frame_files(c)):
            continue
        for i in P.frame_files(c):
            c[i] = simp[c[i]]
        keep.append(c)
    msgs = keep

    def kind(c):
        return ("tab," if P.msg_has_tab_in_files(c) else "") + ("nonprint," if P.msg_nonprintable(c) else "") + "frames%d" % c[10]

    d = vlib.correspond(run, "serialize", model, [vh, "ser"], msgs, tag="ser",
                        nontrivial=lambda c, m, i: sha(vlib.enc_case(c)), bucket=lambda c, m, i: kind(c))
    for c, m, i in d[:2]:
        run.violation("ser:" + sha(vlib.enc_case(c)), "ErrorMessage::serialize: model and implementation differ",
                      {"broken": "correspondence serialize", "case": vlib.show(c), "model": vlib.show(m), "impl": vlib.show(i)},
                      found_input=False)
    # deserialize on the implementation's own wires and on malformed ones
    _, wo, _ = vlib.run_lines([vh, "ser"], [vlib.enc_case(c) for c in msgs])
    wires = [(vlib.dec_line(w) or [b""])[0] for w in wo]
    muts = [x for x in (P.mutate_wire(rng, w) for w in wires for _ in range(2)) if not P.wire_is_heavy(x)]
    cases = [[w] for w in wires] + [[w] for w in muts] + [[b""], [b"0 "], [b"1"], [b" 1 a"], [b"+1 a"], [b"-0 "]]

    def dbucket(c, m, i):
        return "ok" if m and m[0] == b"ok" else ("E" + m[1].decode() if len(m) > 1 else "fuel")

    d = vlib.correspond(run, "deserialize", model, [vh, "deser"], cases, tag="deser", canon=P.canon_deser,
                        nontrivial=lambda c, m, i: sha(c[0]) if m != [b"F"] else None, bucket=dbucket)
    for c, m, i in d[:3]:
        if m == [b"F"]:
            continue
        run.violation("deser:" + sha(c[0]), "ErrorMessage::deserialize(%r...): model %s, implementation %s" % (c[0][:40], vlib.show(m)[:3], vlib.show(i)[:3]),
                      {"broken": "correspondence deserialize", "wire": vlib.show(c[0]), "model": vlib.show(m), "impl": vlib.show(i),
                       "how": "echo %s | build/harness/vh_c15 deser" % vlib.enc_case(c)}, found_input=False)
    # the round-trip property itself on the implementation, against the model's verdict
    _, po, _ = vlib.run_lines([model], [vlib.enc_case(["rt"] + c) for c in msgs])
    _, io, _ = vlib.run_lines([vh, "rtimpl"], [vlib.enc_case(c) for c in msgs])
    _, mo, _ = vlib.run_lines([model], [vlib.enc_case(["ser"] + c) for c in msgs])
    st = run.stream("roundtrip property on implementation")
    seen_fix = seen_tab = 0
    for c, p, i, w in zip(msgs, po, io, mo):
        p = vlib.dec_line(p)
        i = P.canon_deser(vlib.dec_line(i))
        st["evaluations"] += 1
        st["nontrivial"].add(sha(vlib.enc_case(c)))
        b = kind(c) + (",wire_ok" if p[0] == b"1" else ",not_wire_ok")
        st["hist"][b] = st["hist"].get(b, 0) + 1
        sent = [b"ok"] + [vlib.dec(vlib.enc(x)) for x in c]
        changed = i != sent
        # model: wire_ok -> normalise; exact iff printable too (proved). Compare the implementation with that.
        if p[0] == b"1" and changed and not P.msg_nonprintable(c) and not P.msg_has_tab_in_files(c):
            st["disagreements"] += 1
            if st["disagreements"] <= 3:
                run.violation("rt:" + sha(vlib.enc_case(c)), "round trip changed a wire_ok printable message on the implementation",
                              {"message": vlib.show(c), "received": vlib.show(i), "how": "echo %s | build/harness/vh_c15 rtimpl" % vlib.enc_case(c)})
        if changed and p[0] == b"1" and P.msg_nonprintable(c):
            seen_fix += 1
        if changed and P.msg_has_tab_in_files(c):
            seen_tab += 1
    run.extra["roundtrip_changed_by_fixInvalidChars"] = seen_fix
    run.extra["roundtrip_changed_by_tab_in_file"] = seen_tab

    # hasToLog sequences
    n = 800 if quick else 30000
    cs = []
    for _ in range(n):
        nomsg = G.gen_supp_list(rng, rng.randint(0, 4))
        ms = []
        for _ in range(rng.randint(1, 8)):
            ms.append(G.gen_emsg(rng, plain_symbols=True, macros=False) + [rng.choice(G.TEXTS), rng.random() < 0.1])
        cs.append(([rng.random() < 0.2] + G.flat(nomsg) + G.flat(ms), len(ms)))
    nm = {id(c[0]): c for c in cs}
    d = vlib.correspond(run, "Executor::hasToLog", model, [vh, "htl"], [c[0] for c in cs], tag="htl",
                        nontrivial=lambda c, m, i: sha(vlib.enc_case(c)) if (not i or i[0] != b"rejected") else None,
                        bucket=lambda c, m, i: "rejected" if i and i[0] == b"rejected" else "forwarded%d" % sum(1 for x in m[:nm[id(c)][1]] if x == b"1"))
    shown = 0
    for c, m, i in d:
        if (i and i[0] == b"rejected") or m == [b"F"] or shown >= 2:
            continue
        shown += 1
        run.violation("htl:" + sha(vlib.enc_case(c)), "Executor::hasToLog sequence: model %s, implementation %s" % (vlib.show(m), vlib.show(i)),
                      {"broken": "correspondence hasToLog", "case_line": vlib.enc_case(c), "model": vlib.show(m), "impl": vlib.show(i)}, found_input=False)
    # hasToLog on full messages (0-3 frames) with a non-empty location template: the key is the whole rendered text
    n = 1500 if quick else 40000
    ids = [x for x in G.IDS if x]
    texts = [x for x in G.TEXTS if x] + [b""]
    rcases = [[rng.random() < 0.3] + P.gen_htl_msg(rng, ids, texts) for _ in range(600 if quick else 20000)]
    d = vlib.correspond(run, "ErrorMessage::toString (fixed templates)", model, [vh, "render"], rcases, tag="render",
                        nontrivial=lambda c, m, i: sha(vlib.enc_case(c)), bucket=lambda c, m, i: "frames%s" % c[11])
    for c, m, i in d[:2]:
        run.violation("render:" + sha(vlib.enc_case(c)), "ErrorMessage::toString with location template: model %s, implementation %s" % (vlib.show(m), vlib.show(i)),
                      {"broken": "correspondence toString", "case_line": vlib.enc_case(c), "model": vlib.show(m), "impl": vlib.show(i)}, found_input=False)
    cs = []
    for _ in range(n):
        nomsg = G.gen_supp_list(rng, rng.randint(0, 3))
        pool = [P.gen_htl_msg(rng, ids, texts) for _ in range(rng.randint(1, 4))]
        ms = []
        for _ in range(rng.randint(2, 8)):
            m0 = list(rng.choice(pool))
            if m0[10] >= 2 and rng.random() < 0.5:
                # same head line (last frame, id, message), different note trail
                m0[11 + 2] = rng.choice(P.H_FILES)
                m0[11 + 0] = rng.choice([1, 2, 3])
            ms.append(m0)
        cs.append(([rng.random() < 0.15] + G.flat(nomsg) + [len(ms)] + [x for m0 in ms for x in m0], ms))
    nm = {id(c[0]): c for c in cs}

    def trail_kind(c):
        ms = nm[id(c)][1]
        heads = {}
        for m0 in ms:
            nf = m0[10]
            last = tuple(m0[11 + 5 * (nf - 1):11 + 5 * nf]) if nf else ()
            heads.setdefault((m0[0], m0[7], last[:3]), set()).add(tuple(m0[11:]))
        return "same-head-different-trail" if any(len(v) > 1 for v in heads.values()) else "plain"

    d = vlib.correspond(run, "Executor::hasToLog (call stacks, location template)", model, [vh, "htlm"], [c[0] for c in cs], tag="htlm",
                        nontrivial=lambda c, m, i: sha(vlib.enc_case(c)) if (not i or i[0] != b"rejected") else None,
                        bucket=lambda c, m, i: "rejected" if i and i[0] == b"rejected" else trail_kind(c))
    shown = 0
    for c, m, i in sorted(d, key=lambda x: len(x[0])):
        if (i and i[0] == b"rejected") or m == [b"F"] or shown >= 2:
            continue
        shown += 1
        ms = nm[id(c)][1]
        k = len(ms)
        # the property on the implementation: with duplicates filtered, two messages are merged only if their full texts are equal
        _, ro, _ = vlib.run_lines([vh, "render"], [vlib.enc_case([False] + m0) for m0 in ms])
        texts_impl = [vlib.dec_line(x) for x in ro]
        run.violation("htlm:" + sha(vlib.enc_case(c)),
                      "Executor::hasToLog on messages with call stacks: forwarded flags differ (model %s, implementation %s); "
                      "the duplicate key must be the full text toString(verbose, templateFormat, templateLocation)" % (vlib.show(m[:k]), vlib.show(i[:k])),
                      {"messages": [vlib.show(m0) for m0 in ms], "rendered_texts": [vlib.show(t) for t in texts_impl],
                       "model_forwarded": vlib.show(m[:k]), "impl_forwarded": vlib.show(i[:k]), "case_line": vlib.enc_case(c),
                       "how": "echo <case_line> | build/harness/vh_c15 htlm  (templates %s / %s)" % ("{file}:{line}:{column}:{id}:{message}", "{file}:{line}:{column}:{info}")})
    # suppression-state records: Suppression::toString, and the parent's reader (the real handleRead through a pipe)
    n = 1500 if quick else 50000
    wcases = [P.gen_ws(rng) for _ in range(n)]
    d = vlib.correspond(run, "Suppression::toString", model, [vh, "sstr"], [c[:5] + [0, False, False, b""] for c in wcases], tag="sstr",
                        nontrivial=lambda c, m, i: sha(vlib.enc_case(c)), bucket=lambda c, m, i: "line" if c[2] != -1 else "noline")
    for c, m, i in d[:2]:
        run.violation("sstr:" + sha(vlib.enc_case(c)), "Suppression::toString: model %s, implementation %s" % (vlib.show(m), vlib.show(i)),
                      {"broken": "correspondence Suppression::toString", "case": vlib.show(c)}, found_input=False)
    _, wo, _ = vlib.run_lines([model], [vlib.enc_case(["swire"] + c) for c in wcases])
    wo = [vlib.dec_line(x) for x in wo]
    wires = [w[0] for w in wo if w and len(w) == 3]
    okflag = {w[0]: (w[1], w[2]) for w in wo if w and len(w) == 3}
    bufs = [[w] for w in dict.fromkeys(wires) if w] + [[P.gen_wire_garbage(rng)] for _ in range(n // 2)]
    bufs = [b for b in bufs if b[0] and b[0].count(b";") >= 4]

    def sb(c, m, i):
        if i and i[0] == b"n":
            return "not added by addSuppression"
        return ("wire_ok," if okflag.get(c[0], (b"0",))[0] == b"1" else "") + ("ok" if m and m[0] == b"ok" else "E" + (m[1].decode() if len(m) > 1 else "?"))

    d = vlib.correspond(run, "handleRead REPORT_SUPPR record", model, [vh, "sread"], bufs, tag="sread", canon=P.canon_sread,
                        nontrivial=lambda c, m, i: sha(c[0]) if not (i and i[0] == b"n") else None, bucket=sb)
    shown = 0
    for c, m, i in d:
        if (i and i[0] == b"n") or shown >= 2:
            continue
        shown += 1
        run.violation("sread:" + sha(c[0]), "handleRead on a suppression record %r: model %s, implementation %s" % (c[0][:60], vlib.show(m), vlib.show(i)),
                      {"broken": "correspondence REPORT_SUPPR reader", "buf": vlib.show(c[0]), "model": vlib.show(m), "impl": vlib.show(i),
                       "how": "echo %s | build/harness/vh_c15 sread" % vlib.enc_case(c)}, found_input=False)
    # the round-trip property itself on the implementation: ws_ok records come back unchanged
    _, io, _ = vlib.run_lines([vh, "sread"], [vlib.enc_case([w[0]]) if w and len(w) == 3 and w[0] else "-" for w in wo])
    st = run.stream("suppression record round trip on implementation")
    for c, w, i in zip(wcases, wo, io):
        if not (w and len(w) == 3 and w[0]):
            continue
        i = P.canon_sread(vlib.dec_line(i))
        st["evaluations"] += 1
        b = "ws_ok" if w[1] == b"1" else "not_ws_ok"
        st["hist"][b] = st["hist"].get(b, 0) + 1
        if w[1] != b"1" or (i and i[0] == b"n"):
            continue
        st["nontrivial"].add(sha(w[0]))
        sent = [b"ok"] + [vlib.dec(vlib.enc(x)) for x in c]
        if i != sent:
            st["disagreements"] += 1
            if st["disagreements"] <= 2:
                run.violation("swire-rt:" + sha(w[0]), "a ws_ok suppression record does not come back unchanged: sent %s, parent holds %s" % (vlib.show(sent), vlib.show(i)),
                              {"record": vlib.show(c), "wire": vlib.show(w[0]), "parent": vlib.show(i)})
    # updateSuppressionState
    n = 800 if quick else 30000
    cs = []
    for _ in range(n):
        l = G.gen_supp_list(rng, rng.randint(0, 5), flags=True)
        us = []
        for _ in range(rng.randint(0, 5)):
            u = list(rng.choice(l)) if l and rng.random() < 0.7 else G.gen_supp(rng, for_list=True)
            u[11], u[12] = rng.random() < 0.5, rng.random() < 0.5
            us.append(u)
        cs.append(G.flat(l) + G.flat(us))
    d = vlib.correspond(run, "updateSuppressionState", model, [vh, "upd"], cs, tag="upd",
                        nontrivial=lambda c, m, i: sha(vlib.enc_case(c)) if (not i or i[0] != b"rejected") else None,
                        bucket=lambda c, m, i: "rejected" if i and i[0] == b"rejected" else "n%s" % c[0])
    shown = 0
    for c, m, i in d:
        if (i and i[0] == b"rejected") or shown >= 2:
            continue
        shown += 1
        run.violation("upd:" + sha(vlib.enc_case(c)), "updateSuppressionState: model %s, implementation %s" % (vlib.show(m), vlib.show(i)),
                      {"broken": "correspondence updateSuppressionState", "case_line": vlib.enc_case(c)}, found_input=False)


# ------------------------------------------------------------------ X2
SNIPPETS = [
    ("arrayIndexOutOfBounds", "int %(f)s(void) {\n  int a[2];\n  a[2] = 0;%(sup)s\n  return a[0];\n}\n"),
    ("nullPointer", "int %(f)s(void) {\n  int *p = 0;\n  return *p;%(sup)s\n}\n"),
    ("zerodiv", "int %(f)s(int x) {\n  int z = 0;\n  return x / z;%(sup)s\n}\n"),
    ("uninitvar", "int %(f)s(void) {\n  int u;\n  return u;%(sup)s\n}\n"),
    ("memleak", "#include <stdlib.h>\nvoid %(f)s(void) {\n  char *m = malloc(10);\n  if (!m) return;\n  m[0] = 0;\n}%(sup)s\n"),
    (None, "int %(f)s(int x) {\n  return x + 1;%(sup)s\n}\n"),
]
HEADER = "static inline int hdr_%(n)d(void) {\n  int h[3];\n  h[3] = 1;\n  return h[0];\n}\n"
# helpers whose finding lies in the header while its note trail passes through the calling translation unit
TRAIL_HEADER = ("#ifndef TRAIL_H\n#define TRAIL_H\nstatic inline int scale(int value, int divisor)\n{\n    return value / divisor;\n}\n"
                "static inline int ratio(int a, int b)\n{\n    return a % b;\n}\n#endif\n")
TRAIL_CALLS = ["int %(f)s(int v)\n{\n    int d = 0;\n    return scale(v, d);\n}\n",
               "int %(f)s(int w)\n{\n    int z = 0;\n    return ratio(w, z);\n}\n"]


def gen_project(rng, d, hostile=None):
    """writes a small project into d; returns (files, options, description)"""
    nfiles = rng.randint(2, 5)
    files, desc = [], []
    nh = rng.randint(0, 2)
    for h in range(nh):
        open(os.path.join(d, "h%d.h" % h), "w").write(HEADER % {"n": h})
    ids_used = set()
    trail = hostile is None and rng.random() < 0.6
    if trail:
        open(os.path.join(d, "trail.h"), "w").write(TRAIL_HEADER)
    for k in range(nfiles):
        name = "f%d.c" % k
        body = ""
        if trail and (k < 2 or rng.random() < 0.6):
            body += '#include "trail.h"\n' + rng.choice(TRAIL_CALLS) % {"f": "tr_%d" % k}
        for h in range(nh):
            if rng.random() < 0.6:
                body += '#include "h%d.h"\n' % h
        for j in range(rng.randint(1, 3)):
            fid, tmpl = rng.choice(SNIPPETS)
            sup = ""
            r = rng.random()
            if r < 0.2 and fid:
                sup = " // cppcheck-suppress " + fid
            elif r < 0.3:
                sup = " // cppcheck-suppress " + rng.choice(["nullPointer", "uninitvar", "doesNotExist"])
            if fid:
                ids_used.add(fid)
            body += tmpl % {"f": "fn_%d_%d" % (k, j), "sup": sup}
        if rng.random() < 0.25:
            body = "// cppcheck-suppress-file " + rng.choice(["zerodiv", "nullPointer"]) + "\n" + body
        with open(os.path.join(d, name), "w") as f:
            f.write(body)
        files.append(name)
    opts = ["--inline-suppr"] if rng.random() < 0.7 else []
    if rng.random() < 0.7:
        opts.append("--enable=" + rng.choice(["information", "warning,information", "style,information", "warning,style,performance,portability,information"]))
    for _ in range(rng.randint(0, 3)):
        sid = rng.choice(["nullPointer", "zerodiv", "uninitvar", "arrayIndexOutOfBounds", "null*", "*", "unusedVariable", "memleak"])
        r = rng.random()
        if r < 0.4:
            opts.append("--suppress=" + sid)
        elif r < 0.8:
            opts.append("--suppress=%s:%s" % (sid, rng.choice(files + ["h0.h", "*.h", "nofile.c"])))
        else:
            opts.append("--suppress=%s:%s:%d" % (sid, rng.choice(files), rng.randint(1, 6)))
    if rng.random() < 0.6:
        opts.append("--error-exitcode=%d" % rng.choice([1, 7]))
    if rng.random() < 0.2:
        opts.append("--inconclusive")
    if hostile:
        opts = ["--error-exitcode=1"]      # nothing that could hide the hostile finding
    if hostile == "nonprint":
        with open(os.path.join(d, "hostile.c"), "wb") as f:
            f.write(b"#error caf\xc3\xa9\tbar\nint hostile;\n")
        files.append("hostile.c")
    if hostile == "tab":
        with open(os.path.join(d, "t\tb.c"), "w") as f:
            f.write(SNIPPETS[0][1] % {"f": "tabfn", "sup": ""})
        files.append("t\tb.c")
    return files, opts


WP_SEEN = [False]


def whole_program_id(i):
    """whole-program findings are outside the equality when no build dir is used (property statement)"""
    r = i == "unusedFunction" or i.startswith("ctu")
    if r:
        WP_SEEN[0] = True
    return r


def run_cppcheck(d, files, opts, par, xml):
    fmt = {True: ["--xml"], False: ["--template={file}:{line}:{column}:{severity}:{id}:{message}"], "default": []}[xml]
    cmd = [vlib.CPPCHECK, "-q"] + opts + par + fmt + files
    p = subprocess.run(cmd, cwd=d, stdout=subprocess.PIPE, stderr=subprocess.PIPE, timeout=300)
    err = p.stderr.decode("latin-1")
    if xml is True:
        items = re.findall(r"<error .*?</error>|<error [^>]*/>", err, re.S)
        canon = []
        for it in items:
            head = re.match(r"<error ([^>]*)>", it).group(1)
            attrs = dict(re.findall(r'(\w+)="([^"]*)"', head))
            locs = sorted(tuple(sorted(dict(re.findall(r'(\w+)="([^"]*)"', l)).items())) for l in re.findall(r"<location ([^>]*)/>", it))
            # the statement compares ids, severities, messages, locations
            if whole_program_id(attrs.get("id") or ""):
                continue
            canon.append(repr(((attrs.get("id"), attrs.get("severity"), attrs.get("msg"), attrs.get("verbose"), attrs.get("inconclusive")), locs)))
        return sorted(canon), p.returncode
    lines = [l for l in err.split("\n") if l.strip()]
    if xml == "default":
        # blocks: a head line `file:line:col: severity: message [id]` with its note / code / caret lines;
        # the comparison is on whole blocks (full text incl. the note trail)
        blocks, cur = [], None
        for l in lines:
            if re.match(r"^\S.*: (error|warning|style|performance|portability|information|debug): .*\[[\w-]+\]$", l) and ": note: " not in l:
                cur = [l]
                blocks.append(cur)
            elif cur is not None:
                cur.append(l)
            else:
                blocks.append([l])
        keep = [b for b in blocks if not whole_program_id(re.search(r"\[([\w-]+)\]$", b[0]).group(1) if re.search(r"\[([\w-]+)\]$", b[0]) else "")]
        return sorted("\n".join(b) for b in keep), p.returncode
    lines = [l for l in lines if not (len(l.split(":")) > 4 and whole_program_id(l.split(":")[4]))]
    return sorted(lines), p.returncode


def x2(run, quick):
    rng = run.rng
    nproj = 14 if quick else 150
    configs = [["-j2", "--executor=thread"], ["-j4", "--executor=thread"], ["-j2", "--executor=process"], ["-j4", "--executor=process"]]
    if not quick:
        configs += [["-j7", "--executor=thread"], ["-j7", "--executor=process"]]
    base = tempfile.mkdtemp(prefix="c15_x2_")
    st = run.stream("X2 -j1 vs -jN on the binary")
    try:
        plan = [None] * nproj + ["nonprint", "tab"] * (1 if quick else 3)
        for n, hostile in enumerate(plan):
            d = os.path.join(base, "p%d" % n)
            os.makedirs(d)
            files, opts = gen_project(rng, d, hostile)
            for xml in (False, True, "default"):
                WP_SEEN[0] = False
                ref, rc = run_cppcheck(d, files, opts, ["-j1"], xml)
                for par in configs:
                    out, rc2 = run_cppcheck(d, files, opts, par, xml)
                    st["evaluations"] += 1
                    if ref:
                        st["nontrivial"].add("%d/%s/%s" % (n, xml, " ".join(par)))
                    fmtname = {True: "xml", False: "text", "default": "default-template"}[xml]
                    b = "%s,%s,%s" % (hostile or "plain", fmtname, par[1][11:])
                    st["hist"][b] = st["hist"].get(b, 0) + 1
                    if out == ref and (rc == rc2 or WP_SEEN[0]):
                        continue
                    st["disagreements"] += 1
                    only1 = [x for x in ref if x not in out]
                    onlyn = [x for x in out if x not in ref]
                    srcs = {}
                    for fn in sorted(os.listdir(d)):
                        srcs[fn] = open(os.path.join(d, fn), "rb").read().decode("latin-1")
                    rep = {"files": srcs, "options": opts, "parallel": par, "format": fmtname,
                           "only_in_j1": only1[:6], "only_in_jN": onlyn[:6], "exit_j1": rc, "exit_jN": rc2,
                           "how": "write the files, run build/repo/bin/cppcheck -q <options> -j1 <files> and again with <parallel>; compare sorted stderr"}
                    if hostile == "nonprint" and par[1].endswith("process") and rc == rc2:
                        run.violation(K_FIX, "-j1 and the process executor print different message texts for non-printable bytes", rep)
                    elif hostile == "tab" and par[1].endswith("process") and rc == rc2:
                        run.violation(K_TAB, "a tab in a file name changes the reported location under the process executor", rep)
                    else:
                        key = "x2:" + sha(repr((sorted(srcs.items()), opts, par, xml)))
                        run.violation(key, "-j1 and %s report different findings/exit status (%s): only -j1 %s, only -jN %s, exit %s vs %s"
                                      % (" ".join(par), fmtname, only1[:2], onlyn[:2], rc, rc2), rep)
    finally:
        shutil.rmtree(base, ignore_errors=True)


def witness_replays(run):
    """the (former) witnesses of parallel_eq_single, replayed on the binary"""
    st = run.stream("witness replay on the binary")
    base = tempfile.mkdtemp(prefix="c15_wit_")
    try:
        # the former counterexample of parallel_eq_single (fixed by 243c78e): equal rendered texts within one file + a global
        # suppression of the second finding; the model says the executors agree (C15_former_texts_witness_agrees)
        open(os.path.join(base, "a.c"), "w").write("int f(int x) {\n  int *p = 0;\n  int z = 0;\n  return *p + x / z;\n}\n")
        open(os.path.join(base, "b.c"), "w").write("int g(int x) { return x; }\n")
        opts = ["--enable=information", "--suppress=zerodiv", "--xml", "--template={file}:{line}:{severity}"]

        def ids(par):
            p = subprocess.run([vlib.CPPCHECK, "-q"] + opts + par + ["a.c", "b.c"], cwd=base, stdout=subprocess.PIPE, stderr=subprocess.PIPE, timeout=120)
            return sorted(x for x in re.findall(r'<error id="([^"]*)"', p.stderr.decode("latin-1")) if x != "checkersReport"), p.returncode
        ref = ids(["-j1"])
        for par in (["-j2", "--executor=thread"], ["-j2", "--executor=process"]):
            out = ids(par)
            st["evaluations"] += 1
            st["nontrivial"].add(" ".join(par))
            st["hist"]["texts_ok," + par[1][11:]] = 1
            if out != ref:
                st["disagreements"] += 1
                rep = {"files": {"a.c": open(os.path.join(base, "a.c")).read(), "b.c": open(os.path.join(base, "b.c")).read()},
                       "options": opts, "parallel": par, "j1": ref, "jN": out, "theorem": "C15_former_texts_witness_agrees / C15_parallel_eq_single_*"}
                run.violation("witness:" + sha(repr((ref, out, par))),
                              "two findings of one file with the same rendered text and a global suppression of the second (fixed by 243c78e): "
                              "-j1 reports %s, %s reports %s" % (ref, " ".join(par), out), rep)
    finally:
        shutil.rmtree(base, ignore_errors=True)


def check(run, replay):
    quick = run.tier == "quick"
    run.trusted_base += [
        "Coq 8.16.1 kernel (coqc); vm_compute only in the finite severity-table lemmas (bound sev_count in the statement), the _refuted witnesses and the Examples",
        "extraction: Require Extraction + ExtrOcamlBasic only",
        "ocaml/driver.ml, harness/vh_common.h + vh_c15.cpp (decode a case; call ErrorMessage::serialize/deserialize/fixInvalidChars, strToInt, Path::simplifyPath, Executor::hasToLog, SuppressionList::updateSuppressionState)",
        "tools/translate/severity.py (regex reader of enum Severity, severityToString, severityFromString, PipeSignal)",
        "Path::simplifyPath is a parameter `simp` of the codec theorems (hypothesis: frame file names are fixed points); the executable instance is the identity, exercised on names already simplified by the implementation",
        "libstdc++ semantics of `istream >> unsigned`, std::stoll/stoull and std::isprint (\"C\" locale) as modelled in Par/Defs.v; tied by X1 on this toolchain only",
        "modelled, not verified: lib/errorlogger.cpp ErrorMessage::serialize/deserialize/fixInvalidChars, lib/utils.h strToInt, cli/executor.cpp Executor::hasToLog, lib/suppressions.cpp updateSuppressionState; the suppression query is C23's model (Supp/Defs.v)",
        "not modelled: CppCheck::check itself (each file's message stream is an input of the merge theorem: C17/C29), the per-file CppCheckLogger in front of hasToLog (C23), whole-program analysis, ThreadExecutor's locking (C16), markup files",
    ]
    run.assumptions += ["g++ compiles /repo faithfully", "each file's message stream does not depend on the schedule (C17/C29); the merge theorem quantifies over interleavings of given streams"]
    run.extra["rule"] = ("X1: messages with every string drawn from 6 alphabets (ascii, length-prefix look-alikes, blanks/tabs, control bytes, "
                         "all bytes, empty), numbers at type limits, 0-5 frames, 15% of frames with tabs in file names; malformed wires = "
                         "2 mutations per valid wire (truncate, overwrite, insert blank/sign/digit, delete, append frame, random). Non-trivial = distinct case "
                         "(fix: has a byte outside 0x20..0x7e). X2: generated projects of 2-5 files with 0-2 shared headers, inline/file/global suppressions, "
                         "optional --enable/--error-exitcode/--inconclusive; non-trivial = the -j1 run reports at least one line.")
    vlib.ensure_repo_build()
    try:
        info = T.translate(vlib.REPO, os.path.join(vlib.COQ, "theories", "Par", "Gen_Severity.v"))
        run.extra["translator"] = {"severities": info["severities"], "pipe_signals": info["pipe_signals"]}
    except (T.TranslateError, OSError) as e:
        run.violation("translate:severity", "tools/translate/severity.py cannot read the source: %s" % e,
                      {"broken": "translator", "detail": str(e)}, found_input=False)
        return
    ok = run.prove(extra_targets=["theories/Par/Run.vo"])
    if not ok:
        run.violation("proof:" + PID, "Properties_C15.vo does not build: " + str(run.proof_error())[:300],
                      {"broken": "proof", "detail": run.proof_error()}, found_input=False)
    if not os.path.exists(os.path.join(vlib.COQ, "theories/Par/Run.vo")):
        return
    model = vlib.build_model(PID)
    vh = vlib.build_harness(PID)
    x1(run, model, vh, quick)
    x2(run, quick)
    witness_replays(run)


if __name__ == "__main__":
    vlib.main(check, PID)
