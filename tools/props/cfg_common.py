"""Generators, renderers and the shrinker shared by the C12 check.
A tree is a list of nodes; node = ("c",) code line | ("g", kind, macro, body, elifs, els)
with kind in d n D N (#ifdef, #ifndef, #if defined(), #if !defined()), elifs = [(E|F, macro, body)],
els = list or None. Directive fields are the wire format of coq/theories/Cfg/Run.v dir_of."""

NAMES = [b"A", b"B", b"C", b"AB", b"A1", b"Ab", b"B2", b"X", b"Y", b"Z", b"A_", b"a", b"b0", b"M", b"AA", b"A0A",
         b"K", b"L", b"P", b"Q", b"R", b"S", b"T", b"U", b"V", b"W"]


def pick(rng, names, fresh):
    if fresh is None:
        return rng.choice(names)
    if fresh[0] >= len(names):
        fresh[0] += 1
        return b"M%d" % fresh[0]
    m = names[fresh[0]]
    fresh[0] += 1
    return m


def gen_forest(rng, depth, names, fresh, allow_elif, kinds, p_group=0.55, maxlen=3, p_else=0.5, top=True):
    out = []
    n = rng.randint(1, maxlen) if top else rng.randint(0, maxlen)
    for _ in range(n):
        if depth > 0 and rng.random() < p_group:
            k = rng.choice(kinds)
            m = pick(rng, names, fresh)
            body = gen_forest(rng, depth - 1, names, fresh, allow_elif, kinds, p_group, maxlen, p_else, False)
            elifs = []
            if allow_elif:
                while rng.random() < 0.25:
                    elifs.append((rng.choice("EF"), pick(rng, names, fresh),
                                  gen_forest(rng, depth - 1, names, fresh, allow_elif, kinds, p_group, maxlen, p_else, False)))
            els = gen_forest(rng, depth - 1, names, fresh, allow_elif, kinds, p_group, maxlen, p_else, False) \
                if rng.random() < p_else else None
            out.append(("g", k, m, body, elifs, els))
        else:
            out.append(("c",))
    return out


def gen_tree(rng, distinct, allow_elif=True, kinds="dnDN", maxdepth=4):
    names = list(NAMES)
    rng.shuffle(names)
    if not distinct:
        names = names[:rng.choice([3, 5, 8, 26])]
    return gen_forest(rng, rng.randint(1, maxdepth), names, [0] if distinct else None, allow_elif, kinds)


def gen_okf(rng, maxdepth=5):
    """trees of the proved sub-family okf 0: kinds d D n, distinct macros, no elif; an #else on a d/D group
    only where k = 0 (outside all bodies; else-branches of such groups are k = 0 again)"""
    names = list(NAMES)
    rng.shuffle(names)
    fresh = [0]

    def forest(k, depth, top):
        out = []
        for _ in range(rng.randint(1 if top else 0, 3)):
            if depth > 0 and rng.random() < 0.6:
                kind = rng.choice("dDn")
                m = pick(rng, names, fresh)
                body = forest(k + 1, depth - 1, False)
                els = None
                if rng.random() < 0.6:
                    if kind == "n":
                        els = forest(k + 1, depth - 1, False)
                    elif k == 0:
                        els = forest(0, depth - 1, False)
                out.append(("g", kind, m, body, [], els))
            else:
                out.append(("c",))
        return out
    return forest(0, rng.randint(1, maxdepth), True)


def flatten(tree, counter=None):
    """directive fields; code lines numbered 3,4,... in file order"""
    counter = counter if counter is not None else [3]
    out = []
    for n in tree:
        if n[0] == "c":
            out.append(b"c%d" % counter[0])
            counter[0] += 1
        else:
            _, k, m, body, elifs, els = n
            out.append(k.encode() + m)
            out += flatten(body, counter)
            for ek, em, eb in elifs:
                out.append(ek.encode() + em)
                out += flatten(eb, counter)
            if els is not None:
                out.append(b"e")
                out += flatten(els, counter)
            out.append(b"x")
    return out


def macros_of(fields):
    return sorted({f[1:] for f in fields if f[:1] in (b"d", b"n", b"D", b"N", b"E", b"F")})


def gen_user(rng, fields, p=0.5):
    """-D / -U sets: mostly macros of the file, mostly disjoint"""
    ms = macros_of(fields) + [b"ZZ"]
    d, u = [], []
    if rng.random() < p:
        for m in ms:
            r = rng.random()
            if r < 0.2:
                d.append(m)
            elif r < 0.4:
                u.append(m)
            elif r < 0.45:      # both -Dm and -Um: simplecpp lets -U win
                d.append(m)
                u.append(m)
    return d, u


def render_line(f):
    m = f[1:].decode()
    k = f[:1]
    if k in b"dnDNEF":
        return {b"d": "#ifdef %s", b"n": "#ifndef %s", b"D": "#if defined(%s)", b"N": "#if !defined(%s)",
                b"E": "#elif defined(%s)", b"F": "#elif !defined(%s)"}[k] % m
    return {b"e": "#else", b"x": "#endif"}.get(k) or "{ int vv[1]; vv[%s]=0; }" % m


def render_source(fields):
    """same text as harness/vh_c12.cpp renderDirective; returns (text, {line number -> id})"""
    lines = ["void f() {"]
    where = {}
    for f in fields:
        lines.append(render_line(f))
        if f[:1] == b"c":
            where[len(lines)] = int(f[1:])
    lines.append("}")
    return "\n".join(lines) + "\n", where


# ---- shrinking of a tree that has an uncovered line
def shrink_candidates(tree):
    """smaller / simpler variants of a tree, most aggressive first"""
    res = []
    for i, n in enumerate(tree):
        pre, post = tree[:i], tree[i + 1:]
        res.append(pre + post)                                       # drop the node
        if n[0] == "g":
            _, k, m, body, elifs, els = n
            res.append(pre + body + post)                            # unwrap body
            if els is not None:
                res.append(pre + els + post)
                res.append(pre + [("g", k, m, body, elifs, None)] + post)
            if elifs:
                res.append(pre + [("g", k, m, body, elifs[:-1], els)] + post)
                res.append(pre + [("g", k, m, body, [], els)] + post)
            for k2 in {"D": "d", "N": "n", "n": "d"}.get(k, ""):
                res.append(pre + [("g", k2, m, body, elifs, els)] + post)
            for b2 in shrink_candidates(body):
                res.append(pre + [("g", k, m, b2, elifs, els)] + post)
            if els is not None:
                for e2 in shrink_candidates(els):
                    res.append(pre + [("g", k, m, body, elifs, e2)] + post)
            for j, (ek, em, eb) in enumerate(elifs):
                for e2 in shrink_candidates(eb):
                    res.append(pre + [("g", k, m, body, elifs[:j] + [(ek, em, e2)] + elifs[j + 1:], els)] + post)
    return res


def canonical(tree):
    """shape key: macros renamed in order of appearance, code ids dropped"""
    ren = {}
    out = []
    for f in flatten(tree):
        k = f[:1]
        if k in b"dnDNEF":
            ren.setdefault(f[1:], "m%d" % len(ren))
            out.append(k.decode() + ren[f[1:]])
        elif k == b"c":
            out.append("c")
        else:
            out.append(k.decode())
    return "_".join(out)
