"""C07 helpers: expression generator, encodings for the model / harness, canonical tree comparison.

An expression is a tuple:
  ('i', n) ('n', n) ('p', code, a) ('q', code, a) ('b', code, a, b) ('a', code, a, b)
  ('c', c, a, b) ('k', a, b) ('f', f) ('g', f, a) ('x', a, i) ('m', n, a) ('r', a)
mirroring CV.Ast.Defs.expr (labels are assigned by the model: canon).
"""
import itertools

NAMES = ["a", "b", "c", "d", "p", "q", "s", "ps", "f", "g", "arr", "x", "y", "n", "r", "m"]
NID = {n: i for i, n in enumerate(NAMES)}
TYPES = ["int", "unsigned char", "int *", "T *", "struct S *", "long", "T"]
TYPEWORDS = {"int", "unsigned", "char", "long", "short", "signed", "T", "struct", "S", "*"}
PRELUDE = ("typedef int T; struct S { int x; int y; struct S *n; int (*m)(int); }; int a,b,c,d,r; int *p; int *q; struct S s; "
           "struct S *ps; int (*f)(int,int); int (*g)(int); int arr[10];")
OPR = ["+", "-", "*", "/", "%", "&", "|", "^", "<<", ">>", "<", "<=", ">", ">=", "<=>", "==", "!=", "&&", "||",
       "!", "~", "++", "--", "=", "+=", "-=", "*=", "/=", "%=", "&=", "|=", "^=", "<<=", ">>="]
OPR_CODE = {s: i for i, s in enumerate(OPR)}
PRE = ["+", "-", "!", "~", "*", "&", "++", "--"]
BIN = ["*", "/", "%", "+", "-", "<<", ">>", "<=>", "<", "<=", ">", ">=", "==", "!=", "&", "^", "|", "&&", "||"]
ASG = ["=", "+=", "-=", "*=", "/=", "%=", "&=", "|=", "^=", "<<=", ">>="]
BIN_PREC = [13, 13, 13, 12, 12, 11, 11, 10, 9, 9, 9, 9, 8, 8, 7, 6, 5, 4, 3]
ARITY = {'t': 1, 'i': 0, 'n': 0, 'p': 1, 'q': 1, 'b': 2, 'a': 2, 'c': 3, 'k': 2, 'f': 1, 'g': 2, 'x': 2, 'm': 1, 'r': 1}


def kids(e):
    k = ARITY[e[0]]
    return list(e[len(e) - k:]) if k else []


def with_kids(e, ks):
    k = ARITY[e[0]]
    return tuple(e[:len(e) - k]) + tuple(ks)


def size(e):
    return 1 + sum(size(k) for k in kids(e))


def depth(e):
    return 1 + max([depth(k) for k in kids(e)] + [0])


def fields(e):
    t = e[0]
    if t in "in":
        out = [("%s%d" % (t, e[1])).encode()]
    elif t in "pqbamt":
        out = [("%s%d" % (t, e[1])).encode()]
    else:
        out = [t.encode()]
    for k in kids(e):
        out += fields(k)
    return out


def prec(e):
    t = e[0]
    if t in "inr":
        return 17
    if t in 'pt':
        return 15
    if t in "qfgxm":
        return 16
    if t == 'b':
        return BIN_PREC[e[1]]
    if t in "ac":
        return 2
    return 1


def show(e):
    """readable text with minimal parentheses (same rule as CV.Ast.Defs.render), for replays only"""
    def sub(m, x):
        return "( %s )" % show(x) if prec(x) < m else show(x)
    t = e[0]
    if t == 'i':
        return NAMES[e[1]]
    if t == 'n':
        return str(e[1])
    if t == 'p':
        return "%s %s" % (PRE[e[1]], sub(15, e[2]))
    if t == 'q':
        return "%s %s" % (sub(16, e[2]), ["++", "--"][e[1]])
    if t == 'b':
        return "%s %s %s" % (sub(BIN_PREC[e[1]], e[2]), BIN[e[1]], sub(BIN_PREC[e[1]] + 1, e[3]))
    if t == 'a':
        return "%s %s %s" % (sub(3, e[2]), ASG[e[1]], sub(2, e[3]))
    if t == 'c':
        return "%s ? %s : %s" % (sub(3, e[1]), sub(1, e[2]), sub(2, e[3]))
    if t == 'k':
        return "%s , %s" % (sub(1, e[1]), sub(2, e[2]))
    if t == 'f':
        return "%s ( )" % sub(16, e[1])
    if t == 'g':
        return "%s ( %s )" % (sub(16, e[1]), sub(1, e[2]))
    if t == 'x':
        return "%s [ %s ]" % (sub(16, e[1]), sub(1, e[2]))
    if t == 'm':
        return "%s . %s" % (sub(16, e[2]), NAMES[e[1]])
    if t == 'r':
        return "( %s )" % show(e[1])
    if t == 't':
        return "( %s ) %s" % (TYPES[e[1]], sub(15, e[2]))
    raise ValueError(e)


# ---------------------------------------------------------------- tokens
def tokfield_text(f):
    """model token field -> C text"""
    f = f.decode()
    if f[0] == 'i':
        return NAMES[int(f[1:])]
    if f[0] == 'n':
        return f[1:]
    if f[0] == 'o':
        return OPR[int(f[1:])]
    if f[0] == 't':
        return TYPES[int(f[1:])]
    return f


def text_tokfield(s, flags, prev):
    """harness token -> model token field, or None when the token is outside the model's token language"""
    if s in OPR_CODE:
        if 'l' in flags:
            return None      # a '<' or '>' that the tokenizer linked as a template bracket
        return ("o%d" % OPR_CODE[s]).encode()
    if s in ("(", ")", "[", "]", "?", ":", ",", ".", ";"):
        return s.encode()
    if 'd' in flags and s.isdigit():
        return ("n%d" % int(s)).encode()
    if 'n' in flags and s in NID:
        if 'v' not in flags and prev != ".":
            return None
        return ("i%d" % NID[s]).encode()
    return None


def type_positions(strs):
    """positions of the tokens that spell the type of a C-style cast: a whole pseudo token ("int *") or the
    tokens of a parenthesis group that consists of type words and '*' only"""
    out = set()
    for i, x in enumerate(strs):
        if " " in x and x in TYPES:      # model-side pseudo token such as "int *"
            out.add(i)
        if x == "(":
            j = i + 1
            while j < len(strs) and strs[j] in TYPEWORDS:
                j += 1
            if j > i + 1 and j < len(strs) and strs[j] == ")" and any(strs[k] != "*" for k in range(i + 1, j)):
                out.update(range(i + 1, j))
    return out


def plain(strs):
    """operator / operand tokens only (no parentheses, no cast types)"""
    tp = type_positions(strs)
    return [x for i, x in enumerate(strs) if x not in ("(", ")", ";") and i not in tp]


def has_cast(e):
    return e[0] == 't' or any(has_cast(k) for k in kids(e))


def canon_tree(strs, links):
    """strs: token strings; links: {idx: (o1, o2)} with None for absent.
    Returns the set of (ordinal, str, ord1, ord2) over the tokens that are tree nodes, where ordinals count
    the tokens that can be nodes (everything except ')' ']' and '(' that are plain grouping)."""
    nodes = set()
    for i, (a, b) in links.items():
        if a is None and b is None:
            continue
        nodes.add(i)
        if a is not None:
            nodes.add(a)
        if b is not None:
            nodes.add(b)
    ordn, k = {}, 0
    tp = type_positions(strs)
    for i, s in enumerate(strs):
        if s in (")", "]", ";") or (s == "(" and i not in nodes) or i in tp:
            continue
        ordn[i] = k
        k += 1
    out = set()
    for i, (a, b) in links.items():
        if a is None and b is None:
            continue
        out.add((ordn.get(i, -1), strs[i], ordn.get(a, -1) if a is not None else None, ordn.get(b, -1) if b is not None else None))
    return out


def table_links(fs, labelpos=None):
    """model table fields (label o1 o2)* -> {pos: (o1, o2)}"""
    links = {}
    for i in range(0, len(fs) - 2, 3):
        lab = int(fs[i])
        a = int(fs[i + 1]) if fs[i + 1] else None
        b = int(fs[i + 2]) if fs[i + 2] else None
        links[lab] = (a, b)
    return links


def sexpr(strs, links, root=None):
    """readable prefix form of the forest"""
    children = set()
    for i, (a, b) in links.items():
        children.update(x for x in (a, b) if x is not None)

    def go(i, d=0):
        if d > 200:
            return "..."
        a, b = links.get(i, (None, None))
        if a is None and b is None:
            return strs[i] if 0 <= i < len(strs) else "?"
        return "(%s %s%s)" % (strs[i], go(a, d + 1) if a is not None else "_", " " + go(b, d + 1) if b is not None else "")
    roots = [i for i in sorted(links) if i not in children and links[i] != (None, None)]
    return " ; ".join(go(i) for i in roots) if roots else "(no tree)"


# ---------------------------------------------------------------- generation
LEAF_INT = [NID[x] for x in ("a", "b", "c", "d")]


def lval(rng, d, cpp, wild):
    """an expression that can be an lvalue in C: id, * e, e [ i ], e . m, ( lvalue )"""
    if wild:
        return gen(rng, d, cpp, wild)
    r = rng.random()
    if d <= 1 or r < 0.5:
        return ('i', rng.choice(LEAF_INT + [NID["p"], NID["q"]]))
    if r < 0.65:
        return ('p', 4, gen(rng, d - 1, cpp, wild))
    if r < 0.8:
        return ('x', base(rng, d - 1, cpp, wild), gen(rng, d - 1, cpp, wild))
    if r < 0.93:
        return ('m', rng.choice([NID["x"], NID["y"], NID["n"], NID["m"]]), base(rng, d - 1, cpp, wild))
    return ('r', lval(rng, d - 1, cpp, wild))


def gen(rng, d, cpp=False, wild=False):
    """random expression, depth <= d, all modelled operators.  wild=False: operands of ++ -- & and the left side
    of assignments are lvalue-shaped, callees are not numbers (what compilers accept); wild=True: any shape."""
    if d <= 1 or rng.random() < 0.12:
        r = rng.random()
        if r < 0.7:
            return ('i', rng.choice(LEAF_INT + [NID["p"], NID["q"], NID["arr"]]))
        return ('n', rng.choice([0, 1, 2, 7, 10]))
    r = rng.random()
    g = lambda: gen(rng, d - 1, cpp, wild)
    if r < 0.34:
        ops = [o for o in range(19) if o != 7]    # '<=>' needs C++20 lexing; fixed corpus only
        return ('b', rng.choice(ops), g(), g())
    if r < 0.46:
        o = rng.choice([1, 1, 2, 3, 4, 4, 5, 6, 7] + ([0] if rng.random() < 0.3 else []))
        a = lval(rng, d - 1, cpp, wild) if o in (5, 6, 7) else g()
        if o in (6, 7) and a[0] == 'p' and a[1] in (0, 1, 2, 3, 5):
            a = ('r', a)
        return ('p', o, a)
    if r < 0.52:
        a = lval(rng, d - 1, cpp, wild)
        if a[0] == 'q':
            a = ('r', a)
        return ('q', rng.randrange(2), a)
    if r < 0.60:
        return ('a', rng.randrange(11), lval(rng, d - 1, cpp, wild), g())
    if r < 0.67:
        return ('c', g(), g(), g())
    if r < 0.71:
        return ('k', g(), g())
    if r < 0.79:
        f = callee(rng, d - 1, cpp, wild)
        if rng.random() < 0.25:
            return ('f', f)
        return ('g', f, g())
    if r < 0.85:
        return ('x', base(rng, d - 1, cpp, wild), g())
    if r < 0.91:
        return ('m', rng.choice([NID["x"], NID["y"], NID["n"], NID["m"]]), base(rng, d - 1, cpp, wild))
    if r < 0.96:
        return ('t', rng.randrange(len(TYPES)), cast_operand(rng, d - 1, cpp, wild))
    return ('r', g())


def cast_operand(rng, d, cpp, wild):
    """what follows a cast: mostly the prefix-unary shapes (the cast / binary-operator ambiguity of iscast)"""
    r = rng.random()
    lv = lambda: lval(rng, max(d - 1, 1), cpp, False)
    if r < 0.6:
        k = rng.randrange(10)
        if k == 0:
            return ('p', 6, ('p', 4, lv()))           # ++ * p
        if k == 1:
            return ('p', 7, ('p', 4, lv()))           # -- * q
        if k == 2:
            return ('p', rng.choice([6, 7]), lv())    # ++ x
        if k == 3:
            return ('t', rng.randrange(len(TYPES)), cast_operand(rng, d - 1, cpp, wild))
        if k == 4:
            return ('r', gen(rng, d, cpp, wild))
        return ('p', rng.choice([0, 1, 2, 3, 4, 5]), lv() if rng.random() < 0.7 else gen(rng, d, cpp, wild))
    return gen(rng, d, cpp, wild)


def callee(rng, d, cpp, wild=False):
    r = rng.random()
    if r < 0.6:
        return ('i', rng.choice([NID["f"], NID["g"]]))
    if r < 0.8 and not wild:
        return rng.choice([('m', NID["m"], ('i', NID["s"])), ('r', ('p', 4, ('i', NID["f"]))), ('r', ('i', NID["g"])),
                           ('m', NID["m"], ('i', NID["ps"]))])
    e = gen(rng, d, cpp, wild)
    if e[0] in ('n', 'q'):
        e = ('r', e)
    return e


def base(rng, d, cpp, wild=False):
    r = rng.random()
    if r < 0.5:
        return ('i', rng.choice([NID["s"], NID["ps"], NID["arr"], NID["p"]]))
    e = gen(rng, d, cpp, wild)
    if e[0] == 'n':
        e = ('r', e)
    return e


def wf_py(e):
    t = e[0]
    if t == 'p' and e[1] in (6, 7) and e[2][0] == 'p' and e[2][1] in (0, 1, 2, 3, 5):
        return False
    if t == 'q' and e[2][0] == 'q':
        return False
    if t in 'fg' and e[1][0] in ('n', 'q'):
        return False
    return all(wf_py(k) for k in kids(e))


def enumerate_exprs(n, leaves, pre, post, bins, asgs, extras=True):
    """all expressions with exactly n nodes over the given alphabets"""
    memo = {}

    def go(k):
        if k in memo:
            return memo[k]
        out = []
        if k == 1:
            out = list(leaves)
        else:
            for a in go(k - 1):
                out += [('p', o, a) for o in pre]
                out += [('q', o, a) for o in post]
                if extras:
                    out += [('f', a), ('m', NID["x"], a), ('r', a), ('t', 0, a)]
            for i in range(1, k - 1):
                for a, b in itertools.product(go(i), go(k - 1 - i)):
                    out += [('b', o, a, b) for o in bins]
                    out += [('a', o, a, b) for o in asgs]
                    if extras:
                        out += [('k', a, b), ('g', a, b), ('x', a, b)]
            for i in range(1, k - 2):
                for j in range(1, k - 1 - i):
                    for c, a, b in itertools.product(go(i), go(j), go(k - 1 - i - j)):
                        out.append(('c', c, a, b))
        memo[k] = out
        return out
    return go(n)


def shrink_candidates(e):
    """strictly smaller expressions derived from e"""
    out = []
    ks = kids(e)
    out += ks
    for i, k in enumerate(ks):
        for k2 in shrink_candidates(k)[:6]:
            out.append(with_kids(e, ks[:i] + [k2] + ks[i + 1:]))
        if k[0] not in 'in':
            out.append(with_kids(e, ks[:i] + [('i', 0)] + ks[i + 1:]))
    return out
