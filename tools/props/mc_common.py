"""C33 helpers: generation of the pattern translation units (through the real
tools/matchcompiler.py), pattern generators (documented grammar + hostile words), token-list
sources (real tokenised files, property flips)."""
import glob
import hashlib
import io
import os
import re
import sys

sys.path.insert(0, os.path.dirname(os.path.dirname(os.path.abspath(__file__))))
import vlib
from translate import patterns as P

KINDS = P.KINDS
CMDS = ["%any%", "%assign%", "%bool%", "%char%", "%comp%", "%cop%", "%name%", "%num%", "%op%", "%or%", "%oror%",
        "%str%", "%type%", "%var%", "%varid%"]


def c_escape(b):
    out = ""
    for c in b:
        if c == 0x22:
            out += '\\"'
        elif c == 0x5c:
            out += "\\\\"
        elif 32 <= c < 127:
            out += chr(c)
        else:
            raise ValueError("pattern byte %d not representable" % c)
    return out


def entry_line(i, kind, has_varid, has_end, raw):
    """one line: the function for pattern i (raw = C literal text)"""
    sig = "static const Token* p%d(const Token* tok, const Token* end, int varid, bool& b) { (void)tok; (void)end; (void)varid; (void)b; " % i
    if kind == 0:
        call = 'b = Token::Match(tok, "%s"%s); return nullptr;' % (raw, ", varid" if has_varid else "")
    elif kind == 1:
        call = 'b = Token::simpleMatch(tok, "%s"); return nullptr;' % raw
    elif kind == 2:
        call = 'return Token::findmatch(tok, "%s"%s%s);' % (raw, ", end" if has_end else "", ", varid" if has_varid else "")
    else:
        call = 'return Token::findsimplematch(tok, "%s"%s);' % (raw, ", end" if has_end else "")
    return sig + call + " }"


def tu_text(ns, entries):
    L = ['#include "token.h"', '#include "errortypes.h"',
         "struct C33Entry { int kind; bool hasVarid; bool hasEnd; const char* pattern; const Token* (*fn)(const Token*, const Token*, int, bool&); };",
         "namespace %s {" % ns]
    for i, (kind, hv, he, raw) in enumerate(entries):
        L.append(entry_line(i, kind, hv, he, raw))
    L.append("extern const C33Entry table[] = {")
    for i, (kind, hv, he, raw) in enumerate(entries):
        L.append('  {%d, %s, %s, "%s", p%d},' % (kind, "true" if hv else "false", "true" if he else "false", raw, i))
    L.append('  {-1, false, false, "", nullptr}')
    L.append("};")
    L.append("extern const unsigned count = %d;" % len(entries))
    L.append("}")
    return "\n".join(L) + "\n"


def python_compiles(M, kind, has_varid, has_end, raw):
    """does the real compiler accept the pattern (no exception)?"""
    mc = M.MatchCompiler()
    old = sys.stdout
    sys.stdout = io.StringIO()
    try:
        if kind < 2:
            mc._compilePattern(raw, 1, "varid" if has_varid else None)
        else:
            mc._compileFindPattern(raw, 1, "end" if has_end else None, "varid" if has_varid else None)
        return True
    except Exception:
        return False
    finally:
        sys.stdout = old


def write_if_changed(path, txt):
    old = open(path).read() if os.path.exists(path) else None
    if old != txt:
        open(path, "w").write(txt)
        return True
    return False


def build_pattern_tus(entries):
    """entries: [(kind, has_varid, has_end, raw C literal text)].
    Writes c33_interp.cpp and c33_comp.cpp (the latter = real matchcompiler.py output)."""
    M = P.load_matchcompiler(vlib.REPO)
    gen = os.path.join(vlib.BUILD, "harness", "gen")
    os.makedirs(gen, exist_ok=True)
    interp = os.path.join(gen, "c33_interp.cpp")
    csrc = os.path.join(gen, "c33_csrc.cpp")
    comp = os.path.join(gen, "c33_comp.cpp")
    with vlib.Lock("c33gen"):
        write_if_changed(interp, tu_text("c33i", entries))
        changed = write_if_changed(csrc, tu_text("c33c", entries))
        mcpath = os.path.join(vlib.REPO, "tools", "matchcompiler.py")
        stamp = os.path.join(gen, "c33_comp.stamp")
        want = hashlib.sha1(open(mcpath, "rb").read() + open(csrc, "rb").read()).hexdigest()
        if changed or not os.path.exists(comp) or not os.path.exists(stamp) or open(stamp).read() != want:
            mc = M.MatchCompiler(verify_mode=False, show_skipped=False)
            tmp = comp + ".tmp"
            old = sys.stdout
            sys.stdout = io.StringIO()
            try:
                mc.convertFile(csrc, tmp, False)
            finally:
                sys.stdout = old
            out = open(tmp).read()
            body = out[out.index("namespace c33c"):]
            left = re.findall(r"Token::(?:Match|simpleMatch|findmatch|findsimplematch)\(", body)
            if left:
                raise vlib.BuildError("matchcompiler.py left %d calls uncompiled in the generated unit" % len(left))
            write_if_changed(comp, out)
            os.remove(tmp)
            open(stamp, "w").write(want)
    return [interp, comp]


# ------------------------------------------------------------------ pattern generators
LITS = ["(", ")", "{", "}", "[", "]", ";", ",", "=", "==", "<", ">", "<<", "+", "-", "*", "&", "&&", "!", "!=", "?", ":", "::",
        ".", "...", "++", "+=", "|=", "%", "%=", "~", "^", "if", "else", "return", "const", "void", "int", "x", "ab", "abc", "true",
        "false", "auto", "struct", "restrict", "inline", "asm", "0", "1", "sizeof", "operator", "a", "b", "->", "<=", "<=>"]
SETS = ["[;{}]", "[(,]", "[])]", "[;,)]{}=]", "[+-]", "[|&]", "[*&]", "[<>]", "[a]", "[]]]"]


def gen_wf_word(rng):
    r = rng.random()
    if r < 0.15:
        return rng.choice(SETS)
    if r < 0.27:
        return "!!" + rng.choice(LITS)
    n = rng.choice([1, 1, 1, 2, 2, 3, 4])
    alts = []
    for _ in range(n):
        alts.append(rng.choice(CMDS) if rng.random() < 0.4 else rng.choice(LITS))
    w = "|".join(alts)
    if rng.random() < 0.25:
        w += "|"
    return w


def gen_wf_pattern(rng):
    """documented grammar; may end in an optional word (the known interpreter deviation)"""
    n = rng.choice([1, 1, 2, 2, 3, 3, 4, 5])
    return " ".join(gen_wf_word(rng) for _ in range(n))


HOSTILE_WORDS = ["[]", "[", "]", "[a", "a]", "[abc]|d", "x|[ab]", "!!a|b", "!!", "a||b", "|a", "||", "|=", "|", "a|", "a||",
                 "%", "%=", "%|a", "a|%", "%|", "[|]", "[%]", "[!!]", "!!!", "!![", "!!%var%", "!!%", "(|[", "[|(", "[a]]", "[]a]",
                 "%or%|%oror%", "%oror%|%or%|", "a%b", "a|a", "x|x|", "!a", "!|!!a", "[ab]|", "%var%|%var%", "%varid%|x|"]


def gen_hostile_pattern(rng):
    n = rng.choice([1, 1, 2, 2, 3])
    ws = [rng.choice(HOSTILE_WORDS) if rng.random() < 0.6 else gen_wf_word(rng) for _ in range(n)]
    s = " ".join(ws)
    r = rng.random()
    if r < 0.08:
        s = " " + s
    elif r < 0.16:
        s = s + " "
    elif r < 0.24 and len(ws) > 1:
        s = s.replace(" ", "  ", 1)
    return s


def gen_simple_pattern(rng):
    n = rng.choice([1, 1, 2, 2, 3, 4])
    s = " ".join(rng.choice(LITS + ["||", "|=", "|"]) for _ in range(n))
    r = rng.random()
    if r < 0.05:
        s = " " + s
    elif r < 0.10:
        s = s + " "
    elif r < 0.15 and n > 1:
        s = s.replace(" ", "  ", 1)
    elif r < 0.2:
        s = s + " " + rng.choice(["a|b", "!!a", "[ab]", "%"])
    return s


# ------------------------------------------------------------------ tokens
def strip_comments(text):
    """remove // and /* */ comments outside string/char literals (the preprocessor does that
    before the tokenizer sees the code)"""
    out, i, n = [], 0, len(text)
    while i < n:
        c = text[i]
        if c in "\"'":
            j = i + 1
            while j < n and text[j] != c and text[j] != "\n":
                j += 2 if text[j] == "\\" else 1
            out.append(text[i:j + 1])
            i = j + 1
        elif text.startswith("//", i):
            j = text.find("\n", i)
            i = n if j < 0 else j
        elif text.startswith("/*", i):
            j = text.find("*/", i + 2)
            seg = text[i:(n if j < 0 else j + 2)]
            out.append("\n" * seg.count("\n") or " ")
            i = n if j < 0 else j + 2
        else:
            out.append(c)
            i += 1
    return "".join(out)


def strip_pp(text):
    text = strip_comments(text)
    out = []
    cont = False
    for line in text.split("\n"):
        if cont or line.lstrip().startswith("#"):
            cont = line.rstrip().endswith("\\")
            out.append("")
        else:
            out.append(line)
    return "\n".join(out)


def real_token_lists(vh, files, log=None):
    """[(file, std, [(str, varid, type, flags)])] through the real tokenizer (simplifyTokens1)."""
    cases, meta = [], []
    for f, lang, cstd, cppstd in files:
        try:
            code = strip_pp(open(f, encoding="latin-1").read())
        except OSError:
            continue
        cases.append(vlib.enc_case([lang, cstd, cppstd, code]))
        meta.append((f, lang, cstd or cppstd))
    rc, out, err = vlib.run_lines([vh, "tokens"], cases, timeout=1200)
    res, rej = [], 0
    for (f, lang, std), o in zip(meta, out):
        r = vlib.dec_line(o)
        if not r or r[0] != b"ok":
            rej += 1
            continue
        toks = [(r[i], int(r[i + 1]), int(r[i + 2]), r[i + 3].decode()) for i in range(1, len(r) - 3, 4)]
        res.append((f, lang + ":" + std, toks))
    return res, rej, len(cases) - len(out)


def default_files(repo, quick):
    fs = []
    for f in sorted(glob.glob(os.path.join(repo, "samples", "*", "*.c"))):
        fs.append((f, "c", "", ""))
    for f in sorted(glob.glob(os.path.join(repo, "samples", "*", "*.cpp"))):
        fs.append((f, "cpp", "", ""))
    cfg = sorted(glob.glob(os.path.join(repo, "test", "cfg", "*.c"))) + sorted(glob.glob(os.path.join(repo, "test", "cfg", "*.cpp")))
    if quick:
        cfg = [f for f in cfg if os.path.getsize(f) < 40000][:12]
    for f in cfg:
        fs.append((f, "cpp" if f.endswith(".cpp") else "c", "", ""))
    corpus = sorted(glob.glob(os.path.join(vlib.VERIF, "corpus", "C33", "*")))
    for f in corpus:
        base = os.path.basename(f)
        lang = "cpp" if base.endswith(".cpp") else "c"
        m = re.search(r"\.(c89|c99|c11|c\+\+03|c\+\+11|c\+\+17|c\+\+20)\.", base)
        std = m.group(1) if m else ""
        fs.append((f, lang, std if lang == "c" else "", std if lang == "cpp" else ""))
    return fs
