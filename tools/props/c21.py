#!/usr/bin/env python3
"""C21  A crashing worker process is contained.

translate:  tools/translate/severity.py -> Par/Gen_Severity.v (the PipeSignal frame types and the
            type check of handleRead, re-read from cli/processexecutor.cpp on every run)
prove:      coq/theories/Properties_C21.v (termination under every schedule, progress, containment
            of every set of workers dying at any point: between records or inside a record)
correspond: the extracted state machine (Proc/Run.v, fair schedule) vs the real binary with the
            guarded fault hook VERIF_CHILD_FAULT=<file>:<k>:<sig|exit|midmsg|sighold|exithold> of
            cli/processexecutor.cpp: generated projects, every file x every crash point x three
            fault modes (+ the two reap-before-EOF modes at k = 0) x job counts 2-4; findings (multiset), internal-error reports and exit
            status of the real run against the model's prediction for the same fault
search:     the property itself is evaluated on every real run (other files' findings complete,
            one cppcheckError naming the crashed file, exit status = --error-exitcode)
"""
import hashlib
import os
import re
import shutil
import subprocess
import sys
import tempfile

sys.path.insert(0, os.path.dirname(os.path.dirname(os.path.abspath(__file__))))
import vlib
from translate import severity as T

PID = "C21"
EXITCODE = 7
TEMPLATE = "--template={file}|{line}|{id}|{message}"
SNIPPETS = [
    "int %(f)s(void) {\n  int a[2];\n  a[2] = 0;\n  return a[0];\n}\n",
    "int %(f)s(void) {\n  int *p = 0;\n  return *p;\n}\n",
    "int %(f)s(int x) {\n  int z = 0;\n  return x / z;\n}\n",
]
CLEAN = "int %(f)s(int x) {\n  return x + 1;\n}\n"
MODES = {"sig": (1, 11), "exit": (2, 3), "midmsg": (3, 3), "sighold": (1, 11), "exithold": (2, 3)}


def sha(x):
    return hashlib.sha1(x.encode("latin-1")).hexdigest()[:12]


def gen_project(rng, d, clean=False):
    n = rng.randint(2, 5)
    files = []
    for k in range(n):
        body = ""
        m = 0 if clean else rng.choice([0, 1, 1, 2, 3])
        for j in range(m):
            body += rng.choice(SNIPPETS) % {"f": "fn_%d_%d" % (k, j)}
        body += CLEAN % {"f": "ok_%d" % k}
        name = "w%d.c" % k
        with open(os.path.join(d, name), "w") as f:
            f.write(body)
        files.append(name)
    return files


def run_real(d, files, jobs, fault=None):
    env = dict(os.environ)
    env.pop("VERIF_CHILD_FAULT", None)
    if fault:
        env["VERIF_CHILD_FAULT"] = fault
    cmd = [vlib.CPPCHECK, "-q", "-j%d" % jobs, "--executor=process", "--error-exitcode=%d" % EXITCODE, TEMPLATE] + files
    try:
        p = subprocess.run(cmd, cwd=d, env=env, stdout=subprocess.PIPE, stderr=subprocess.PIPE, timeout=60)
    except subprocess.TimeoutExpired:
        return None, None, ["timeout"]
    lines = [l for l in p.stderr.decode("latin-1").split("\n") if l.strip()]
    finds = [l for l in lines if "|" in l and not l.startswith("####")]
    noise = [l for l in lines if l not in finds]
    return p.returncode, finds, noise


def to_events(finds, files):
    """real output lines -> the model's event strings"""
    out = []
    for l in finds:
        parts = l.split("|", 3)
        f = files.index(parts[0]) if parts[0] in files else -1
        if len(parts) == 4 and parts[2] == "cppcheckError":
            m = re.search(r"crashed with signal (\d+)", parts[3])
            if m:
                out.append("I:%d:s:%s" % (f, m.group(1)))
                continue
            m = re.search(r"exited with (\d+)", parts[3])
            if m:
                out.append("I:%d:e:%s" % (f, m.group(1)))
                continue
        out.append("F:%d:%s" % (f, l))
    return sorted(out)


def check(run, replay):
    quick = run.tier == "quick"
    rng = run.rng
    run.trusted_base += [
        "Coq 8.16.1 kernel (coqc); vm_compute only in the Examples",
        "extraction: Require Extraction + ExtrOcamlBasic only; ocaml/driver.ml",
        "tools/translate/severity.py (PipeSignal enum and the type check of handleRead)",
        "hook commits 49cbcca + 97219f3 in /repo (guarded): sighold/exithold additionally fork a grandchild that keeps the pipe open for 1.5 s so that waitpid reports the worker before end-of-file (the machine is then run with its reap-first schedule); VERIF_CHILD_FAULT makes the worker of a chosen file raise SIGSEGV / _exit(3) / write 3 bytes of the next record and _exit(3) when it is about to send its (k+1)-th finding or its CHILD_END record",
        "modelled, not verified: ProcessExecutor::check (fork, select, waitpid bookkeeping), handleRead (frame parsing, exit(EXIT_FAILURE) branches), reportInternalChildErr; "
        "pipe reads are blocking and the worker's 1-byte and 4-byte writes are atomic, so the parent's behaviour on a pipe is a function of the bytes the worker wrote before it ended",
        "not modelled: hasToLog's duplicate/suppression filter on the parent side (C15), REPORT_SUPPR payload parsing beyond the field count (parseLine can throw), "
        "load-average throttling, a stale errno==EAGAIN making handleRead return true at end of file, timer records (treated as the exit branch: no timer results enabled)",
    ]
    run.assumptions += ["g++ compiles /repo faithfully", "POSIX pipe semantics: read returns 0 only after the writer end is closed; writes of at most PIPE_BUF bytes are atomic"]
    run.extra["rule"] = ("projects of 2-5 files with 0-3 findings each (one project with no findings at all so that the exit status depends on the "
                         "crash alone); for every file, every k in 0..findings+1 and every mode in sig/exit/midmsg one real run with a job count "
                         "drawn from 2-4; non-trivial = distinct (project, file, k, mode, jobs) whose fault was observed to fire (output differs from the fault-free run).")
    vlib.ensure_repo_build()
    try:
        T.translate(vlib.REPO, os.path.join(vlib.COQ, "theories", "Par", "Gen_Severity.v"))
    except (T.TranslateError, OSError) as e:
        run.violation("translate:severity", "tools/translate/severity.py cannot read the source: %s" % e,
                      {"broken": "translator", "detail": str(e)}, found_input=False)
        return
    ok = run.prove(extra_targets=["theories/Proc/Run.vo"])
    if not ok:
        run.violation("proof:" + PID, "Properties_C21.vo does not build: " + str(run.proof_error())[:300],
                      {"broken": "proof", "detail": run.proof_error()}, found_input=False)
    if not os.path.exists(os.path.join(vlib.COQ, "theories/Proc/Run.vo")):
        return
    model = vlib.build_model(PID)
    # the hook must be present in the binary: a fault on a matching file has to change the run
    base = tempfile.mkdtemp(prefix="c21_")
    st = run.stream("fault injection on the binary vs model")
    try:
        nproj = 3 if quick else 25
        for pn in range(nproj):
            d = os.path.join(base, "p%d" % pn)
            os.makedirs(d)
            files = gen_project(rng, d, clean=(pn == 0))
            rc0, ref, noise0 = run_real(d, files, 2)
            per_file = {f: [l for l in ref if l.startswith(f + "|")] for f in files}
            if noise0 or rc0 != (EXITCODE if ref else 0):
                run.violation("faultfree:" + sha(repr(ref)), "fault-free process run is not clean: rc=%s noise=%s" % (rc0, noise0[:2]),
                              {"files": files, "stderr": ref + noise0}, found_input=False)
                continue
            for fi, fname in enumerate(files):
                nf = len(per_file[fname])
                for k in range(0, nf + 2):
                    # hold modes (worker reaped before end-of-file on its pipe; 1.5 s each): every file of the
                    # finding-free project, the first file of the others (all files in the thorough tier), k = 0
                    hold = ("sighold", "exithold") if k == 0 and (pn == 0 or fi == 0 or not quick) else ()
                    for mode in ("sig", "exit", "midmsg") + hold:
                        jobs = rng.choice([2, 3, 4])
                        fault = "%s:%d:%s" % (fname, k, mode)
                        rc, finds, noise = run_real(d, files, jobs, fault)
                        # model prediction for the same fault
                        fields = ["c21", jobs, mode.endswith("hold"), len(files)]
                        for gi, g in enumerate(files):
                            mm, code = MODES[mode] if gi == fi else (0, 0)
                            fields += [mm, k if gi == fi else 0, code, 1 if per_file[g] else 0, len(per_file[g])] + [x.encode("latin-1") for x in per_file[g]]
                        _, mo, _ = vlib.run_lines([model], [vlib.enc_case(fields)])
                        m = [x.decode("latin-1") for x in vlib.dec_line(mo[0])]
                        st["evaluations"] += 1
                        b = "%s,k%s" % (mode, "<n" if k < nf else ("=n" if k == nf else ">n"))
                        st["hist"][b] = st["hist"].get(b, 0) + 1
                        if rc is None:
                            st["disagreements"] += 1
                            run.violation("hang:" + sha(fault + repr(files)), "cppcheck did not terminate within 60 s with fault %s" % fault,
                                          {"fault": fault, "files": files, "jobs": jobs})
                            continue
                        real_ev = to_events(finds, files)
                        if (finds, rc) != (ref, rc0) or noise:
                            st["nontrivial"].add((pn, fname, k, mode, jobs))
                        m_halt, m_pos, m_ev = m[0], m[1], sorted(m[2:])
                        srcs = {fn: open(os.path.join(d, fn)).read() for fn in files}
                        rep = {"files": srcs, "fault": fault, "jobs": jobs, "real_exit": rc, "real_stderr": finds + noise,
                               "model": m, "fault_free": ref,
                               "how": "VERIF_CHILD_FAULT=%s build/repo/bin/cppcheck -q -j%d --executor=process --error-exitcode=%d '%s' %s"
                                      % (fault, jobs, EXITCODE, TEMPLATE, " ".join(files))}
                        # the property itself on the real run
                        others_ok = all(l in finds for g in files if g != fname for l in per_file[g])
                        named = any(e.startswith("I:%d:" % fi) for e in real_ev)
                        contained = others_ok and named and rc == EXITCODE and not noise
                        if m_halt == "":
                            # model: contained; compare everything
                            exp_rc = EXITCODE if m_pos == "1" else 0
                            if real_ev != m_ev or rc != exp_rc or noise:
                                st["disagreements"] += 1
                                key = "fault:" + sha(fault + repr(sorted(srcs.items())) + str(jobs))
                                what = "worker fault %s (-j%d): real run (exit %s, %d lines) differs from the model's prediction (exit %s, %d events)" % (
                                    fault, jobs, rc, len(real_ev), exp_rc, len(m_ev))
                                run.violation(key, what + ("" if contained else "; containment violated on the real run"), rep, found_input=not contained)
                        else:
                            # the machine took an exit() branch or did not finish: never expected for worker faults
                            st["disagreements"] += 1
                            run.violation("model-exit:" + sha(fault + repr(files)), "the model predicts exit(%s) for fault %s; real exit %s, contained=%s"
                                          % (m_halt, fault, rc, contained), rep, found_input=not contained)
        if not st["nontrivial"]:
            run.violation("hook-missing", "no injected fault changed any run: the VERIF_CHILD_FAULT hook is not in the binary",
                          {"broken": "hook"}, found_input=False)
    finally:
        shutil.rmtree(base, ignore_errors=True)


if __name__ == "__main__":
    vlib.main(check, PID)
