#!/usr/bin/env python3
"""C24  Unmatched suppressions are reported exactly.

prove:      coq/theories/Properties_C24.v (flags after any query sequence, selectors,
            getUnmatchedSuppressions / reportUnmatchedSuppressions, executor merges)
correspond: extracted model (Supp/RunExec.v) vs harness/vh_c24.cpp on the real
            SuppressionList (flags after isSuppressed sequences and after the logger,
            the three getters, addSuppression/updateSuppressionState,
            markUnmatchedInlineSuppressionsAsChecked, reportUnmatchedSuppressions) and
            vs the real cppcheck binary on generated programs x suppression sets x executors
search:     every disagreement of an end-to-end run is evaluated against the property
            (single-job run of the same input = the executor-independent reference; a
            suppression that hides a reported-or-suppressed finding must not be reported)
"""
import hashlib
import os
import sys

sys.path.insert(0, os.path.dirname(os.path.dirname(os.path.abspath(__file__))))
import vlib
from props import supp_common as G
from props import exec_common as X

PID = "C24"


def sha(c):
    return hashlib.sha1(vlib.enc_case(c).encode()).hexdigest()[:12]


def check(run, replay):
    quick = run.tier == "quick"
    rng = run.rng
    run.trusted_base += [
        "Coq 8.16.1 kernel (coqc); vm_compute only in Examples / the refutation witness; no native_compute",
        "extraction: Require Extraction + ExtrOcamlBasic only; ocaml/driver.ml (I/O)",
        "harness/vh_common.h + vh_c23.cpp + vh_c24.cpp (decode a case; call SuppressionList::isSuppressed/addSuppression/updateSuppressionState/"
        "markUnmatchedInlineSuppressionsAsChecked/getUnmatched*Suppressions, CppCheck::verifLogger().reportErr, CppCheckExecutor::reportUnmatchedSuppressions)",
        "PathMatch::match is a parameter `pm` of the theorems; the executable model uses C31's pm_model / simplify_path (Path/Defs.v)",
        "modelled, not verified: lib/suppressions.cpp (isMatch, isSuppressed(list), getUnmatched*Suppressions, addSuppression duplicate test, updateSuppressionState, "
        "markUnmatchedInlineSuppressionsAsChecked), lib/cppcheck.cpp (CppCheck::check dummy query, CppCheckLogger::reportErr), cli/executor.cpp hasToLog, "
        "cli/threadexecutor.cpp + cli/processexecutor.cpp suppression transfer (record level, not the pipe format), cli/cppcheckexecutor.cpp getUnmatchedSuppressions/reportUnmatchedSuppressions",
        "end-to-end: the raw findings of each generated file are observed from an unsuppressed run of the same binary; the model predicts what the suppression lists and executors make of them",
        "multi-job runs are modelled with one schedule (files in command-line order); the flag theorems show the final flags do not depend on the order of queries",
    ]
    run.assumptions += ["g++ compiles /repo faithfully", "hook commit 746d6ae (verifLogger/verifExitCode) only exposes the existing logger",
                        "the OS delivers the worker's pipe messages intact (process executor; wire format is C15's subject)"]
    run.extra["rule"] = ("flags/list/logger: generators of supp_common (each matching criterion holds/fails independently); non-trivial = at least one "
                         "suppression and distinct case. selectors/report: random suppressions with random matched/checked flags, 25% unmatchedSuppression entries, "
                         "wildcard/plain/directory/../empty file names; non-trivial = distinct case with >=1 suppression. end-to-end: 1-3 generated C files (+ optional shared header) "
                         "with planted nullPointer/zerodiv/arrayIndexOutOfBounds/uninitvar findings and inline suppression comments x 0-4 --suppress specs "
                         "(global, file, wildcard file, file:line) x --inline-suppr x information on/off x -j1 / -j2 thread / -j2 process; "
                         "non-trivial = distinct (files, argv) with at least one suppression or inline mode.")

    vlib.ensure_repo_build()
    ok = run.prove(extra_targets=["theories/Supp/RunExec.vo"])
    model = vlib.build_model(PID) if ok or os.path.exists(os.path.join(vlib.COQ, "theories/Supp/RunExec.vo")) else None
    if not ok:
        run.violation("proof:" + PID, "Properties_C24.vo does not build: " + str(run.proof_error())[:300],
                      {"broken": "proof", "detail": run.proof_error()}, found_input=False)
    if model is None:
        return
    vh = vlib.build_harness(PID)

    def rejected(i):
        return bool(i) and i[0] == b"rejected"

    def generic(stream, cmd, cases, describe=None):
        diffs = vlib.correspond(run, stream, model, [vh, cmd], cases, tag=cmd,
                                nontrivial=lambda c, m, i: tuple(map(str, c)) if c[0] != 0 and not rejected(i) else None,
                                bucket=lambda c, m, i: "rejected" if rejected(i) else ("fuel" if m == [b"F"] else "n%s" % c[0]))
        n = 0
        for c, m, i in sorted(diffs, key=lambda d: len(d[0])):
            if rejected(i) or m == [b"F"]:
                continue
            n += 1
            if n > 2:
                break
            run.violation(stream + ":" + sha(c), "%s: the real code deviates from the proved model: model %s, implementation %s" % (stream, vlib.show(m), vlib.show(i)),
                          {"stream": stream, "case_fields": vlib.show(c), "case_line": vlib.enc_case(c), "model": vlib.show(m), "impl": vlib.show(i),
                           "how": "echo <case_line> | build/harness/vh_c24 %s" % cmd})

    # ---- 1: flags after sequences of SuppressionList::isSuppressed (whole output incl. flags)
    n = 2500 if quick else 60000
    generic("flags after isSuppressed sequences", "list", [G.gen_list_case(rng)[0] for _ in range(n)])
    # ---- 2: flags after the logger (nomsg + nofail)
    n = 1500 if quick else 30000
    cs = [G.gen_logger_case(rng)[0] for _ in range(n)]
    diffs = vlib.correspond(run, "flags after CppCheckLogger::reportErr sequences", model, [vh, "logger"], cs, tag="logger",
                            nontrivial=lambda c, m, i: tuple(map(str, c)) if not rejected(i) else None,
                            bucket=lambda c, m, i: "rejected" if rejected(i) else "ok")
    for c, m, i in [d for d in diffs if not rejected(d[2]) and d[1] != [b"F"]][:2]:
        run.violation("loggerflags:" + sha(c), "logger: model %s, implementation %s" % (vlib.show(m), vlib.show(i)),
                      {"stream": "logger", "case_line": vlib.enc_case(c), "model": vlib.show(m), "impl": vlib.show(i)})
    # ---- 3: the three getters on one suppression with arbitrary flags
    n = 3000 if quick else 60000
    cs = [[rng.choice(G.PATHS)] + X.gen_report_supp(rng) for _ in range(n)]
    diffs = vlib.correspond(run, "getUnmatched{Local,Global,Inline}Suppressions", model, [vh, "unmatched"], cs, tag="unmatched",
                            nontrivial=lambda c, m, i: tuple(map(str, c)) if not rejected(i) else None,
                            bucket=lambda c, m, i: "rejected" if rejected(i) else b"".join(m).decode())
    for c, m, i in [d for d in diffs if not rejected(d[2])][:2]:
        run.violation("selectors:" + sha(c), "getUnmatched*Suppressions: model %s, implementation %s" % (vlib.show(m), vlib.show(i)),
                      {"stream": "unmatched", "case_line": vlib.enc_case(c), "case_fields": vlib.show(c), "model": vlib.show(m), "impl": vlib.show(i)})
    # ---- 4: addSuppression / updateSuppressionState
    n = 2000 if quick else 40000
    generic("addSuppression/updateSuppressionState", "ops", [X.gen_ops_case(rng) for _ in range(n)])
    # ---- 5: markUnmatchedInlineSuppressionsAsChecked
    n = 2000 if quick else 40000
    generic("markUnmatchedInlineSuppressionsAsChecked", "mark", [X.gen_mark_case(rng) for _ in range(n)])
    # ---- 6: reportUnmatchedSuppressions
    n = 3000 if quick else 60000
    cs = [X.gen_report_case(rng) for _ in range(n)]
    diffs = vlib.correspond(run, "reportUnmatchedSuppressions", model, [vh, "report"], cs, tag="report",
                            nontrivial=lambda c, m, i: tuple(map(str, c)) if not rejected(i) else None,
                            bucket=lambda c, m, i: "rejected" if rejected(i) else ("fuel" if m == [b"F"] else "reported%d" % min(4, (len(m) - 1) // 3)))
    for c, m, i in [d for d in sorted(diffs, key=lambda d: len(d[0])) if not rejected(d[2]) and d[1] != [b"F"]][:2]:
        run.violation("report:" + sha(c), "reportUnmatchedSuppressions: model %s, implementation %s" % (vlib.show(m), vlib.show(i)),
                      {"stream": "report", "case_line": vlib.enc_case(c), "case_fields": vlib.show(c), "model": vlib.show(m), "impl": vlib.show(i),
                       "how": "echo <case_line> | build/harness/vh_c24 report"})

    # ---- 7: end to end on the real binary
    def compare(prog, cfg, pred, rrc, rep, um):
        status, texts, pum = pred
        if pum != um:
            return ("unmatched", "unmatchedSuppression findings differ: model %s, cppcheck %s" % (sorted(pum), sorted(um)))
        if sorted(set(texts)) != sorted(set(rep)):
            return ("reported", "reported findings differ: model %s, cppcheck %s" % (sorted(set(texts)), sorted(set(rep))))
        return None

    np_, nc = (12, 8) if quick else (150, 25)
    fails = X.e2e(run, model, np_, nc, "end-to-end cppcheck runs (unmatchedSuppression set)", compare, want_nofail=False)
    for f in fails[:2]:
        key = "e2e:" + hashlib.sha1(repr((sorted(f["files"].items()), f["argv"])).encode()).hexdigest()[:12]
        run.violation(key, "end-to-end: " + f["detail"][:300],
                      {"files": f["files"], "argv": ["cppcheck", "-q", "--template=" + X.TEMPLATE] + f["argv"], "model": f["model"], "real": f["real"],
                       "how": "write the files, run the command line; compare the unmatchedSuppression lines"})

    # ---- 8: the property itself across executors (search for a failing input): the same
    # input must give the same unmatchedSuppression set with every executor, and a suppression
    # that hides a finding of the run must never be reported
    execdep(run, model, quick)


def execdep(run, model, quick):
    import tempfile
    import shutil
    rng = run.rng
    base = tempfile.mkdtemp(prefix="vexecdep_")
    found = None
    tried = 0
    try:
        # corpus witness first (the model's refutation witness), then generated inputs
        inputs = [({"a.c": "void f(void) {\n    int *p = 0;\n    *p = 1;\n}\n"}, ["a.c"], ["nullPointer", "nullPointer:a.c"])]
        for _ in range(10 if quick else 120):
            prog = X.Program(rng, inline_comments=False)
            specs = []
            for _ in range(rng.randint(1, 3)):
                specs.append(X.cli_supp(rng, prog)[0])
            inputs.append((prog.files, prog.order, sorted(set(specs))))
        for files, order, specs in inputs:
            tried += 1
            d = tempfile.mkdtemp(dir=base)
            for n, t in files.items():
                os.makedirs(os.path.dirname(os.path.join(d, n)), exist_ok=True)
                open(os.path.join(d, n), "w").write(t)
            res = {}
            for k in (0, 1, 2):
                rc, lines, _ = X.run_cppcheck(d, X.JARGS[k] + ["--enable=information"] + ["--suppress=" + s for s in specs] + order)
                rep, um = X.split_real(X.findings_only(lines))
                res[k] = um
            run.count("property across executors (same input, -j1 / thread / process)", None,
                      nontrivial=(tuple(sorted(files.items())), tuple(specs)),
                      bucket="same" if res[0] == res[1] == res[2] else "differs")
            if not (res[0] == res[1] == res[2]) and found is None:
                found = (files, order, specs, res)
    finally:
        shutil.rmtree(base, ignore_errors=True)
    if found:
        files, order, specs, res = found
        run.stream("property across executors (same input, -j1 / thread / process)")["disagreements"] += 1
        key = "executor-dependent-unmatched:" + hashlib.sha1(repr((sorted(files.items()), specs)).encode()).hexdigest()[:10]
        run.violation(key, "the unmatchedSuppression set depends on the executor: -j1 %s, thread %s, process %s (suppressions %s)"
                      % (sorted(res[0]), sorted(res[1]), sorted(res[2]), specs),
                      {"files": files, "suppress": specs, "order": order,
                       "unmatched_j1": sorted(res[0]), "unmatched_thread": sorted(res[1]), "unmatched_process": sorted(res[2]),
                       "how": "cppcheck -q --enable=information --template='%s' %s %s   with -j1, -j2 --executor=thread, -j2 --executor=process"
                              % (X.TEMPLATE, " ".join("--suppress=" + s for s in specs), " ".join(order))})


if __name__ == "__main__":
    vlib.main(check, PID)
