#!/usr/bin/env python3
"""C25  Exit status reflects the reported findings.

prove:      coq/theories/Properties_C25.v (logger exit flag over any finding sequence,
            per-file reset + sum over files, whole-program stage, unmatchedSuppression
            contribution, final status for the single / thread / process executors,
            --error-exitcode=0 => 0; unmatchedSuppression findings honour nofail since fix 7b7622c)
correspond: extracted model (Supp/RunExec.v) vs harness (CppCheck::verifLogger().reportErr +
            verifExitCode) and vs the exit status of the real cppcheck binary on generated
            programs x --suppress x --exitcode-suppressions x --error-exitcode x executors
search:     for every real run the property itself is evaluated on what the binary printed:
            status must be the exit code iff some printed finding (unmatchedSuppression
            included, checkersReport excluded) is not matched by an exitcode suppression
            (matching = the rule proved equal to isSuppressed, run through the model)
"""
import hashlib
import os
import subprocess
import sys
import tempfile
import shutil

sys.path.insert(0, os.path.dirname(os.path.dirname(os.path.abspath(__file__))))
import vlib
from props import supp_common as G
from props import exec_common as X

PID = "C25"


def sha(c):
    return hashlib.sha1(vlib.enc_case(c).encode()).hexdigest()[:12]


def spec_status(model, cfg, printed):
    """the property, evaluated on the printed findings: exit code iff some printed finding is not
    matched by an --exitcode-suppressions entry"""
    if not printed:
        return 0
    nofail = [s for _, s in cfg["nofail"]]
    es = []
    for f in printed:
        file, line, fid, msg = f
        if file == "nofile":
            file, line = "", -1
        es.append([0, fid, file, line, b"", 0, True])
    case = G.flat(nofail) + G.flat(es)
    rc, mo, me = vlib.run_lines([model], [vlib.enc_case(["listn"] + case)])
    out = vlib.dec_line(mo[0])
    if out == [b"F"] or out == [b"B"]:
        return None
    matched = [x == b"1" for x in out[:len(es)]]
    return cfg["exitcode"] if not all(matched) else 0


def check(run, replay):
    quick = run.tier == "quick"
    rng = run.rng
    run.trusted_base += [
        "Coq 8.16.1 kernel (coqc); vm_compute only in Examples / the refutation witness; no native_compute",
        "extraction: Require Extraction + ExtrOcamlBasic only; ocaml/driver.ml (I/O)",
        "harness/vh_common.h + vh_c23.cpp + vh_c24.cpp (logger command: CppCheck::verifLogger().reportErr, verifExitCode)",
        "PathMatch::match is a parameter `pm` of the theorems; the executable model uses C31's pm_model / simplify_path (Path/Defs.v)",
        "modelled, not verified: lib/cppcheck.cpp CppCheckLogger::reportErr (non-safety mode), CppCheck::check (dummy query, per-file resetExitCode/clear), "
        "cli/singleexecutor.cpp / threadexecutor.cpp / processexecutor.cpp result sums (unsigned overflow and a worker dying mid-run are not modelled: C21), "
        "cli/executor.cpp hasToLog, cli/cppcheckexecutor.cpp check_internal (returnValue |= whole-program, unmatchedSuppression contribution, final status)",
        "the single executor's extra `result++` after analyseWholeProgram() happens only when the logger's exit code is already set; it cannot change zero/non-zero and is left out",
        "end-to-end: the raw findings of each generated file are observed from an unsuppressed run of the same binary",
        "invalid command line => 1 is checked by running the binary only (no model of the command-line parser here: C31/C32)",
    ]
    run.assumptions += ["g++ compiles /repo faithfully", "hook commit 746d6ae (verifLogger/verifExitCode) only exposes the existing logger",
                        "the OS returns the status passed to exit() (values < 256)"]
    run.extra["rule"] = ("logger: supp_common.gen_logger_case (0-4 nomsg, 0-3 nofail suppressions, 1-8 findings with repeated texts); non-trivial = distinct case. "
                         "end-to-end: 1-3 generated C files (+ optional header, optional cross-file null pointer for a whole-program finding) x 0-4 --suppress x 0-3 "
                         "--exitcode-suppressions lines (30% `unmatchedSuppression`) x --error-exitcode in {0,1,7,42} x information on/off x --inline-suppr x "
                         "-j1 / -j2 thread / -j2 process; non-trivial = distinct (files, argv) with at least one suppression or inline mode. "
                         "property evaluation: every one of these runs, on the printed findings.")

    vlib.ensure_repo_build()
    ok = run.prove(extra_targets=["theories/Supp/RunExec.vo"])
    model = vlib.build_model(PID) if ok or os.path.exists(os.path.join(vlib.COQ, "theories/Supp/RunExec.vo")) else None
    if not ok:
        run.violation("proof:" + PID, "Properties_C25.vo does not build: " + str(run.proof_error())[:300],
                      {"broken": "proof", "detail": run.proof_error()}, found_input=False)
    if model is None:
        return
    vh = vlib.build_harness("C24")

    def rejected(i):
        return bool(i) and i[0] == b"rejected"

    # ---- 1: exit bit of the logger
    n = 3000 if quick else 80000
    cs = [G.gen_logger_case(rng) for _ in range(n)]
    nm = {id(c[0]): c for c in cs}
    diffs = vlib.correspond(run, "CppCheckLogger exit code", model, [vh, "logger"], [c[0] for c in cs], tag="logger",
                            nontrivial=lambda c, m, i: tuple(map(str, c)) if not rejected(i) else None,
                            bucket=lambda c, m, i: "rejected" if rejected(i) else ("fuel" if m == [b"F"] else "exit" + m[nm[id(c)][3]].decode()))
    shown = 0
    for c, m, i in sorted(diffs, key=lambda d: len(d[0])):
        if rejected(i) or m == [b"F"]:
            continue
        k = nm[id(c)][3]
        if m[:k + 1] == i[:k + 1]:
            continue   # only flags differ: C24's subject
        shown += 1
        if shown > 2:
            break
        run.violation("logger:" + sha(c), "logger exit code: the proved rule says %s, CppCheckLogger says %s (forwarded list + exit bit)" % (vlib.show(m[:k + 1]), vlib.show(i[:k + 1])),
                      {"stream": "logger", "case_line": vlib.enc_case(c), "case_fields": vlib.show(c), "model": vlib.show(m), "impl": vlib.show(i),
                       "how": "echo <case_line> | build/harness/vh_c24 logger ; field n+1 is the exit bit"})

    # ---- 2: end to end: process status (model vs binary), then the property on the printed findings
    spec_fail = []

    def compare(prog, cfg, pred, rrc, rep, um):
        status, texts, pum = pred
        printed = [X.parse_line(t) for t in rep] + [(f, l, "unmatchedSuppression", "Unmatched suppression: " + i) for f, l, i in sorted(um)]
        want = spec_status(model, cfg, printed)
        run.count("property on printed findings (status iff unsuppressed finding)", None,
                  nontrivial=(tuple(sorted(prog.files.items())), tuple(s for s, _ in cfg["nomsg"]), tuple(s for s, _ in cfg["nofail"]), cfg["exitcode"], cfg["kind"], cfg["info"], cfg["inline"]),
                  bucket="fuel" if want is None else ("holds" if want == rrc else "deviates") + (",um" if um else "") + (",nofail" if cfg["nofail"] else ""))
        if want is not None and want != rrc:
            spec_fail.append((prog, cfg, rrc, want, printed))
        if status != rrc:
            return ("status", "exit status differs: model %s, cppcheck %s" % (status, rrc))
        if pum != um or sorted(set(texts)) != sorted(set(rep)):
            return ("output", "printed findings differ: model %s + %s, cppcheck %s + %s" % (sorted(set(texts)), sorted(pum), sorted(set(rep)), sorted(um)))
        return None

    def force_witness(first=[True]):
        def f(rng_, prog, cfg):
            if first[0]:
                first[0] = False
                cfg = dict(cfg)
                cfg.update({"nomsg": [("memleak", [b"memleak", "", -1, -1, -1, 0, b"", b"", 0, False, False, False, False])],
                            "nofail": [("unmatchedSuppression", [b"unmatchedSuppression", "", -1, -1, -1, 0, b"", b"", 0, False, False, False, False]),
                                       ("*", [b"*", "", -1, -1, -1, 0, b"", b"", 0, False, False, False, False])],
                            "exitcode": 7, "info": True, "inline": False, "kind": 0})
            return cfg
        return f

    np_, nc = (12, 8) if quick else (150, 25)
    fails = X.e2e(run, model, np_, nc, "end-to-end cppcheck runs (exit status)", compare, ctu=True, want_nofail=True, force=force_witness())
    for f in fails[:2]:
        key = "e2e:" + hashlib.sha1(repr((sorted(f["files"].items()), f["argv"])).encode()).hexdigest()[:12]
        run.violation(key, "end-to-end: " + f["detail"][:300],
                      {"files": f["files"], "argv": ["cppcheck", "-q", "--template=" + X.TEMPLATE] + f["argv"],
                       "nofail.txt": [s for s, _ in f["cfg"]["nofail"]], "model": f["model"], "real": f["real"],
                       "how": "write the files (+ nofail.txt), run the command line, echo $?"})

    # the property deviations found on the binary
    run.stream("property on printed findings (status iff unsuppressed finding)")["disagreements"] += len(spec_fail)
    other = 0
    for prog, cfg, rrc, want, printed in sorted(spec_fail, key=lambda x: (len(x[0].files), len(x[1]["nomsg"]) + len(x[1]["nofail"]))):
        other += 1
        if other > 2:
            continue
        key = "status-vs-printed:" + hashlib.sha1(repr((sorted(prog.files.items()), cfg["exitcode"], [s for s, _ in cfg["nomsg"]], [s for s, _ in cfg["nofail"]], cfg["kind"])).encode()).hexdigest()[:12]
        argv = X.JARGS[cfg["kind"]] + (["--enable=information"] if cfg["info"] else []) + (["--inline-suppr"] if cfg["inline"] else []) + \
            ["--error-exitcode=%d" % cfg["exitcode"]] + ["--suppress=" + s for s, _ in cfg["nomsg"]] + \
            (["--exitcode-suppressions=nofail.txt"] if cfg["nofail"] else []) + prog.order
        run.violation(key, "exit status %d, but by the property it must be %d: printed findings %s, exitcode suppressions %s"
                      % (rrc, want, [X.text_of(p) for p in printed], [s for s, _ in cfg["nofail"]]),
                      {"files": prog.files, "nofail.txt": [s for s, _ in cfg["nofail"]], "argv": ["cppcheck", "-q", "--template=" + X.TEMPLATE] + argv,
                       "status": rrc, "status_required_by_property": want, "printed": [X.text_of(p) for p in printed],
                       "how": "write the files and nofail.txt (one entry per line), run the command line, echo $?"})

    # ---- 3: invalid command line => 1 (binary only)
    d = tempfile.mkdtemp(prefix="vc25_")
    try:
        open(os.path.join(d, "a.c"), "w").write("int f(int x) {\n    return x + 1;\n}\n")
        bad = [["--no-such-option", "a.c"], [], ["--error-exitcode=x", "a.c"], ["--exitcode-suppressions=missing.txt", "a.c"],
               ["--suppress=", "a.c"], ["-j0", "a.c"], ["--std=c++99", "a.c"], ["--platform=nope", "a.c"], ["--enable=bogus", "a.c"],
               ["--error-exitcode=7", "--no-such-option", "a.c"], ["--template", "a.c"], ["--xml-version=9", "a.c"]]
        for argv in bad:
            p = subprocess.run([vlib.CPPCHECK, "-q"] + argv, cwd=d, stdout=subprocess.PIPE, stderr=subprocess.PIPE, timeout=60)
            run.count("invalid command line exits 1", None, nontrivial=tuple(argv), bucket="rc%d" % p.returncode)
            if p.returncode != 1:
                run.stream("invalid command line exits 1")["disagreements"] += 1
                run.violation("cmdline:" + "_".join(argv)[:40], "invalid command line %s exits %d, not 1" % (argv, p.returncode),
                              {"argv": ["cppcheck", "-q"] + argv, "status": p.returncode, "stdout": p.stdout.decode("latin-1")[-500:]})
    finally:
        shutil.rmtree(d, ignore_errors=True)


if __name__ == "__main__":
    vlib.main(check, PID)
