#!/usr/bin/env python3
"""C09  Expression types follow the language's conversion rules.

translate:  tools/translate/typerank.py (enum ValueType::Type order -> TypeConv/Gen_TypeRank.v),
            tools/translate/platforms.py (Platform::set + platforms/*.xml -> Lit/Gen_Platforms.v)
prove:      coq/theories/Properties_C09.v (setValueType's result type = ISO C under strictly increasing
            widths; refutations with witnesses on the shipped platforms; integer-literal types = ISO C 6.4.4.1 for all platforms and values;
            every deviation on the shipped platforms and on every ordered width assignment has one of four named causes)
correspond: generated typed expressions (all operand type pairs x operators x platforms x C/C++) through
            `cppcheck --dump --platform=P`: valueType of the operator token vs the extracted model applied to
            the operand types the dump reports; integer literals vs the literal-type model; enumerator values
            vs the translated ranks (harness)
search:     the specification (TypeConv/Spec.v, extracted) on the dump's result for every case; clang
            -target <triple> _Generic / decltype assertions validate the specification itself.
"""
import hashlib
import os
import shutil
import sys
import tempfile

sys.path.insert(0, os.path.dirname(os.path.dirname(os.path.abspath(__file__))))
import vlib
from props import lit_common as G
from translate import platforms as TP
from translate import typerank as TR

PID = "C09"
CT = ["_Bool", "signed char", "unsigned char", "char", "short", "unsigned short", "int", "unsigned int", "long", "unsigned long",
      "long long", "unsigned long long"]
CT_DUMP = [("bool", ""), ("char", "signed"), ("char", "unsigned"), ("char", None), ("short", "signed"), ("short", "unsigned"),
           ("int", "signed"), ("int", "unsigned"), ("long", "signed"), ("long", "unsigned"), ("long long", "signed"), ("long long", "unsigned")]
OPS = {0: ["+", "-", "*", "/", "%", "&", "|", "^"], 1: ["<<", ">>"], 2: ["<", "<=", "==", "!=", "&&", "||"], 3: ["?:"]}
QUICK_OPS = {0: ["+", "*", "&"], 1: ["<<"], 2: ["<", "&&"], 3: ["?:"]}
TRIPLES = {"unix64": "x86_64-linux-gnu", "unix32": "i686-linux-gnu", "win64": "x86_64-pc-windows-msvc", "win32A": "i686-pc-windows-msvc",
           "win32W": "i686-pc-windows-msvc", "avr8": "avr", "msp430_eabi_large_datamodel": "msp430", "arm32-wchar_t4": "armv7-linux-gnueabihf",
           "riscv32": "riscv32-unknown-elf", "riscv64": "riscv64-unknown-elf", "mips32": "mips-linux-gnu", "aix_ppc64": "powerpc64-ibm-aix"}
CAUSE_KEY = {1: "rank-only-conversion-equal-width", 2: "unsigned-promotion-equal-width", 3: "c-comparison-typed-bool",
             4: "c-conditional-small-type-unpromoted"}
UNARY = [(0, "-a"), (0, "~a"), (1, "a++"), (1, "--a")]   # the tokenizer removes a unary plus


def ctype_of_dump(t, s):
    if t == "bool":
        return 0
    for i, (tt, ss) in enumerate(CT_DUMP):
        if tt == t and i > 0 and (ss == s or (ss is None and s in (None, ""))):
            return i
    if t == "char":
        return 3
    return None


def expr_text(op, cpp):
    if op == "?:":
        return "c ? a : b"
    return "a %s b" % op


def check(run, replay):
    quick = run.tier == "quick"
    rng = run.rng
    run.trusted_base += [
        "Coq 8.16.1 kernel (coqc); vm_compute on the regenerated finite platform table (C09_table_deviations_explained, refutation witnesses, Examples)",
        "extraction: Require Extraction + ExtrOcamlBasic only; ocaml/driver.ml (I/O); harness/vh_c09.cpp (prints enumerator values)",
        "tools/translate/typerank.py (regex over the ValueType::Type enum; checks that setValueType still compares enumerators), tools/translate/platforms.py",
        "tools/props/lit_common.py parse_dump (ElementTree over the --dump XML); the dump writer is C14's subject",
        "modelled, not verified: SymbolDatabase::setValueType (<<|>> branch, integral x integral branch, ternary shortcut), setValueTypeInTokenList "
        "(comparison/logical operators, integer literals) in lib/symboldatabase.cpp; operand types are taken from the dump (parsedecl is not modelled)",
        "ISO C 6.3.1.1/6.3.1.8/6.4.4.1 transcribed in TypeConv/Spec.v; validated on every run against clang -target <triple> (_Generic / decltype)",
    ]
    run.assumptions += ["g++ compiles /repo faithfully", "clang 14 implements the usual arithmetic conversions for its targets (used only to validate the specification)"]
    run.extra["rule"] = (
        "typed expressions: 12 operand types (_Bool, signed/unsigned/plain char, short, unsigned short, int, unsigned, long, unsigned long, long long, "
        "unsigned long long) squared x operators (quick: + * & << < && ?: ; thorough: + - * / % & | ^ << >> < <= == != && || ?:) x platforms "
        "(quick: unix64 unix32 win64 avr8 arm32-wchar_t4; thorough: all translated) x {C, C++}; one function per expression. non-trivial = distinct "
        "(platform, language, operator, type pair). literals: grammar-generated (base x suffix x value around the int/long/long long boundaries of the platform).")

    vlib.ensure_repo_build()
    plats = []
    for what, fn in (("typerank", lambda: TR.translate(vlib.REPO, os.path.join(vlib.COQ, "theories", "TypeConv", "Gen_TypeRank.v"))),
                     ("platforms", lambda: TP.translate(vlib.REPO, os.path.join(vlib.COQ, "theories", "Lit", "Gen_Platforms.v")))):
        try:
            r = fn()
            if what == "platforms":
                plats = r
                run.extra["platforms_translated"] = len(plats)
        except Exception as e:      # loud, but the streams below still look for a concrete failing input
            run.violation("translate:" + what, "translator %s failed: %s" % (what, e), {"broken": "translator", "detail": str(e)}, found_input=False)
    ok = run.prove(extra_targets=["theories/TypeConv/Run.vo"])
    model = vlib.build_model(PID) if ok or os.path.exists(os.path.join(vlib.COQ, "theories/TypeConv/Run.vo")) else None
    if not ok:
        run.violation("proof:" + PID, "Properties_C09.vo does not build: " + str(run.proof_error())[:300],
                      {"broken": "proof", "detail": run.proof_error()}, found_input=False)
    if model is None:
        return
    vh = vlib.build_harness(PID)

    # ---- X0: enumerator values
    diffs = vlib.correspond(run, "ValueType::Type enumerators", model, [vh, "ranks"], [[b"x"]], tag="ranks", model_tag="ranks",
                            nontrivial=lambda c, m, i: "ranks", bucket=lambda c, m, i: "ok" if m == i else "diff")
    for c, m, i in diffs:
        run.violation("ranks", "enumerator values differ: header %s, translated %s" % (vlib.show(i), vlib.show(m)),
                      {"broken": "translator typerank", "impl": vlib.show(i), "model": vlib.show(m)}, found_input=False)

    names = ["unix64", "unix32", "win64", "avr8", "arm32-wchar_t4"] if quick else [p["name"] for p in plats]
    byname = {p["name"]: p for p in plats}
    ops = QUICK_OPS if quick else OPS
    wd = tempfile.mkdtemp(prefix="c09_")
    try:
        spec_vs_clang(run, model, wd, [n for n in names if n in TRIPLES], ops, quick)
        for pname in names:
            if pname not in byname:
                continue
            for cpp in (False, True):
                typed_expressions(run, model, wd, pname, cpp, ops)
            unary_expressions(run, model, wd, pname)
            literals(run, model, wd, byname[pname], rng, quick)
    finally:
        shutil.rmtree(wd, ignore_errors=True)
        run.extra["model_vs_dump_disagreements"] = run.extra.pop("_model_diffs", 0)
        run.extra["literal_model_vs_dump_disagreements"] = run.extra.pop("_lit_diffs", 0)


def typed_expressions(run, model, wd, pname, cpp, ops):
    ext = "cpp" if cpp else "c"
    cases = []
    for k, lst in ops.items():
        for op in lst:
            for a in range(12):
                for b in range(12):
                    cases.append((k, op, a, b))
    path = os.path.join(wd, "t_%s.%s" % (pname.replace("-", "_"), ext))
    with open(path, "w") as f:
        for i, (k, op, a, b) in enumerate(cases):
            ta, tb = CT[a], CT[b]
            if cpp:
                ta, tb = ta.replace("_Bool", "bool"), tb.replace("_Bool", "bool")
            f.write("void f%d(%s a, %s b, int c) { long long v = %s ; }\n" % (i, ta, tb, expr_text(op, cpp)))
    rc, out = G.run_cppcheck(vlib.CPPCHECK, path, platform=pname, extra=["--std=c++17"] if cpp else [])
    try:
        toks, vals = G.parse_dump(path + ".dump")[0]
    except Exception as e:
        run.violation("dump:" + pname, "no dump for %s: %s %s" % (pname, e, out[-300:]), {"broken": "dump", "platform": pname}, found_input=False)
        return
    byid = {t["id"]: t for t in toks}
    got = {}
    for t in toks:
        if t["str"] == "=" and t.get("astOperand2"):
            r = byid[t["astOperand2"]]
            o1 = byid.get(r.get("astOperand1"))
            o2 = byid.get(r.get("astOperand2"))
            if r["str"] == "?" and o2 is not None:       # operands of the conditional are below ':'
                o1, o2 = byid.get(o2.get("astOperand1")), byid.get(o2.get("astOperand2"))
            got[int(t["linenr"]) - 1] = (r, o1, o2)
    mlines, slines = [], []
    for i, (k, op, a, b) in enumerate(cases):
        r, o1, o2 = got.get(i, (None, None, None))

        def ts(o):
            return ((o or {}).get("valueType-type", "") or "", (o or {}).get("valueType-sign", "") or "")
        (t1, s1), (t2, s2) = ts(o1), ts(o2)
        mlines.append(vlib.enc_case([b"rtv", str(k).encode(), t1.encode(), s1.encode(), t2.encode(), s2.encode()]))
        slines.append(vlib.enc_case([b"spec", b"1" if cpp else b"0", pname.encode(), str(k).encode(), str(a).encode(), str(b).encode()]))
    rc, mo, me = vlib.run_lines([model], mlines)
    rc, so, se = vlib.run_lines([model], slines)
    stream = "setValueType:%s" % ext
    sstream = "spec-on-dump:%s" % ext
    for i, (k, op, a, b) in enumerate(cases):
        r, o1, o2 = got.get(i, (None, None, None))
        text = expr_text(op, cpp)
        where = {"platform": pname, "language": ext, "expression": text, "a": CT[a], "b": CT[b],
                 "how": "echo 'void f(%s a, %s b, int c) { long long v = %s ; }' > t.%s && %s --dump -q --platform=%s t.%s  # valueType-type/-sign of the operator token"
                        % (CT[a] if not cpp else CT[a].replace("_Bool", "bool"), CT[b] if not cpp else CT[b].replace("_Bool", "bool"), text, ext, vlib.CPPCHECK, pname, ext)}
        if r is None or "valueType-type" not in r:
            run.count(stream, None, bucket="%s,untyped" % pname)
            continue
        impl = (r.get("valueType-type", ""), r.get("valueType-sign", "") or "")
        m = vlib.dec_line(mo[i])
        mod = (m[0].decode(), m[1].decode()) if len(m) == 2 else ("?", "?")
        run.count(stream, None, nontrivial=(pname, k, op, a, b), bucket="%s,op%d,%s" % (pname, k, "ok" if mod == impl else "diff"))
        if mod != impl:
            # search: the specification itself on this input
            s = vlib.dec_line(so[i])
            want = int(s[0]) if s and s[0].isdigit() else None
            have = ctype_of_dump(impl[0], impl[1] or None)
            nrep = run.extra.setdefault("_model_diffs", 0)
            run.extra["_model_diffs"] = nrep + 1
            if nrep >= 6:
                continue
            if want is not None and have != want:
                run.violation("spec:%s:%s:%s:%d:%d" % (pname, ext, op, a, b),
                              "`%s` with a: %s, b: %s on %s (.%s): cppcheck types the operator %s %s, the language says %s (the model of setValueType says %s %s)"
                              % (text, CT[a], CT[b], pname, ext, impl[1], impl[0], CT[want], mod[1], mod[0]),
                              dict(where, cppcheck_type="%s %s" % (impl[1], impl[0]), language_type=CT[want], model=mod,
                                   oracle="clang -target %s" % TRIPLES.get(pname, "(none)")))
            else:
                run.violation("model:%s:%s:%s:%d:%d" % (pname, ext, op, a, b),
                              "`%s` with a: %s, b: %s on %s (.%s): cppcheck types the operator %s %s, the model of setValueType says %s %s"
                              % (text, CT[a], CT[b], pname, ext, impl[1], impl[0], mod[1], mod[0]),
                              dict(where, broken="correspondence setValueType", impl=impl, model=mod), found_input=False)
            continue
        # the specification on the implementation's answer
        s = vlib.dec_line(so[i])
        want = int(s[0]) if s and s[0].isdigit() else None
        cause = int(s[1]) if len(s) > 1 and s[1].isdigit() else 9
        have = ctype_of_dump(impl[0], impl[1] or None)
        agree = want is not None and have == want
        run.count(sstream, None, nontrivial=(pname, k, op, a, b), bucket="%s,op%d,%s" % (pname, k, "ok" if agree else "cause%d" % cause))
        if not agree:
            key = CAUSE_KEY.get(cause, "spec:%s:%s:%s:%d:%d" % (pname, ext, op, a, b))
            run.violation(key, "`%s` with a: %s, b: %s on %s (.%s): cppcheck says %s %s, the language says %s"
                          % (text, CT[a], CT[b], pname, ext, impl[1], impl[0], CT[want] if want is not None else "?"),
                          dict(where, cppcheck_type="%s %s" % (impl[1], impl[0]), language_type=CT[want] if want is not None else None, cause=cause,
                               oracle="clang -target %s" % TRIPLES.get(pname, "(none)")))


def unary_expressions(run, model, wd, pname):
    """`-a ~a +a a++ --a` for the 12 operand types in a C file: operator token's valueType vs result_type1, and the
    language's type (promoted type / operand type) on the result"""
    cases = [(k, e, a) for k, e in UNARY for a in range(12)]
    path = os.path.join(wd, "u_%s.c" % pname.replace("-", "_"))
    with open(path, "w") as f:
        for i, (k, e, a) in enumerate(cases):
            f.write("void f%d(%s a) { long long v = %s ; }\n" % (i, CT[a], e))
    rc, out = G.run_cppcheck(vlib.CPPCHECK, path, platform=pname)
    try:
        toks, vals = G.parse_dump(path + ".dump")[0]
    except Exception as e:
        run.violation("dump:unary:" + pname, "no dump for %s: %s" % (pname, e), {"broken": "dump", "platform": pname}, found_input=False)
        return
    byid = {t["id"]: t for t in toks}
    got = {}
    for t in toks:
        if t["str"] == "=" and t.get("astOperand2"):
            r = byid[t["astOperand2"]]
            got[int(t["linenr"]) - 1] = (r, byid.get(r.get("astOperand1")))
    ml, sl = [], []
    for i, (k, e, a) in enumerate(cases):
        r, o1 = got.get(i, (None, None))
        t1, s1 = ((o1 or {}).get("valueType-type", "") or "", (o1 or {}).get("valueType-sign", "") or "")
        ml.append(vlib.enc_case([b"rt1", str(k).encode(), t1.encode(), s1.encode()]))
        sl.append(vlib.enc_case([b"spec1", pname.encode(), str(k).encode(), str(a).encode()]))
    rc, mo, me = vlib.run_lines([model], ml)
    rc, so, se = vlib.run_lines([model], sl)
    for i, (k, e, a) in enumerate(cases):
        r, o1 = got.get(i, (None, None))
        if r is None or "valueType-type" not in r:
            run.count("setValueType:unary", None, bucket="%s,untyped" % pname)
            continue
        impl = (r.get("valueType-type", ""), r.get("valueType-sign", "") or "")
        m = vlib.dec_line(mo[i])
        mod = (m[0].decode(), m[1].decode()) if len(m) == 2 else ("?", "?")
        where = {"platform": pname, "expression": e, "a": CT[a],
                 "how": "echo 'void f(%s a) { long long v = %s ; }' > t.c && %s --dump -q --platform=%s t.c  # valueType of the operator token" % (CT[a], e, vlib.CPPCHECK, pname)}
        run.count("setValueType:unary", None, nontrivial=(pname, e, a), bucket="%s,%s" % (pname, "ok" if mod == impl else "diff"))
        s = vlib.dec_line(so[i])
        want = int(s[0]) if s and s[0].isdigit() else None
        cause = int(s[1]) if len(s) > 1 and s[1].isdigit() else 9
        have = ctype_of_dump(impl[0], impl[1] or None)
        if mod != impl:
            run.violation(("spec:unary:%s:%s:%d" if have != want else "model:unary:%s:%s:%d") % (pname, e, a),
                          "`%s` with a: %s on %s: cppcheck types the operator %s %s, the model says %s %s, the language says %s"
                          % (e, CT[a], pname, impl[1], impl[0], mod[1], mod[0], CT[want] if want is not None else "?"),
                          dict(where, impl=impl, model=mod), found_input=(have != want))
            continue
        run.count("spec-on-dump:unary", None, nontrivial=(pname, e, a), bucket="%s,%s" % (pname, "ok" if have == want else "cause%d" % cause))
        if have != want:
            run.violation(CAUSE_KEY.get(cause, "spec:unary:%s:%s:%d" % (pname, e, a)),
                          "`%s` with a: %s on %s (.c): cppcheck says %s %s, the language says %s" % (e, CT[a], pname, impl[1], impl[0], CT[want] if want is not None else "?"),
                          dict(where, cppcheck_type="%s %s" % (impl[1], impl[0]), language_type=CT[want] if want is not None else None, cause=cause))


def lit_parts(s):
    """spelling -> (dec, usfx, lcount) as setValueTypeInTokenList reads them (dec = MathLib::isDec && !MathLib::isOct)"""
    low = s.lower()
    dec = not (low.startswith(b"0x") or low.startswith(b"0b") or (low.startswith(b"0") and low[1:2].isdigit()))
    body = low[2:] if low[:2] in (b"0x", b"0b") else low
    sfx = body.lstrip(b"0123456789abcdef") if low[:2] == b"0x" else body.lstrip(b"0123456789")
    return dec, b"u" in sfx, sfx.count(b"l") + (2 if b"i64" in sfx else 0)


def literals(run, model, wd, p, rng, quick):
    pname = p["name"]
    ib, lb, llb = 8 * p["sizeof_int"], 8 * p["sizeof_long"], 8 * p["sizeof_long_long"]
    vals = set()
    for bits in {ib, lb, llb}:
        for e in (bits - 1, bits, bits + 1):
            for d in (-1, 0, 1):
                if 0 <= 2 ** e + d < 2 ** 64:
                    vals.add(2 ** e + d)
    vals |= {0, 1, 7, 255, 32767, 65535, 65536}
    for _ in range(10 if quick else 80):
        vals.add(rng.randrange(2 ** rng.randint(1, 64)))
    sfxs = [b"", b"u", b"U", b"l", b"L", b"ul", b"lu", b"ll", b"LL", b"ull", b"llu", b"LLU"]
    lits = []
    for v in sorted(vals):
        for base in (10, 16, 8, 2):
            for sfx in (sfxs if not quick else rng.sample(sfxs, 4)):
                if base == 10 and v == 0:
                    continue
                lits.append(G.make_literal(rng, base, G.to_digits(v, base), sfx, lower_only=True))
    lits = list({l[0]: l for l in lits}.values())
    path = os.path.join(wd, "l_%s.c" % pname.replace("-", "_"))
    with open(path, "w") as f:
        for i, l in enumerate(lits):
            f.write("void f%d(void) { long long v = %s ; }\n" % (i, l[0].decode()))
    rc, out = G.run_cppcheck(vlib.CPPCHECK, path, platform=pname)
    try:
        toks, vs = G.parse_dump(path + ".dump")[0]
    except Exception as e:
        run.violation("dump:lit:" + pname, "no dump for %s: %s" % (pname, e), {"broken": "dump", "platform": pname}, found_input=False)
        return
    byid = {t["id"]: t for t in toks}
    got = {}
    for t in toks:
        if t["str"] == "=" and t.get("astOperand2"):
            got[int(t["linenr"]) - 1] = byid[t["astOperand2"]]
    ml, sl = [], []
    for l in lits:
        dec, usfx, lc = lit_parts(l[0])
        args = [pname.encode(), b"1" if dec else b"0", b"1" if usfx else b"0", str(lc).encode(), str(l[1]).encode()]
        ml.append(vlib.enc_case([b"lit"] + args))
        args[1] = b"1" if l[2] == 10 else b"0"          # the language's notion of a decimal literal
        sl.append(vlib.enc_case([b"litspec"] + args))
    rc, mo, me = vlib.run_lines([model], ml)
    rc, so, se = vlib.run_lines([model], sl)
    for i, l in enumerate(lits):
        r = got.get(i)
        text = l[0].decode()
        if r is None or r.get("str") != text or "valueType-type" not in r:
            run.count("literal-type", None, bucket=pname + ",untyped")
            continue
        impl = (r.get("valueType-type", ""), r.get("valueType-sign", "") or "")
        m = vlib.dec_line(mo[i])
        mod = (m[0].decode(), m[1].decode())
        where = {"platform": pname, "literal": text, "value": l[1],
                 "how": "echo 'void f(void) { long long v = %s ; }' > t.c && %s --dump -q --platform=%s t.c  # valueType of the literal token" % (text, vlib.CPPCHECK, pname)}
        run.count("literal-type", None, nontrivial=(pname, text), bucket="%s,%s" % (pname, "ok" if mod == impl else "diff"))
        if mod != impl:
            nrep = run.extra.setdefault("_lit_diffs", 0)
            run.extra["_lit_diffs"] = nrep + 1
            if nrep >= 6:
                continue
            s = vlib.dec_line(so[i])          # search: ISO C 6.4.4.1 itself on this literal
            want = int(s[0]) if s and s[0].isdigit() else None
            have = ctype_of_dump(impl[0], impl[1] or None)
            if want is not None and want != have:
                run.violation("spec:lit:%s:%s" % (pname, text), "literal %s on %s: cppcheck types it %s %s, ISO C 6.4.4.1 says %s (the model says %s %s)"
                              % (text, pname, impl[1], impl[0], CT[want], mod[1], mod[0]),
                              dict(where, cppcheck_type="%s %s" % (impl[1], impl[0]), language_type=CT[want], model=mod))
            else:
                run.violation("model:lit:%s:%s" % (pname, text), "literal %s on %s: cppcheck types it %s %s, the model says %s %s" % (text, pname, impl[1], impl[0], mod[1], mod[0]),
                              dict(where, broken="correspondence literal type", impl=impl, model=mod), found_input=False)
            continue
        s = vlib.dec_line(so[i])
        want = int(s[0]) if s and s[0].isdigit() else None
        have = ctype_of_dump(impl[0], impl[1] or None)
        run.count("literal-type-spec", None, nontrivial=(pname, text), bucket="%s,%s" % (pname, "ok" if want == have else "nofit" if want is None else "diff"))
        if want is not None and want != have:
            dec, usfx, lc = lit_parts(l[0])
            key = "spec:lit:%s:%s" % (pname, text)
            run.violation(key, "literal %s on %s: cppcheck types it %s %s, ISO C 6.4.4.1 says %s" % (text, pname, impl[1], impl[0], CT[want]),
                          dict(where, cppcheck_type="%s %s" % (impl[1], impl[0]), language_type=CT[want]))


def spec_vs_clang(run, model, wd, names, ops, quick):
    """validate the extracted specification against clang for the targets that have a triple"""
    if not G.have(["clang", "--version"]):
        run.notes.append("clang not available: the specification is not cross-checked")
        return
    for pname in names:
        triple = TRIPLES[pname]
        for cpp in (False, True):
            cases = [(k, lst[0], a, b) for k, lst in ops.items() for a in range(12) for b in range(12)]
            sl = [vlib.enc_case([b"spec", b"1" if cpp else b"0", pname.encode(), str(k).encode(), str(a).encode(), str(b).encode()]) for k, op, a, b in cases]
            rc, so, se = vlib.run_lines([model], sl)
            exprs = []
            for (k, op, a, b), line in zip(cases, so):
                want = int(vlib.dec_line(line)[0])
                if cpp:
                    ta, tb, tw = (CT[x].replace("_Bool", "bool") for x in (a, b, want))
                    e = ("val<int>() ? val<%s>() : val<%s>()" % (ta, tb)) if op == "?:" else "val<%s>() %s val<%s>()" % (ta, op, tb)
                    exprs.append("same<decltype(%s), %s>::v" % (e, tw))
                else:
                    e = ("(int)0 ? (%s)0 : (%s)0" % (CT[a], CT[b])) if op == "?:" else "(%s)1 %s (%s)1" % (CT[a], op, CT[b])
                    exprs.append("_Generic((%s), %s: 1, default: 0)" % (e, CT[want]))
            prelude = "template<class T> T val(); template<class A, class B> struct same { static const bool v = false; }; template<class A> struct same<A, A> { static const bool v = true; };" if cpp else ""
            cc = ["clang", "-target", triple, "-std=c++17" if cpp else "-std=c11", "-Wno-everything"]
            with open(os.path.join(wd, "probe.c"), "w") as f:
                f.write("int x;\n")
            if not G.have(["clang", "-target", triple, "-fsyntax-only", "-Wno-everything", os.path.join(wd, "probe.c")]):
                run.notes.append("clang target %s not available" % triple)
                break
            res = G.gcc_static_asserts(cc, exprs, wd, cxx=cpp, prelude=prelude)
            for (k, op, a, b), r, e in zip(cases, res, exprs):
                run.count("spec-vs-clang", None, nontrivial=(pname, cpp, k, a, b), bucket="%s,%s,%s" % (pname, "cpp" if cpp else "c", r))
                if r is not True:
                    run.violation("specification:%s:%s:%d:%d:%d" % (pname, "cpp" if cpp else "c", k, a, b),
                                  "TypeConv/Spec.v disagrees with clang -target %s on `%s` (%s)" % (triple, e, "rejected" if r is None else "different type"),
                                  {"broken": "specification", "platform": pname, "assertion": e}, found_input=False)


if __name__ == "__main__":
    vlib.main(check, PID)
