#!/usr/bin/env python3
"""C29  Output is deterministic across runs.

prove:      coq/theories/Properties_C29.v  (file list independent of the directory enumeration
            order = C31's lister theorem; canon_ids = "equal up to injective renaming of ids",
            both directions; multi-job forwarding is a multiset = C15's merge theorem)
correspond: the property on the real binary (partial: the analysis passes themselves are only
            compared, not modelled): every generated input is run under >= 5 execution
            environments (default ASLR, setarch -R, malloc perturbation, other cwd + big
            environment, permuted readdir order via hook VERIF_DIRSEED); -j1 text and XML output
            are byte-compared, -j2 text output as a multiset, dump files with the *extracted*
            canon_ids comparator (Det/Run.v `canoneq`).
search:     a difference is reduced to the two environments and the first differing line / item.
"""
import os
import re
import shutil
import subprocess
import sys
import tempfile

sys.path.insert(0, os.path.dirname(os.path.dirname(os.path.abspath(__file__))))
import vlib
from props import c17 as G

PID = "C29"
TEMPLATE = "{file}:{line}:{column}:{severity}:{id}:{message}"

CPP_SNIPPETS = [
    "class K%d { public: K%d() {} int a; int b; int *p; void m(int i) { p[i] = a; } };\n",
    "template <class T> T mx%d(T a, T b) { return a > b ? a : b; }\nint umx%d(int q) { return mx%d(q, 1) + mx%d(2, q); }\n",
    "#include <vector>\n#include <map>\nint v%d(std::vector<int> &v, std::map<int, int*> &m) { for (auto it = v.begin(); it != v.end(); ++it) { if (*it == 3) v.erase(it); } int *p = m[1]; if (p) {} return *p; }\n",
    "struct N%d { N%d *next; int v; };\nint walk%d(struct N%d *n) { int s = 0; while (n) { s += n->v; n = n->next; } return s / (s - s); }\n",
    "void lk%d(int n) { char *a = new char[10]; char *b = new char[n]; if (n > 3) return; a[10] = 0; delete [] a; delete [] b; }\n",
    "int sw%d(int x) { int r; switch (x) { case 1: r = 1; break; case 2: break; } if (x == 1 && x == 2) {} return r; }\n",
]

# several entities at ONE location (declared by one macro expansion) and many declarations on one line:
# containers ordered by (file, line, column) cannot tell them apart - where pointer order can leak
GROUP_SNIPPETS = [
    "#define TWO_PARAMS%d(a, b) int *a, int *b\nint tp%d(TWO_PARAMS%d(p%d, q%d)) { return *p%d + *q%d; }\n",
    "#define THREE_PARAMS%d(a, b, c) const char *a, char *b, char *c\nint t3p%d(THREE_PARAMS%d(s%d, t%d, u%d)) { return *s%d + *t%d + *u%d; }\n",
    "#define DECL3_%d(a, b, c, x) int *a = x; int *b = x; int *c = x\nint d3_%d(int *x%d) { DECL3_%d(la%d, lb%d, lc%d, x%d); return *la%d + *lb%d + *lc%d; }\n",
    "#define FUNS%d(a, b, c) static int a(int *p) { return *p; } static int b(int *p) { return *p; } static int c(char *p) { return *p; }\nFUNS%d(fa%d, fb%d, fc%d)\nint usef%d(int *i, char *c) { return fa%d(i) + fb%d(i) + fc%d(c); }\n",
    "int sl%d(int *x%d) { int *a%d = x%d, *b%d = x%d, *c%d = x%d, *d%d = x%d; int u1, u2, u3; return *a%d + *b%d + *c%d + *d%d + u1 + u2 + u3; }\n",
    "#define UNUSED3_%d int ua%d; int ub%d; int uc%d\nvoid un%d(void) { UNUSED3_%d; }\n",
]
CPP_GROUP_SNIPPETS = [
    "#define MEMBERS%d int ma; int mb; char *mc; int md\nclass M%d { public: M%d() {} MEMBERS%d; };\n",
    "class SL%d { public: SL%d() {} int m1, m2, m3; char *p1, *p2; void f(int *a, int *b, int *c) { m1 = *a + *b + *c; } };\n",
    "#define GETTERS%d(T) int ga() { return T; } int gb() { return T; } int gc() { return T; }\nstruct G%d { int v; GETTERS%d(v) };\n",
]


def gen_tree(rng, d):
    """a source tree under d/src with subdirectories; returns list of relative source paths"""
    root = os.path.join(d, "src")
    os.makedirs(root)
    dirs = ["", "a", "b", os.path.join("a", "x"), "zz", "m1"]
    rng.shuffle(dirs)
    dirs = [""] + [x for x in dirs if x][:rng.randint(1, 4)]
    files = []
    case = G.gen_case(rng, trigger_macro=False, with_header=False)
    n = 0
    for name in case["names"]:
        sub = rng.choice(dirs)
        os.makedirs(os.path.join(root, sub), exist_ok=True)
        p = os.path.join(sub, "g%d_%s" % (n, name))
        open(os.path.join(root, p), "w").write(case["files"][name])
        files.append(p)
        n += 1
    for k in range(rng.randint(2, 6)):
        sub = rng.choice(dirs)
        os.makedirs(os.path.join(root, sub), exist_ok=True)
        body = ""
        for j in range(rng.randint(1, 4)):
            sn = rng.choice(CPP_SNIPPETS)
            u = 100 * k + j
            body += sn % tuple([u] * sn.count("%d"))
        p = os.path.join(sub, "%s%d.cpp" % (rng.choice(["u", "k", "q", "aa"]), k))
        open(os.path.join(root, p), "w").write(body)
        files.append(p)
    # files made of groups of entities at one location / on one line (C and C++)
    for k in range(rng.randint(2, 3)):
        sub = rng.choice(dirs)
        os.makedirs(os.path.join(root, sub), exist_ok=True)
        cpp = rng.random() < 0.5
        body = ""
        for j in range(rng.randint(3, 7)):
            sn = rng.choice(GROUP_SNIPPETS + (CPP_GROUP_SNIPPETS if cpp else []))
            u = 1000 + 100 * k + j
            body += sn % tuple([u] * sn.count("%d"))
        p = os.path.join(sub, "grp%d.%s" % (k, "cpp" if cpp else "c"))
        open(os.path.join(root, p), "w").write(body)
        files.append(p)
    # entries that must be skipped whatever their position in the enumeration
    open(os.path.join(root, "notes.txt"), "w").write("x\n")
    os.makedirs(os.path.join(root, "empty"), exist_ok=True)
    return files


def environments(rng, d):
    big = "x" * rng.randint(100, 4000)
    envs = [
        ("default", [], {}, d),
        ("setarch-R", ["setarch", os.uname().machine, "-R"], {}, d),
        ("malloc-perturb", [], {"MALLOC_PERTURB_": str(rng.randint(1, 255)), "MALLOC_ARENA_MAX": "1", "MALLOC_TOP_PAD_": str(rng.randint(0, 1 << 16))}, d),
        ("malloc-mmap", [], {"MALLOC_MMAP_THRESHOLD_": "64", "GLIBC_TUNABLES": "glibc.malloc.tcache_count=0"}, d),
        ("tcache0", [], {"GLIBC_TUNABLES": "glibc.malloc.tcache_count=0"}, d),
        ("mmap-small", [], {"GLIBC_TUNABLES": "glibc.malloc.mmap_threshold=%d:glibc.malloc.mmap_max=1000000" % rng.choice([32, 128, 1024])}, d),
        ("arena1-toppad", [], {"GLIBC_TUNABLES": "glibc.malloc.arena_max=1:glibc.malloc.tcache_count=%d:glibc.malloc.mxfast=0" % rng.choice([0, 1, 3]),
                               "MALLOC_TOP_PAD_": str(rng.randint(1, 1 << 20))}, d),
        ("other-cwd-env", [], {"VERIF_PAD": big, "LANG": "C", "TZ": "UTC-7", "COLUMNS": "13"}, None),
        ("dirseed-a", [], {"VERIF_DIRSEED": str(rng.randint(1, 1 << 30))}, d),
        ("dirseed-b", ["setarch", os.uname().machine, "-R"], {"VERIF_DIRSEED": str(rng.randint(1, 1 << 30)), "MALLOC_PERTURB_": "77"}, d),
    ]
    return envs


def run_env(envspec, d, args, timeout=300):
    name, prefix, env, cwd = envspec
    e = dict(os.environ)
    e.pop("VERIF_DIRSEED", None)
    e.update(env)
    p = subprocess.run(prefix + [vlib.CPPCHECK] + args, cwd=cwd, env=e, stdout=subprocess.PIPE, stderr=subprocess.PIPE, timeout=timeout)
    return p.returncode, p.stdout, p.stderr


ID_RE = re.compile(rb'="([0-9a-f]{6,16})"')


def dump_items(data):
    """split a dump file into text chunks and element ids (values of id= attributes and every attribute value equal to one)"""
    universe = set(m.group(1) for m in re.finditer(rb'\bid="([0-9a-f]{6,16})"', data))
    items, pos = [], 0
    for m in ID_RE.finditer(data):
        if m.group(1) in universe:
            items.append(b"T" + data[pos:m.start(1)])
            items.append(b"I" + str(int(m.group(1), 16)).encode())
            pos = m.end(1)
    items.append(b"T" + data[pos:])
    return items, len(universe)


K_VARORDER = "dump-variables-in-pointer-order"


def normalize_vars(data):
    """order the <var> elements of every <variables> section by a pointer-independent key (position of the
    name token, then the element with all ids blanked); used only to say in the replay file whether a dump
    difference is confined to the order of the <var> elements (the defect fixed by 18a8c79)"""
    universe = set(m.group(1) for m in re.finditer(rb'\bid="([0-9a-f]{6,16})"', data))
    tokpos = {}
    for m in re.finditer(rb'<token id="([0-9a-f]+)" file="([^"]*)" linenr="(\d+)" column="(\d+)"', data):
        tokpos[m.group(1)] = (m.group(2), int(m.group(3)), int(m.group(4)))
    blank = lambda l: ID_RE.sub(lambda m: b'="#"' if m.group(1) in universe else m.group(0), l)

    def fix(m):
        lines = m.group(2).split(b"\n")
        elems, cur = [], []
        for l in lines:
            if l.lstrip().startswith(b"<var ") and cur:
                elems.append(cur)
                cur = []
            cur.append(l)
        if cur:
            elems.append(cur)

        def key(el):
            nt = re.search(rb'nameToken="([0-9a-f]+)"', el[0])
            return (tokpos.get(nt.group(1), (b"", 0, 0)) if nt else (b"", 0, 0), [blank(x) for x in el])
        elems.sort(key=key)
        return m.group(1) + b"\n".join(b"\n".join(el) for el in elems) + m.group(3)
    return re.sub(rb'(  <variables>\n)(.*?)(\n  </variables>)', fix, data, flags=re.S)


K_CONTORDER = "dump-containers-in-pointer-order"


def normalize_containers(data):
    """order the <container> elements of the <containers> section by their content with ids blanked"""
    universe = set(m.group(1) for m in re.finditer(rb'\bid="([0-9a-f]{6,16})"', data))
    blank = lambda l: ID_RE.sub(lambda m: b'="#"' if m.group(1) in universe else m.group(0), l)

    def fix(m):
        elems = re.findall(rb'    <container .*?</container>\n|    <container [^\n]*/>\n', m.group(2), flags=re.S)
        if b"".join(elems) != m.group(2):
            return m.group(0)
        elems.sort(key=blank)
        return m.group(1) + b"".join(elems) + m.group(3)
    return re.sub(rb'(  <containers>\n)(.*?)(  </containers>)', fix, data, flags=re.S)


def first_diff(a, b):
    la, lb = a.split(b"\n"), b.split(b"\n")
    for i, (x, y) in enumerate(zip(la, lb)):
        if x != y:
            return i + 1, x[:200], y[:200]
    return min(len(la), len(lb)) + 1, b"<end>", b"<end>"


def check(run, replay):
    quick = run.tier == "quick"
    rng = run.rng
    run.trusted_base += [
        "Coq 8.16.1 kernel (coqc); vm_compute only in the Example",
        "extraction: Require Extraction + ExtrOcamlBasic only (FMapPositive from the standard library for the id table); ocaml/driver.ml",
        "tools/props/c29.py: splitting a dump file into text chunks and ids (an id is any attribute value equal to the value of some id= attribute), environment set-up, byte/multiset comparison of outputs",
        "C31's model of FileLister (Path/Defs.v) and C15's model of Executor::hasToLog (Par/Defs.v) are reused; their ties to the code are C31's and C15's checks",
        "not modelled: the analysis passes; their dependence on pointer values / hash seeds / allocation patterns is only observed by the differential runs (>= 10 environments per input)",
    ]
    run.assumptions += ["g++ compiles /repo faithfully", "hook 51e8900 (VERIF_DIRSEED) only permutes the order in which FileLister::addFiles2 processes readdir's entries",
                        "setarch -R disables address-space randomisation; the default runs have it enabled (kernel.randomize_va_space=2)"]
    run.extra["rule"] = ("generated source trees (2-4 C files with planted findings and inline suppressions from the C17 generator + 2-6 C++ files of snippets "
                         "with classes, templates, containers, leaks, in 1-5 nested directories plus entries to be skipped); each tree is analysed as a directory "
                         "under 10 environments x {text -j1, xml -j1, dump -j1, text -j2}. non-trivial = output has at least one finding / dump has ids; distinct (input, mode).")

    vlib.ensure_repo_build()
    ok = run.prove(extra_targets=["theories/Det/Run.vo"])
    if not ok:
        run.violation("proof:" + PID, "Properties_C29.vo does not build: " + str(run.proof_error())[:300],
                      {"broken": "proof", "detail": run.proof_error()}, found_input=False)
    model = vlib.build_model(PID) if os.path.exists(os.path.join(vlib.COQ, "theories/Det/Run.vo")) else None

    # the hook must be alive, otherwise the readdir legs are vacuous
    d0 = tempfile.mkdtemp(prefix="c29h_")
    try:
        os.makedirs(os.path.join(d0, "src"))
        for i in range(12):
            open(os.path.join(d0, "src", "f%02d.c" % i), "w").write("int f%d(void){return %d;}\n" % (i, i))
        orders = set()
        for seed in ("", "1", "2", "3"):
            e = dict(os.environ)
            e.pop("VERIF_DIRSEED", None)
            if seed:
                e["VERIF_DIRSEED"] = seed
            p = subprocess.run([vlib.CPPCHECK, "--debug-ignore"] + ["-isrc/f%02d.c" % i for i in range(12)] + ["src"], cwd=d0, env=e,
                               stdout=subprocess.PIPE, stderr=subprocess.PIPE)
            orders.add(tuple(l for l in p.stdout.decode().split("\n") if l.startswith("ignored path")))
        run.extra["hook_alive_distinct_enumeration_orders"] = len(orders)
        if len(orders) < 2:
            run.violation("hook:dirseed", "VERIF_DIRSEED does not change the enumeration order (hook missing?)",
                          {"broken": "hook", "orders": [list(o) for o in orders]}, found_input=False)
    finally:
        shutil.rmtree(d0, ignore_errors=True)

    n_inputs = 3 if quick else 60
    for ci in range(n_inputs):
        d = tempfile.mkdtemp(prefix="c29_")
        d2 = tempfile.mkdtemp(prefix="c29_other_cwd_with_a_longer_name_")
        try:
            files = gen_tree(rng, d)
            shutil.copytree(os.path.join(d, "src"), os.path.join(d2, "src"))
            envs = [(n, p, e, c or d2) for n, p, e, c in environments(rng, d)]
            enable = "all"
            inc = ["--inconclusive"]
            modes = [
                ("text-j1", ["-q", "--inline-suppr", "--enable=" + enable, "--template=" + TEMPLATE] + inc + ["src"]),
                ("xml-j1", ["-q", "--inline-suppr", "--enable=" + enable, "--xml"] + inc + ["src"]),
                ("text-j2", ["-q", "-j2", "--inline-suppr", "--enable=warning,style,performance,portability,information",
                             "--template=" + TEMPLATE] + inc + ["src"]),
                ("dump-j1", ["-q", "--dump", "src"]),
            ]
            for mode, args in modes:
                ref = None
                for envspec in envs:
                    cwd = envspec[3]
                    if mode == "dump-j1":
                        for f in files:
                            try:
                                os.remove(os.path.join(cwd, "src", f + ".dump"))
                            except OSError:
                                pass
                    rc, out, err = run_env(envspec, d, args)
                    if mode == "dump-j1":
                        obs = {}
                        for f in files:
                            try:
                                obs[f] = open(os.path.join(cwd, "src", f + ".dump"), "rb").read()
                            except OSError:
                                obs[f] = None
                    elif mode == "text-j2":
                        obs = (rc, sorted(err.split(b"\n")), out)
                    else:
                        obs = (rc, err, out)
                    if ref is None:
                        ref = (envspec[0], obs)
                        continue
                    stream = "X " + mode
                    if mode != "dump-j1":
                        nt = (ci, mode) if (err.strip() and b"<error " in err) or (mode != "xml-j1" and err.strip()) else None
                        run.count(stream, None, nontrivial=nt, bucket="%s vs %s" % (envspec[0], ref[0]))
                        if obs != ref[1]:
                            run.stream(stream)["disagreements"] += 1
                            a = b"\n".join(ref[1][1]) if mode == "text-j2" else ref[1][1]
                            b = b"\n".join(obs[1]) if mode == "text-j2" else obs[1]
                            ln, x, y = first_diff(a, b)
                            key = "dirorder" if "dirseed" in envspec[0] and ref[0] == "default" and False else \
                                "x:%s:%s" % (mode, vlib.hashlib.sha1(a + b"|" + b).hexdigest()[:10])
                            run.violation(key, "%s output differs between environment %s and %s (first difference at line %d)" % (mode, ref[0], envspec[0], ln),
                                          {"mode": mode, "args": args, "env_a": ref[0], "env_b": envspec[0], "env_b_settings": envspec[2], "prefix_b": envspec[1],
                                           "exit_a": ref[1][0], "exit_b": obs[0], "line": ln, "a": x.decode("latin-1"), "b": y.decode("latin-1"),
                                           "sources": {f: open(os.path.join(d, "src", f)).read() for f in files},
                                           "how": "write the sources under src/, run `cppcheck %s` under both environments and compare stderr" % " ".join(args)})
                    else:
                        for f in files:
                            A, B = ref[1].get(f), obs.get(f)
                            if A is None or B is None:
                                run.count(stream, None, bucket="nodump")
                                if (A is None) != (B is None):
                                    run.violation("x:dumpmissing:%s" % f, "dump file for %s written in one environment only" % f,
                                                  {"file": f, "env_a": ref[0], "env_b": envspec[0]})
                                continue
                            ia, na = dump_items(A)
                            ib, nb = dump_items(B)
                            if model is None:
                                continue
                            _, mo, _ = vlib.run_lines([model], [vlib.enc_case([b"canoneq"] + ia + [b"|"] + ib)])
                            res = vlib.dec_line(mo[0])
                            run.count(stream, None, nontrivial=(ci, f) if na else None,
                                      bucket="%s vs %s,%s" % (envspec[0], ref[0], "identical-bytes" if A == B else "renamed"))
                            if res != [b"1"]:
                                run.stream(stream)["disagreements"] += 1
                                # diagnosis (fixed by 18a8c79, must not come back): only the order of the <var> elements differs
                                ja, _ = dump_items(normalize_vars(A))
                                jb, _ = dump_items(normalize_vars(B))
                                _, mo2, _ = vlib.run_lines([model], [vlib.enc_case([b"canoneq"] + ja + [b"|"] + jb)])
                                if vlib.dec_line(mo2[0]) == [b"1"]:
                                    run.extra["varorder_cases"] = run.extra.get("varorder_cases", 0) + 1
                                    run.violation(K_VARORDER, "dump of %s differs between environment %s and %s: the <var> elements of the <variables> section come in a different order (pointer order? fix 18a8c79 missing?)" % (f, ref[0], envspec[0]),
                                                  {"file": f, "env_a": ref[0], "env_b": envspec[0], "env_b_settings": envspec[2],
                                                   "source": open(os.path.join(d, "src", f)).read(),
                                                   "how": "cppcheck -q --dump f  vs  MALLOC_MMAP_THRESHOLD_=64 cppcheck -q --dump f (no hook needed): the <variables> sections list the same variables in a different order"})
                                    continue
                                # diagnosis (fixed by 0cfaf99, must not come back): only the order of the <container> elements differs
                                ja, _ = dump_items(normalize_containers(A))
                                jb, _ = dump_items(normalize_containers(B))
                                _, mo3, _ = vlib.run_lines([model], [vlib.enc_case([b"canoneq"] + ja + [b"|"] + jb)])
                                if vlib.dec_line(mo3[0]) == [b"1"]:
                                    run.extra["containerorder_cases"] = run.extra.get("containerorder_cases", 0) + 1
                                    run.violation(K_CONTORDER, "dump of %s differs between environment %s and %s: the <container> elements of the <containers> section come in a different order (pointer order? fix 0cfaf99 missing?)" % (f, ref[0], envspec[0]),
                                                  {"file": f, "env_a": ref[0], "env_b": envspec[0], "env_b_settings": envspec[2],
                                                   "source": open(os.path.join(d, "src", f)).read(),
                                                   "how": "a file using two library containers (std::vector and std::map): cppcheck -q --dump f.cpp  vs  "
                                                          "GLIBC_TUNABLES=glibc.malloc.mmap_threshold=32:glibc.malloc.mmap_max=1000000 cppcheck -q --dump f.cpp: "
                                                          "the <containers> sections list the same containers in a different order"})
                                    continue
                                idx = int(res[1]) if len(res) > 1 and res[1].isdigit() else -1
                                run.violation("x:dump:%s" % vlib.hashlib.sha1(A + b"|" + B).hexdigest()[:10],
                                              "dump of %s differs beyond a renaming of ids between environment %s and %s" % (f, ref[0], envspec[0]),
                                              {"file": f, "env_a": ref[0], "env_b": envspec[0], "model_answer": vlib.show(res), "first_differing_item": idx,
                                               "item_a": vlib.show(ia[idx][:200]) if 0 <= idx < len(ia) else None,
                                               "item_b": vlib.show(ib[idx][:200]) if 0 <= idx < len(ib) else None,
                                               "source": open(os.path.join(d, "src", f)).read(),
                                               "how": "cppcheck -q --dump src under both environments; compare the .dump files after renaming ids by first occurrence"})
                            if len(run.samples) < 3:
                                run.samples.append({"stream": stream, "file": f, "ids": na, "items": len(ia), "model": vlib.show(res)})
        finally:
            shutil.rmtree(d, ignore_errors=True)
            shutil.rmtree(d2, ignore_errors=True)

    # the comparator itself: a renamed copy is accepted, a copy with two ids merged / swapped once is rejected
    if model:
        for k in range(20 if quick else 300):
            n = rng.randint(1, 30)
            doc = [(b"I" + str(rng.randint(1, 8) * 4096).encode()) if rng.random() < 0.5 else (b"T" + bytes(rng.choice(b"ab<>=") for _ in range(rng.randint(0, 3)))) for _ in range(n)]
            ids = sorted({x for x in doc if x[:1] == b"I"})
            perm = list(ids)
            rng.shuffle(perm)
            ren = dict(zip(ids, [b"I" + str(7 + 13 * i).encode() for i in range(len(ids))]))
            good = [ren.get(x, x) for x in doc]
            bad = list(good)
            pos = [i for i, x in enumerate(bad) if x[:1] == b"I"]
            expect_bad = None
            if len(ids) >= 2 and pos:
                i = rng.choice(pos)
                other = rng.choice([v for v in ren.values() if v != bad[i]])
                bad[i] = other
                # is `bad` still a consistent injective renaming of doc?
                m, inj, okr = {}, {}, True
                for x, y in zip(doc, bad):
                    if x[:1] == b"I":
                        if m.setdefault(x, y) != y or inj.setdefault(y, x) != x:
                            okr = False
                expect_bad = okr
            for other_doc, expect in ((good, True), (bad, expect_bad)):
                if expect is None:
                    continue
                _, mo, _ = vlib.run_lines([model], [vlib.enc_case([b"canoneq"] + doc + [b"|"] + other_doc)])
                res = vlib.dec_line(mo[0])
                run.count("comparator self-test", None, nontrivial=(tuple(doc), tuple(other_doc)), bucket="expect-equal" if expect else "expect-different")
                if (res == [b"1"]) != expect:
                    run.stream("comparator self-test")["disagreements"] += 1
                    run.violation("cmp:%d" % k, "extracted canoneq answers %s, renaming check says %s" % (vlib.show(res), expect),
                                  {"broken": "comparator", "a": vlib.show(doc), "b": vlib.show(other_doc)}, found_input=False)


if __name__ == "__main__":
    vlib.main(check, PID)
