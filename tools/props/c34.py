#!/usr/bin/env python3
"""C34  Addon results are relayed faithfully.

prove:      coq/theories/Properties_C34.v  (convert: faithful on well-formed results, never a fabricated finding,
            total classification; executeAddon line validation = declarative rule; sequencing up to the first
            exception; setmsg; suppressibility = C23's logger theorem applied to the relayed message)
correspond: extracted model (Addon/Run.v) vs harness/vh_c34.cpp = the real CppCheck::executeAddons (+ static
            executeAddon, picojson) driven by a scripted command callback; ErrorMessage::setmsg; severityFromString
            end-to-end: the real binary with --addon=<generated script.py> (python found by cppcheck), with/without
            --cppcheck-build-dir, -j1/-j2, suppressions: reported findings (XML) and exit status vs the model
search:     a disagreement is re-evaluated against the property itself (is a reported finding exactly one of the
            addon's well-formed enabled results / is every such result reported); the replay is the addon output
"""
import hashlib
import json
import os
import shutil
import subprocess
import sys
import xml.etree.ElementTree as ET
from concurrent.futures import ThreadPoolExecutor

sys.path.insert(0, os.path.dirname(os.path.dirname(os.path.abspath(__file__))))
import vlib
from props import addon_common as A

PID = "C34"
WORK = os.path.join(vlib.BUILD, "work", "C34")


# ------------------------------------------------------------------ decoding of event lists
def split_events(fs):
    """flat field list -> list of events: ('F', id, sev, short, verbose, symbols, cwe, hash, [(file, info, line, col)]) | ('S',) ('M',) ('E',)"""
    out, i = [], 0
    while i < len(fs):
        t = fs[i]
        if t == b"F":
            n = int(fs[i + 8])
            locs = [tuple(fs[i + 9 + 4 * k: i + 13 + 4 * k]) for k in range(n)]
            out.append(("F",) + tuple(fs[i + 1:i + 8]) + (tuple(locs),))
            i += 9 + 4 * n
        elif t in (b"S", b"M", b"E"):
            out.append((t.decode(),))
            i += 1
        else:
            return None
    return out


def is_wellformed_enabled(v, mask, prem):
    """the property's own reading of one addon result (python side, used only by the search step)"""
    if v is None or v[0] != "o":
        return None
    d = {}
    for k, x in v[1]:
        d[k] = x
    if "summary" in d or "metric" in d:
        return None

    def s(k):
        return d[k][1] if k in d and d[k][0] == "s" else None

    def n(k):
        return d[k][1] if k in d and d[k][0] == "i" else None
    if None in (s("addon"), s("errorId"), s("message"), s("severity")):
        return None
    if "file" in d:
        if s("file") is None or n("linenr") is None or n("column") is None:
            return None
    elif "loc" in d:
        if d["loc"][0] != "a":
            return None
        for it in d["loc"][1]:
            if it[0] != "o":
                return None
            dd = dict(it[1])
            for k, ty in (("file", "s"), ("linenr", "i"), ("column", "i"), ("info", "s")):
                if k not in dd or dd[k][0] != ty:
                    return None
    for k in ("cwe", "hash"):
        if k in d and d[k][0] != "i":
            return None
    sev = s("severity")
    if sev not in A.SEVS[1:8]:
        return None
    if mask[A.SEVS.index(sev)] != "1":
        return None
    return s("addon") + "-" + s("errorId")


# ------------------------------------------------------------------ case generation
def gen_case(rng, idx):
    mask, prem = A.gen_settings(rng)
    builddir = rng.random() < 0.25
    nad = rng.choice([1, 1, 1, 2])
    addons = []
    for k in range(nad):
        ec = 0 if rng.random() < 0.93 else rng.choice([1, 2, 3, 255])
        lines = A.gen_lines(rng, "file0.c", "%d.%d" % (idx, k))
        text = b"\n".join(l for l, _ in lines)
        if lines and rng.random() < 0.8:
            text += b"\n"
        if lines and lines[-1][0] == b"" and not text.endswith(b"\n\n"):
            pass
        addons.append({"exit": ec, "lines": lines, "text": text})
    return {"mask": mask, "prem": prem, "builddir": builddir, "addons": addons}


def settings_fields(c):
    return [c["mask"].encode(), b"1" if c["builddir"] else b"0"] + [b"1" if p else b"0" for p in c["prem"]]


def model_fields(c):
    f = [b"file"] + settings_fields(c) + [str(len(c["addons"])).encode()]
    for a in c["addons"]:
        # the table is keyed by what std::getline yields for this text
        f += [str(a["exit"]).encode(), a["text"]] + A.table_fields(a["lines"])
    return f


def impl_fields(c):
    f = settings_fields(c) + [str(len(c["addons"])).encode()]
    for a in c["addons"]:
        f += [str(a["exit"]).encode(), a["text"]]
    return f


def canon(events, builddir):
    if events is None:
        return None
    return events      # (with a build dir the model already puts the summaries of the .ctu-info file last)


def describe(c):
    return {"enabled_mask(none,error,warning,style,performance,portability,information,debug,internal)": c["mask"],
            "premium(misra,cert,autosar)": c["prem"], "builddir": c["builddir"],
            "addons": [{"exitcode": a["exit"], "output": a["text"].decode("utf-8", "replace")} for a in c["addons"]]}


# ------------------------------------------------------------------ end-to-end
SCRIPT = '''import sys, os, json
data = json.load(open(os.path.join(os.path.dirname(os.path.abspath(__file__)), "%s.json")))
arg = sys.argv[-1]
if arg.endswith(".ctu-info") or "--file-list" in sys.argv:
    sys.exit(0)
base = os.path.basename(arg)
for src, (ec, hexout) in data.items():
    if base.startswith(src.rsplit(".", 1)[0] + "."):      # f.c.<pid>.dump, or <builddir>/f.a1.dump
        sys.stdout.buffer.write(bytes.fromhex(hexout))
        sys.stdout.flush()
        sys.exit(ec)
sys.exit(0)
'''


def e2e_case(rng, idx):
    """a run of the real binary: 1-3 source files, one scripted addon, options"""
    nfiles = rng.choice([1, 1, 2, 3])
    mask = ["0", "1"] + [rng.choice("01") for _ in range(5)] + ["0", "0"]
    if rng.random() < 0.3:
        mask = list("111111111")
    enable = [s for s, b in zip(A.SEVS, mask) if b == "1" and s in A.SEVS[2:7]]
    if "style" in enable:          # cli/cmdlineparser.cpp: --enable=style also enables warning, performance and portability
        for k in (2, 4, 5):
            mask[k] = "1"
    allsev = mask == list("111111111")
    files = {}
    for k in range(nfiles):
        name = "f%d_%d.c" % (idx, k)
        ec = 0 if rng.random() < 0.9 else rng.choice([1, 3])
        lines = A.gen_lines(rng, name, "%d.%d" % (idx, k))
        text = b"\n".join(l for l, _ in lines) + (b"\n" if lines else b"")
        files[name] = {"exit": ec, "lines": lines, "text": text}
    supp = None
    return {"mask": "".join(mask), "enable": enable, "all": allsev, "files": files,
            "builddir": rng.random() < 0.4, "jobs": rng.choice([1, 2]), "prem": [False] * 3,
            "executor": rng.choice(["thread", "process"])}


def run_e2e(c, idx):
    d = os.path.join(WORK, "e2e", "c%d" % idx)        # idx = position among the kept cases
    shutil.rmtree(d, ignore_errors=True)
    os.makedirs(d)
    for name in c["files"]:
        with open(os.path.join(d, name), "w") as fh:
            fh.write("int v_%s;\n" % name.replace(".", "_"))
    with open(os.path.join(d, "ad.json"), "w") as fh:
        json.dump({n: [f["exit"], f["text"].hex()] for n, f in c["files"].items()}, fh)
    with open(os.path.join(d, "ad.py"), "w") as fh:
        fh.write(SCRIPT % "ad")
    args = [vlib.CPPCHECK, "--addon=ad.py", "--xml", "--error-exitcode=7", "-q", "-j%d" % c["jobs"], "--executor=" + c["executor"]]
    if c["all"]:
        args.append("--enable=all")
    elif c["enable"]:
        args.append("--enable=" + ",".join(c["enable"]))
    if c["builddir"]:
        os.makedirs(os.path.join(d, "bd"))
        args.append("--cppcheck-build-dir=bd")
    args += sorted(c["files"])
    p = subprocess.run(args, cwd=d, stdout=subprocess.PIPE, stderr=subprocess.PIPE, timeout=300)
    return p.returncode, p.stderr.decode("utf-8", "replace"), d, args


def unfix(s):
    """inverse of ErrorMessage::fixInvalidChars on text that came through it (\\ooo escapes of non-printables)"""
    b = s.encode("utf-8", "surrogatepass")
    out, i = bytearray(), 0
    while i < len(b):
        if b[i] == 0x5c and i + 3 < len(b) + 0 and all(0x30 <= x <= 0x37 for x in b[i + 1:i + 4]) and len(b[i + 1:i + 4]) == 3:
            out.append(int(b[i + 1:i + 4], 8) & 255)
            i += 4
        else:
            out.append(b[i])
            i += 1
    return bytes(out)


def parse_xml(text):
    """-> {source file: [event]} in document order (findings of addons + internalError only)"""
    root = ET.fromstring(text)
    per = {}
    for e in root.iter("error"):
        idv = e.get("id")
        locs = [(l.get("origfile") or l.get("file"), l.get("info") or "", l.get("line"), l.get("column")) for l in e.findall("location")]
        locs.reverse()         # toXML writes the call stack back to front
        f0 = e.get("file0")
        if idv == "internalError":
            per.setdefault(f0 or (locs[0][0] if locs else ""), []).append(("E",))
            continue
        if idv in ("checkersReport", "unusedFunction", "missingInclude", "missingIncludeSystem", "unmatchedSuppression"):
            continue
        per.setdefault(f0 or "", []).append(("F", idv, e.get("severity"), e.get("msg"), e.get("verbose"), e.get("cwe") or "0", e.get("hash") or "0", tuple(locs)))
    return per


def expected_xml_events(events):
    """what of a model event list is visible in the XML report: findings (not internal severity), internalError"""
    out = []
    for e in events:
        if e[0] == "F":
            if e[2] == b"internal":
                continue
            locs = tuple((ws(l[0]), l[1], str(max(int(l[2]), 0)), l[3].decode()) for l in e[8])
            out.append(("F", ws(e[1]), e[2].decode(), e[3], e[4], e[6].decode(), e[7].decode(), locs))
        elif e[0] == "E":
            out.append(("E",))
    return out


def ws(b):
    """XML attribute-value normalisation: a literal tab / newline / CR in an attribute is read back as a space"""
    return b.replace(b"\t", b" ").replace(b"\n", b" ").replace(b"\r", b" ")


def norm_xml_event(e):
    """bring an XML event to the same shape: bytes for texts (undoing fixInvalidChars)"""
    if e[0] != "F":
        return e
    locs = tuple((ws(l[0].encode("utf-8", "surrogatepass")), unfix(l[1]), l[2], l[3]) for l in e[7])
    return ("F", ws(e[1].encode("utf-8", "surrogatepass")), e[2], unfix(e[3]), unfix(e[4]), e[5], e[6], locs)


def check(run, replay):
    quick = run.tier == "quick"
    rng = run.rng
    run.trusted_base += [
        "Coq 8.16.1 kernel (coqc); vm_compute only in the non-vacuity Examples",
        "extraction: Require Extraction + ExtrOcamlBasic only; ocaml/driver.ml; harness/vh_common.h + vh_c34.cpp (builds Settings/AddonInfo, calls CppCheck::executeAddons with a scripted ExecuteCmdFn, prints what reaches the ErrorLogger; a std::runtime_error leaving executeAddons is printed as the internalError event that CppCheck::checkInternal's handler produces - that handler itself is exercised by the end-to-end stream)",
        "picojson text parsing is a parameter `parse` of the line theorems; the executable instance is a table built by the generator (python json.dumps output, truncations, fixed malformed lines) and compared with the real picojson through both streams",
        "end-to-end observation: XML report parsed with xml.etree, \\ooo escapes of fixInvalidChars undone, location `origfile` preferred over the simplified `file`; texts of internalError messages are not compared (only their presence per file)",
        "modelled, not verified: lib/cppcheck.cpp executeAddon (line validation), CppCheck::executeAddons (conversion loop, severity filter), lib/errorlogger.cpp ErrorMessage::setmsg + replaceStr, lib/errortypes.cpp severityFromString",
    ]
    run.assumptions += ["g++ compiles /repo faithfully", "addon results without NUL characters; int64 -> int/unsigned/unsigned short/size_t conversions wrap (gcc)",
                        "CppCheckLogger duplicate elimination only merges identical results in the generated cases (every non-identical result carries a unique token in its message)"]
    run.extra["rule"] = ("file: 1-2 addons x 0-9 output lines: result objects (file/linenr/column | loc[] | none; addon, errorId, message, severity, optional cwe/hash/extra) with hostile strings "
                         "(quotes, backslashes, XML specials, control and non-ASCII characters, $symbol forms, embedded newlines), out-of-range integers, doubles, and mutations "
                         "(missing field, wrong type, summary, metric, duplicate key, shuffled), empty / 'Checking ' / non-JSON / truncated-JSON lines, exit codes <> 0, 30% duplicated settings; "
                         "non-trivial = distinct case with at least one '{' line; bucket = kinds of events. "
                         "e2e: real binary, 1-3 files, scripted python addon, --enable subsets, build dir on/off, -j1/-j2, thread/process executor; one evaluation = one source file of one run.")

    vlib.ensure_repo_build()
    os.makedirs(WORK, exist_ok=True)
    ok = run.prove(extra_targets=["theories/Addon/Run.vo"])
    if not ok:
        run.violation("proof:" + PID, "Properties_C34.vo does not build: " + str(run.proof_error())[:300],
                      {"broken": "proof", "detail": run.proof_error()}, found_input=False)
    if not os.path.exists(os.path.join(vlib.COQ, "theories/Addon/Run.vo")):
        return
    model = vlib.build_model(PID)
    vh = vlib.build_harness(PID)

    # ---- stream: setmsg
    base = ["", "a", "a\nb", "$symbol", "$symbol:x\n$symbol", "$symbol:x\n$symbol:y\nm $symbol", "x$symbol", "$symbol_", "$symbolx $symbol", "a $symbol\n$symbol b",
            "$symbol:\n$symbol", "$symbol:a", "\n", "a\n", "\n\n", "$symbol:a\n", "($symbol)", "$symbol$symbol", "$symbol:$symbol\n$symbol"]
    n = 400 if quick else 40000
    msgs = base + ["".join(rng.choice(["$symbol", "$symbol:", "\n", "a", "_", " ", "b1", "(", "é"]) for _ in range(rng.randint(0, 7))) for _ in range(n)]
    cases = [[m.encode("utf-8")] for m in dict.fromkeys(msgs)]
    diffs = vlib.correspond(run, "setmsg", model, [vh, "setmsg"], cases, tag="setmsg",
                            nontrivial=lambda c, m, i: c[0] if (b"$symbol" in c[0] or b"\n" in c[0]) else None,
                            bucket=lambda c, m, i: ("symbol-decl" if c[0].startswith(b"$symbol:") and b"\n" in c[0] else "newline" if b"\n" in c[0] else "plain") + (",$symbol" if b"$symbol" in c[0] else ""))
    for c, m, i in sorted(diffs, key=lambda d: len(d[0][0]))[:2]:
        run.violation("setmsg:" + c[0].hex()[:40], "ErrorMessage::setmsg(%r): model (short, verbose, symbols) = %s, implementation = %s" % (c[0], vlib.show(m), vlib.show(i)),
                      {"broken": "correspondence setmsg", "message": vlib.show(c[0]), "model": vlib.show(m), "impl": vlib.show(i),
                       "how": "echo '%s' | build/harness/vh_c34 setmsg" % vlib.enc_case(c)}, found_input=False)

    # ---- stream: severityFromString
    sevs = A.SEVS + ["", "ERROR", "Error", "errors", "warn", " style", "style ", "infomation", "debug ", "internal\n"] + [A.rstr(rng) for _ in range(60)]
    cases = [[s.encode()] for s in dict.fromkeys(sevs)]
    diffs = vlib.correspond(run, "severityFromString", model, [vh, "sev"], cases, tag="sev",
                            nontrivial=lambda c, m, i: c[0], bucket=lambda c, m, i: (m[0].decode() if m and m[0] else "none"))
    for c, m, i in diffs[:2]:
        run.violation("sev:" + c[0].hex(), "severityFromString(%r): model %s, implementation %s" % (c[0], vlib.show(m), vlib.show(i)),
                      {"broken": "correspondence severityFromString", "case": vlib.show(c), "model": vlib.show(m), "impl": vlib.show(i)}, found_input=False)

    # ---- stream: executeAddons through the scripted command callback
    n = 2500 if quick else 120000
    cs = [gen_case(rng, k) for k in range(n)]
    rc1, mo, me = vlib.run_lines([model], [vlib.enc_case(model_fields(c)) for c in cs])
    rc2, io, ie = vlib.run_lines([vh, "file"], [vlib.enc_case(impl_fields(c)) for c in cs])
    if rc1 != 0 or len(mo) != len(cs):
        raise vlib.BuildError("C34 model run failed rc=%s %d/%d %s" % (rc1, len(mo), len(cs), me[-800:]))
    if len(io) != len(cs):
        k = min(len(io), len(cs) - 1)
        run.violation("died:" + hashlib.sha1(vlib.enc_case(impl_fields(cs[k])).encode()).hexdigest()[:12],
                      "the implementation died (rc=%s) while relaying an addon output: %s" % (rc2, ie[-300:]),
                      dict(describe(cs[k]), case_line=vlib.enc_case(impl_fields(cs[k])), how="echo <case_line> | build/harness/vh_c34 file"))
        io = io + ["~"] * (len(cs) - len(io))
    shown = 0
    for c, a, b in zip(cs, mo, io):
        ml, il = vlib.dec_line(a), vlib.dec_line(b)
        me_, ie_ = canon(split_events(ml), c["builddir"]), canon(split_events(il) if not (il and il[0] == "!exc") else None, c["builddir"])
        kinds = "".join(sorted(set(e[0] for e in (me_ or [])))) or "-"
        has_brace = any(p is not None for a_ in c["addons"] for _, p in a_["lines"])
        run.count("executeAddons", None, nontrivial=hashlib.sha1(a.encode()).hexdigest() + hashlib.sha1(vlib.enc_case(impl_fields(c)).encode()).hexdigest() if has_brace else None,
                  bucket="events:" + kinds + (",builddir" if c["builddir"] else ""))
        if me_ != ie_:
            run.stream("executeAddons")["disagreements"] += 1
            if shown >= 3:
                continue
            shown += 1
            # search: judge by the property itself, not by the model
            ids_ok = set()
            for a_ in c["addons"]:
                for _, p in a_["lines"]:
                    if p and p[0] == "ok":
                        w = is_wellformed_enabled(p[1], c["mask"], c["prem"])
                        if w is not None:
                            ids_ok.add(w.encode("utf-8"))
            fabricated = [e for e in (ie_ or []) if e[0] == "F" and e[2] != b"internal" and e[1] not in ids_ok]
            key = "relay:" + hashlib.sha1(vlib.enc_case(impl_fields(c)).encode()).hexdigest()[:12]
            rep = dict(describe(c), model_events=vlib.show([list(map(str, e)) for e in (me_ or [])]), impl_events=vlib.show([list(map(str, e)) for e in (ie_ or [])]) if ie_ is not None else vlib.show(il),
                       case_line=vlib.enc_case(impl_fields(c)), how="echo <case_line> | build/harness/vh_c34 file")
            if ie_ is None:
                run.violation(key, "CppCheck::executeAddons let an exception other than std::runtime_error escape / crashed on this addon output: %s" % vlib.show(il), rep)
            elif fabricated:
                run.violation(key, "CppCheck::executeAddons reported %s which is not a well-formed enabled result of the addon" % vlib.show(fabricated[0][1]), rep)
            else:
                run.violation(key, "CppCheck::executeAddons relays this addon output differently from the model (expected %d events, got %d)" % (len(me_ or []), len(ie_)), rep,
                              found_input=True)
    if len(run.samples) < 12:
        for c, a in list(zip(cs, mo))[:2]:
            run.samples.append({"stream": "executeAddons", "case": describe(c), "model": vlib.show(vlib.dec_line(a))})

    # ---- stream: end to end on the real binary
    n = 14 if quick else 300
    # a relayed column in [1e5, 2^31) makes ErrorMessage::toString ({code} line: std::string(column-1, ' ')) allocate
    # gigabytes and run for minutes (observed: column 1410290982 -> 5.5 GB, 3 min, result still correct; see docs/C34.md);
    # such cases stay in the executeAddons stream and are left out of the end-to-end runs
    cand = [e2e_case(rng, k) for k in range(3 * n)]
    pre = []
    for c in cand:
        for name, f in sorted(c["files"].items()):
            pre.append(vlib.enc_case(model_fields({"mask": c["mask"], "prem": c["prem"], "builddir": c["builddir"], "addons": [f]})))
    rc0, po, _ = vlib.run_lines([model], pre)
    ecs, pi, skipped = [], 0, 0
    for c in cand:
        big = False
        for name in sorted(c["files"]):
            for e in split_events(vlib.dec_line(po[pi])) or []:
                if e[0] == "F" and any(100000 <= int(l[3]) < 2 ** 31 for l in e[8]):
                    big = True
                # the XML report writes id and file names raw: a control character there makes the report ill-formed XML
                # (reported to C26); such results stay in the executeAddons stream only
                if e[0] == "F" and any(ch < 32 and ch not in (9, 10, 13) for t in [e[1]] + [l[0] for l in e[8]] for ch in t):
                    big = True
            pi += 1
        if big:
            skipped += 1
        elif len(ecs) < n:
            ecs.append(c)
    run.extra["e2e_candidates_skipped_huge_column"] = skipped
    with ThreadPoolExecutor(max_workers=6) as ex:
        res = list(ex.map(lambda kc: run_e2e(kc[1], kc[0]), enumerate(ecs)))
    lines = []
    index = []
    for k, c in enumerate(ecs):
        for name, f in sorted(c["files"].items()):
            mc = {"mask": c["mask"], "prem": c["prem"], "builddir": c["builddir"], "addons": [f]}
            lines.append(vlib.enc_case(model_fields(mc)))
            index.append((k, name))
    rc1, mo, me = vlib.run_lines([model], lines)
    if rc1 != 0 or len(mo) != len(lines):
        raise vlib.BuildError("C34 model run failed (e2e)")
    expected = {}
    for (k, name), a in zip(index, mo):
        expected.setdefault(k, {})[name] = expected_xml_events(split_events(vlib.dec_line(a)) or [])
    shown = 0
    for k, (c, (rc, err, d, args)) in enumerate(zip(ecs, res)):
        try:
            per = parse_xml(err)
        except ET.ParseError as ex_:
            per = None
        want_rc = 7 if any(expected[k][nm] for nm in c["files"]) else 0
        for name in sorted(c["files"]):
            got = None if per is None else [norm_xml_event(e) for e in per.get(name, [])]
            want = expected[k][name]
            okk = got == want
            run.count("end-to-end", None, nontrivial=(k, name) if c["files"][name]["lines"] else None,
                      bucket="j%d,%s,%s" % (c["jobs"], c["executor"] if c["jobs"] > 1 else "single", "builddir" if c["builddir"] else "nobuilddir"))
            if not okk:
                run.stream("end-to-end")["disagreements"] += 1
                if shown < 3:
                    shown += 1
                    key = "e2e:" + hashlib.sha1((c["files"][name]["text"].hex() + c["mask"]).encode()).hexdigest()[:12]
                    run.violation(key, "cppcheck %s reports for %s %s, the model of the relay says %s" % (
                        " ".join(args[1:]), name, "unparsable XML" if got is None else "%d addon events" % len(got), "%d" % len(want)),
                        {"cwd": d, "args": args, "addon_output_for_file": c["files"][name]["text"].decode("utf-8", "replace"), "exitcode_of_addon": c["files"][name]["exit"],
                         "reported": vlib.show([list(map(str, e)) for e in (got or [])]), "expected": vlib.show([list(map(str, e)) for e in want]),
                         "how": "cd <cwd> && <args>  (ad.py prints the recorded output for each source file)"})
        if per is not None and rc != want_rc and shown < 3:
            shown += 1
            run.stream("end-to-end")["disagreements"] += 1
            run.violation("e2e-exit:%d:%s" % (k, c["mask"]), "exit status %d, expected %d (--error-exitcode=7 and %s reported finding)" % (rc, want_rc, "a" if want_rc else "no"),
                          {"cwd": d, "args": args, "stderr": err[-3000:]})
    run.extra["e2e_runs"] = len(ecs)
    run.samples.append({"stream": "end-to-end", "args": res[0][3][1:], "files": {n_: f["text"].decode("utf-8", "replace")[:300] for n_, f in ecs[0]["files"].items()}})


if __name__ == "__main__":
    vlib.main(check, PID)
