"""Edit/run histories on scratch projects for the real binary (C18, C19, C20):
generation, replay with a shared build dir against fresh runs, the per-run tie to the
model (files.txt text, cache key = std::hash(model hash data), hit/miss decision) and the
attribution of a stale cached result to the part of the unit state the key does not see."""
import hashlib
import os

import vlib
from props import cache_common as C

INC = ["-Iinc", "-Iinc2"]
SHIFTS = [1, 2, 255, 256, 257, 512, 65536]
# inline suppression comments put after `a[i] = x;`: none, matching (when i == 2), non-matching, misspelt
SUPP_IDS = [None, "arrayIndexOutOfBounds", "zerodiv", "arrayIndexOutOfBound"]
INLINE_OPTS = ["--inline-suppr", "--enable=information"]


def src_text(s):
    ind = " " * s["indent"]
    L = []
    if s.get("comment_top"):
        L.append("/* top %d */" % s["comment_top"])
    if s.get("hdr"):
        L.append('#include "h.h"')
    n = s["name"]
    if s.get("sc"):
        L += [ind + "int %s_s(int y) { return y + 1; }" % n]
    L += [ind + "int %s(int x)" % n, ind + "{", ind + "  int a[2];", ind + "  a[%d] = x;%s%s" % (s["idx"], " /* c */" if s.get("comment_in") else "",
                                                                                                         (" // cppcheck-suppress " + s["supp"]) if s.get("supp") else ""),
          ind + "  return %s%s100 / %s;" % ("hf(x) + " if s.get("hdr") else "", ("%s_s(x) + " % n) if s.get("sc") else "", s["div"]), ind + "}"]
    if s.get("extra"):
        L += [ind + "int %s_e(int *p)" % n, ind + "{", ind + "  int u;", ind + "  return u + *p;", ind + "}"]
    if s.get("odr"):
        L += [ind + "struct S { int f() { return %d; } };" % s["odr"]]
    L += ["// tail"] * s.get("comment_end", 0)
    return "\n" * s["pre"] + "\n".join(L) + "\n"


def hdr_text(s):
    ind = " " * s["indent"]
    L = [ind + "static int hf(int x)", ind + "{", ind + "  int b[2];", ind + "  b[%d] = x;" % s["idx"], ind + "  return b[0];", ind + "}"]
    L += ["// htail"] * s.get("comment_end", 0)
    return "\n" * s["pre"] + "\n".join(L) + "\n"


def new_src(rng, name, hdr, cpp=False):
    return {"name": name, "pre": 0, "indent": 0, "idx": rng.choice([1, 2]), "div": rng.choice(["0", "x"]),
            "hdr": hdr, "extra": rng.random() < 0.3, "comment_end": 0, "odr": 0, "supp": rng.choice(SUPP_IDS + [None, None])}


class World:
    """project state: sources path -> spec, one optional header (dir, spec)"""

    def __init__(self):
        self.src = {}
        self.hdr = None      # (dir, spec)

    def materialise(self, sc):
        want = {}
        for p, s in self.src.items():
            want[p] = src_text(s)
        if self.hdr:
            want[self.hdr[0] + "/h.h"] = hdr_text(self.hdr[1])
        have = []
        for root, _, files in os.walk(sc.p):
            for f in files:
                have.append(os.path.relpath(os.path.join(root, f), sc.p))
        for f in have:
            if f not in want:
                sc.remove(f)
        for f, t in want.items():
            if not sc.exists(f) or sc.read(f) != t:
                sc.write(f, t)
        for d in ("inc", "inc2"):
            os.makedirs(os.path.join(sc.p, d), exist_ok=True)

    def files(self):
        return sorted(self.src)


def apply_edit(w, e):
    k = e[0]
    if k == "tok":
        s = w.src[e[1]]
        if e[2] == "idx":
            s["idx"] = 3 - s["idx"]
        elif e[2] == "div":
            s["div"] = "x" if s["div"] == "0" else "0"
        else:
            s["extra"] = not s["extra"]
    elif k == "lineshift":
        w.src[e[1]]["pre"] += e[2]
    elif k == "colshift":
        w.src[e[1]]["indent"] += e[2]
    elif k == "comment":
        s = w.src[e[1]]
        if e[2] == "end":
            s["comment_end"] += 1
        elif e[2] == "in":
            s["comment_in"] = not s.get("comment_in")
        else:
            s["comment_top"] = s.get("comment_top", 0) + 1
    elif k == "supp":
        w.src[e[1]]["supp"] = e[2]
    elif k == "hdr_tok":
        w.hdr[1]["idx"] = 3 - w.hdr[1]["idx"]
    elif k == "hdr_lineshift":
        w.hdr[1]["pre"] += e[1]
    elif k == "hdr_colshift":
        w.hdr[1]["indent"] += e[1]
    elif k == "hdr_comment":
        w.hdr[1]["comment_end"] += 1
    elif k == "hdr_move":
        w.hdr = ("inc2" if w.hdr[0] == "inc" else "inc", w.hdr[1])
    elif k == "add":
        w.src[e[1]] = e[2]
    elif k == "remove":
        del w.src[e[1]]
    elif k == "rename":
        w.src[e[2]] = w.src.pop(e[1])
    elif k == "touch":
        pass
    else:
        raise ValueError(e)


NAMES = ["a.c", "b.c", "m.c", "sub/c.c", "sub/d.c", "zz.c"]
CLASH_NAMES = ["io.c", "stdio.c", "sub/a.c"]


def gen_history(rng, nsteps, allow_clash=False):
    """(initial world edits, steps). A step is ('edit', e) or ('run', jobs)."""
    w = World()
    w.hdr = ("inc", {"pre": 0, "indent": 0, "idx": rng.choice([1, 2]), "comment_end": 0})
    pool = list(NAMES) + (CLASH_NAMES if allow_clash else [])
    rng.shuffle(pool)
    steps = [("hdr0", w.hdr[0], dict(w.hdr[1]))]
    for i in range(rng.randint(1, 3)):
        p = pool.pop()
        steps.append(("edit", ("add", p, new_src(rng, "f%d" % i, rng.random() < 0.6))))
    nfn = 3
    sim = World()
    sim.hdr = (w.hdr[0], dict(w.hdr[1]))
    for st in steps[1:]:
        apply_edit(sim, ("add", st[1][1], dict(st[1][2])))
    steps.append(("run", rng.choice([1, 2])))
    for _ in range(nsteps):
        r = rng.random()
        files = sim.files()
        if r < 0.4 or not files:
            steps.append(("run", rng.choice([1, 1, 2])))
            continue
        f = rng.choice(files)
        kinds = ["tok", "lineshift", "colshift", "comment", "supp", "supp", "hdr_tok", "hdr_lineshift", "hdr_colshift", "hdr_comment",
                 "hdr_move", "add", "remove", "rename", "touch"]
        k = rng.choice(kinds)
        if k == "tok":
            e = ("tok", f, rng.choice(["idx", "div", "extra"]))
        elif k == "lineshift":
            e = ("lineshift", f, rng.choice(SHIFTS))
        elif k == "colshift":
            e = ("colshift", f, rng.choice([1, 255, 256, 257, 512]))
        elif k == "comment":
            e = ("comment", f, rng.choice(["end", "in", "top"]))
        elif k == "supp":
            e = ("supp", f, rng.choice(SUPP_IDS))
        elif k == "hdr_lineshift":
            e = (k, rng.choice(SHIFTS))
        elif k == "hdr_colshift":
            e = (k, rng.choice([1, 255, 256, 257]))
        elif k in ("hdr_tok", "hdr_comment", "hdr_move"):
            e = (k,)
        elif k == "add":
            if not pool:
                continue
            e = ("add", pool.pop(), new_src(rng, "f%d" % nfn, rng.random() < 0.6))
            nfn += 1
        elif k == "remove":
            if len(files) < 2:
                continue
            e = ("remove", f)
        elif k == "rename":
            if not pool:
                continue
            e = ("rename", f, pool.pop())
        else:
            e = ("touch", f)
        apply_edit(sim, e if e[0] != "add" else ("add", e[1], dict(e[2])))
        steps.append(("edit", e))
    if steps[-1][0] != "run":
        steps.append(("run", 1))
    return steps


def ustate_of(T, sc, ti, f, incs):
    d = T.vh_run("calchash", [[ti, sc.p, f] + list(incs)])[0]
    if d and d[0] in (b"!load", b"!chdir"):
        return None
    h, toks, hdrs, raw = C.parse_dump(d)
    return {"hash": h, "path": f, "toks": toks, "hdrs": hdrs, "raw": raw}


def diff_reason(old, new):
    """which part of the unit state differs between the state that produced a cache
    entry and the state that hit it (None = nothing differs)"""
    if old is None or new is None:
        return "no-state"
    reasons = set()
    if old["path"] != new["path"]:
        reasons.add("key-omits-sourcepath")
    if [h[0] for h in old["hdrs"]] != [h[0] for h in new["hdrs"]]:
        reasons.add("key-omits-headerpath")
    streams_old = [old["toks"]] + [h[1] for h in old["hdrs"]]
    streams_new = [new["toks"]] + [h[1] for h in new["hdrs"]]
    if len(streams_old) != len(streams_new):
        return "unexplained-hit"
    for a, b in zip(streams_old, streams_new):
        if [t[0] for t in a] != [t[0] for t in b]:
            return "unexplained-hit"
        for x, y in zip(a, b):
            if (x[1], x[2]) != (y[1], y[2]):
                if (x[1] - y[1]) % 256 == 0 and (x[2] - y[2]) % 256 == 0:
                    reasons.add("hash-linecol-mod256")
                else:
                    return "unexplained-hit"
    if not reasons:
        return None
    return "+".join(sorted(reasons))


def play(run, T, steps, opts, ti_fn, tag, stream="history", check_key=True):
    """Replay one history on the real binary. Returns list of problems:
    (key, what, replay) for stale results; correspondence breaks are reported with key 'tie:*'."""
    sc = C.Scratch(tag)
    w = World()
    w.hdr = None
    problems = []
    entry_state = {}
    log = []
    try:
        hdr0 = ("inc", {"pre": 0, "indent": 0, "idx": 2, "comment_end": 0})
        w.hdr = hdr0
        for st in steps:
            if st[0] == "hdr0":
                w.hdr = (st[1], dict(st[2]))
        nrun = 0
        for si, st in enumerate(steps):
            if st[0] == "hdr0":
                continue
            if st[0] == "edit":
                e = st[1]
                apply_edit(w, e if e[0] != "add" else ("add", e[1], dict(e[2])))
                w.materialise(sc)
                if e[0] == "touch" and sc.exists(e[1]):
                    sc.touch(e[1])
                log.append("edit " + " ".join(str(x) if not isinstance(x, dict) else "<new file>" for x in e))
                continue
            jobs = st[1]
            w.materialise(sc)
            files = w.files()
            if not files:
                continue
            nrun += 1
            before = {af: C.cache_hash(sc, af) for af in os.listdir(sc.bd) if ".a" in af}
            cached, dbg, rc = C.cppcheck(sc, files, INC + list(opts), builddir=True, jobs=jobs, debug=True)
            fresh, _, _ = C.cppcheck(sc, files, INC + list(opts), builddir=False, jobs=1)
            hits = C.hits_of(dbg)
            log.append("run -j%d files=%s  hits=%s" % (jobs, files, sorted(hits)))
            # ---- tie to the model for this run (skipped when there is no model: T is None)
            txt, rows = C.read_files_txt(sc)
            order = [r[1] for r in rows]
            mok, maf, states = True, {}, {}
            if T is None:
                for f in order:
                    run.count(stream, None, nontrivial=(tag, si, f), bucket="hit" if f in hits else "miss")
                order_for_model = []
            else:
                order_for_model = order
            mres = [[b""], [b"1"]] if T is None else T.model_run([["filestxt"] + order, ["lookupok"] + order] + [["lookup", f] + order for f in order])
            mtxt, mok = mres[0], mres[1] == [b"1"]
            if T is not None and (mtxt[0] if mtxt else b"").decode("latin-1") != txt:
                problems.append(("tie:filestxt", "files.txt written by the binary differs from the model's text",
                                 {"files": order, "real": txt, "model": vlib.show(mtxt)}, False))
            if T is not None:
                maf = {f: (m[0].decode("latin-1") if m else "") for f, m in zip(order, mres[2:])}
            for f in order_for_model:
                ti = ti_fn(f, sc)
                us = ustate_of(T, sc, ti, f, ["inc", "inc2"])
                states[f] = us
                if us is None:
                    continue
                hd = T.model_run([["hashdata", ti, f] + us["raw"]])[0]
                mkey = T.vh_run("stdhash", [[hd[0] if hd else b""]])[0][0].decode()
                us["mkey"] = mkey
                af = maf[f]
                pred_hit = before.get(af) == mkey
                real_hit = f in hits
                nontrivial = (len(us["toks"]), len(us["hdrs"]), pred_hit, jobs)
                run.count(stream, None, nontrivial=(tag, si, f), bucket="hit" if real_hit else "miss")
                if mok and check_key:
                    if pred_hit != real_hit and not has_internal(sc, af):
                        problems.append(("tie:decision", "model predicts %s, binary %s for %s" % (
                            "hit" if pred_hit else "miss", "hit" if real_hit else "miss", f),
                            {"file": f, "afile": af, "model_key": mkey, "stored_hash_before": before.get(af)}, False))
                    now = C.cache_hash(sc, af)
                    if now is not None and now != mkey:
                        problems.append(("tie:key", "hash attribute %s written for %s differs from std::hash(model hash data) %s" % (now, f, mkey),
                                         {"file": f, "afile": af}, False))
                if not real_hit:
                    entry_state[af] = us
            # ---- the property: cached run == fresh run
            if cached != fresh:
                reasons = set()
                if not mok:
                    reasons.add("files-txt-suffix-clash")
                for f in order_for_model:
                    if f in hits:
                        r = diff_reason(entry_state.get(maf[f]), states[f])
                        if r:
                            reasons.add(r)
                key = "+".join(sorted(reasons)) if reasons else "history:" + hashlib.sha1(repr(steps).encode()).hexdigest()[:12]
                only_c = [l for l in cached if l not in fresh]
                only_f = [l for l in fresh if l not in cached]
                if not reasons and not only_c and only_f and all(":staticFunction:" in l for l in only_f):
                    key = "builddir-misses-staticFunction"
                # an unmatchedSuppression finding stored in a cache file that was hit carries the column of the
                # suppression comment; comments are not tokens and the suppression dump in the key has no column
                if not reasons and (only_c or only_f) and all(":information:unmatchedSuppression:" in l for l in only_c + only_f) \
                        and all(l.split(":", 1)[0] in hits for l in only_c + only_f):
                    key = "inline-suppression-column-not-in-key"
                what = "run %d (-j%d) with the build dir differs from a run without it: only cached %s, only fresh %s" % (
                    nrun, jobs, only_c[:3], only_f[:3])
                problems.append((key, what, {"history": log[:], "options": INC + list(opts), "files": files,
                                             "cached": cached, "fresh": fresh, "cache_hits": sorted(hits),
                                             "sources_at_this_run": {f: sc.read(f) for f in files if len(sc.read(f)) < 4000},
                                             "model_tie": "on" if T is not None else "off (translator or proof failed): plain cached-vs-fresh comparison",
                                             "how": "replay the listed edits/runs in a scratch dir with --cppcheck-build-dir; compare the last run with one without it"},
                                 True))
            run.count(stream + ":runs", None, nontrivial=(tag, si), bucket="agree" if cached == fresh else "differ")
    finally:
        sc.close()
    return problems


def has_internal(sc, af):
    p = os.path.join(sc.bd, af)
    try:
        return b'id="internalError"' in open(p, "rb").read()
    except OSError:
        return False
