#!/usr/bin/env python3
"""C22  Whole-program results do not depend on how summaries are stored.

translate:  tools/translate/ctu_names.py regenerates coq/theories/Ctu/Gen_Names.v (the element names
            the writers emit and the readers accept) from lib/ctu.cpp
prove:      coq/theories/Properties_C22.v (toxml/decoding round trip, summary round trips for any names
            with writer = reader, whole-program storage independence, the path search = bounded
            reachability, invariance under file order, and the refutation for the names of the
            unrepaired code)
correspond: extracted model (Ctu/Run.v, instantiated with the regenerated names) vs harness/vh_c22.cpp on
            ErrorLogger::toxml + tinyxml2, CTU::FileInfo::toString -> tinyxml2 -> loadFromXml,
            CTU::toString(UnsafeUsage) -> loadUnsafeUsageListFromXml, and the analyseWholeProgram of the
            null-pointer / uninitvar / bufferoverrun checks on in-memory and on stored-and-reloaded summaries
search:     the property itself on the implementation: (a) harness: findings from in-memory CTU summaries
            vs from the same summaries written and read back; (b) the real binary on generated projects in
            the modes -j1, -j1 + build dir (first and cached run), -j2 + build dir.
"""
import hashlib
import os
import sys

sys.path.insert(0, os.path.dirname(os.path.dirname(os.path.abspath(__file__))))
import vlib
from props import ctu_common as G
sys.path.insert(0, os.path.join(vlib.VERIF, "tools", "translate"))
import ctu_names

PID = "C22"
KEY_NESTED = "nested-call-element"
KEY_STATIC = "staticFunction-builddir"
KEY_UNESC = "unescaped-function-id"
KEY_LOSSY = "toxml-lossy-nonascii"


def split_findings(fields):
    """findings_out -> list of tuples"""
    if not fields or fields[0] in (b"U", b"B", b"!parse", "!exc", "!died"):
        return None
    try:
        n = int(fields[0])
        i, out = 1, []
        for _ in range(n):
            fid, sev, msg, file0, nl = fields[i:i + 5]
            nl = int(nl)
            locs = tuple(tuple(fields[i + 5 + 4 * k:i + 9 + 4 * k]) for k in range(nl))
            out.append((fid, sev, msg, file0, locs))
            i += 5 + 4 * nl
        return out
    except (ValueError, IndexError):
        return None


def check(run, replay):
    quick = run.tier == "quick"
    rng = run.rng
    run.trusted_base += [
        "Coq 8.16.1 kernel (coqc); vm_compute only in the refutation witnesses and the non-vacuity Examples; no native_compute",
        "extraction: Require Extraction + ExtrOcamlBasic only; Z/N/positive/nat stay Coq datatypes",
        "ocaml/driver.ml (I/O), harness/vh_common.h + vh_c22.cpp (decode a case, call toString / tinyxml2 / loadFromXml / loadUnsafeUsageListFromXml / Check::loadFileInfoFromXml / Check::analyseWholeProgram)",
        "tools/translate/ctu_names.py (regular expressions over lib/ctu.cpp; fails when the writers/readers do not have the expected shape)",
        "XML text layer is not modelled: that tinyxml2 parses the text written by toString into the tree of to_xml (attribute text between the quotes, decoded by `decode`) is exercised by the correspondence run only; "
        "integer attributes are typed in the model (operator<< / sscanf %lld / strToInt assumed inverse on the printed range)",
        "modelled, not verified: lib/ctu.cpp toString/toXmlString/loadFromXml/loadUnsafeUsageListFromXml/getCallsMap/findPath/getErrorPath, ErrorLogger::toxml, "
        "analyseWholeProgram of checknullpointer/checkuninitvar/checkbufferoverrun; checkclass (ODR) and checkunusedfunctions summaries are modelled and proved but tied to the code by the end-to-end runs only",
        "file names that Path::simplifyPath changes, paths longer than 10 calls (--max-ctu-depth is capped at 10), several configurations per file and the in-memory unusedFunction algorithm are outside the model",
    ]
    run.assumptions += ["g++ compiles /repo faithfully", "files.txt lists the analyzer-info files in the order of the command line (same order as the in-memory summaries)"]
    run.extra["rule"] = (
        "toxml/rawattr: byte strings len 0-12 over letters, XML specials, control and high bytes, and entity-like fragments; non-trivial = contains a byte toxml rewrites / an '&' or CR/LF. "
        "ctu/uu: 0-3 function calls (0-2 path entries), 0-3 nested calls, 0-3 unsafe usages, ids from a pool of 5 (20% with an inserted special/entity), escaped fields hostile with p in {0,.15,.5}, "
        "integers small or at the int32/int64 edges; non-trivial = at least one element and model answer not U, distinct case. "
        "ctucfgs: one source with 1-3 configurations, each 0-2 function calls and 0-2 nested calls; non-trivial = several configurations and something read back. "
        "wp: 1-4 function calls, 0-5 nested calls, 1-3 unsafe usages over 2-4 ids, depth in {0,1,2,3,4,6,10}, four checks, each case in-memory and stored; non-trivial = at least one finding, distinct case. "
        "projects: 3-7 functions (forwarders/deref/index/arith), 2-6 callers (null/uninit/array/ok), 0-2 unused functions, 2-4 sources, .c or .cpp (with 0-4 struct definitions), "
        "--max-ctu-depth in {default,1,3,6,10}; in half of the projects 60% of the callers have their call site under #ifdef M / #else (no -D: the file is analysed under several configurations, "
        "a helper may be called in one configuration only); non-trivial = at least one whole-program finding in mode A, distinct project.")

    vlib.ensure_repo_build()

    # ---- translator
    gen = os.path.join(vlib.COQ, "theories", "Ctu", "Gen_Names.v")
    names = None
    try:
        names = ctu_names.translate(vlib.REPO, gen)
        run.extra["names_from_source"] = names
    except (ctu_names.TranslateError, OSError) as e:
        run.violation("translate:ctu_names", "translator failed on lib/ctu.cpp: %s" % e, {"broken": "translator", "detail": str(e)}, found_input=False)

    # ---- proofs
    ok = run.prove(extra_targets=["theories/Ctu/Run.vo"])
    if not ok:
        run.violation("proof:" + PID, "Properties_C22.vo / Ctu/Run.vo do not build: " + str(run.proof_error())[:300],
                      {"broken": "proof", "detail": run.proof_error()}, found_input=False)
    model = vlib.build_model(PID) if os.path.exists(os.path.join(vlib.COQ, "theories/Ctu/Run.vo")) and names else None
    vh = vlib.build_harness(PID)

    namesok = None
    if model:
        _, o, _ = vlib.run_lines([model], [vlib.enc_case(["namesok"])])
        namesok = vlib.dec_line(o[0]) == [b"1"]
        run.extra["names_writer_equals_reader"] = namesok
        if namesok:
            run.notes.append("regenerated names satisfy nm_ok: C22_wp_storage_independent applies to the current code")

    # ---- X1 correspondence
    if model:
        x1(run, model, vh, quick, rng)
        x1_wp(run, model, vh, quick, rng, namesok)

    # ---- X2: the property on the real binary
    ids_escaped = bool(names) and all(names[k] for k in ("e_callid", "e_ncmyid", "e_uumyid", "e_uuarg"))
    x2(run, quick, rng, namesok, ids_escaped)


def is_u(m):
    return m == [b"U"]


def modelled(run, stream, diffs):
    """drop the cases the model declares outside its fragment (answer U): counted in the distribution, never compared"""
    keep = [d for d in diffs if not is_u(d[1])]
    run.stream(stream)["disagreements"] -= len(diffs) - len(keep)
    return keep


def x1(run, model, vh, quick, rng):
    n = 3000 if quick else 150000
    corpus = [[bytes([c])] for c in range(256)] + [[b"a<b>&\"'\n\t\r\x00\x7f\x80\xffz"], [b""]]
    cases = [list(c) for c in dict.fromkeys(tuple(x) for x in corpus + [G.gen_toxml(rng) for _ in range(n)])]
    diffs = vlib.correspond(run, "toxml+tinyxml2", model, [vh, "toxml"], cases, tag="toxml",
                            nontrivial=lambda c, m, i: c[0] if any(b < 32 or b > 126 or b in b"<>&\"'" for b in c[0]) else None,
                            bucket=lambda c, m, i: "lossless" if len(m) > 1 and m[1] == c[0] else "lossy")
    report(run, "toxml+tinyxml2", diffs, "toxml")

    cases = [list(c) for c in dict.fromkeys(tuple(x) for x in [[e] for e in G.ENTITYISH] + [G.gen_rawattr(rng) for _ in range(n)])]
    diffs = vlib.correspond(run, "tinyxml2 attribute decoding", model, [vh, "rawattr"], cases, tag="rawattr",
                            nontrivial=lambda c, m, i: c[0] if not is_u(m) and any(b in b"&\r\n" for b in c[0]) else None,
                            bucket=lambda c, m, i: "unmodelled" if is_u(m) else ("changed" if m != [c[0]] else "unchanged"))
    report(run, "tinyxml2 attribute decoding", modelled(run, "tinyxml2 attribute decoding", diffs), "rawattr")

    n = 2500 if quick else 100000
    cases = [G.gen_ctu_case(rng) for _ in range(n)]
    diffs = vlib.correspond(run, "CTU::FileInfo toString->loadFromXml", model, [vh, "ctu"], cases, tag="ctu",
                            nontrivial=lambda c, m, i: tuple(map(str, c)) if not is_u(m) and len(c) > 2 else None,
                            bucket=lambda c, m, i: "unmodelled" if is_u(m) else "fc%s,nc_in%s,nc_out%s" % (m[0].decode() if m else "?", nested_in(c), nested_out(m)))
    report(run, "CTU::FileInfo toString->loadFromXml", modelled(run, "CTU::FileInfo toString->loadFromXml", diffs), "ctu")

    name = "AnalyzerInformation::setFileInfo per configuration -> processFilesTxt"
    cases = [G.gen_ctucfgs_case(rng) for _ in range(600 if quick else 20000)]
    diffs = vlib.correspond(run, name, model, [vh, "ctucfgs"], cases, tag="ctucfgs",
                            nontrivial=lambda c, m, i: tuple(map(str, c)) if not is_u(m) and c[0] > 1 and len(m) > 2 else None,
                            bucket=lambda c, m, i: "unmodelled" if is_u(m) else "cfgs%s,fc_out%s,nc_out%s" % (c[0], m[0].decode() if m else "?", nested_out(m)))
    report(run, name, modelled(run, name, diffs), "ctucfgs")

    cases = [G.gen_uu_case(rng) for _ in range(n)]
    diffs = vlib.correspond(run, "UnsafeUsage toString->loadUnsafeUsageListFromXml", model, [vh, "uu"], cases, tag="uu",
                            nontrivial=lambda c, m, i: tuple(map(str, c)) if not is_u(m) and c[0] != 0 else None,
                            bucket=lambda c, m, i: "unmodelled" if is_u(m) else "n%s" % c[0])
    report(run, "UnsafeUsage toString->loadUnsafeUsageListFromXml", modelled(run, "UnsafeUsage toString->loadUnsafeUsageListFromXml", diffs), "uu")


def nested_in(c):
    # number of nested calls in a ctu case: walk the encoding
    i, nf = 1, c[0]
    for _ in range(nf):
        np_ = c[i + 11]
        i += 12 + 4 * np_
    return c[i]


def nested_out(m):
    try:
        i, nf = 1, int(m[0])
        for _ in range(nf):
            np_ = int(m[i + 11])
            i += 12 + 4 * np_
        return m[i].decode()
    except (ValueError, IndexError):
        return "?"


def x1_wp(run, model, vh, quick, rng, namesok):
    n = 1500 if quick else 60000
    pairs = [[G.chain_case(k, kind, m, d) for m in (0, 1)] for k in range(0, 7) for kind in range(4) for d in (2, 10)]
    pairs += [G.gen_wp_pair(rng) for _ in range(n)]
    cases = [c for p in pairs for c in p]
    _, mo, me = vlib.run_lines([model], [vlib.enc_case(["wp"] + c) for c in cases])
    _, io, ie = vlib.run_lines([vh, "wp"], [vlib.enc_case(c) for c in cases])
    if len(mo) != len(cases):
        raise vlib.BuildError("wp stream: model gave %d answers for %d cases: %s" % (len(mo), len(cases), me[-500:]))
    if len(io) != len(cases):
        # the implementation died: the case after the last answer is the input
        # (stdout of the harness is buffered: look for the first case at or after the last answer on which it dies alone)
        idx = min(len(io), len(cases) - 1)
        for j in range(len(io), min(len(io) + 400, len(cases))):
            _, o1, _ = vlib.run_lines([vh, "wp"], [vlib.enc_case(cases[j])])
            if len(o1) != 1:
                idx = j
                break
        c = cases[idx]
        run.stream("analyseWholeProgram (null/uninit/bufferoverrun)")["disagreements"] += 1
        run.violation("wp-died:" + hashlib.sha1(vlib.enc_case(c).encode()).hexdigest()[:12],
                      "the implementation crashed in analyseWholeProgram (model answer: %s)" % str(vlib.show(vlib.dec_line(mo[idx])))[:200],
                      {"case_line": vlib.enc_case(c), "case": vlib.show(c), "stderr": ie[-800:], "how": "echo <case_line> | build/harness/vh_c22 wp"})
        return
    name = "analyseWholeProgram (null/uninit/bufferoverrun)"
    st = run.stream(name)
    bad = []
    prop_bad = []
    unmodelled_pairs = 0
    for k in range(0, len(cases), 2):
        outs = []
        for j in (0, 1):
            c, m, i = cases[k + j], vlib.dec_line(mo[k + j]), vlib.dec_line(io[k + j])
            fm = split_findings(m)
            nt = tuple(map(str, c)) if fm else None
            maxstack = max([len(f[4]) for f in fm], default=0) if fm is not None else -1
            run.count(name, None, nontrivial=nt, bucket="unmodelled" if is_u(m) else "kind%s,mode%s,findings%d,maxlocs%d" % (c[0], c[3], min(len(fm or []), 3), min(maxstack, 6)))
            if not is_u(m) and m != i:
                bad.append((c, m, i))
            outs.append((c, m, i))
        # the property on the implementation: in-memory vs stored CTU summaries
        (c0, m0, i0), (c1, m1, i1) = outs
        if is_u(m0) or is_u(m1):
            unmodelled_pairs += 1     # e.g. a '"' in an unescaped id: the text layer, see the witness-quote project
        elif i0 != i1:
            prop_bad.append((c0, c1, i0, i1, (m0 == i0 and m1 == i1)))
    st["disagreements"] += len(bad)
    if len(run.samples) < 12 and cases:
        run.samples.append({"stream": name, "case": vlib.show(cases[1]), "model": vlib.show(vlib.dec_line(mo[1]))})
    report(run, name, bad, "wp")
    run.extra["harness_property_pairs"] = len(pairs)
    run.extra["harness_property_pairs_differing"] = len(prop_bad)
    run.extra["harness_property_pairs_unmodelled"] = unmodelled_pairs
    for c0, c1, i0, i1, explained in sorted(prop_bad, key=lambda t: len(t[0]))[:3]:
        has_nested = nested_in(c0[5:]) != 0
        rep = {"stream": "harness: findings from in-memory vs stored-and-reloaded CTU summaries",
               "case_in_memory": vlib.enc_case(c0), "case_stored": vlib.enc_case(c1),
               "findings_in_memory": vlib.show(i0), "findings_stored": vlib.show(i1),
               "fields": "kind warn depth mode file0 | nfc (id argnr fname file line col argexpr vtype value ufr warning npath (file line col info)*)* | nnc (id argnr fname file line col myid myargnr)* | nuu (myid myargnr argname file line col value)*",
               "how": "echo <case> | build/harness/vh_c22 wp   (mode 1 = CTU::FileInfo::toString -> tinyxml2 -> loadFromXml before analyseWholeProgram)"}
        if namesok is False and explained and has_nested:
            run.violation(KEY_NESTED, "a finding whose path goes through a nested call is reported from in-memory summaries and lost from stored ones "
                          "(NestedCall::toXmlString writes <function-call>, the loader expects <nested-call>)", rep)
        else:
            run.violation("wp-storage:" + hashlib.sha1(vlib.enc_case(c0).encode()).hexdigest()[:12],
                          "analyseWholeProgram gives different findings for in-memory and stored CTU summaries", rep)


def x2(run, quick, rng, namesok, ids_escaped):
    name = "real binary: -j1 / -j1+builddir (fresh, cached) / -j2+builddir"
    n = 40 if quick else 1200
    projects = [G.WITNESS, G.WITNESS_QUOTE, G.WITNESS_NONASCII, G.WITNESS_MULTICFG] + [G.gen_project(rng) for _ in range(n)]
    seen = set()
    shown = 0
    unexplained = [0]
    for pr in projects:
        res, _ = G.run_modes(vlib.CPPCHECK, pr)
        h = hashlib.sha1(repr(sorted(pr[0].items())).encode()).hexdigest()[:12]
        nt = h if res["A"] and h not in seen else None
        seen.add(h)
        differ = G.differs(res)
        st, rest = G.split_static(res)
        run.count(name, None, nontrivial=nt, bucket="%s,%s" % (pr[3], "differs" if differ else ("findings" if res["A"] else "clean")))
        if len(run.samples) < 12 and not pr[3].startswith("witness") and res["A"] and shown < 2:
            shown += 1
            run.samples.append({"stream": name, "case": {"files": pr[0], "options": pr[2]}, "model": {m: sorted(v) for m, v in res.items()}})
        if not differ:
            continue
        run.stream(name)["disagreements"] += 1
        rep = {"files": pr[0], "sources": pr[1], "options": pr[2],
               "outputs": {m: sorted(v) for m, v in res.items()},
               "modes": {"A": "cppcheck -q -j1 <template> <options> <sources>", "B1": "... -j1 --cppcheck-build-dir=bd1 (fresh)",
                         "B2": "... -j1 --cppcheck-build-dir=bd1 (second run, cached)", "C": "... -j2 --cppcheck-build-dir=bd2 (fresh)"},
               "template": G.TEMPLATE}
        if G.differs(st):
            if st["A"] and not (st["B1"] or st["B2"] or st["C"]):
                run.violation(KEY_STATIC, "staticFunction is reported from in-memory summaries only: with --cppcheck-build-dir it is never reported "
                              "(CheckUnusedFunctions::check sees no functions, the analyzer info carries no linkage/usage data)", rep)
            else:
                run.violation("modes-static:" + h, "staticFunction findings differ between in-memory and build-dir modes", rep)
        if G.differs(rest):
            if G.explained_by_lossy_toxml(pr, rest):
                run.violation(KEY_LOSSY, "ErrorLogger::toxml replaces every byte > 0x7f by 'x': a stored file name like \xc3\xa4.c comes back as xx.c, "
                              "so the call stack of a whole-program finding names a different file with a build dir", rep)
            elif not ids_escaped and G.explained_by_unescaped_id(pr, rest):
                run.violation(KEY_UNESC, "function ids are written into the analyzer info without XML escaping: a '\"' in a header name makes the file unloadable "
                              "and all whole-program findings are lost with a build dir (internalError: failed to load ...)", rep)
            elif namesok is not True and G.explained_by_nested_drop(rest):
                run.violation(KEY_NESTED, "whole-program findings through a forwarding function are reported without a build dir and lost with one "
                              "(NestedCall::toXmlString writes <function-call>, the loader expects <nested-call>)", rep)
            elif unexplained[0] < 3:
                unexplained[0] += 1
                run.violation("modes:" + h, "whole-program findings differ between in-memory and build-dir modes", rep)
            else:
                unexplained[0] += 1


    run.extra["projects_with_unexplained_difference"] = unexplained[0]


def report(run, stream, diffs, cmd):
    for c, m, i in sorted(diffs, key=lambda d: len(vlib.enc_case(d[0])))[:2]:
        key = stream.split(" ")[0] + ":" + hashlib.sha1(vlib.enc_case(c).encode()).hexdigest()[:12]
        run.violation(key, "%s: model and implementation disagree" % stream,
                      {"broken": "correspondence " + stream, "case_line": vlib.enc_case(c), "case": vlib.show(c), "model": vlib.show(m), "impl": vlib.show(i),
                       "how": "echo <case_line> | build/harness/vh_c22 %s" % cmd}, found_input=False)


if __name__ == "__main__":
    vlib.main(check, PID)
