"""Minimal reader for cppcheck --dump files (tokens + value-flow values)."""
import xml.etree.ElementTree as ET


class Tok:
    __slots__ = ("id", "str", "line", "col", "file", "values", "op1", "op2", "parent", "attrs")

    def __repr__(self):
        return "Tok(%r @%s:%s)" % (self.str, self.line, self.col)


def parse_dump(path):
    """Returns list of configurations; each is dict(tokens=[Tok], byid={id: Tok})."""
    root = ET.parse(path).getroot()
    cfgs = []
    for d in root.iter("dump"):
        vals = {}
        for vs in d.iter("values"):
            vals[vs.get("id")] = [dict(v.attrib) for v in vs.findall("value")]
        toks, byid = [], {}
        tl = d.find("tokenlist")
        if tl is None:
            continue
        for t in tl.findall("token"):
            k = Tok()
            k.id = t.get("id")
            k.str = t.get("str")
            k.line = int(t.get("linenr", "0"))
            k.col = int(t.get("column", "0"))
            k.file = t.get("file")
            k.values = vals.get(t.get("values"), []) if t.get("values") else []
            k.op1, k.op2, k.parent = t.get("astOperand1"), t.get("astOperand2"), t.get("astParent")
            k.attrs = dict(t.attrib)
            toks.append(k)
            byid[k.id] = k
        cfgs.append({"cfg": d.get("cfg"), "tokens": toks, "byid": byid})
    return cfgs
