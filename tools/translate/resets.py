#!/usr/bin/env python3
"""Translator (T) for C17: lib/cppcheck.cpp -> coq/theories/Iso/Gen_Resets.v.

Extracts, in source order, every statement of CppCheck::check(const FileWithDetails&)
and CppCheck::checkInternal that touches the state the reused CppCheck object carries
from one file to the next (mLogger->..., mSuppressions.nomsg..., the preprocessor's
inlineSuppressions call) and every `return`.  The Coq side (Iso/Resets.v) states the
sequence the model was written against; the obligation is equality, so a moved, added
or removed reset point or exit makes the proof step fail."""
import os
import re


class TranslateError(Exception):
    pass


def strip_comments_and_strings(src):
    out, i, n = [], 0, len(src)
    while i < n:
        c = src[i]
        if src.startswith("//", i):
            j = src.find("\n", i)
            j = n if j < 0 else j
            i = j
        elif src.startswith("/*", i):
            j = src.find("*/", i + 2)
            j = n if j < 0 else j + 2
            out.append("\n" * src.count("\n", i, j))
            i = j
        elif c == '"':
            j = i + 1
            while j < n and src[j] != '"':
                j += 2 if src[j] == "\\" else 1
            out.append('""')
            i = j + 1
        elif c == "'":
            j = i + 1
            while j < n and src[j] != "'":
                j += 2 if src[j] == "\\" else 1
            out.append("' '")
            i = j + 1
        else:
            out.append(c)
            i += 1
    return "".join(out)


def function_body(src, header_re):
    m = re.search(header_re, src)
    if not m:
        raise TranslateError("function not found: " + header_re)
    i = src.index("{", m.end() - 1)
    depth, j = 0, i
    while j < len(src):
        if src[j] == "{":
            depth += 1
        elif src[j] == "}":
            depth -= 1
            if depth == 0:
                return src[i:j + 1], src.count("\n", 0, i) + 1
        j += 1
    raise TranslateError("unbalanced braces after " + header_re)


EVENT = re.compile(r"mLogger->(\w+)\s*\(|mSuppressions\.nomsg\.(\w+)\s*\(|\bpreprocessor\.(inlineSuppressions)\s*\(|\b(return)\b")
READ_ONLY = {"exitcode"}


def points(body):
    ev = []
    for m in EVENT.finditer(body):
        if m.group(1):
            if m.group(1) in READ_ONLY:
                continue
            name = m.group(1)
            if name == "setAnalyzerInfo":
                continue          # analyzer-info pointer: per-file object, C18's subject
        elif m.group(2):
            name = "nomsg_" + m.group(2)
        elif m.group(3):
            name = m.group(3)
        else:
            name = "ret"
        ev.append((name, body.count("\n", 0, m.start())))
    return ev


def translate(repo):
    path = os.path.join(repo, "lib", "cppcheck.cpp")
    src = strip_comments_and_strings(open(path, encoding="utf-8", errors="replace").read())
    b1, l1 = function_body(src, r"unsigned int CppCheck::check\s*\(\s*const FileWithDetails\s*&\s*\w+\s*\)\s*\{")
    b2, l2 = function_body(src, r"unsigned int CppCheck::checkInternal\s*\([^)]*\)\s*\{")
    p1 = [(n, l + l1) for n, l in points(b1)]
    p2 = [(n, l + l2) for n, l in points(b2)]
    if not p2 or not any(n == "resetExitCode" for n, _ in p2):
        raise TranslateError("checkInternal: no mLogger->resetExitCode() found")
    # CppCheck::check(const FileSettings&): how the per-file settings object comes into being and
    # which of its fields are written (project path; Iso/Fs.v apply_onto)
    b3, l3 = function_body(src, r"unsigned int CppCheck::check\s*\(\s*const FileSettings\s*&\s*\w+\s*\)\s*\{")
    p3 = []
    for m in re.finditer(r"[^;{}]*\btempSettings\b[^;{}]*[;{]", b3):
        st = " ".join(m.group(0).split())
        line = b3.count("\n", 0, m.start() + len(m.group(0)) - len(m.group(0).lstrip())) + l3
        d = re.match(r"(?:const\s+)?Settings\s+tempSettings\s*=\s*mSettings\s*;", st)
        w = re.match(r"(?:else\s+)?(?:if\s*\(.*\)\s*)?tempSettings\.(\w+)(?:\.\w+)*\s*(?:\+=|=(?!=)|\.insert\s*\(|\.set\w*\s*\()", st)
        if d:
            p3.append(("copy_local", line))
        elif re.search(r"\bSettings\b[^=;]*\btempSettings\b", st):
            p3.append(("not_a_fresh_copy", line))          # reference, pointer, static, other initialiser
        elif w:
            p3.append(("w_" + w.group(1), line))
        elif re.match(r"(?:else\s+)?if\s*\(\s*!?\s*tempSettings\.\w+[^)]*\)\s*(?:;|\{)?$", st) or re.match(r"CppCheck\s+temp\s*\(\s*tempSettings", st):
            continue                                       # a read: condition / handing it to the temporary CppCheck
        else:
            p3.append(("other", line))
    if not p3:
        raise TranslateError("check(const FileSettings&): no statement about tempSettings found")
    # the logger's own reset methods must still do what the model says
    for meth, needle in (("resetExitCode", r"mExitCode\s*=\s*0"), ("clear", r"mErrorList\.clear\s*\(\s*\)"),
                         ("setLocationMacros", r"mLocationMacros\.clear\s*\(\s*\)"),
                         ("setRemarkComments", r"mRemarkComments\s*=\s*std::move")):
        body, _ = function_body(src, r"void %s\s*\([^)]*\)\s*\{" % meth)
        if not re.search(needle, body):
            raise TranslateError("CppCheckLogger::%s no longer contains %s" % (meth, needle))
    # SingleExecutor::check must still reuse the one CppCheck object for every file
    se = strip_comments_and_strings(open(os.path.join(repo, "cli", "singleexecutor.cpp"), encoding="utf-8", errors="replace").read())
    body, _ = function_body(se, r"unsigned int SingleExecutor::check\s*\(\s*\)\s*\{")
    calls = re.findall(r"mCppcheck\.(\w+)\s*\(", body)
    if calls != ["check", "check", "analyseWholeProgram"]:
        raise TranslateError("SingleExecutor::check: calls on mCppcheck are %r" % calls)
    return p1, p2, p3, path


KNOWN = ["resetExitCode", "closePlist", "openPlist", "setRemarkComments", "inlineSuppressions", "setLocationMacros", "clear", "ret",
         "nomsg_isSuppressed", "nomsg_dump", "nomsg_markUnmatchedInlineSuppressionsAsChecked"]


FS_KNOWN = ["copy_local", "not_a_fresh_copy", "other", "w_userDefines", "w_includePaths", "w_userUndefs", "w_standards", "w_platform"]


def main(repo, verif):
    p1, p2, p3, path = translate(repo)
    fnames = list(FS_KNOWN)
    for n, _ in p3:
        if n not in fnames:
            fnames.append(n)
    names = list(KNOWN)
    for n, _ in p1 + p2:
        if n not in names:
            names.append(n)
    out = os.path.join(verif, "coq", "theories", "Iso", "Gen_Resets.v")
    fmt = lambda ps: ";\n   ".join("P_%s (* line %d *)" % (n, l) for n, l in ps)
    txt = ("(* GENERATED by tools/translate/resets.py from %s -- do not edit *)\n"
           "Require Import List. Import ListNotations.\n\n"
           "Inductive point :=\n  %s.\n\n"
           "(* CppCheck::check(const FileWithDetails&) *)\nDefinition check_points : list point :=\n  [%s].\n\n"
           "(* CppCheck::checkInternal *)\nDefinition checkInternal_points : list point :=\n  [%s].\n\n"
           "(* CppCheck::check(const FileSettings&): statements about the per-file settings object *)\n"
           "Inductive fspoint :=\n  %s.\n\nDefinition fs_points : list fspoint :=\n  [%s].\n"
           % (path, "\n  ".join("| P_" + n for n in names), fmt(p1), fmt(p2),
              "\n  ".join("| F_" + n for n in fnames), ";\n   ".join("F_%s (* line %d *)" % (n, l) for n, l in p3)))
    # line numbers are comments only, but keep the file stable when nothing moved
    old = open(out).read() if os.path.exists(out) else None
    if old != txt:
        os.makedirs(os.path.dirname(out), exist_ok=True)
        open(out, "w").write(txt)
    return [n for n, _ in p1], [n for n, _ in p2], [n for n, _ in p3]


if __name__ == "__main__":
    here = os.path.dirname(os.path.dirname(os.path.dirname(os.path.abspath(__file__))))
    a, b, c = main(os.environ.get("VERIF_REPO", "/repo"), here)
    print(a)
    print(b)
    print(c)
