#!/usr/bin/env python3
"""Translator (T) for C10/C09: lib/platform.cpp `Platform::set(Type)` + platforms/*.xml
-> coq/theories/Lit/Gen_Platforms.v (a list of CV.Lit.Platform.platform records).

Fails loudly (exception) when the source does not have the expected shape."""
import glob
import os
import re
import sys
import xml.etree.ElementTree as ET

FIELDS = ["char_bit", "sizeof_bool", "sizeof_short", "sizeof_int", "sizeof_long", "sizeof_long_long",
          "sizeof_float", "sizeof_double", "sizeof_long_double", "sizeof_wchar_t", "sizeof_size_t",
          "sizeof_pointer", "defaultSign"]
XML_NAMES = {"bool": "sizeof_bool", "short": "sizeof_short", "int": "sizeof_int", "long": "sizeof_long",
             "long-long": "sizeof_long_long", "float": "sizeof_float", "double": "sizeof_double",
             "long-double": "sizeof_long_double", "wchar_t": "sizeof_wchar_t", "size_t": "sizeof_size_t",
             "pointer": "sizeof_pointer"}
# names accepted by Platform::set(const std::string&...) for the built-in cases
BUILTIN = {"Win32A": "win32A", "Win32W": "win32W", "Win64": "win64", "Unix32": "unix32", "Unix64": "unix64"}


class TranslateError(Exception):
    pass


def parse_platform_cpp(repo):
    src = open(os.path.join(repo, "lib", "platform.cpp")).read()
    m = re.search(r"bool Platform::set\(Type t\)\s*\{\s*switch \(t\) \{(.*?)\n    \}\n", src, re.S)
    if not m:
        raise TranslateError("Platform::set(Type) switch not found in lib/platform.cpp")
    body = m.group(1)
    # split into groups of case labels followed by statements up to `return`
    out = {}
    for g in re.finditer(r"((?:\s*case Type::\w+:[^\n]*\n)+)(.*?)return (true|false);", body, re.S):
        labels = re.findall(r"case Type::(\w+):", g.group(1))
        stmts = g.group(2)
        vals = {}
        for f in FIELDS:
            mm = re.search(r"\b%s = ([^;]+);" % f, stmts)
            if mm:
                vals[f] = mm.group(1).strip()
        for lab in labels:
            out[lab] = (vals, g.group(3))
    for lab in BUILTIN:
        if lab not in out:
            raise TranslateError("case Type::%s missing in Platform::set" % lab)
        vals, ret = out[lab]
        if ret != "true":
            raise TranslateError("case Type::%s does not return true" % lab)
        for f in FIELDS:
            if f not in vals:
                raise TranslateError("case Type::%s does not assign %s" % (lab, f))
            if f == "defaultSign":
                if not re.fullmatch(r"'[su]'", vals[f]):
                    raise TranslateError("case Type::%s: defaultSign = %s not understood" % (lab, vals[f]))
            elif not re.fullmatch(r"\d+", vals[f]):
                raise TranslateError("case Type::%s: %s = %s is not a literal" % (lab, f, vals[f]))
        if "calculateBitMembers();" not in body:
            raise TranslateError("calculateBitMembers() call missing")
    res = []
    for lab, name in BUILTIN.items():
        vals = out[lab][0]
        rec = {f: (ord(vals[f][1]) if f == "defaultSign" else int(vals[f])) for f in FIELDS}
        rec["name"] = name
        res.append(rec)
    # the string -> Type mapping must still be the one we assume
    for lab, name in BUILTIN.items():
        if not re.search(r'platformstr == "%s"\)\s*set\(Type::%s\);' % (name, lab), src):
            raise TranslateError('Platform::set(string): "%s" -> Type::%s not found' % (name, lab))
    # bit members are char_bit * sizeof_x
    hdr = open(os.path.join(repo, "lib", "platform.h")).read()
    for a, b in (("short_bit", "sizeof_short"), ("int_bit", "sizeof_int"), ("long_bit", "sizeof_long"),
                 ("long_long_bit", "sizeof_long_long")):
        if not re.search(r"%s = char_bit \* %s;" % (a, b), hdr):
            raise TranslateError("platform.h: %s = char_bit * %s not found" % (a, b))
    # the XML loader must still map element names to the members we assume
    for xn, field in XML_NAMES.items():
        if not re.search(r'std::strcmp\(szname, "%s"\) == 0\)\s*%s = xmlTextAsUInt\(sz, error\);' % (re.escape(xn), field), src):
            raise TranslateError('loadFromXmlDocument: <%s> -> %s not found' % (xn, field))
    if not re.search(r'"default-sign"\) == 0\) \{[^}]*defaultSign = \*str;', src, re.S):
        raise TranslateError("loadFromXmlDocument: default-sign -> defaultSign = *str not found")
    if not re.search(r'"char_bit"\) == 0\)\s*char_bit = xmlTextAsUInt\(node, error\);', src):
        raise TranslateError("loadFromXmlDocument: char_bit not found")
    return res


def parse_xml(path):
    root = ET.parse(path).getroot()
    if root.tag != "platform":
        raise TranslateError("%s: root is not <platform>" % path)
    rec = {}
    for node in root:
        if node.tag == "default-sign":
            t = (node.text or "").strip()
            if not t or t[0] not in "su":
                raise TranslateError("%s: default-sign %r" % (path, t))
            rec["defaultSign"] = ord(t[0])
        elif node.tag == "char_bit":
            rec["char_bit"] = int(node.text)
        elif node.tag == "sizeof":
            for sz in node:
                if sz.tag not in XML_NAMES:
                    raise TranslateError("%s: unknown sizeof entry %s" % (path, sz.tag))
                rec[XML_NAMES[sz.tag]] = int(sz.text)
        elif node.tag != "windows":
            raise TranslateError("%s: unknown element %s" % (path, node.tag))
    for f in FIELDS:
        if f not in rec:
            raise TranslateError("%s: %s not given (the loader would keep the host's value)" % (path, f))
    rec["name"] = os.path.basename(path)[:-4]
    return rec


def coq_str(s):
    return "[" + ";".join(str(b) for b in s.encode()) + "]"


def translate(repo, out_path):
    recs = parse_platform_cpp(repo)
    xmls = sorted(glob.glob(os.path.join(repo, "platforms", "*.xml")))
    if not xmls:
        raise TranslateError("no platforms/*.xml found")
    recs += [parse_xml(p) for p in xmls]
    lines = ["(* GENERATED by tools/translate/platforms.py from lib/platform.cpp and platforms/*.xml -- do not edit *)",
             "From CV Require Import Base.Bytes Lit.Platform.", "Local Open Scope N_scope.", ""]
    names = []
    for r in recs:
        ident = "plat_" + re.sub(r"[^A-Za-z0-9]", "_", r["name"])
        names.append(ident)
        lines.append("Definition %s : platform := mkPlatform %s (* %s *) %s." % (
            ident, coq_str(r["name"]), r["name"], " ".join(str(r[f]) for f in FIELDS)))
    lines.append("")
    lines.append("Definition Gen_platforms : list platform := [%s]." % "; ".join(names))
    lines.append("Definition Gen_builtin : list platform := [%s]." % "; ".join(names[:len(BUILTIN)]))
    txt = "\n".join(lines) + "\n"
    old = open(out_path).read() if os.path.exists(out_path) else None
    if old != txt:
        with open(out_path, "w") as f:
            f.write(txt)
    return recs


if __name__ == "__main__":
    repo = sys.argv[1] if len(sys.argv) > 1 else os.environ.get("VERIF_REPO", "/repo")
    here = os.path.dirname(os.path.dirname(os.path.dirname(os.path.abspath(__file__))))
    rs = translate(repo, os.path.join(here, "coq", "theories", "Lit", "Gen_Platforms.v"))
    print("%d platforms" % len(rs))
