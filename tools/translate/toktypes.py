#!/usr/bin/env python3
"""Translator (T) for C33: regenerates coq/theories/MC/Gen_TokTypes.v from

* lib/token.h      enum Token::Type (numbering used by model and harness), the set of
                   types for which tokType() memoises isName, and the bodies of the
                   isNumber/isOp/... predicates (checked against the expected text, the
                   model's hand-written definitions in MC/Defs.v mirror exactly that text);
* tools/matchcompiler.py  the tokTypes table (imported, not parsed);
* lib/token.cpp    the operator part of Token::update_property_info (the if/else-if chain
                   after the number branch) is translated condition by condition into a
                   Gallina function upd_op; the name/literal branches before it are
                   hand-modelled in MC/Defs.v and their source text is checked here.

Fails loudly when a piece does not have the expected shape.
"""
import os
import re
import sys

sys.path.insert(0, os.path.dirname(os.path.abspath(__file__)))
import patterns as P


class TranslateError(Exception):
    pass


def coq_str(s):
    if isinstance(s, str):
        s = s.encode("latin-1")
    return "[" + ";".join(str(b) for b in s) + "]"


def norm(s):
    return re.sub(r"\s+", "", s)


# ------------------------------------------------------------------ condition translator
TOK = re.compile(r'\s*(?:("(?:[^"\\]|\\.)*")|(\'(?:[^\'\\]|\\.)\')|(\d+)U?|([A-Za-z_][A-Za-z0-9_]*(?:::[A-Za-z_][A-Za-z0-9_]*)*)|(==|!=|<=|>=|&&|\|\||[!()\[\].,<>]))')


def lex(s):
    out, i = [], 0
    s = s.strip()
    while i < len(s):
        m = TOK.match(s, i)
        if not m:
            raise TranslateError("cannot lex condition at %r" % s[i:i + 30])
        if m.group(1) is not None:
            out.append(("str", P.unescape(m.group(1)[1:-1])))
        elif m.group(2) is not None:
            out.append(("chr", P.unescape(m.group(2)[1:-1])[0]))
        elif m.group(3) is not None:
            out.append(("num", int(m.group(3))))
        elif m.group(4) is not None:
            out.append(("id", m.group(4)))
        else:
            out.append(("op", m.group(5)))
        i = m.end()
    return out


class CondParser:
    """or := and ('||' and)* ; and := un ('&&' un)* ; un := '!' un | '(' or ')' | atom"""

    def __init__(self, toks):
        self.t, self.i = toks, 0

    def peek(self, k=0):
        return self.t[self.i + k] if self.i + k < len(self.t) else (None, None)

    def eat(self, kind=None, val=None):
        k, v = self.peek()
        if (kind and k != kind) or (val is not None and v != val):
            raise TranslateError("condition: expected %s %s, got %s %r" % (kind, val, k, v))
        self.i += 1
        return v

    def p_or(self):
        a = [self.p_and()]
        while self.peek() == ("op", "||"):
            self.eat()
            a.append(self.p_and())
        return a[0] if len(a) == 1 else "(" + " || ".join(a) + ")"

    def p_and(self):
        a = [self.p_un()]
        while self.peek() == ("op", "&&"):
            self.eat()
            a.append(self.p_un())
        return a[0] if len(a) == 1 else "(" + " && ".join(a) + ")"

    def p_un(self):
        if self.peek() == ("op", "!"):
            self.eat()
            return "negb " + self.p_un()
        if self.peek() == ("op", "("):
            self.eat()
            r = self.p_or()
            self.eat("op", ")")
            return r
        return self.p_atom()

    def idx(self):
        # mStr [ K ]
        self.eat("id", "mStr")
        self.eat("op", "[")
        k = self.eat("num")
        self.eat("op", "]")
        return k

    def p_atom(self):
        k, v = self.peek()
        if (k, v) == ("id", "mLink"):
            self.eat()
            return "link"
        if (k, v) == ("id", "std::strchr"):
            self.eat()
            self.eat("op", "(")
            chars = self.eat("str")
            self.eat("op", ",")
            kk = self.idx()
            self.eat("op", ")")
            # strchr also finds the terminating NUL
            return "(mem_N (nth %d s 0) %s)" % (kk, coq_str(chars + b"\x00"))
        if (k, v) == ("id", "mStr"):
            nk, nv = self.peek(1)
            if (nk, nv) == ("op", "["):
                kk = self.idx()
                self.eat("op", "==")
                c = self.eat("chr")
                return "(nth %d s 0 =? %d)" % (kk, c)
            if (nk, nv) == ("op", "=="):
                self.eat()
                self.eat()
                lit = self.eat("str")
                return "(str_eqb s %s)" % coq_str(lit)
            if (nk, nv) == ("op", "."):
                self.eat()
                self.eat()
                fn = self.eat("id")
                self.eat("op", "(")
                if fn == "size":
                    self.eat("op", ")")
                    op = self.eat("op")
                    n = self.eat("num")
                    if op == "==":
                        return "(N.of_nat (length s) =? %d)" % n
                    if op == "<=":
                        return "(N.of_nat (length s) <=? %d)" % n
                    raise TranslateError("size() with operator " + op)
                if fn == "find_first_of":
                    chars = self.eat("str")
                    self.eat("op", ")")
                    self.eat("op", "!=")
                    self.eat("id", "std::string::npos")
                    return "(existsb (fun c => mem_N c %s) s)" % coq_str(chars)
                raise TranslateError("mStr." + fn)
        raise TranslateError("condition atom %s %r" % (k, v))


def cond_to_coq(text):
    p = CondParser(lex(text))
    r = p.p_or()
    if p.i != len(p.t):
        raise TranslateError("trailing tokens in condition %r" % text)
    return r


def split_chain(body):
    """body = text starting right after 'else if (isNumberLike...) {...} ' i.e. at 'else if (' of
    the '=' branch. Returns [(cond_text|None, type)] ."""
    out, i = [], 0
    while True:
        m = re.compile(r"\s*(?://[^\n]*\n\s*)*else\s+if\s*\(").match(body, i)
        if m:
            j, depth = m.end(), 1
            while depth:
                if body[j] == '"':
                    j = body.index('"', j + 1)
                elif body[j] == "'":
                    j += 2 if body[j + 1] != "\\" else 3
                elif body[j] == "(":
                    depth += 1
                elif body[j] == ")":
                    depth -= 1
                j += 1
            cond = body[m.end():j - 1]
            mm = re.compile(r"\s*tokType\((e\w+)\);").match(body, j)
            if not mm:
                raise TranslateError("operator chain: no tokType(...) after condition %r" % cond[:40])
            out.append((cond, mm.group(1)))
            i = mm.end()
            continue
        m = re.compile(r"\s*(?://[^\n]*\n\s*)*else\s+tokType\((e\w+)\);").match(body, i)
        if m:
            out.append((None, m.group(1)))
            return out, body[m.end():]
        raise TranslateError("operator chain: unexpected text %r" % body[i:i + 60])


EXPECT_PRED = {
    "isNumber": "return mTokType == eNumber;",
    "isOp": "return (isConstOp() || isAssignmentOp() || mTokType == eIncDecOp);",
    "isConstOp": "return (isArithmeticalOp() || mTokType == eLogicalOp || mTokType == eComparisonOp || mTokType == eBitOp);",
    "isArithmeticalOp": "return mTokType == eArithmeticalOp;",
    "isComparisonOp": "return mTokType == eComparisonOp;",
    "isAssignmentOp": "return mTokType == eAssignmentOp;",
    "isBoolean": "return mTokType == eBoolean;",
    "isName": "return getFlag(fIsName);",
}

# the name / literal part of update_property_info that MC/Defs.v models by hand
EXPECT_HEAD = [
    'if (!mStr.empty()) {',
    'if (mStr == "true" || mStr == "false") { if (mImpl->mVarId) { if (mIsCpp) throw InternalError(this, "Internal error. VarId set for bool literal."); tokType(eVariable); } else tokType(eBoolean); }',
    'else if (isStringLiteral(mStr)) { tokType(eString);',
    'else if (isCharLiteral(mStr)) { tokType(eChar);',
    "else if (std::isalpha(static_cast<unsigned char>(mStr[0])) || mStr[0] == '_' || mStr[0] == '$') {",
    'if (mImpl->mVarId) tokType(eVariable); else if (mList.isKeyword(mStr)) { tokType(eKeyword); update_property_isStandardType();',
    'else if (mStr == "asm") {',
    'else { tokType(eName);',
    '} else if (simplecpp::Token::isNumberLike(mStr)) { if ((MathLib::isInt(mStr) || MathLib::isFloat(mStr)) && mStr.find(\'_\') == std::string::npos) tokType(eNumber); else tokType(eLiteral);',
]


def translate(repo, out_path):
    th = open(os.path.join(repo, "lib", "token.h"), encoding="latin-1").read()
    tc = open(os.path.join(repo, "lib", "token.cpp"), encoding="latin-1").read()
    ut = open(os.path.join(repo, "lib", "utils.h"), encoding="latin-1").read()
    # --- enum
    m = re.search(r"enum Type\s*:\s*std::uint8_t\s*\{(.*?)\};", th, re.S)
    if not m:
        raise TranslateError("enum Token::Type not found")
    body = re.sub(r"//[^\n]*", "", m.group(1))
    names = [x.strip() for x in body.split(",") if x.strip()]
    if any(not re.match(r"^e[A-Z]\w*$", n) for n in names) or len(names) < 20:
        raise TranslateError("unexpected Token::Type enumerators %r" % names)
    idx = {n: i for i, n in enumerate(names)}
    # --- isName memo
    m = re.search(r"const bool memoizedIsName = \((.*?)\);", th, re.S)
    if not m:
        raise TranslateError("memoizedIsName not found in tokType()")
    parts = [norm(x) for x in m.group(1).split("||")]
    name_types = []
    for p in parts:
        mm = re.match(r"^mTokType==(e\w+)$", p)
        if not mm or mm.group(1) not in idx:
            raise TranslateError("memoizedIsName: unexpected disjunct %r" % p)
        name_types.append(mm.group(1))
    if not re.search(r"setFlag\(fIsName, memoizedIsName\);", th) or len(re.findall(r"setFlag\(fIsName", th + tc)) != 1:
        raise TranslateError("fIsName is set somewhere else than in tokType()")
    # --- predicates
    for fn, exp in EXPECT_PRED.items():
        mm = re.search(r"bool %s\(\) const \{(.*?)\}" % fn, th, re.S)
        if not mm or norm(mm.group(1)) != norm(exp):
            raise TranslateError("Token::%s() does not have the modelled body" % fn)
    # --- literal helpers modelled by hand
    for frag in ['static const std::array<std::string, 5> suffixes{"", "u8", "u", "U", "L"};',
                 "if (str.length() < p.length() + 2) return false;", "if (!endsWith(str, q)) return false;",
                 "if (str[p.size()] != q) return false;", "if (str.compare(0, p.size(), p) != 0) return false;"]:
        if norm(frag) not in norm(ut):
            raise TranslateError("utils.h: isStringCharLiteral no longer contains %r" % frag)
    # --- tokTypes of the compiler
    M = P.load_matchcompiler(repo)
    table = []
    for k, v in M.tokTypes.items():
        if not isinstance(k, str) or not isinstance(v, list) or any(t not in idx for t in v):
            raise TranslateError("tokTypes entry %r: %r" % (k, v))
        table.append((k, v))
    # --- update_property_info
    m = re.search(r"void Token::update_property_info\(\)\s*\{(.*?)\n\}\n", tc, re.S)
    if not m:
        raise TranslateError("Token::update_property_info not found")
    up = m.group(1)
    nup = norm(re.sub(r"//[^\n]*", "", up))
    pos = 0
    for frag in EXPECT_HEAD:
        p = nup.find(norm(frag), pos)
        if p < 0:
            raise TranslateError("update_property_info: expected fragment not found (in order): %r" % frag)
        pos = p + len(norm(frag))
    m = re.search(r"tokType\(eLiteral\);[^\n]*\n\s*\}", up)
    if not m:
        raise TranslateError("update_property_info: end of number branch not found")
    chain, rest = split_chain(up[m.end():])
    if norm(re.sub(r"//[^\n]*", "", rest)) != norm("} else { tokType(eNone); } assert(!mImpl->mVarId || mTokType == eVariable);"):
        raise TranslateError("update_property_info: unexpected tail %r" % rest[:200])
    if len(chain) < 8 or chain[-1][0] is not None:
        raise TranslateError("operator chain too short")
    # isStandardType
    m = re.search(r"static const std::unordered_set<std::string> stdTypes = \{(.*?)\};", tc, re.S)
    if not m:
        raise TranslateError("stdTypes not found")
    stdtypes = re.findall(r'"(\w+)"', m.group(1))
    m = re.search(r"void Token::update_property_isStandardType\(\)\s*\{(.*?)\n\}", tc, re.S)
    if not m or norm(m.group(1)) != norm("if (mStr.size() < 3 || mStr.size() > 7) return; if (isStandardType(mStr)) { isStandardType(true); tokType(eType); }"):
        raise TranslateError("update_property_isStandardType changed")
    m = re.search(r"static const std::unordered_set<std::string> controlFlowKeywords", tc)

    L = ["(* GENERATED by tools/translate/toktypes.py from lib/token.h, lib/token.cpp, tools/matchcompiler.py - do not edit *)",
         "From CV Require Import Base.Bytes.", "Local Open Scope N_scope.", ""]
    for n in names:
        L.append("Definition %s : N := %d." % (n, idx[n]))
    L.append("Definition ttype_count : N := %d." % len(names))
    L.append("Definition ttype_names : list str := [%s]." % "; ".join(coq_str(n) for n in names))
    L.append("")
    L.append("Definition mem_N (c : N) (l : list N) : bool := existsb (N.eqb c) l.")
    L.append("(* types for which Token::tokType(t) memoises isName() *)")
    L.append("Definition name_types : list N := [%s]." % "; ".join(name_types))
    L.append("")
    L.append("(* tokTypes of tools/matchcompiler.py: literal -> admissible token types *)")
    L.append("Definition tokTypes_table : list (str * list N) := [")
    L.append(";\n".join("  (%s, [%s]) (* %s *)" % (coq_str(k), "; ".join(v), k.replace("*)", "* )").replace("(*", "( *")) for k, v in table))
    L.append("].")
    L.append("")
    L.append("Definition std_types : list str := [%s]." % "; ".join(coq_str(s) for s in stdtypes))
    L.append("")
    L.append("(* operator part of Token::update_property_info (s = mStr, non-empty, not a name/number/string/char; link = mLink != nullptr) *)")
    L.append("Definition upd_op (s : str) (link : bool) : N :=")
    for cond, ty in chain:
        if cond is None:
            L.append("  %s." % ty)
        else:
            L.append("  if %s then %s else" % (cond_to_coq(cond), ty))
    txt = "\n".join(L) + "\n"
    os.makedirs(os.path.dirname(out_path), exist_ok=True)
    old = open(out_path).read() if os.path.exists(out_path) else None
    if old != txt:
        open(out_path, "w").write(txt)
    return {"enum": names, "name_types": name_types, "tokTypes": table, "chain": chain, "stdtypes": stdtypes}


if __name__ == "__main__":
    repo = sys.argv[1] if len(sys.argv) > 1 else "/repo"
    out = sys.argv[2] if len(sys.argv) > 2 else os.path.join(os.path.dirname(os.path.dirname(os.path.dirname(os.path.abspath(__file__)))),
                                                             "coq", "theories", "MC", "Gen_TokTypes.v")
    r = translate(repo, out)
    print("enum %d, tokTypes %d, chain %d -> %s" % (len(r["enum"]), len(r["tokTypes"]), len(r["chain"]), out))
