#!/usr/bin/env python3
"""Translator (T) for C13: the exception handlers around the analysis of a file.

lib/cppcheck.cpp  CppCheck::checkInternal (outer try block and the per-configuration one)
                  CppCheck::checkClang    (its try block)
lib/errortypes.h  public bases of InternalError and TerminateException
->  coq/theories/Robust/Gen_Funnel.v
"""
import os
import re


class TranslateError(Exception):
    pass


CLS = {
    "InternalError": "CInternalError", "TerminateException": "CTerminate",
    "std::exception": "CStdException", "std::runtime_error": "CRuntimeError",
    "std::overflow_error": "COverflowError", "std::range_error": "CRangeError",
    "std::system_error": "CSystemError", "std::logic_error": "CLogicError",
    "std::out_of_range": "COutOfRange", "std::invalid_argument": "CInvalidArgument",
    "std::length_error": "CLengthError", "std::domain_error": "CDomainError",
    "std::bad_alloc": "CBadAlloc", "std::bad_cast": "CBadCast", "...": "CEllipsis",
}


def blank(src):
    """comments, string and character literals replaced by spaces (same length, newlines kept)"""
    out = list(src)
    i, n = 0, len(src)
    while i < n:
        c = src[i]
        if src.startswith("//", i):
            j = src.find("\n", i)
            j = n if j < 0 else j
        elif src.startswith("/*", i):
            j = src.find("*/", i + 2)
            j = n if j < 0 else j + 2
        elif c == '"' or c == "'":
            j = i + 1
            while j < n and src[j] != c:
                j += 2 if src[j] == "\\" else 1
            j += 1
        else:
            i += 1
            continue
        for k in range(i, min(j, n)):
            if out[k] != "\n":
                out[k] = " "
        i = j
    return "".join(out)


def close_of(s, i):
    """index of the brace closing the one at s[i]"""
    assert s[i] == "{"
    d = 0
    for k in range(i, len(s)):
        if s[k] == "{":
            d += 1
        elif s[k] == "}":
            d -= 1
            if d == 0:
                return k
    raise TranslateError("unbalanced braces")


def body_of(s, header):
    m = re.search(header, s)
    if not m:
        raise TranslateError("function not found: " + header)
    i = s.find("{", m.end())
    return s[i:close_of(s, i) + 1]


def try_blocks(body):
    """[(depth, [(class, action)])] for every try block of a function body, in source order;
    depth = number of enclosing try blocks"""
    res = []
    spans = []
    for m in re.finditer(r"\btry\s*\{", body):
        i = m.end() - 1
        j = close_of(body, i)
        handlers = []
        k = j + 1
        while True:
            mc = re.match(r"\s*catch\s*\(([^)]*)\)\s*\{", body[k:])
            if not mc:
                break
            decl = mc.group(1).strip()
            hb = k + mc.end() - 1
            he = close_of(body, hb)
            handlers.append((class_of(decl), action_of(body[hb + 1:he])))
            k = he + 1
        if not handlers:
            raise TranslateError("try block without handlers")
        depth = sum(1 for (a, b) in spans if a < i < b)
        spans.append((i, j))
        res.append((depth, handlers))
    return res


def class_of(decl):
    if decl == "...":
        return CLS["..."]
    t = re.sub(r"\bconst\b", "", decl)
    t = re.sub(r"[&*]\s*\w*\s*$", "", t.strip()).strip()
    t = re.sub(r"\s+\w+$", "", t).strip() if " " in t else t
    if t not in CLS:
        raise TranslateError("handler for a class the model does not know: %r" % decl)
    return CLS[t]


def action_of(text):
    t = text.strip()
    if re.search(r"\bthrow\s*;", t):
        return "Rethrow"
    rep = re.search(r"\bfromInternalError\s*\(", t) and re.search(r"\breportErr\s*\(", t)
    internal = re.search(r"\binternalError\s*\(", t)
    if rep and not internal:
        return "Report"
    if internal and not rep:
        return "Internal"
    if not rep and not internal and not re.search(r"\b(abort|exit|terminate|_Exit|quick_exit)\s*\(", t):
        return "Silent"
    return "Other"


def base_of(hdr, name):
    m = re.search(r"\b(?:class|struct)\s+(?:CPPCHECKLIB\s+)?%s\b\s*(?:final\s*)?(:[^{;]*)?\{" % name, hdr)
    if not m:
        raise TranslateError("class %s not found in errortypes.h" % name)
    if not m.group(1):
        return "None"
    bases = [b.strip() for b in m.group(1)[1:].split(",")]
    if len(bases) != 1:
        raise TranslateError("%s has several bases" % name)
    mb = re.match(r"public\s+([\w:]+)$", bases[0])
    if not mb:
        return "None"          # a private/protected base is not seen by a handler
    if mb.group(1) not in CLS:
        raise TranslateError("%s derives from an unknown class %s" % (name, mb.group(1)))
    return "(Some %s)" % CLS[mb.group(1)]


def translate(repo):
    src = blank(open(os.path.join(repo, "lib", "cppcheck.cpp"), encoding="utf-8", errors="replace").read())
    hdr = blank(open(os.path.join(repo, "lib", "errortypes.h"), encoding="utf-8", errors="replace").read())
    ci = try_blocks(body_of(src, r"\bunsigned\s+int\s+CppCheck::checkInternal\s*\("))
    outer = [h for d, h in ci if d == 0]
    inner = [h for d, h in ci if d == 1]
    deeper = [h for d, h in ci if d > 1]
    if len(outer) != 1:
        raise TranslateError("checkInternal: expected one outermost try block, found %d" % len(outer))
    cc = try_blocks(body_of(src, r"\bunsigned\s+int\s+CppCheck::checkClang\s*\("))
    cc0 = [h for d, h in cc if d == 0]
    if len(cc0) != 1:
        raise TranslateError("checkClang: expected one outermost try block, found %d" % len(cc0))
    return {"outer": outer[0], "inner": inner, "deeper": deeper, "clang": cc0[0],
            "terminate_base": base_of(hdr, "TerminateException"), "internal_base": base_of(hdr, "InternalError")}


def coq_list(hs):
    return "[" + "; ".join("(%s, %s)" % h for h in hs) + "]"


def main(repo, verif):
    t = translate(repo)
    out = os.path.join(verif, "coq", "theories", "Robust", "Gen_Funnel.v")
    txt = ("(* GENERATED by tools/translate/funnel.py from %s/lib/cppcheck.cpp and errortypes.h -- do not edit *)\n"
           "From CV Require Import Robust.Funnel.\n\n"
           "Definition terminate_base : option cls := %s.\n"
           "Definition internal_base : option cls := %s.\n\n"
           "(* CppCheck::checkInternal: the try block around the whole file *)\n"
           "Definition file_handlers : list (cls * action) :=\n  %s.\n\n"
           "(* CppCheck::checkInternal: try blocks nested once inside it (per configuration), in source order *)\n"
           "Definition config_handlers : list (list (cls * action)) :=\n  [%s].\n\n"
           "(* CppCheck::checkClang *)\n"
           "Definition clang_handlers : list (cls * action) :=\n  %s.\n"
           % (repo, t["terminate_base"], t["internal_base"], coq_list(t["outer"]),
              ";\n   ".join(coq_list(h) for h in t["inner"]), coq_list(t["clang"])))
    old = open(out).read() if os.path.exists(out) else None
    if old != txt:
        open(out, "w").write(txt)
    return t


if __name__ == "__main__":
    here = os.path.dirname(os.path.dirname(os.path.dirname(os.path.abspath(__file__))))
    print(main(os.environ.get("VERIF_REPO", "/repo"), here))
