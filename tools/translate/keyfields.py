#!/usr/bin/env python3
"""Translator for the cache-key model (C18, C19, C20).

Reads  lib/cppcheck.cpp      CppCheck::calculateHash       -> key_fields (what is streamed into toolinfo, in order)
       lib/preprocessor.cpp  Preprocessor::calculateHash   -> loc_enc    (how a token location enters the hash data)
writes coq/theories/Cache/Gen_KeyFields.v.

Anything it does not recognise is an error (the model would no longer be the code).
"""
import os
import re
import sys

FIELD_PATTERNS = [
    (r"cppcheckCfgProductName", "F_product"),
    (r"severity\.isEnabled\(Severity::warning\)", "F_sev_warning"),
    (r"severity\.isEnabled\(Severity::style\)", "F_sev_style"),
    (r"severity\.isEnabled\(Severity::performance\)", "F_sev_performance"),
    (r"severity\.isEnabled\(Severity::portability\)", "F_sev_portability"),
    (r"severity\.isEnabled\(Severity::information\)", "F_sev_information"),
    (r"mSettings\.userDefines", "F_userDefines"),
    (r"mSettings\.checkConfiguration", "F_checkConfiguration"),
    (r"mSettings\.force\b", "F_force"),
    (r"mSettings\.maxConfigsOption", "F_maxConfigsOption"),
    (r"mSettings\.checkLevel", "F_checkLevel"),
    (r"mSettings\.premiumArgs", "F_premiumArgs"),
    (r"certainty\.isEnabled\(Certainty::inconclusive\)", "F_certainty_inconclusive"),
    (r"checks\.isEnabled\(Checks::unusedFunction\)", "F_checks_unusedFunction"),
    (r"checks\.isEnabled\(Checks::missingInclude\)", "F_checks_missingInclude"),
    (r"mSettings\.userUndefs", "F_userUndefs"),
    (r"mSettings\.includePaths", "F_includePaths"),
    (r"mSettings\.standards", "F_standards"),
    (r"mSettings\.enforcedLang", "F_enforcedLang"),
    (r"mSettings\.platform", "F_platform"),
    (r"mSettings\.libraries", "F_libraries"),
    (r"<<\s*filePath\b", "F_filePath"),
]


_LANG_IN_KEY = False

# Reviewed table: methods of Settings that may be streamed, the pseudo member that stands for their value and the
# members they read (lib/settings.h). A member that reaches toolinfo only through such a method is NOT counted as
# streamed (the method need not be injective in it: getMaxConfigs() maps "not assigned" and "12" to the same value).
METHOD_TABLE = {
    "getMaxConfigs": ("F_getMaxConfigs", ["F_force", "F_maxConfigsOption", "F_userDefines"]),   # + maxConfigsProject (not modelled)
}
_METHODS_USED = []


class TranslateError(Exception):
    pass


def strip_comments(s):
    s = re.sub(r"//[^\n]*", "", s)
    return re.sub(r"/\*.*?\*/", "", s, flags=re.S)


def function_body(src, signature_re):
    m = re.search(signature_re, src)
    if not m:
        raise TranslateError("function not found: " + signature_re)
    i = src.index("{", m.end() - 1)
    depth, j = 0, i
    while j < len(src):
        if src[j] == "{":
            depth += 1
        elif src[j] == "}":
            depth -= 1
            if depth == 0:
                return src[i + 1:j]
        j += 1
    raise TranslateError("unbalanced body: " + signature_re)


def statements(body):
    """Top-level statements; a for-loop with a braced body is one statement."""
    out, depth, cur = [], 0, ""
    for ch in body:
        cur += ch
        if ch == "{":
            depth += 1
        elif ch == "}":
            depth -= 1
            if depth == 0:
                out.append(cur.strip())
                cur = ""
        elif ch == ";" and depth == 0:
            out.append(cur.strip())
            cur = ""
    if cur.strip():
        out.append(cur.strip())
    return [s for s in out if s]


def key_fields(repo):
    del _METHODS_USED[:]
    src = strip_comments(open(os.path.join(repo, "lib", "cppcheck.cpp")).read())
    body = function_body(src, r"std::size_t\s+CppCheck::calculateHash\s*\([^)]*\)\s*const\s*\{")
    fields = []
    saw_decl = saw_return = False
    for st in statements(body):
        if re.match(r"std::ostringstream\s+toolinfo\s*;", st):
            saw_decl = True
            continue
        if re.match(r"return\s+preprocessor\.calculateHash\(\s*toolinfo\.str\(\)\s*\)\s*;", st):
            saw_return = True
            continue
        if re.match(r"for\s*\(\s*const\s+auto\s*&\s*a\s*:\s*mSettings\.addonInfos\s*\)", st):
            inner = statements(st[st.index("{") + 1:st.rindex("}")])
            if [re.sub(r"\s+", "", x) for x in inner] != ["toolinfo<<a.name;", "toolinfo<<a.args;"]:
                raise TranslateError("unexpected addonInfos loop body: %r" % inner)
            fields.append("F_addonInfos")
            continue
        m = re.match(r"for\s*\(\s*const\s+std::string\s*&\s*(\w+)\s*:\s*mSettings\.(userUndefs|includePaths|libraries)\s*\)\s*toolinfo\s*<<\s*\"(-[UIl])\"\s*<<\s*(\w+)\s*;$", st)
        if m and m.group(1) == m.group(4):
            fields.append({"userUndefs": "F_userUndefs", "includePaths": "F_includePaths", "libraries": "F_libraries"}[m.group(2)])
            continue
        if re.match(r"mSuppressions\.nomsg\.dump\(\s*toolinfo\s*,\s*filePath\s*\)\s*;", st):
            fields.append("F_suppressions")
            continue
        mm = re.match(r"toolinfo\s*<<\s*mSettings\.(\w+)\(\s*\)\s*;$", st)
        if mm:
            if mm.group(1) not in METHOD_TABLE:
                raise TranslateError("method of Settings streamed into toolinfo that is not in the reviewed table: %r" % st)
            fields.append(METHOD_TABLE[mm.group(1)][0])
            _METHODS_USED.append(mm.group(1))
            continue
        if re.match(r"toolinfo\s*<<", st):
            hits = [f for pat, f in FIELD_PATTERNS if re.search(pat, st)]
            if len(hits) != 1:
                raise TranslateError("cannot map toolinfo statement to one Settings member: %r (%r)" % (st, hits))
            fields.append(hits[0])
            continue
        raise TranslateError("unrecognised statement in CppCheck::calculateHash: %r" % st)
    if not (saw_decl and saw_return):
        raise TranslateError("CppCheck::calculateHash: toolinfo declaration/return not found")
    return fields


CHAR_FORM = ["hashData+=tok->str();", "hashData+=static_cast<char>(tok->location.line);",
             "hashData+=static_cast<char>(tok->location.col);"]
DEC_FORM = ["hashData+=tok->str();", "hashData+='';", "hashData+=std::to_string(tok->location.line);", "hashData+=':';",
            "hashData+=std::to_string(tok->location.col);", "hashData+='\\n';"]


def lookup_mode(repo):
    """getAnalyzerInfoFileFromFilesTxt: endsWith-first (current) or exact match preferred."""
    src = strip_comments(open(os.path.join(repo, "lib", "analyzerinfo.cpp")).read())
    body = function_body(src, r"std::string\s+AnalyzerInformation::getAnalyzerInfoFileFromFilesTxt\s*\([^)]*\)\s*\{")
    flat = re.sub(r"\s+", "", body)
    suffix = "endsWith(sourcefile,filesTxtInfo.sourceFile)&&filesTxtInfo.cfg==cfg&&filesTxtInfo.fsFileId==fsFileId" in flat
    exact = "sourcefile==filesTxtInfo.sourceFile&&filesTxtInfo.cfg==cfg&&filesTxtInfo.fsFileId==fsFileId" in flat
    if suffix and not exact and flat.count("returnfilesTxtInfo.afile;") == 1:
        return "SuffixFirst"
    if suffix and exact and flat.index("sourcefile==filesTxtInfo.sourceFile") < flat.index("endsWith(sourcefile,filesTxtInfo.sourceFile)"):
        return "ExactThenSuffix"
    raise TranslateError("getAnalyzerInfoFileFromFilesTxt: unrecognised lookup")


def loc_enc(repo):
    src = strip_comments(open(os.path.join(repo, "lib", "preprocessor.cpp")).read())
    body = function_body(src, r"std::size_t\s+Preprocessor::calculateHash\s*\([^)]*\)\s*const\s*\{")
    blocks = re.findall(r"if\s*\(\s*!tok->comment\s*\)\s*\{(.*?)\}", body, flags=re.S)
    if len(blocks) != 2:
        raise TranslateError("Preprocessor::calculateHash: expected two token loops, found %d" % len(blocks))
    global _LANG_IN_KEY
    _LANG_IN_KEY = bool(re.search(r"std::string\s+hashData\s*=\s*toolinfo\s*;\s*hashData\s*\+=\s*std::to_string\(static_cast<int>\(mLang\)\)\s*;\s*for", body))
    if not _LANG_IN_KEY and not re.search(r"std::string\s+hashData\s*=\s*toolinfo\s*;\s*for", body):
        raise TranslateError("Preprocessor::calculateHash: unrecognised statement between the prologue and the token loop")
    if not re.search(r"std::string\s+hashData\s*=\s*toolinfo\s*;", body) or \
       not re.search(r"return\s*\(?\s*std::hash<std::string>\s*\{\}\s*\)?\s*\(\s*hashData\s*\)\s*;", body):
        raise TranslateError("Preprocessor::calculateHash: prologue/epilogue changed")
    forms = []
    for b in blocks:
        sts = [re.sub(r"\s+", "", x) for x in statements(b)]
        if sts == CHAR_FORM:
            forms.append("LocChar")
        elif sts == DEC_FORM:
            forms.append("LocDec")
        else:
            raise TranslateError("Preprocessor::calculateHash: unrecognised token encoding %r" % sts)
    if forms[0] != forms[1]:
        raise TranslateError("Preprocessor::calculateHash: source and header loops differ: %r" % forms)
    # does the header loop also hash the header's file name?
    m = re.search(r"for\s*\(\s*const\s+auto\s*&\s*filedata\s*:\s*mFileCache\s*\)\s*\{(.*)", body, flags=re.S)
    if not m:
        raise TranslateError("Preprocessor::calculateHash: header loop not found")
    head = re.sub(r"\s+", "", m.group(1).split("for", 1)[0])
    if head == "":
        hp = "false"
    elif head == "hashData+=filedata->filename;":
        hp = "true"
    else:
        raise TranslateError("Preprocessor::calculateHash: unrecognised statement before the header token loop: %r" % head)
    return forms[0], hp


def generate(repo, out_path):
    kf = key_fields(repo)
    le, hp = loc_enc(repo)
    if _LANG_IN_KEY:
        kf = kf + ["F_enforcedLang"]     # appended to toolinfo by Preprocessor::calculateHash, before the tokens
    lmode = lookup_mode(repo)
    txt = ("(* GENERATED by tools/translate/keyfields.py from lib/cppcheck.cpp (CppCheck::calculateHash)\n"
           "   and lib/preprocessor.cpp (Preprocessor::calculateHash). Do not edit. *)\n"
           "From CV Require Import Base.Bytes Cache.Defs.\n\n"
           "Definition key_fields : list field :=\n  [%s].\n\n"
           "Definition loc_enc : locenc := %s.\n\n"
           "Definition hdr_path_in_key : bool := %s.\n\n"
           "Definition lookup_mode_ : lookup_mode := %s.\n\n"
           "(* methods of Settings streamed into toolinfo: pseudo member, members read *)\n"
           "Definition method_reads : list (field * list field) :=\n  [%s].\n" % (
               "; ".join(kf), le, hp, lmode,
               "; ".join("(%s, [%s])" % (METHOD_TABLE[m][0], "; ".join(METHOD_TABLE[m][1])) for m in _METHODS_USED)))
    old = open(out_path).read() if os.path.exists(out_path) else None
    if old != txt:
        with open(out_path, "w") as f:
            f.write(txt)
    return kf, (le, hp, lmode)


if __name__ == "__main__":
    repo = sys.argv[1] if len(sys.argv) > 1 else os.environ.get("VERIF_REPO", "/repo")
    here = os.path.dirname(os.path.dirname(os.path.dirname(os.path.abspath(__file__))))
    print(generate(repo, os.path.join(here, "coq", "theories", "Cache", "Gen_KeyFields.v")))
