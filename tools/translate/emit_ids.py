#!/usr/bin/env python3
"""C28 translator T1/T2.

T1  scan lib/*.cpp lib/*.h cli/*.cpp cli/*.h of the *current* /repo tree at C++-token level
    for every place an ErrorMessage gets its id:
      call     reportError(...) / reportErr(...) / other registered forwarders (id = n-th argument)
      ctor     ErrorMessage x(...), ErrorMessage(...), container.emplace_back(...) of ErrorMessages
      internal InternalError(...) construction (id = typeToString(type)), fromInternalError(...)
      assign   <msg>.id = <expr>
    A literal id argument is taken as is.  A non-literal id argument is looked up in the reviewed
    table dynamic_ids.json (key: file + enclosing function + normalised id expression); the entry
    carries the source line text it was derived from and optional `deps` lines (definitions of the
    variable); if a non-literal site has no entry, or the recorded text no longer matches, or an
    entry is unused, the translator FAILS.
T2  `cppcheck --errorlist` of the freshly built binary.
Output: coq/theories/Ids/Gen_Ids.v  (data only).
"""
import json
import os
import re
import subprocess
import sys

HERE = os.path.dirname(os.path.abspath(__file__))
TABLE = os.path.join(HERE, "dynamic_ids.json")


class TranslateError(Exception):
    pass


# ------------------------------------------------------------------ lexer
_PUNCT3 = ("<<=", ">>=", "...", "->*")
_PUNCT2 = ("::", "->", "++", "--", "<<", ">>", "<=", ">=", "==", "!=", "&&", "||", "+=", "-=", "*=", "/=", "%=", "&=", "|=", "^=", "##")
_ESC = {"n": "\n", "t": "\t", "r": "\r", "0": "\0", "\\": "\\", '"': '"', "'": "'", "a": "\a", "b": "\b", "f": "\f", "v": "\v", "?": "?"}


def _unescape(s):
    out, i = [], 0
    while i < len(s):
        c = s[i]
        if c == "\\" and i + 1 < len(s):
            n = s[i + 1]
            if n in _ESC:
                out.append(_ESC[n])
                i += 2
            elif n == "x":
                j = i + 2
                while j < len(s) and s[j] in "0123456789abcdefABCDEF":
                    j += 1
                out.append(chr(int(s[i + 2:j] or "0", 16) & 255))
                i = j
            elif n in "01234567":
                j = i + 1
                while j < len(s) and j < i + 4 and s[j] in "01234567":
                    j += 1
                out.append(chr(int(s[i + 1:j], 8) & 255))
                i = j
            else:
                out.append(n)
                i += 2
        else:
            out.append(c)
            i += 1
    return "".join(out)


# build-feature macros whose #ifdef regions are honoured (everything else: both branches are scanned)
FEATURE_MACROS = ("CHECK_INTERNAL", "HAVE_RULES")


def _cond_value(directive, rest, defined):
    """True/False for `#ifdef X`, `#ifndef X`, `#if [!]defined(X)` with X a feature macro; None = unknown"""
    rest = rest.split("//")[0].strip()
    if directive == "ifdef" and rest in FEATURE_MACROS:
        return rest in defined
    if directive == "ifndef" and rest in FEATURE_MACROS:
        return rest not in defined
    m = re.match(r"^(!?)\s*defined\s*\(?\s*(\w+)\s*\)?$", rest)
    if directive == "if" and m and m.group(2) in FEATURE_MACROS:
        return (m.group(2) in defined) != bool(m.group(1))
    return None


def lex(text, defined=frozenset()):
    """-> list of (kind, text, line); kind in id num str chr p.  str tokens carry the decoded value.
    Regions under #ifdef/#ifndef/#if defined() of a FEATURE_MACRO that is off in the build are skipped."""
    toks = []
    i, n, line = 0, len(text), 1
    cond = []          # stack of [active?, known?]
    bol = True
    while i < n:
        c = text[i]
        if bol and c == "#":
            m = re.match(r"#[ \t]*(ifdef|ifndef|if|elif|else|endif)\b([^\n]*)", text[i:])
            if m:
                d, rest = m.group(1), m.group(2)
                if d in ("ifdef", "ifndef", "if"):
                    v = _cond_value(d, rest, defined)
                    cond.append([True if v is None else v, v is not None])
                elif d == "elif" and cond:
                    if cond[-1][1]:
                        cond[-1] = [True, False] if not cond[-1][0] else [False, True]
                elif d == "else" and cond:
                    if cond[-1][1]:
                        cond[-1][0] = not cond[-1][0]
                elif d == "endif" and cond:
                    cond.pop()
        if c not in " \t\r\f\v":
            bol = c == "\n"
        if cond and not all(a for a, _ in cond):
            # inactive region: skip to end of line
            j = text.find("\n", i)
            j = n if j < 0 else j
            i = j
            if i < n:
                line += 1
                i += 1
                bol = True
            continue
        if c == "\n":
            line += 1
            i += 1
        elif c in " \t\r\f\v":
            i += 1
        elif c == "\\" and i + 1 < n and text[i + 1] == "\n":
            line += 1
            i += 2
        elif text.startswith("//", i):
            # line comment; a trailing backslash continues it
            while i < n and text[i] != "\n":
                if text[i] == "\\" and i + 1 < n and text[i + 1] == "\n":
                    line += 1
                    i += 1
                i += 1
        elif text.startswith("/*", i):
            j = text.find("*/", i + 2)
            if j < 0:
                raise TranslateError("unterminated comment at line %d" % line)
            line += text.count("\n", i, j)
            i = j + 2
        elif c == '"' or (c in "uULR" and re.match(r'(u8|u|U|L)?R?"', text[i:i + 4])):
            m = re.match(r'(u8|u|U|L)?(R?)"', text[i:i + 4])
            if m.group(2):
                k = i + m.end()
                d = text.index("(", k)
                delim = text[k:d]
                end = text.index(")" + delim + '"', d)
                val = text[d + 1:end]
                line0 = line
                line += text.count("\n", i, end)
                toks.append(("str", val, line0))
                i = end + len(delim) + 2
            else:
                j = i + m.end()
                while j < n and text[j] != '"':
                    if text[j] == "\\":
                        j += 1
                    if text[j] == "\n":
                        raise TranslateError("newline in string literal at line %d" % line)
                    j += 1
                toks.append(("str", _unescape(text[i + m.end():j]), line))
                i = j + 1
        elif c == "'" and not (toks and toks[-1][0] == "num" and text[i - 1].isalnum()):
            j = i + 1
            while j < n and text[j] != "'":
                if text[j] == "\\":
                    j += 1
                j += 1
            toks.append(("chr", text[i:j + 1], line))
            i = j + 1
        elif c.isalpha() or c == "_":
            j = i + 1
            while j < n and (text[j].isalnum() or text[j] == "_"):
                j += 1
            toks.append(("id", text[i:j], line))
            i = j
        elif c.isdigit() or (c == "." and i + 1 < n and text[i + 1].isdigit()):
            j = i + 1
            while j < n and (text[j].isalnum() or text[j] in "._'" or (text[j] in "+-" and text[j - 1] in "eEpP")):
                j += 1
            toks.append(("num", text[i:j], line))
            i = j
        else:
            for p in _PUNCT3 + _PUNCT2:
                if text.startswith(p, i):
                    toks.append(("p", p, line))
                    i += len(p)
                    break
            else:
                toks.append(("p", c, line))
                i += 1
    return toks


# ------------------------------------------------------------------ structure helpers
_OPEN = {"(": ")", "[": "]", "{": "}"}
_CLOSE = {")", "]", "}"}


def match_paren(toks, i):
    """toks[i] is an opening bracket; return the index of its partner."""
    depth = 0
    for j in range(i, len(toks)):
        t = toks[j]
        if t[0] == "p":
            if t[1] in _OPEN:
                depth += 1
            elif t[1] in _CLOSE:
                depth -= 1
                if depth == 0:
                    return j
    raise TranslateError("unbalanced bracket at line %d" % toks[i][2])


def split_args(toks, lo, hi):
    """top-level comma split of toks[lo:hi] (brackets (), [], {} nest; '<' '>' do not)."""
    args, cur, depth = [], [], 0
    for t in toks[lo:hi]:
        if t[0] == "p" and t[1] in _OPEN:
            depth += 1
        elif t[0] == "p" and t[1] in _CLOSE:
            depth -= 1
        if t[0] == "p" and t[1] == "," and depth == 0:
            args.append(cur)
            cur = []
        else:
            cur.append(t)
    if cur or args:
        args.append(cur)
    return args


def expr_text(arg):
    out = []
    for t in arg:
        out.append(json.dumps(t[1]) if t[0] == "str" else t[1])
    return " ".join(out)


class Func:
    def __init__(self, name, params, lo, hi):
        self.name, self.params, self.lo, self.hi = name, params, lo, hi   # body = toks[lo..hi]

    @property
    def base(self):
        return self.name.split("::")[-1]


_SPEC = ("const", "noexcept", "override", "final", "try", "mutable")
_NOT_FN = ("if", "for", "while", "switch", "catch", "return", "sizeof", "decltype", "do", "else", "alignas", "defined")


def _match_back(toks, j):
    want = {")": "(", "]": "[", "}": "{"}[toks[j][1]]
    depth = 0
    for k in range(j, -1, -1):
        t = toks[k]
        if t[0] == "p" and t[1] in _CLOSE:
            depth += 1
        elif t[0] == "p" and t[1] in _OPEN:
            depth -= 1
            if depth == 0:
                return k if t[1] == want else None
    return None


def _function_header(toks, brace):
    """if the '{' at `brace` opens a function body: (qualified name, [parameter names]) else None"""
    j = brace - 1
    while j >= 0 and toks[j][0] == "id" and toks[j][1] in _SPEC:
        j -= 1
    # walk back over a constructor initialiser list   ) : a(b), c{d}
    while j >= 0 and toks[j][0] == "p" and toks[j][1] in (")", "}"):
        o = _match_back(toks, j)
        if o is None or o < 1:
            return None
        m = o - 1
        while m >= 0 and (toks[m][0] == "id" or (toks[m][0] == "p" and toks[m][1] in ("::", "<", ">"))):
            m -= 1
        if m >= 1 and toks[m][0] == "p" and toks[m][1] == "," and m + 1 < o:
            j = m - 1
            continue
        if m >= 1 and toks[m][0] == "p" and toks[m][1] == ":" and m + 1 < o:
            j = m - 1
            while j >= 0 and toks[j][0] == "id" and toks[j][1] in _SPEC:
                j -= 1
            break
        break
    if j < 0 or not (toks[j][0] == "p" and toks[j][1] == ")"):
        return None
    o = _match_back(toks, j)
    if o is None or o < 1:
        return None
    m = o - 1
    parts = []
    while m >= 0:
        t = toks[m]
        if t[0] == "id" and (not parts or parts[-1] in ("::", "~")):
            parts.append(t[1])
        elif t[0] == "p" and t[1] == "::" and parts and parts[-1] != "::":
            parts.append("::")
        elif t[0] == "p" and t[1] == "~" and parts and parts[-1] != "::" and len(parts) == 1:
            parts.append("~")
        else:
            break
        m -= 1
    name = "".join(reversed(parts))
    if not name or name.split("::")[-1] in _NOT_FN or name.startswith("::"):
        return None
    if toks[o - 1][0] != "id":
        return None
    params = []
    for a in split_args(toks, o + 1, j):
        ids = []
        depth = 0
        for t in a:
            if t[1] in _OPEN:
                depth += 1
            elif t[1] in _CLOSE:
                depth -= 1
            if t[1] == "=" and depth == 0:
                break
            if t[0] == "id" and depth == 0:
                ids.append(t[1])
        if len(ids) >= 2:
            params.append(ids[-1])
    return name, params


def functions(toks):
    """-> (list of Func, owner[i] = Func containing token i or None).  Only outermost function
    bodies (lambdas and local classes belong to the function they are written in)."""
    funcs, owner = [], [None] * len(toks)
    stack = []      # (is_fn, Func|None)
    cur = None
    for i, t in enumerate(toks):
        if t[0] == "p" and t[1] == "{":
            f = None
            if cur is None:
                h = _function_header(toks, i)
                if h:
                    f = Func(h[0], h[1], i, None)
                    funcs.append(f)
                    cur = f
            stack.append(f)
        elif t[0] == "p" and t[1] == "}":
            if stack:
                f = stack.pop()
                if f is not None:
                    f.hi = i
                    owner[i] = f
                    cur = None
        if cur is not None:
            owner[i] = cur
    return funcs, owner


# ------------------------------------------------------------------ site rules
# callee name -> the id is the argument right after the Severity argument.
# Every function that forwards an id *parameter* into an ErrorMessage must be listed here or in
# "forwarders" of dynamic_ids.json: the scanner fails on a site whose id is a parameter of an
# unlisted function.
CALLEES = {"reportError": None, "reportErr": None}
INTERNAL_SEVERITIES = ("internal", "debug", "none")


def _looks_like_severity(arg):
    tx = [t[1] for t in arg]
    if not tx:
        return False
    if "Severity" in tx and "::" in tx:
        return True
    return tx[-1] == "severity" or tx[0] == "severityFromString"


def severity_of(arg):
    """the literal x of `Severity::x`, or '' when the severity is computed"""
    tx = [t[1] for t in arg]
    return tx[2] if len(tx) == 3 and tx[0] == "Severity" and tx[1] == "::" else ""


def _ctor_id_index(args):
    """position of the id in an ErrorMessage constructor call, by the overload set in errorlogger.h:
         (list<FileLocation>, std::string file1, severity, msg, id, [cwe,] certainty)            -> 4
         (list<const Token*>|ErrorPath, const TokenList*, severity, id, msg, [cwe,] certainty)   -> 3
       decided by the second argument (a string or a TokenList pointer); None if undecidable."""
    if not (6 <= len(args) <= 7):
        return None
    a1 = [t[1] for t in args[1]]
    kinds = [t[0] for t in args[1]]
    if a1[:3] == ["std", "::", "move"]:
        a1, kinds = a1[4:-1], kinds[4:-1]
    if a1 == ["nullptr"] or (a1 and a1[0] == "&") or ("?" in a1 and "nullptr" in a1) or a1 in (["tokenList"], ["list"], ["mTokenList"]):
        return 3
    if kinds == ["str"] or a1 in (["file0"], ["mFile0"], ["filename"], ["file1"], ["locFile"], ["fi", "->", "file0"]) \
            or a1[-3:] in (["spath", "(", ")"], ["getSourceFilePath", "(", ")"]) or a1[-1:] == ["filename"]:
        return 4
    return None


def _param_like(arg):
    """does this top-level argument read as a parameter declaration (`T name`, `const T& name = d`, `T name[]`)?"""
    a = []
    depth = 0
    for t in arg:
        if t[1] in _OPEN:
            depth += 1
        elif t[1] in _CLOSE:
            depth -= 1
        if t[1] == "=" and depth == 0:
            break
        a.append(t)
    while len(a) >= 2 and a[-1][1] == "]" and a[-2][1] == "[":
        a = a[:-2]
    if len(a) < 2 or a[0][0] != "id" or a[-1][0] != "id":
        return False
    return a[-2][0] == "id" or a[-2][1] in ("*", "&", ">", "&&")


def _is_declaration(toks, open_, close):
    """is the bracket pair a parameter list (declaration/definition) rather than a call?"""
    after = toks[close + 1] if close + 1 < len(toks) else ("", "", 0)
    args = split_args(toks, open_ + 1, close)
    if args and all(_param_like(a) for a in args):
        return True
    if not args and after[1] in ("{", "const", "override", "noexcept"):
        return True
    return False


def _declared_type(toks, i, obj, lo):
    """type name in the nearest earlier declaration `T [&*] obj` within toks[lo:i]"""
    for j in range(i - 1, lo, -1):
        if toks[j][0] == "id" and toks[j][1] == obj and toks[j + 1][1] in (";", "(", "=", "{", ",", ")", ":"):
            k = j - 1
            while k >= 0 and toks[k][1] in ("&", "*", "const", "&&"):
                k -= 1
            if k >= 0 and toks[k][0] == "id" and toks[k][1] not in ("return", "delete", "else", "new", "throw", "case", "goto"):
                if k + 1 == j or toks[k + 1][1] in ("&", "*", "const", "&&"):
                    q = toks[k][1]
                    if k >= 2 and toks[k - 1][1] == "::":
                        q = toks[k - 2][1] + "::" + q
                    return q
    return None


def scan_file(path, rel, forwarders, defined=frozenset()):
    text = open(path, encoding="utf-8", errors="replace").read()
    lines = text.split("\n")
    toks = lex(text, defined)
    funcs, owner = functions(toks)
    sites = []
    n = len(toks)
    fw = {f["name"]: f for f in forwarders if rel in f["files"]}

    def add(kind, i, idarg, sevarg):
        f = owner[i]
        l0 = idarg[0][2] if idarg else toks[i][2]
        sites.append({"file": rel, "line": toks[i][2], "func": f.name if f else "", "fn": f, "kind": kind, "idarg": idarg,
                      "severity": severity_of(sevarg) if sevarg is not None else "",
                      "text": lines[l0 - 1].strip(), "toks": toks})

    for i, t in enumerate(toks):
        if t[0] != "id":
            continue
        name = t[1]
        nxt = toks[i + 1] if i + 1 < n else ("", "", 0)
        prev = toks[i - 1] if i > 0 else ("", "", 0)
        if name in CALLEES and nxt[1] == "(":
            close = match_paren(toks, i + 1)
            args = split_args(toks, i + 2, close)
            if _is_declaration(toks, i + 1, close):
                continue
            if name == "reportErr" and len(args) == 1:
                continue      # ErrorLogger::reportErr(const ErrorMessage&): the sink, not an id source
            sev = [k for k in range(min(3, len(args))) if _looks_like_severity(args[k])]
            if len(sev) != 1 or sev[0] + 1 >= len(args):
                raise TranslateError("%s:%d: cannot locate the Severity argument of this %s call: %s" % (rel, t[2], name, lines[t[2] - 1].strip()))
            add("call", i, args[sev[0] + 1], args[sev[0]])
        elif name in fw and nxt[1] == "(":
            close = match_paren(toks, i + 1)
            args = split_args(toks, i + 2, close)
            if _is_declaration(toks, i + 1, close) or len(args) != fw[name]["nargs"]:
                continue
            add("call", i, args[fw[name]["id_index"]], None)
            sites[-1]["severity"] = fw[name].get("severity", "")
        elif name == "ErrorMessage":
            # ErrorMessage x(args) | ErrorMessage(args) | ErrorMessage x{args}
            if prev[1] == "::":
                continue      # SuppressionList::ErrorMessage, ErrorMessage::ErrorMessage definitions
            j = i + 1
            if nxt[0] == "id" and j + 1 < n and toks[j + 1][1] in ("(", "{"):
                j += 1
            if toks[j][1] not in ("(", "{"):
                continue
            close = match_paren(toks, j)
            if _is_declaration(toks, j, close):
                continue
            args = split_args(toks, j + 1, close)
            if len(args) <= 1:
                continue      # default / copy / from XML element: the id comes from elsewhere (assign sites, deserialisation)
            k = _ctor_id_index(args)
            if k is None:
                raise TranslateError("%s:%d: ErrorMessage constructor call with an unrecognised argument shape: %s" % (rel, t[2], lines[t[2] - 1].strip()))
            add("ctor", i, args[k], args[2])
        elif name == "emplace_back" and nxt[1] == "(" and prev[1] in (".", "->"):
            close = match_paren(toks, i + 1)
            args = split_args(toks, i + 2, close)
            # containers of ErrorMessage are recognised by the argument shape (a Severity at position 2)
            if len(args) in (6, 7) and _looks_like_severity(args[2]):
                k = _ctor_id_index(args)
                if k is None:
                    raise TranslateError("%s:%d: emplace_back with ErrorMessage-like arguments of unrecognised shape" % (rel, t[2]))
                add("ctor", i, args[k], args[2])
        elif name == "fromInternalError" and nxt[1] == "(":
            close = match_paren(toks, i + 1)
            if not _is_declaration(toks, i + 1, close):
                add("fromInternalError", i, [("id", "@InternalError", t[2])], None)
                sites[-1]["severity"] = "error"
        elif name == "id" and prev[1] in (".", "->") and nxt[1] == "=" and i >= 2 and toks[i - 2][0] == "id":
            f = owner[i]
            ty = _declared_type(toks, i - 2, toks[i - 2][1], f.lo if f else 0)
            if ty != "ErrorMessage":
                continue
            j, depth, arg = i + 2, 0, []
            while j < n and not (toks[j][1] == ";" and depth == 0):
                if toks[j][1] in _OPEN:
                    depth += 1
                elif toks[j][1] in _CLOSE:
                    depth -= 1
                arg.append(toks[j])
                j += 1
            add("assign", i, arg, None)
    return sites, toks, lines, funcs


# ------------------------------------------------------------------ mechanical resolution of an id expression
def _strip_wrappers(arg):
    """x.c_str() -> x ; std::move(x) -> x ; std::string(x) -> x ; (x) -> x"""
    a = list(arg)
    changed = True
    while changed and a:
        changed = False
        tx = [t[1] for t in a]
        if len(a) > 4 and tx[-4:] == [".", "c_str", "(", ")"]:
            a, changed = a[:-4], True
        elif len(a) > 5 and tx[:4] in (["std", "::", "move", "("], ["std", "::", "string", "("]) and tx[-1] == ")" and _wraps(a, 3):
            a, changed = a[4:-1], True
        elif len(a) > 2 and tx[0] == "(" and tx[-1] == ")" and _wraps(a, 0):
            a, changed = a[1:-1], True
    return a


def _wraps(a, open_idx):
    depth = 0
    for k in range(open_idx, len(a)):
        if a[k][1] in _OPEN:
            depth += 1
        elif a[k][1] in _CLOSE:
            depth -= 1
            if depth == 0:
                return k == len(a) - 1
    return False


def literal_set(arg):
    """finite set denoted by: "lit" ["lit"...] | c ? E : E  (after stripping wrappers); None if not of that shape"""
    a = _strip_wrappers(arg)
    if a and all(t[0] == "str" for t in a):
        return ["".join(t[1] for t in a)]
    depth, q = 0, None
    for k, t in enumerate(a):
        if t[1] in _OPEN:
            depth += 1
        elif t[1] in _CLOSE:
            depth -= 1
        elif t[1] == "?" and depth == 0:
            q = k
            break
    if q is None:
        return None
    depth, nest, c = 0, 0, None
    for k in range(q + 1, len(a)):
        t = a[k]
        if t[1] in _OPEN:
            depth += 1
        elif t[1] in _CLOSE:
            depth -= 1
        elif t[1] == "?" and depth == 0:
            nest += 1
        elif t[1] == ":" and depth == 0:
            if nest == 0:
                c = k
                break
            nest -= 1
    if c is None:
        return None
    x, y = literal_set(a[q + 1:c]), literal_set(a[c + 1:])
    if x is None or y is None:
        return None
    return x + [v for v in y if v not in x]


def local_constant(site, name):
    """the id argument is the local variable `name`: if the enclosing function defines it exactly
    once (`T name = E;` / `T name(E);` / `T name{E};` / `T name[] = E;`) with E a literal set and
    never assigns or appends to it, return that set"""
    f, toks = site["fn"], site["toks"]
    if f is None:
        return None
    defs, writes = [], 0
    for j in range(f.lo, f.hi):
        t = toks[j]
        if t[0] != "id" or t[1] != name:
            continue
        p, nx = toks[j - 1], toks[j + 1]
        k = j + 1
        while toks[k][1] == "[" and toks[k + 1][1] == "]":
            k += 2
        nx = toks[k]
        is_decl = (p[0] == "id" and p[1] not in ("return", "else", "case", "throw")) or p[1] in ("*", "&", ">")
        if p[1] in (".", "->", "::"):
            continue
        if is_decl and nx[1] in ("=", "(", "{"):
            if nx[1] == "=":
                e = k + 1
                depth, arg = 0, []
                while not (toks[e][1] == ";" and depth == 0):
                    if toks[e][1] in _OPEN:
                        depth += 1
                    elif toks[e][1] in _CLOSE:
                        depth -= 1
                    arg.append(toks[e])
                    e += 1
            else:
                c = match_paren(toks, k)
                arg = toks[k + 1:c]
            defs.append(arg)
        elif nx[1] in ("=", "+=") or (nx[1] == "." and toks[k + 1][1] in ("append", "assign", "insert", "push_back", "replace", "erase", "clear")):
            writes += 1
    if len(defs) == 1 and writes == 0:
        return literal_set(defs[0])
    return None


def resolve(site, callee_names, message_id_sites):
    """-> (ids, how) for mechanically decidable id expressions, else (None, None)"""
    arg = site["idarg"]
    tx = [t[1] for t in arg]
    if tx == ["@InternalError"]:
        return ["@InternalError"], "internal-error"
    ls = literal_set(arg)
    if ls is not None:
        return ls, "literal" if len(ls) == 1 and all(t[0] == "str" for t in _strip_wrappers(arg)) else "ternary"
    a = _strip_wrappers(arg)
    tx = [t[1] for t in a]
    if tx[:2] == ["Check", "::"]:
        a, tx = a[2:], tx[2:]
    if len(a) >= 6 and tx[0] == "getMessageId" and tx[1] == "(" and tx[-1] == ")":
        gargs = split_args(a, 2, len(a) - 1)
        if len(gargs) == 2:
            base = literal_set(gargs[1])
            if base and len(base) == 1 and base[0]:
                b = base[0]
                message_id_sites.append((b, "%s:%d" % (site["file"], site["line"])))
                return [b, b + "Cond", "safe" + b[0].upper() + b[1:]], "getMessageId"
    if len(a) == 1 and a[0][0] == "id":
        f = site["fn"]
        if f is not None and a[0][1] in f.params:
            if f.base in callee_names:
                return [], "forward"
            return None, "unregistered-forwarder"
        lc = local_constant(site, a[0][1])
        if lc is not None:
            return lc, "local-constant"
    return None, None


# ------------------------------------------------------------------ switch tables (enum -> id)
def switch_returns(repo, relfile, fname):
    """{case label (last identifier) : returned string literal} of the `switch` in function `fname`;
    fails if a `return` in that function returns a non-literal"""
    p = os.path.join(repo, relfile)
    toks = lex(open(p, encoding="utf-8", errors="replace").read())
    funcs, _ = functions(toks)
    for f in funcs:
        if f.base != fname:
            continue
        out, pending = {}, []
        for j in range(f.lo, f.hi):
            if toks[j][1] == "case":
                k = j + 1
                while toks[k][1] != ":":
                    k += 1
                pending.append(toks[k - 1][1])
            elif toks[j][1] == "return":
                if toks[j + 1][0] != "str" or toks[j + 2][1] != ";":
                    raise TranslateError("%s %s: a return that is not a string literal" % (relfile, fname))
                for c in pending:
                    out[c] = toks[j + 1][1]
                pending = []
            elif toks[j][1] == "throw":
                pending = []
        if not out:
            raise TranslateError("%s %s: no `case ...: return \"...\"` found" % (relfile, fname))
        return out
    raise TranslateError("%s: function %s not found" % (relfile, fname))


def thrown_internal_error_types(repo, enum_names):
    """InternalError::<TYPE> mentioned anywhere outside errortypes.* (+ INTERNAL, the default argument)"""
    used = {"INTERNAL"}
    for path, rel in source_files(repo):
        if rel.startswith("lib/errortypes."):
            continue
        toks = lex(open(path, encoding="utf-8", errors="replace").read())
        for i in range(len(toks) - 2):
            if toks[i][1] == "InternalError" and toks[i + 1][1] == "::" and toks[i + 2][1] in enum_names:
                used.add(toks[i + 2][1])
    return used


def get_message_id_body(repo):
    toks = lex(open(os.path.join(repo, "lib/check.cpp"), encoding="utf-8", errors="replace").read())
    funcs, _ = functions(toks)
    for f in funcs:
        if f.name == "Check::getMessageId":
            return expr_text(toks[f.lo:f.hi + 1])
    raise TranslateError("lib/check.cpp: Check::getMessageId not found")


# ------------------------------------------------------------------ main scan
def source_files(repo):
    out = []
    for d in ("lib", "cli", "frontend"):
        if not os.path.isdir(os.path.join(repo, d)):
            continue
        for f in sorted(os.listdir(os.path.join(repo, d))):
            if f.endswith((".cpp", ".h")):
                out.append((os.path.join(repo, d, f), d + "/" + f))
    return out


def site_key(s):
    return "%s|%s|%s|%s" % (s["file"], s["func"], s["kind"], expr_text(s["idarg"]))


def build_defines(build_ninja):
    """-D names on the compile lines of the build"""
    out = set()
    for l in open(build_ninja, errors="replace"):
        if l.lstrip().startswith(("DEFINES =", "FLAGS =")):
            out.update(re.findall(r"-D(\w+)", l))
    return frozenset(out)


def scan(repo, table_path=TABLE, defined=frozenset()):
    table = json.load(open(table_path))
    entries = {}
    for e in table["entries"]:
        if e["key"] in entries:
            raise TranslateError("dynamic_ids.json: duplicate key " + e["key"])
        entries[e["key"]] = e
    forwarders = table.get("forwarders", [])
    callee_names = set(CALLEES) | set(f["name"] for f in forwarders)
    ie_map = switch_returns(repo, "lib/errortypes.cpp", "typeToString")
    thrown = thrown_internal_error_types(repo, set(ie_map))
    macros = {"@InternalError": sorted(ie_map[t] for t in thrown),
              "@simplecppErrToId": sorted(set(switch_returns(repo, "lib/preprocessor.cpp", "simplecppErrToId").values()))}
    problems = []
    body = get_message_id_body(repo)
    if body != table.get("getMessageId_body"):
        problems.append({"problem": "Check::getMessageId changed; review it, the Coq model Ids/Defs.v get_message_id and the rule in emit_ids.resolve, then update getMessageId_body",
                         "now": body, "recorded": table.get("getMessageId_body")})
    emitted, excluded, message_id_sites = [], [], []
    used = {}
    how_count = {}
    nsites = 0
    site_list = []
    for path, rel in source_files(repo):
        sites, toks, lines, funcs = scan_file(path, rel, forwarders, defined)
        stripped = set(l.strip() for l in lines)
        for s in sites:
            nsites += 1
            where = "%s:%d" % (s["file"], s["line"])
            sev, why = s["severity"], None
            ids, how = resolve(s, callee_names, message_id_sites)
            if entries.get(site_key(s), {}).get("override"):
                ids, how = None, None        # a reviewed entry marked override takes precedence over the mechanical rules
            elif ids is None and sev in INTERNAL_SEVERITIES:
                ids, how = ["<computed>"], "computed,severity-" + sev
            if ids is None:
                key = site_key(s)
                e = entries.get(key)
                if e is None:
                    problems.append({"problem": ("id is a parameter of a function that is not a registered forwarder" if how == "unregistered-forwarder"
                                                 else "non-literal id at a site that is not in dynamic_ids.json"),
                                     "site": where, "key": key, "text": s["text"]})
                    continue
                used.setdefault(key, set()).add(s["text"])
                texts = e["text"] if isinstance(e["text"], list) else [e["text"]]
                if s["text"] not in texts:
                    problems.append({"problem": "source line of a reviewed dynamic site changed", "site": where, "key": key,
                                     "recorded": texts, "now": s["text"]})
                    continue
                f = s_fn = s["fn"]
                if f is not None:
                    l0, l1 = s["toks"][f.lo][2], s["toks"][f.hi][2]
                    infn = set(l.strip() for l in lines[l0 - 1:l1])
                else:
                    infn = stripped
                bad_dep = [d for d in e.get("deps", []) if d not in infn] + [d for d in e.get("file_deps", []) if d not in stripped]
                if bad_dep:
                    problems.append({"problem": "a line the reviewed id set depends on is no longer in the file", "site": where, "key": key, "missing": bad_dep})
                    continue
                ids, how = list(e["ids"]), "table"
                sev = e.get("severity", sev)
                why = e.get("exclude")
            how_count[how] = how_count.get(how, 0) + 1
            out = []
            for x in ids:
                out += macros[x] if x in macros else [x]
            site_list.append({"site": where, "func": s["func"], "how": how, "ids": out, "severity": sev})
            for idv in out:
                if why:
                    excluded.append((idv, where, why))
                elif sev in INTERNAL_SEVERITIES:
                    excluded.append((idv, where, "severity " + sev + " (not a finding)"))
                else:
                    emitted.append((idv, where))
    for k, e in entries.items():
        if k not in used and not e.get("optional"):
            problems.append({"problem": "dynamic_ids.json entry matches no site any more (code moved or removed): review the table", "key": k})
    return {"emitted": emitted, "excluded": excluded, "sites": nsites, "defined": sorted(set(FEATURE_MACROS) & set(defined)), "how": how_count, "site_list": site_list,
            "problems": problems, "macros": macros, "message_id_sites": message_id_sites}


# ------------------------------------------------------------------ errorlist (T2)
def errorlist(cppcheck):
    p = subprocess.run([cppcheck, "--errorlist"], stdout=subprocess.PIPE, stderr=subprocess.PIPE, timeout=120)
    if p.returncode != 0:
        raise TranslateError("cppcheck --errorlist failed rc=%s" % p.returncode)
    import xml.etree.ElementTree as ET
    root = ET.fromstring(p.stdout.decode("utf-8", "replace"))
    out = []
    for e in root.iter("error"):
        out.append({"id": e.get("id"), "severity": e.get("severity"), "inconclusive": e.get("inconclusive") == "true"})
    if not out:
        raise TranslateError("--errorlist produced no <error> elements")
    return out


# ------------------------------------------------------------------ Coq output
def coq_str(s):
    """a Coq term of type str: of_bstr "..." for printable ASCII, else an explicit byte list"""
    if all(32 <= ord(c) < 127 for c in s):
        return '(of_bstr "%s")' % s.replace('"', '""')
    b = s.encode("utf-8")
    return "[" + ";".join(str(c) for c in b) + "]"


def _clean(s):
    return re.sub(r"[^A-Za-z0-9_.:<>-]", "?", s)


def write_gen(path, emitted, errlist_ids, known_missing, message_id_sites, header):
    os.makedirs(os.path.dirname(path), exist_ok=True)

    def pairs(l):
        if not l:
            return "[]"
        return "[ " + "\n  ; ".join("(%s, %s) (* %s @ %s *)" % (coq_str(i), coq_str(s), _clean(i), _clean(s)) for i, s in l) + "\n  ]"

    def strs(l):
        if not l:
            return "[]"
        return "[ " + "\n  ; ".join("%s (* %s *)" % (coq_str(i), _clean(i)) for i in l) + "\n  ]"

    with open(path + ".tmp", "w") as f:
        f.write("(* GENERATED by tools/translate/emit_ids.py on every run -- do not edit.\n%s *)\n" % header.replace("*)", "* )"))
        f.write("From CV Require Import Base.Bytes Ids.Defs.\nLocal Open Scope N_scope.\nLocal Open Scope bstr_scope.\n\n")
        f.write("(* (id, site) for every place the scanned source can give a finding its id *)\n")
        f.write("Definition emitted : list (str * str) :=\n  %s.\n\n" % pairs(emitted))
        f.write("(* ids listed by `cppcheck --errorlist` of the binary built from the same tree *)\n")
        f.write("Definition errorlist : list str :=\n  %s.\n\n" % strs(errlist_ids))
        f.write("(* ids recorded as known findings of C28 in known_findings.txt *)\n")
        f.write("Definition known_missing : list str :=\n  %s.\n\n" % strs(known_missing))
        f.write("(* (base id, site) of every reportError(..., getMessageId(value, base), ...) *)\n")
        f.write("Definition message_id_sites : list (str * str) :=\n  %s.\n" % pairs(message_id_sites))
    old = open(path).read() if os.path.exists(path) else None
    new = open(path + ".tmp").read()
    if old == new:
        os.remove(path + ".tmp")       # keep the timestamp: no needless Coq rebuild
    else:
        os.replace(path + ".tmp", path)


def known_missing_ids(known_findings_path, pid="C28"):
    out = []
    if os.path.exists(known_findings_path):
        for line in open(known_findings_path):
            m = re.match(r"known: property=(\S+) key=(\S+) ", line.strip() + " ")
            if m and m.group(1) == pid and not m.group(2).startswith(("proof:", "scanner:", "build:", "translate:")):
                out.append(m.group(2))
    return out


if __name__ == "__main__":
    repo = sys.argv[1] if len(sys.argv) > 1 else "/repo"
    r = scan(repo)
    print(json.dumps({k: (v if k != "emitted" else len(v)) for k, v in r.items()}, indent=1)[:20000])
