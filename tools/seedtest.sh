#!/bin/sh
# usage: seedtest.sh <Cnn> <patch.diff> [tier]   — run a check against /repo HEAD + patch in a scratch worktree
id=$1; patch=$2; tier=${3:-quick}
wt=/tmp/st_$id; bd=/tmp/stb_$id
git -C /repo worktree remove --force $wt >/dev/null 2>&1; rm -rf $wt $bd
git -C /repo worktree add -f $wt HEAD >/dev/null 2>&1 || exit 2
if ! git -C $wt apply $patch; then echo "PATCH DOES NOT APPLY"; git -C /repo worktree remove --force $wt; exit 3; fi
lc=$(echo $id | tr A-Z a-z)
cd /verif && VERIF_REPO=$wt VERIF_BUILD=$bd timeout 3000 python3 tools/props/$lc.py --tier $tier > /tmp/st_$id.log 2>&1
echo "exit=$?"
grep -c "^VIOLATION" /tmp/st_$id.log
grep -A1 "^VIOLATION" /tmp/st_$id.log | grep -v "^--" | head -8 | cut -c1-400
tail -1 /tmp/st_$id.log | cut -c1-300
mkdir -p /verif/seeded/_replays/$id; for f in $(grep -o "replay=[^ ]*" /tmp/st_$id.log | head -3 | sed s/replay=//); do cp $f /verif/seeded/_replays/$id/ 2>/dev/null; done
git -C /repo worktree remove --force $wt; rm -rf $wt $bd
