#!/usr/bin/env python3
"""MANIFEST.setup_cmd: build everything the checks need from files on disk only
(repo with hooks on, the whole Coq development, extracted models, harnesses)."""
import glob
import os
import sys

sys.path.insert(0, os.path.dirname(os.path.abspath(__file__)))
import vlib

vlib.log("building /repo with -D%s ..." % vlib.GUARD)
vlib.log("  %.0fs" % vlib.ensure_repo_build())
# translators first (Gen_*.v are not committed)
for t in sorted(glob.glob(os.path.join(vlib.VERIF, "tools", "translate", "*.py"))):
    rc, out, dt = vlib.sh([sys.executable, t])
    vlib.log("translator %s rc=%s" % (os.path.basename(t), rc))
    if rc != 0:
        vlib.log(out[-2000:])
vlib.coq_project()
rc, out, dt = vlib.sh(["make", "-k", "-j%d" % vlib.NPROC], cwd=vlib.COQ, timeout=3000)
vlib.log("coq make rc=%s %.0fs" % (rc, dt))
if rc != 0:
    vlib.log(out[-3000:])
fail = rc != 0
for ext in sorted(glob.glob(os.path.join(vlib.COQ, "extract", "Extract_*.v"))):
    pid = os.path.basename(ext)[8:-2]
    try:
        vlib.build_model(pid)
    except Exception as e:
        vlib.log("model %s: %s" % (pid, e))
        fail = True
for h in sorted(glob.glob(os.path.join(vlib.VERIF, "harness", "vh_c*.cpp"))):
    pid = os.path.basename(h)[3:-4].upper()
    try:
        vlib.build_harness(pid)
    except Exception as e:
        vlib.log("harness %s: %s" % (pid, e))
        fail = True
sys.exit(1 if fail else 0)
