#!/usr/bin/env python3
"""MANIFEST.setup_cmd: build what the registered checks need from files on disk only
(repo with hooks on, translators, the Coq targets of each registered check, extracted models,
harnesses). A part that fails here is reported by the corresponding check at run time; only a
failing repo build makes setup fail."""
import glob
import json
import os
import re
import sys

sys.path.insert(0, os.path.dirname(os.path.abspath(__file__)))
import vlib

vlib.log("building /repo with -D%s ..." % vlib.GUARD)
try:
    vlib.log("  %.0fs" % vlib.ensure_repo_build())
except vlib.BuildError as e:
    vlib.log(str(e)[-3000:])
    sys.exit(1)
m = json.load(open(os.path.join(vlib.VERIF, "MANIFEST.json")))
ids = [c["property_id"] for c in m["checks"]]
for t in sorted(glob.glob(os.path.join(vlib.VERIF, "tools", "translate", "*.py"))):
    rc, out, dt = vlib.sh([sys.executable, t], timeout=900)
    vlib.log("translator %s rc=%s %.0fs" % (os.path.basename(t), rc, dt))
    if rc != 0:
        vlib.log(out[-1500:])
targets = []
for pid in ids:
    p = os.path.join(vlib.COQ, "theories", "Properties_%s.v" % pid)
    if os.path.exists(p):
        targets.append("theories/Properties_%s.vo" % pid)
    ext = os.path.join(vlib.COQ, "extract", "Extract_%s.v" % pid)
    if os.path.exists(ext):
        for mod in re.findall(r"From CV Require (?:Import )?([A-Za-z0-9_. ]+)\.", open(ext).read()):
            for one in mod.split():
                targets.append("theories/" + one.replace(".", "/") + ".vo")
targets = sorted(set(targets))
ok, out, dt = vlib.coq_make(targets, timeout=3000)
vlib.log("coq make of %d targets ok=%s %.0fs" % (len(targets), ok, dt))
if not ok:
    vlib.log(out[-3000:])
for pid in ids:
    if os.path.exists(os.path.join(vlib.COQ, "extract", "Extract_%s.v" % pid)):
        try:
            vlib.build_model(pid)
        except Exception as e:
            vlib.log("model %s: %s" % (pid, str(e)[-800:]))
    if os.path.exists(os.path.join(vlib.VERIF, "harness", "vh_%s.cpp" % pid.lower())):
        try:
            vlib.build_harness(pid)
        except Exception as e:
            vlib.log("harness %s: %s" % (pid, str(e)[-800:]))
sys.exit(0)
