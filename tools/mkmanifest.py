#!/usr/bin/env python3
"""Assemble MANIFEST.json from tools/registry.json (one place to keep it current)."""
import json
import os

V = os.path.dirname(os.path.dirname(os.path.abspath(__file__)))
reg = json.load(open(os.path.join(V, "tools", "registry.json")))
props = [json.loads(l) for l in open(os.path.join(V, "properties.jsonl"))]
import glob
for frag in sorted(glob.glob(os.path.join(V, "tools", "registry.d", "*.json"))):
    d = json.load(open(frag))
    reg["checks"].update(d.get("checks", {}))
    reg["not_applicable"].update(d.get("not_applicable", {}))
hooks = [l.strip() for l in open(os.path.join(V, "hooks.txt")) if l.strip() and not l.startswith("#")]
checks = []
for p in props:
    pid = p["id"]
    c = reg["checks"].get(pid)
    if not c or not os.path.exists(os.path.join(V, "tools", "props", pid.lower() + ".py")):
        continue
    script = "tools/props/%s.py" % pid.lower()
    checks.append({
        "property_id": pid,
        "quick_cmd": "python3 %s --tier quick" % script,
        "thorough_cmd": "python3 %s --tier thorough" % script,
        "evidence_file": "/verif/evidence/%s.json" % pid,
        "replay_cmd_template": "python3 %s --replay {path}" % script,
        "engine": "coq-model+correspondence",
        "level_claimed": {"category": "proof", "text": c["level_text"], "design_ref": c.get("design_ref", "DESIGN.md")},
        "level_note": c["level_note"],
        "technique": c["technique"],
    })
na = []
for p in props:
    pid = p["id"]
    if pid in [c["property_id"] for c in checks]:
        continue
    na.append({"property_id": pid, "reason": reg["not_applicable"].get(pid, "not claimed yet: no Coq model with a checked tie to the code has been built for this property in the time available (plan in DESIGN.md section 5)")})
m = {
    "version": 1,
    "setup_cmd": "python3 tools/setup.py",
    "hooks": {
        "guard": "DANMAR_CPPCHECK_VERIF",
        "enable": "cmake -S /repo -B /verif/build/repo -DCMAKE_CXX_FLAGS=-DDANMAR_CPPCHECK_VERIF (tools/vlib.py ensure_repo_build; incremental ninja on every check)",
        "baseline_off_cmd": "sh tools/baseline_off.sh",
        "source_commits": hooks,
        "add_only": True,
    },
    "engines": [{"name": "coq-model+correspondence", "path": "tools/vlib.py",
                 "serves_properties": [c["property_id"] for c in checks],
                 "kind_free_text": "Coq 8.16 theorems about Gallina models (coq/theories), translators regenerating Gen_*.v from /repo, extracted OCaml models run against C++ harnesses linked with /repo's objects"}],
    "checks": checks,
    "not_applicable": na,
    "notes": "See DESIGN.md. known_findings.txt lists recorded findings and fix: commits.",
}
json.dump(m, open(os.path.join(V, "MANIFEST.json"), "w"), indent=1)
print("checks:", len(checks), "not_applicable:", len(na))
