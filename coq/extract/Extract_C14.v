From CV Require Import Dump.Run.
Require Extraction.
Require Import ExtrOcamlBasic.
Extraction "model.ml" run.
