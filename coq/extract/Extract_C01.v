From CV Require Import VF.MiniCRun.
Require Extraction.
Require Import ExtrOcamlBasic.
Extraction "model.ml" run.
