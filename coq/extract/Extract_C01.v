From CV Require Import VF.Run.
Require Extraction.
Require Import ExtrOcamlBasic.
Extraction "model.ml" run.
