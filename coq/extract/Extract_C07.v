From CV Require Import Ast.Run.
Require Extraction.
Require Import ExtrOcamlBasic.
Extraction "model.ml" run.
