From CV Require Import Ctu.Run.
Require Extraction.
Require Import ExtrOcamlBasic.
Extraction "model.ml" run.
