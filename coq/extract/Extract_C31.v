From CV Require Import Path.Run.
Require Extraction.
Require Import ExtrOcamlBasic.
Extraction "model.ml" run.
