From CV Require Import Conc.Run. Require Extraction. Require Import ExtrOcamlBasic. Extraction "model.ml" run.
