From CV Require Import Proc.Run.
Require Extraction.
Require Import ExtrOcamlBasic.
Extraction "model.ml" run.
