From CV Require Import MC.Run.
Require Extraction.
Require Import ExtrOcamlBasic.
Extraction "model.ml" run.
