From CV Require Import PP.Run.
Require Extraction.
Require Import ExtrOcamlBasic.
Extraction "model.ml" run.
