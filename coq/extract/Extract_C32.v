From CV Require Import Import.Run.
Require Extraction.
Require Import ExtrOcamlBasic.
Extraction "model.ml" run.
