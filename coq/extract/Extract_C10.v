From CV Require Import Lit.Run.
Require Extraction.
Require Import ExtrOcamlBasic.
Extraction "model.ml" run.
