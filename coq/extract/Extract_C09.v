From CV Require Import TypeConv.Run.
Require Extraction.
Require Import ExtrOcamlBasic.
Extraction "model.ml" run.
