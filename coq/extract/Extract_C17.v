From CV Require Import Iso.Run. Require Extraction. Require Import ExtrOcamlBasic. Extraction "model.ml" run.
