From CV Require Import Supp.RunExec.
Require Extraction.
Require Import ExtrOcamlBasic.
Extraction "model.ml" run.
