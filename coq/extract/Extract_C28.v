From CV Require Import Ids.Run.
Require Extraction.
Require Import ExtrOcamlBasic.
Extraction "model.ml" run.
