From CV Require Import Html.Run.
Require Extraction.
Require Import ExtrOcamlBasic.
Extraction "model.ml" run.
