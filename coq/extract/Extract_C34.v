From CV Require Import Addon.Run.
Require Extraction.
Require Import ExtrOcamlBasic.
Extraction "model.ml" run.
