From CV Require Import Par.Run.
Require Extraction.
Require Import ExtrOcamlBasic.
Extraction "model.ml" run.
