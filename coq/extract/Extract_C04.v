From CV Require Import Sev.Run.
Require Extraction.
Require Import ExtrOcamlBasic.
Extraction "model.ml" run.
