From CV Require Import Cont.Run.
Require Extraction.
Require Import ExtrOcamlBasic.
Extraction "model.ml" run.
