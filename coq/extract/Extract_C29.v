From CV Require Import Det.Run. Require Extraction. Require Import ExtrOcamlBasic. Extraction "model.ml" run.
