From CV Require Import Robust.Run.
Require Extraction.
Require Import ExtrOcamlBasic.
Extraction "model.ml" run.
