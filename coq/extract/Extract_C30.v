From CV Require Import Lib.Run.
Require Extraction.
Require Import ExtrOcamlBasic.
Extraction "model.ml" run.
