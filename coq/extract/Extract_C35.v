From CV Require Import Clang.Run.
Require Extraction.
Require Import ExtrOcamlBasic.
Extraction "model.ml" run.
