From CV Require Import Report.Run.
Require Extraction.
Require Import ExtrOcamlBasic.
Extraction "model.ml" run.
