From CV Require Import Expand.Run.
Require Extraction.
Require Import ExtrOcamlBasic.
Extraction "model.ml" run.
