From CV Require Import Cfg.Run.
Require Extraction.
Require Import ExtrOcamlBasic.
Extraction "model.ml" run.
