From CV Require Import Gate.Run.
Require Extraction.
Require Import ExtrOcamlBasic.
Extraction "model.ml" run.
