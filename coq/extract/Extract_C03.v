From CV Require Import Verdict.Run.
Require Extraction.
Require Import ExtrOcamlBasic.
Extraction "model.ml" run.
