From CV Require Import Names.Run.
Require Extraction.
Require Import ExtrOcamlBasic.
Extraction "model.ml" run.
