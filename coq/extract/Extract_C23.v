From CV Require Import Supp.Run.
Require Extraction.
Require Import ExtrOcamlBasic.
Extraction "model.ml" run.
