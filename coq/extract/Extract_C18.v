From CV Require Import Cache.Run.
Require Extraction.
Require Import ExtrOcamlBasic.
Extraction "model.ml" run.
