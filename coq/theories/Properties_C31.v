(* C31  File selection and path matching follow the documented rules.
   Statements only; every proof is `exact <lemma>`. *)
From CV Require Import Base.Bytes Base.Glob Path.Defs Path.MatchProofs Path.SpecProofs Path.ListProofs Path.IterProofs Path.CanonProofs Path.Termination Path.WinProofs Path.FastProofs Path.WinCanon.
From Coq Require Import Permutation Sorted.
Local Open Scope N_scope.

(* The executable specification used by the check (rsearch on the reversed
   canonical strings) is the documented pattern language on forward strings:
   T = A ++ M ++ B, the pattern matches M exactly ('**' anything, '*' / '?'
   no separator), B is empty or starts with '/', A is empty or - for patterns
   that are neither absolute nor relative - ends with '/'. *)
Theorem C31_spec_is_documented_language pattern path base isdir :
  pathmatch_spec_b pattern path base isdir = true <-> pathmatch_spec pattern path base isdir.
Proof. exact (pathmatch_spec_b_iff pattern path base isdir). Qed.
Print Assumptions C31_spec_is_documented_language.

(* The for(;;) loop of PathMatch::match (backtrack stack, greedy stars, restart
   at the next separator) on canonical reversed strings: whenever it answers,
   the answer is the specification, for every pattern and path. *)
Theorem C31_match_loop_spec fuel real s t b :
  match_loop fuel real s t = Some b -> b = rsearch real s t.
Proof. exact (match_loop_spec fuel real s t b). Qed.
Print Assumptions C31_match_loop_spec.

(* The PathIterator reads the documented canonical form (split into components,
   drop "" and ".", ".." removes the previous component, keep the root) of every
   string that is rooted or does not begin with a ".." component. *)
Theorem C31_iterator_reads_canon a b :
  canon_ok (join_raw a b) = true -> iter_read a b = canon (join_raw a b).
Proof. exact (iter_read_canon a b). Qed.
Print Assumptions C31_iterator_reads_canon.

(* PathMatch::match(pattern, path, basepath, mode, unix) as a whole (fast paths,
   directory-only patterns, real patterns, iterators) against the documented
   rules over the documented canonical forms, for every fuel.
   partial: (1) pattern and path - joined with the base path where the code does
   so - are rooted or do not begin with ".." (canon_ok; the documentation is
   silent on relative paths that climb above their start); (2) the pattern is
   absolute/relative, or the base path is empty, or the pattern does not
   canonicalise to the empty string (fast_ok2; a plain pattern such as "a/.."
   has no documented meaning). *)
Theorem C31_pathmatch_partial fuel pattern path base isdir b :
  canon_ok (pat_raw pattern base) = true -> canon_ok (path_raw path base) = true ->
  fast_ok2 pattern base = true ->
  pathmatch_fuel fuel pattern path base isdir = Some b ->
  (b = true <-> pathmatch_spec pattern path base isdir).
Proof. exact (pathmatch_fuel_spec2 fuel pattern path base isdir b). Qed.
Print Assumptions C31_pathmatch_partial.

(* Termination: run with loop_fuel (an explicit bound computed from |pattern|,
   |path| and the number of '*'), the loop always answers, with the specification. *)
Theorem C31_match_loop_total real s t :
  exists b, match_loop (loop_fuel s t) real s t = Some b /\ b = rsearch real s t.
Proof. exact (match_loop_total real s t). Qed.
Print Assumptions C31_match_loop_total.

(* PathMatch::match (the executable model uses loop_fuel) is total ... *)
Theorem C31_pathmatch_model_total pattern path base isdir :
  exists b, pathmatch_model pattern path base isdir = Some b.
Proof. exact (pathmatch_model_total pattern path base isdir). Qed.
Print Assumptions C31_pathmatch_model_total.

(* ... and its answer is the documented rules *)
Theorem C31_pathmatch_total pattern path base isdir :
  canon_ok (pat_raw pattern base) = true -> canon_ok (path_raw path base) = true ->
  fast_ok2 pattern base = true ->
  exists b, pathmatch_model pattern path base isdir = Some b /\
            (b = true <-> pathmatch_spec pattern path base isdir).
Proof. exact (pathmatch_total2 pattern path base isdir). Qed.
Print Assumptions C31_pathmatch_total.

(* the same with the premises as one executable test (used by the check to
   decide which generated cases the theorem speaks about) *)
Theorem C31_pathmatch_total_in_domain pattern path base isdir :
  in_domain pattern path base = true ->
  exists b, pathmatch_model pattern path base isdir = Some b /\
            (b = true <-> pathmatch_spec pattern path base isdir).
Proof. exact (pathmatch_total_dom pattern path base isdir). Qed.
Print Assumptions C31_pathmatch_total_in_domain.

(* Syntax::windows (second instance): the same loop on what the windows
   iterators read (backslash = separator, case folded, drive / UNC roots):
   PathMatch::match always answers, by the documented pattern rules. *)
Theorem C31_pathmatch_windows_total pattern path base isdir :
  fast_ok pattern base = true ->
  exists b, pathmatch_w pattern path base isdir = Some b /\
            (b = true <-> pathmatch_w_spec pattern path base isdir).
Proof. exact (pathmatch_w_total pattern path base isdir). Qed.
Print Assumptions C31_pathmatch_windows_total.

(* the windows iterator reads the windows canonical form (separators unified,
   case folded, root component kept, the rest canonicalised) whenever the root
   component ends with a separator ("c:/", "//?/", "//", "/"), or there is no
   root and the non-empty string does not begin with ".." *)
Theorem C31_iterator_reads_canon_windows a b :
  canon_ok_w a b = true -> iter_read_w a b = canon_w a b.
Proof. exact (iter_read_w_canon a b). Qed.
Print Assumptions C31_iterator_reads_canon_windows.

(* hence PathMatch::match in windows syntax against the documented rules over
   the windows canonical forms *)
Theorem C31_pathmatch_windows_canon_total pattern path base isdir :
  fast_ok pattern base = true ->
  canon_ok_pattern_w pattern base = true -> canon_ok_path_w path base = true ->
  exists b, pathmatch_w pattern path base isdir = Some b /\
            (b = true <-> pathmatch_w_spec_canon pattern path base isdir).
Proof. exact (pathmatch_w_total_canon pattern path base isdir). Qed.
Print Assumptions C31_pathmatch_windows_canon_total.

Example C31_windows_canon_example :
  canon_ok_w [67;58;92;83;114;99;92;46;92;65;46;67] [] = true /\
  canon_w [67;58;92;83;114;99;92;46;92;65;46;67] [] = [99;58;47;115;114;99;47;97;46;99] /\
  canon_ok_w [67;58;120] [] = false.
Proof. exact canon_w_example. Qed.

Example C31_windows_example :
  iter_read_w [67;58;92;83;114;99;92;46;92;65;46;67] [] = [99;58;47;115;114;99;47;97;46;99] /\
  pathmatch_w [115;114;99;92;42;46;99] [67;58;92;83;114;99;92;65;46;67] [] false = Some true.
Proof. exact iter_w_example. Qed.

(* The iterator reads a string without empty, "." or ".." components and
   without trailing separator (canonical_b, a syntactic check) back unchanged. *)
Theorem C31_iterator_identity_on_canonical a b :
  canonical_b (join_raw a b) = true -> iter_read a b = join_raw a b.
Proof. exact (iter_read_canonical a b). Qed.
Print Assumptions C31_iterator_identity_on_canonical.

Example C31_canonical_examples :
  canonical_b [47;114;47;115;114;99;47;97;46;99] = true /\     (* "/r/src/a.c" *)
  canonical_b [97;47;46;46;46;47;46;98] = true /\             (* "a/.../.b" *)
  canonical_b [47] = true /\ canonical_b [] = true /\
  canonical_b [97;47;47;98] = false /\                        (* "a//b" *)
  canonical_b [97;47;46;47;98] = false /\                     (* "a/./b" *)
  canonical_b [97;47;46;46] = false /\                        (* "a/.." *)
  canonical_b [97;47] = false /\                              (* "a/" *)
  canon [47;114;47;115;114;99;47;97;46;99] = [47;114;47;115;114;99;47;97;46;99].
Proof. vm_compute. repeat split; reflexivity. Qed.

(* FileLister::addFiles on a directory tree: the result contains exactly the
   selected files (a given file unless ignored; below a directory every file
   with an accepted extension that is not ignored and whose directories are
   not ignored, neither as a directory nor as a path) ... *)
Theorem C31_list_files_exact ign acc path t p :
  In p (list_files ign acc path t) <-> selected ign acc (corrected path) t p.
Proof. exact (list_files_exact ign acc path t p). Qed.
Print Assumptions C31_list_files_exact.

(* ... in sorted order (std::string operator<) ... *)
Theorem C31_list_files_sorted ign acc path t : StronglySorted leP (list_files ign acc path t).
Proof. exact (list_files_sorted ign acc path t). Qed.
Print Assumptions C31_list_files_sorted.

(* ... each as often as the traversal meets it (once per directory entry) ... *)
Theorem C31_list_files_each_once ign acc path t :
  Permutation (list_files ign acc path t) (walk ign acc (corrected path) t).
Proof. exact (list_files_perm_walk ign acc path t). Qed.
Print Assumptions C31_list_files_each_once.

(* ... exactly once, when entry names contain no separator and are distinct
   within a directory (as on a real file system) ... *)
Theorem C31_list_files_no_duplicates ign acc path t :
  uniq_tree t -> NoDup (list_files ign acc path t).
Proof. exact (list_files_nodup ign acc path t). Qed.
Print Assumptions C31_list_files_no_duplicates.

(* ... and the same list whatever order readdir returns the entries in, at
   every level (C29's file_order_independent). *)
Theorem C31_file_order_independent ign acc path t1 t2 :
  perm_tree t1 t2 -> list_files ign acc path t1 = list_files ign acc path t2.
Proof. exact (list_files_order_independent ign acc path t1 t2). Qed.
Print Assumptions C31_file_order_independent.

(* several inputs + --file-filter + de-duplication: no two analysed files have
   the same absolute path, and every analysed file is a selected file of one
   of the inputs that passes the filter *)
Theorem C31_select_no_duplicates ign acc filt key inputs :
  NoDup (map key (select_files ign acc filt key inputs)).
Proof. exact (select_files_no_duplicates ign acc filt key inputs). Qed.
Print Assumptions C31_select_no_duplicates.

Theorem C31_select_sound ign acc filt key inputs p :
  In p (select_files ign acc filt key inputs) ->
  exists path t, In (path, t) inputs /\ selected ign acc (corrected path) t p /\
                 match filt with Some f => f p = true | None => True end.
Proof. exact (select_files_selected ign acc filt key inputs p). Qed.
Print Assumptions C31_select_sound.

(* ... and conversely every selected, filter-passing file of every input is
   analysed, or a file with the same absolute path (the first one) is *)
Theorem C31_select_complete ign acc filt key inputs path t p :
  In (path, t) inputs -> selected ign acc (corrected path) t p ->
  match filt with Some f => f p = true | None => True end ->
  exists q, In q (select_files ign acc filt key inputs) /\ key q = key p.
Proof. exact (select_files_complete ign acc filt key inputs path t p). Qed.
Print Assumptions C31_select_complete.

(* the inputs on which the iterator deviated before fix 5cbe6ed are now read canonically *)
Example C31_iterator_fixed_witnesses :
  iter_read [97; SL; SL; 98] [] = canon [97; SL; SL; 98] /\
  iter_read [SL; DOT; DOT; SL; 97] [] = canon [SL; DOT; DOT; SL; 97] /\
  iter_read [SL; SL; 97] [] = [SL; 97] /\ iter_read [SL; DOT; DOT] [] = [SL] /\
  pathmatch_model [97; SL; 98] [97; SL; SL; 98] [] false = Some true /\
  reads_canon_b [97; SL; 98] [97; SL; SL; 98] [] = true.
Proof. exact iter_fixed_witnesses. Qed.

(* premises are inhabited *)
Example C31_premises_ok :
  pathmatch_model [63;42;97]%N [98;97]%N []%N false = Some true /\                 (* "?*a" vs "ba" (fixed by 0d8f8cc) *)
  fast_ok [115;114;99;47;42;46;99]%N [47;114]%N = false /\ fast_ok2 [115;114;99;47;42;46;99]%N [47;114]%N = true /\
  fast_ok2 [97; SL; DOT; DOT] [114] = false /\ pathmatch_model [97; SL; DOT; DOT] [97; SL; DOT; DOT] [114] true = Some true /\
  pathmatch_spec_b [97; SL; DOT; DOT] [97; SL; DOT; DOT] [114] true = false /\   (* the excluded shortcut case *)
  fast_ok [46;47;115;114;99]%N [47;114]%N = true /\                                (* "./src" *)
  canon_ok (pat_raw [46;47;115;114;99]%N [47;114]%N) = true /\ canon_ok (path_raw [115;114;99;47;97;46;99]%N [47;114]%N) = true /\
  canon_ok [46;46;47;97]%N = false /\ iter_read [46;46;47;97]%N [] = [46;46;47;97]%N /\   (* "../a" is kept; outside canon_ok *)
  pathmatch_model [46;47;115;114;99]%N [115;114;99;47;97;46;99]%N [47;114]%N false = Some true /\   (* "./src" vs "src/a.c" *)
  pathmatch_model [42;46;99]%N [115;114;99;47;97;46;99]%N []%N false = Some true /\                 (* "*.c" vs "src/a.c" *)
  pathmatch_model [115;114;99;47]%N [115;114;99]%N []%N false = Some false /\                     (* "src/" vs file "src" *)
  perm_tree (Dir [100] [File [97]; File [98]]) (Dir [100] [File [98]; File [97]]).
Proof. vm_compute. repeat split; try reflexivity. apply pt_dir. apply pl_swap. Qed.

Example C31_uniq_tree_ok : uniq_tree (Dir [100] [File [97]; Dir [98] [File [97]]]).
Proof. cbn. repeat split; repeat constructor; try discriminate; cbn; intuition discriminate. Qed.
