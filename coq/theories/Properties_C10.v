(* C10  Literal and constant values match the compiler on each platform.
   Statements only; every proof is `exact <lemma>`. *)
From CV Require Import Base.Bytes Lit.Defs Lit.Spec Lit.Platform Lit.Gen_Platforms Lit.PlatformProofs.
Local Open Scope N_scope.

(* every entry of the table regenerated from Platform::set and platforms/*.xml is well-formed *)
Theorem C10_platform_table_sane : forallb platform_sane Gen_platforms = true.
Proof. exact gen_platforms_sane. Qed.
Print Assumptions C10_platform_table_sane.
