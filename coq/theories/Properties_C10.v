(* C10  Literal and constant values match the compiler on each platform.
   Statements only; every proof is `exact <lemma>`. *)
From CV Require Import Base.Bytes Lit.Defs Lit.Spec Lit.Platform Lit.TokenValue Lit.Gen_Platforms Lit.PlatformProofs
  Lit.Proofs Lit.IntTheorems Lit.FloatTheorems Lit.CharTheorems Lit.CharExt Lit.ValueTheorems.
Local Open Scope N_scope.

(* SPEC-EQ: every integer literal of the grammar (any base, any suffix, any number of digits) whose
   value sum d_i*b^i is below 2^64 is converted to exactly that value: toBigUNumber returns it,
   toBigNumber returns its two's-complement reading *)
Theorem C10_to_bignumber_value s b v : c_int_literal s b v -> v < TWO64 ->
  to_bignumber s = RVal (wrap64s v) /\ to_bigunumber s = RVal (Z.of_N v).
Proof. exact (to_bignumber_value s b v). Qed.
Print Assumptions C10_to_bignumber_value.

(* ... and below 2^63 the signed result is the value itself *)
Theorem C10_wrap64s_small v : v < 9223372036854775808 -> wrap64s v = Z.of_N v.
Proof. exact (wrap64s_small v). Qed.
Print Assumptions C10_wrap64s_small.

(* a decimal, octal or hexadecimal literal that needs more than 64 bits is rejected (InternalError
   out_of_range), never given a wrong value *)
Theorem C10_to_bignumber_rejects s b v : c_int_literal s b v -> TWO64 <= v -> b <> B2 ->
  to_bignumber s = RErr 1 /\ to_bigunumber s = RErr 1.
Proof. exact (to_bignumber_rejects s b v). Qed.
Print Assumptions C10_to_bignumber_rejects.

(* the binary branch never rejects: it keeps the low 64 bits (for v < 2^64 this is the value) *)
Theorem C10_to_bignumber_binary_wraps s v : c_int_literal s B2 v ->
  to_bignumber s = RVal (wrap64s v) /\ to_bigunumber s = RVal (Z.of_N (v mod TWO64)).
Proof. exact (to_bignumber_binary_wraps s v). Qed.
Print Assumptions C10_to_bignumber_binary_wraps.

(* the classifiers on the grammar: isInt holds, isFloat and isCharLiteral do not, isIntHex/isBin
   hold exactly for their base, isOct only for base 8, the conversion branch is the one of the
   base (a lone "0" with a suffix goes through the decimal branch, its value is 0 either way) *)
Theorem C10_classifiers_partition s b v : c_int_literal s b v ->
  is_int s = true /\ is_float s = false /\ is_char_literal s = false /\
  is_int_hex s = (match b with B16 => true | _ => false end) /\
  is_bin s = (match b with B2 => true | _ => false end) /\
  (is_oct s = true -> b = B8) /\
  branch_of s = (match b with
                 | B16 => BrHex | B2 => BrBin | B10 => BrDec
                 | B8 => if is_oct s then BrOct else BrDec
                 end) /\
  (b = B8 -> is_oct s = false -> v = 0).
Proof. exact (classify_literal s b v). Qed.
Print Assumptions C10_classifiers_partition.

(* decimal floating constants (ISO C 6.4.4.2: fractional constant / digits with exponent, optional
   exponent, suffix f F l L; any number of digits): accepted by isDecimalFloat and isFloat, rejected by
   every integer recogniser - so valueFlowSetConstantValue and setValueTypeInTokenList send them to the
   floating branch.  Their VALUE (toDoubleNumber) is not modelled *)
Theorem C10_decimal_float_classified s : c_dec_float s ->
  is_float s = true /\ is_decimal_float s = true /\ is_int s = false.
Proof. exact (dec_float_classified s). Qed.
Print Assumptions C10_decimal_float_classified.

(* narrow character literals made of source characters and simple escapes, any number of them:
   one character -> its value as (signed) char; several -> packed base 256 into an int *)
Theorem C10_char_literal_value body vs : c_chars body vs -> vs <> [] ->
  char_literal_to_ll (39 :: body ++ [39]) = Some (narrow_char_value vs).
Proof. exact (narrow_char_literal body vs). Qed.
Print Assumptions C10_char_literal_value.

(* the same over the extended grammar: source characters, simple escapes, octal escapes (1-3 digits),
   hexadecimal escapes (any number of digits) and universal character names \uXXXX / \UXXXXXXXX, any number
   of c-chars, with the maximal-munch side conditions of the grammar; the numeric values go through the
   strtoull model of stringToULLbounded *)
Theorem C10_char_literal_value_ext body vs : c_chars_ext body vs -> vs <> [] ->
  char_literal_to_ll (39 :: body ++ [39]) = Some (narrow_char_value vs).
Proof. exact (narrow_char_literal_ext body vs). Qed.
Print Assumptions C10_char_literal_value_ext.

(* u8'x' u'x' U'x' L'x' for an ASCII character or simple escape: the character's value *)
Theorem C10_prefixed_char_literal_value pre sp v : c_char sp v -> v < 128 ->
  pre = [117; 56] \/ pre = [117] \/ pre = [85] \/ pre = [76] ->
  char_literal_to_ll (pre ++ 39 :: sp ++ [39]) = Some (Z.of_N v).
Proof. exact (prefixed_char_literal pre sp v). Qed.
Print Assumptions C10_prefixed_char_literal_value.

(* ... and for an octal, hexadecimal or universal escape with an ASCII value after a prefix *)
Theorem C10_prefixed_char_literal_value_ext pre sp v : c_char_ext 39 sp v -> v < 128 ->
  pre = [117; 56] \/ pre = [117] \/ pre = [85] \/ pre = [76] ->
  char_literal_to_ll (pre ++ 39 :: sp ++ [39]) = Some (Z.of_N v).
Proof. exact (prefixed_char_literal_ext pre sp v). Qed.
Print Assumptions C10_prefixed_char_literal_value_ext.

(* casts: truncateIntValue is the conversion to an integer type of `size` bytes *)
Theorem C10_cast_value z size signed : 1 <= size -> size <= 8 ->
  let bits := Z.of_N (8 * size) in
  let r := truncate_int_value z size signed in
  ((r - z) mod 2 ^ bits = 0)%Z /\
  (signed = true -> - 2 ^ (bits - 1) <= r < 2 ^ (bits - 1))%Z /\
  (signed = false -> (size < 8)%N -> (0 <= r < 2 ^ bits)%Z).
Proof. exact (truncate_spec z size signed). Qed.
Print Assumptions C10_cast_value.

(* a one-character narrow literal has the value of the platform's plain char (C 6.4.4.4p10), in C
   and C++ files, on every platform with 8-bit bytes (holds since /repo c27b70b; before, it was
   refuted by '\xff' on the unsigned-char platforms) *)
Theorem C10_char_token_value_platform p cpp sp v : c_char sp v -> p_char_bit p = 8 -> (p_sign p = 115 \/ p_sign p = 117) ->
  char_literal_to_ll (39 :: sp ++ [39]) = Some (sext_spec 8 v) /\
  token_char_count (39 :: sp ++ [39]) = Some 1 /\
  char_token_value p cpp 1 (sext_spec 8 v) = char_value_on p v.
Proof. exact (char_token_value_platform p cpp sp v). Qed.
Print Assumptions C10_char_token_value_platform.

(* an octal escape of one to three digits is one character for Token::isCChar, so the plain-char
   adjustment applies to it as well (true since /repo 6f10427; before, refuted by '\377' on arm32-wchar_t4,
   which was counted as three characters) *)
Theorem C10_token_char_count_octal_escape ds :
  (1 <= length ds <= 3)%nat -> forallb is_octdigit ds = true ->
  token_char_count (39 :: 92 :: ds ++ [39]) = Some 1.
Proof. exact (token_char_count_octal_escape ds). Qed.
Print Assumptions C10_token_char_count_octal_escape.

(* ... for any c-char of the extended grammar that Token::isCChar counts as one character, and in
   particular for every octal escape *)
Theorem C10_char_token_value_platform_ext p cpp sp v :
  c_char_ext 39 sp v -> p_char_bit p = 8 -> (p_sign p = 115 \/ p_sign p = 117) ->
  token_char_count (39 :: sp ++ [39]) = Some 1 ->
  char_literal_to_ll (39 :: sp ++ [39]) = Some (sext_spec 8 v) /\
  char_token_value p cpp 1 (sext_spec 8 v) = char_value_on p v.
Proof. exact (char_token_value_platform_ext p cpp sp v). Qed.
Print Assumptions C10_char_token_value_platform_ext.

Theorem C10_char_token_value_platform_octal p cpp cs ds :
  digit_seq 8 cs ds -> (1 <= length cs <= 3)%nat -> value_of_digits 8 ds < 256 ->
  p_char_bit p = 8 -> (p_sign p = 115 \/ p_sign p = 117) ->
  char_literal_to_ll (39 :: (92 :: cs) ++ [39]) = Some (sext_spec 8 (value_of_digits 8 ds)) /\
  token_char_count (39 :: 92 :: cs ++ [39]) = Some 1 /\
  char_token_value p cpp 1 (sext_spec 8 (value_of_digits 8 ds)) = char_value_on p (value_of_digits 8 ds).
Proof. exact (char_token_value_platform_octal p cpp cs ds). Qed.
Print Assumptions C10_char_token_value_platform_octal.

(* every hexadecimal escape (any number of digits) is one character for Token::isCChar, so it gets the
   platform's plain-char value too (true since /repo 483f671; before, refuted by '\x0ff' on arm32-wchar_t4) *)
Theorem C10_token_char_count_hex_escape ds : forallb is_xdigit ds = true ->
  token_char_count (39 :: 92 :: 120 :: ds ++ [39]) = Some 1.
Proof. exact (token_char_count_hex_escape ds). Qed.
Print Assumptions C10_token_char_count_hex_escape.

Theorem C10_char_token_value_platform_hex p cpp cs ds :
  digit_seq 16 cs ds -> cs <> [] -> value_of_digits 16 ds < 256 ->
  p_char_bit p = 8 -> (p_sign p = 115 \/ p_sign p = 117) ->
  char_literal_to_ll (39 :: (92 :: 120 :: cs) ++ [39]) = Some (sext_spec 8 (value_of_digits 16 ds)) /\
  token_char_count (39 :: 92 :: 120 :: cs ++ [39]) = Some 1 /\
  char_token_value p cpp 1 (sext_spec 8 (value_of_digits 16 ds)) = char_value_on p (value_of_digits 16 ds).
Proof. exact (char_token_value_platform_hex p cpp cs ds). Qed.
Print Assumptions C10_char_token_value_platform_hex.

(* every entry of the table regenerated from Platform::set and platforms/*.xml is well-formed
   (finite statement: the table is rewritten from the source on every run) *)
Theorem C10_platform_table_sane : forallb platform_sane Gen_platforms = true.
Proof. exact gen_platforms_sane. Qed.
Print Assumptions C10_platform_table_sane.

(* what well-formedness gives for any platform record: the integer widths are ordered, int has
   at least 16 bits, long at least 32, nothing exceeds the 64-bit value domain; sizeof >= 1 *)
Theorem C10_sane_platform_widths p : platform_sane p = true ->
  16 <= short_bit p /\ short_bit p <= int_bit p /\ int_bit p <= long_bit p /\
  long_bit p <= longlong_bit p /\ longlong_bit p <= 64 /\ 32 <= long_bit p.
Proof. exact (sane_bits p). Qed.
Print Assumptions C10_sane_platform_widths.

Theorem C10_sizeof_positive p t : platform_sane p = true -> 1 <= sizeof_type p t.
Proof. exact (sizeof_positive p t). Qed.
Print Assumptions C10_sizeof_positive.

(* ---- non-vacuity: the premises are inhabited and the model answers on concrete literals *)
Example C10_ex_hex : c_int_literal [48;120;49;70;117] B16 31.      (* "0x1Fu" *)
Proof.
  apply (Lit_hex 120 49 1 [70] [15] [117]); [left; reflexivity | apply (DC_dec 16 1); lia | | apply S_u; constructor].
  apply (DS_cons 16 70 15); [apply (DC_upper 16 15); lia | constructor].
Qed.
Example C10_ex_hex_value : to_bignumber [48;120;49;70;117] = RVal 31%Z.
Proof. vm_compute. reflexivity. Qed.
Example C10_ex_dec_big : to_bignumber [49;56;52;52;54;55;52;52;48;55;51;55;48;57;53;53;49;54;49;53] = RVal (-1)%Z. (* 2^64-1 *)
Proof. vm_compute. reflexivity. Qed.
Example C10_ex_dec_reject : to_bignumber [49;56;52;52;54;55;52;52;48;55;51;55;48;57;53;53;49;54;49;54] = RErr 1. (* 2^64 *)
Proof. vm_compute. reflexivity. Qed.
Example C10_ex_oct : c_int_literal [48;55;55;76] B8 63.             (* "077L" *)
Proof.
  apply (Lit_oct [55;55] [7;7] [76]); [| apply S_l; constructor].
  apply (DS_cons 8 55 7); [apply (DC_dec 8 7); lia|]. apply (DS_cons 8 55 7); [apply (DC_dec 8 7); lia | constructor].
Qed.
Example C10_ex_bin : c_int_literal [48;98;49;48] B2 2.              (* "0b10" *)
Proof.
  apply (Lit_bin 98 49 1 [48] [0] []); [left; reflexivity | apply (DC_dec 2 1); lia | | constructor].
  apply (DS_cons 2 48 0); [apply (DC_dec 2 0); lia | constructor].
Qed.
Example C10_ex_dec : c_int_literal [52;50;117;108;108] B10 42.      (* "42ull" *)
Proof.
  apply (Lit_dec 52 4 [50] [2] [117;108;108]); [apply (DC_dec 10 4); lia | lia | | apply (S_ul [117] [108;108]); constructor].
  apply (DS_cons 10 50 2); [apply (DC_dec 10 2); lia | constructor].
Qed.
Example C10_ex_chars : c_chars [97;92;110] [97;10].                  (* a\n *)
Proof.
  apply (CCs_cons [97] 97 [92;110] [10]); [constructor; lia|].
  apply (CCs_cons [92;110] 10 [] []); [constructor; constructor | constructor].
Qed.
Example C10_ex_char_value : char_literal_to_ll [39;97;92;110;39] = Some 24842%Z.   (* 'a\n' = 0x610a *)
Proof. vm_compute. reflexivity. Qed.
Example C10_ex_char_ff : char_literal_to_ll [39;92;120;102;102;39] = Some (-1)%Z.  (* '\xff' *)
Proof. vm_compute. reflexivity. Qed.
Example C10_ex_cast : truncate_int_value 300 1 false = 44%Z /\ truncate_int_value 200 1 true = (-56)%Z.
Proof. vm_compute. split; reflexivity. Qed.
Example C10_ex_octal_escape_arm32 :
  token_char_count [39; 92; 51; 55; 55; 39] = Some 1 /\
  char_literal_to_ll [39; 92; 51; 55; 55; 39] = Some (-1)%Z /\
  char_token_value plat_arm32_wchar_t4 false 1 (-1) = char_value_on plat_arm32_wchar_t4 255.   (* '\377' *)
Proof. exact octal_escape_char_token_now. Qed.
Example C10_ex_chars_ext : c_chars_ext [92;51;55;55;92;120;52;49] [255;65].        (* \377\x41 *)
Proof.
  apply (CEs_cons [92;51;55;55] 255 [92;120;52;49] [65]).
  - apply (CE_oct _ [51;55;55] [3;7;7]).
    + apply (DS_cons 8 51 3); [apply (DC_dec 8 3); lia|]. apply (DS_cons 8 55 7); [apply (DC_dec 8 7); lia|].
      apply (DS_cons 8 55 7); [apply (DC_dec 8 7); lia | constructor].
    + cbn; lia.
    + intros Hlt; cbn in Hlt; lia.
    + vm_compute; reflexivity.
  - apply (CEs_cons [92;120;52;49] 65 [] []); [|constructor].
    apply (CE_hex _ [52;49] [4;1]).
    + apply (DS_cons 16 52 4); [apply (DC_dec 16 4); lia|]. apply (DS_cons 16 49 1); [apply (DC_dec 16 1); lia | constructor].
    + discriminate.
    + intros d Hd. unfold next_char in Hd. apply digit_char_range in Hd; lia.
    + cbn; discriminate.
    + cbn; discriminate.
    + vm_compute; reflexivity.
Qed.
Example C10_ex_chars_ext_value : char_literal_to_ll [39;92;51;55;55;92;120;52;49;39] = Some 65345%Z.   (* 0xff41 *)
Proof. vm_compute. reflexivity. Qed.
Example C10_ex_float : c_dec_float [49;46;53;101;45;51;102].           (* 1.5e-3f *)
Proof.
  apply (F_frac [49] [53] [101;45;51] [102]).
  - left. apply (DD_one 49 1). apply (DC_dec 10 1); lia.
  - apply (DD_one 53 5). apply (DC_dec 10 5); lia.
  - apply OE_some. apply (EX_sign 101 45 [51]); [left; reflexivity | right; reflexivity |].
    apply (DD_one 51 3). apply (DC_dec 10 3); lia.
  - constructor.
Qed.
Example C10_ex_long_hex_escape_arm32 :
  token_char_count [39; 92; 120; 48; 102; 102; 39] = Some 1 /\
  char_literal_to_ll [39; 92; 120; 48; 102; 102; 39] = Some (-1)%Z /\
  char_token_value plat_arm32_wchar_t4 false 1 (-1) = char_value_on plat_arm32_wchar_t4 255.   (* '\x0ff' *)
Proof. exact long_hex_escape_char_token_now. Qed.
Example C10_ex_platform : exists p, In p Gen_platforms /\ platform_sane p = true.
Proof. exists plat_unix64. split; [vm_compute; tauto | vm_compute; reflexivity]. Qed.
