(* C34  Addon results are relayed faithfully.
   Statements only; every proof is `exact <lemma>`. Model: Addon/Defs.v (lib/cppcheck.cpp
   executeAddon, CppCheck::executeAddons; lib/errorlogger.cpp ErrorMessage::setmsg). *)
From CV Require Import Base.Bytes Base.Glob Supp.Defs Supp.ListProofs Addon.Defs Addon.Proofs Addon.SuppProofs.
Local Open Scope N_scope.

(* a well-formed result (every field the loop reads has the type it is read with) whose severity is
   reported becomes exactly the finding "<addon>-<errorId>" with the given message, severity,
   locations, cwe and hash *)
Theorem C34_convert_faithful s o a e m sv locs cwe hash sv1 :
  well_formed o a e m sv locs cwe hash ->
  reported_as s (a ++ dash ++ e) sv sv1 ->
  convert s o = OFinding (mkFinding (a ++ dash ++ e) m sv1 locs (cwe_of cwe) (hash_of hash)).
Proof. exact (convert_faithful s o a e m sv locs cwe hash sv1). Qed.
Print Assumptions C34_convert_faithful.

(* ... and is dropped when its severity is not reported (disabled, unknown, none/internal) *)
Theorem C34_disabled_severity_skipped s o a e m sv locs cwe hash :
  well_formed o a e m sv locs cwe hash ->
  (forall sv1, ~ reported_as s (a ++ dash ++ e) sv sv1) ->
  convert s o = OSkip.
Proof. exact (convert_disabled_skips s o a e m sv locs cwe hash). Qed.
Print Assumptions C34_disabled_severity_skipped.

(* malformed output never becomes a finding: for EVERY object, a Finding outcome implies the object
   is well formed and the finding carries exactly its data (all other shapes give Skip, Summary,
   Metric or Throw -- `outcome` has no further constructor) *)
Theorem C34_malformed_never_finding s o f :
  convert s o = OFinding f ->
  exists a e m sv locs cwe hash,
    well_formed o a e m sv locs cwe hash /\ reported_as s (a ++ dash ++ e) sv (f_sev f) /\
    f = mkFinding (a ++ dash ++ e) m (f_sev f) locs (cwe_of cwe) (hash_of hash).
Proof. exact (convert_finding_inv s o f). Qed.
Print Assumptions C34_malformed_never_finding.

(* location numbers inside the C++ types' ranges are relayed unchanged *)
Theorem C34_line_in_range z : (-2147483648 <= z < 2147483648)%Z -> wrap_int z = z.
Proof. exact (wrap_int_id z). Qed.
Print Assumptions C34_line_in_range.

(* executeAddon: for any JSON parser, the run is an error iff the exit code is non-zero or some line
   is neither empty, nor "Checking ...", nor starts with '{'; otherwise the results are the objects
   of the '{' lines that parse, in order (unparsable lines and non-objects are skipped) *)
Theorem C34_lines_fail parse ls : collect parse ls = None <-> exists l, In l ls /\ classify l = LBad.
Proof. exact (collect_fails parse ls). Qed.
Print Assumptions C34_lines_fail.

Theorem C34_lines_results parse ls rs : collect parse ls = Some rs -> rs = flat_map (accepted parse) ls.
Proof. exact (collect_results parse ls rs). Qed.
Print Assumptions C34_lines_results.

Theorem C34_exitcode_fails parse ec out : (ec <> 0)%Z -> exec_addon parse ec out = None.
Proof. exact (exec_addon_nonzero parse ec out). Qed.
Print Assumptions C34_exitcode_fails.

(* sequencing, any number of results and addons: without an exception everything is relayed in order;
   whatever happens, every finding that leaves the file's addon run is the conversion of a result
   object printed by one of the addons *)
Theorem C34_relay_complete s rs :
  Forall (fun o => convert s o <> OThrow) rs ->
  relay s rs = (flat_map (fun o => ev_of (convert s o)) rs, false).
Proof. exact (relay_no_throw s rs). Qed.
Print Assumptions C34_relay_complete.

Theorem C34_file_findings_sound s ads f :
  In (EFinding f) (dedup [] (file_events s ads)) ->
  exists rs o, In (Some rs) ads /\ In o rs /\ convert s o = OFinding f.
Proof. exact (file_findings_sound s ads f). Qed.
Print Assumptions C34_file_findings_sound.

(* a one-line message without '$' is the short and the verbose message, verbatim *)
Theorem C34_plain_message_verbatim msg : ~ In 10 msg -> ~ In 36 msg -> setmsg msg = (msg, msg, []).
Proof. exact (setmsg_plain msg). Qed.
Print Assumptions C34_plain_message_verbatim.

(* suppressions apply to a relayed finding like to any other (C23's logger theorem), under the id
   "<addon>-<errorId>" *)
Theorem C34_relayed_finding_suppressible pm g st st' outs file0 f text :
  logger_run pm g st [(emsg_of file0 f, text)] = Some (st', outs) ->
  outs = [negb (is_nil text) && negb (Supp.Defs.mem_str text (l_seen st))
          && negb (existsb (hides pm g (emsg_of file0 f)) (l_nomsg st))].
Proof. exact (addon_finding_suppressible pm g st st' outs file0 f text). Qed.
Print Assumptions C34_relayed_finding_suppressible.

Theorem C34_relayed_id s o f file0 :
  convert s o = OFinding f ->
  exists a e, field k_addon o = JStr a /\ field k_errorId o = JStr e /\
              e_id (emsg_of file0 f) = a ++ dash ++ e.
Proof. exact (relayed_id s o f file0). Qed.
Print Assumptions C34_relayed_id.

(* non-vacuity: a well-formed object exists, is relayed, and a malformed one throws *)
Definition ex_settings := mkSettings (fun s => match s with SError | SStyle => true | _ => false end) false false false false.
Definition ex_obj : list (str * json) :=
  [(k_file, JStr [97;46;99]); (k_linenr, JInt 3); (k_column, JInt 5); (k_addon, JStr [97;100]);
   (k_errorId, JStr [101;49]); (k_message, JStr [109]); (k_severity, JStr s_style); (k_cwe, JInt 398)].
Example C34_ex_wf : well_formed ex_obj [97;100] [101;49] [109] s_style [mkLoc [97;46;99] [] 3 5] (Some 398%Z) None.
Proof.
  unfold well_formed. repeat split; try reflexivity.
  - left. split; [reflexivity|]. exists [97;46;99], 3%Z, 5%Z. repeat split; reflexivity.
  - right. split; [reflexivity|]. exists 398%Z. split; reflexivity.
  - left. split; reflexivity.
Qed.
Example C34_ex_reported : reported_as ex_settings ([97;100] ++ dash ++ [101;49]) s_style SStyle.
Proof. left. repeat split; try discriminate. left. reflexivity. Qed.
Example C34_ex_finding : convert ex_settings ex_obj =
  OFinding (mkFinding [97;100;45;101;49] [109] SStyle [mkLoc [97;46;99] [] 3 5] 398 0).
Proof. vm_compute. reflexivity. Qed.
Example C34_ex_throw : convert ex_settings (ex_obj ++ [(k_linenr, JStr [52])]) = OThrow.
Proof. vm_compute. reflexivity. Qed.
Example C34_ex_skip : convert ex_settings (ex_obj ++ [(k_severity, JStr s_warning)]) = OSkip.
Proof. vm_compute. reflexivity. Qed.
Example C34_ex_badline : classify [84;114] = LBad.
Proof. vm_compute. reflexivity. Qed.
