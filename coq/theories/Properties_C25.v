(* C25  Exit status reflects the reported findings.
   Statements only; every proof is `exact <lemma>` (Supp/ListProofs.v, Supp/ExecProofs.v). *)
From CV Require Import Base.Bytes Base.Glob Supp.Defs Supp.Proofs Supp.ListProofs Supp.ExecDefs Supp.ExecProofs.
Local Open Scope N_scope.

(* one CppCheck logger, any sequence of findings: the exit flag is raised iff some
   forwarded finding is matched neither by nofail nor by nomsg (queried with globals) *)
Theorem C25_logger_exit pm ug ms st st' outs :
  logger_run pm ug st ms = Some (st', outs) ->
  l_exit st' = (l_exit st || spec_exit pm ug (l_nomsg st) (l_nofail st) (l_seen st) ms).
Proof. intros H. exact (proj1 (proj2 (logger_run_spec pm ug ms st st' outs H))). Qed.
Print Assumptions C25_logger_exit.

(* with global suppressions in use (single executor, whole-program stage) this is:
   some SHOWN finding is not matched by an --exitcode-suppressions entry *)
Theorem C25_exit_iff_shown_not_nofail pm n f ms seen :
  spec_exit pm true n f seen ms = existsb (not_nofail pm f) (pick (spec_forward pm true n seen ms) ms).
Proof. exact (spec_exit_shown pm n f ms seen). Qed.
Print Assumptions C25_exit_iff_shown_not_nofail.

(* one file (CppCheck::check): per-file reset, dummy query, inline suppressions and
   marking do not change what is forwarded and when the exit code is raised *)
Theorem C25_file_exit pm ug nomsg nofail f fr :
  check_file pm ug nomsg nofail f = Some fr -> inline_present nomsg f ->
  r_out fr = spec_forward pm ug nomsg [] (f_msgs f) /\ r_exit fr = spec_exit pm ug nomsg nofail [] (f_msgs f).
Proof. intros H Hi. exact (proj2 (proj2 (check_file_spec pm ug nomsg nofail f fr H Hi))). Qed.
Print Assumptions C25_file_exit.

(* single executor, any number of files + whole-program findings, FULL STRENGTH (after fix
   7b7622c): the process status is --error-exitcode iff some shown finding -- file-level,
   whole-program or unmatchedSuppression (all_shown) -- is not matched by an
   --exitcode-suppressions entry; else 0. The checkers summary is not among them. *)
Theorem C25_single_status pm cfg nomsg nofail fs wp o :
  whole_run pm None cfg nomsg nofail fs wp = Some o -> Forall (inline_present nomsg) fs ->
  o_status o = if existsb (not_nofail pm nofail) (all_shown o) then c_exitcode cfg else 0.
Proof. exact (single_status_shown pm cfg nomsg nofail fs wp o). Qed.
Print Assumptions C25_single_status.

(* thread / process executors (files in any fixed order): per-file exit codes are summed;
   a worker's finding counts iff it is forwarded by the worker (local suppressions), not
   matched by --exitcode-suppressions and not matched by a global suppression, i.e. iff the
   parent shows it (or a duplicate of it) and nofail does not match; unmatchedSuppression
   findings count iff nofail does not match them *)
Theorem C25_multi_status pm k cfg nomsg nofail fs wp o :
  whole_run pm (Some k) cfg nomsg nofail fs wp = Some o -> Forall (inline_present nomsg) fs ->
  o_status o = if existsb (fun x => spec_exit pm false nomsg nofail [] (f_msgs x)) fs
                  || spec_exit pm true nomsg nofail [] wp
                  || um_raise pm nofail (o_unmatched o)
               then c_exitcode cfg else 0.
Proof. exact (whole_run_multi_status pm k cfg nomsg nofail fs wp o). Qed.
Print Assumptions C25_multi_status.

(* the NofailFilter of check_internal, over any list of emitted findings *)
Theorem C25_unmatched_fail_spec pm u nofail b :
  unmatched_fail pm nofail u = Some b -> b = um_raise pm nofail u.
Proof. exact (unmatched_fail_spec pm u nofail b). Qed.
Print Assumptions C25_unmatched_fail_spec.

(* --error-exitcode=0 (the default): status 0, every executor *)
Theorem C25_exit_zero_default pm k cfg nomsg nofail fs wp o :
  whole_run pm k cfg nomsg nofail fs wp = Some o -> c_exitcode cfg = 0 -> o_status o = 0.
Proof. exact (status_zero_default pm k cfg nomsg nofail fs wp o). Qed.
Print Assumptions C25_exit_zero_default.

(* the input that refuted the property before fix 7b7622c (--suppress=memleak matching
   nothing, --exitcode-suppressions with the line `unmatchedSuppression`, --error-exitcode=7,
   information on, one file without findings): the only finding is the unmatchedSuppression
   one, it is matched by the exitcode suppression, the status is 0 now ... *)
Theorem C25_former_witness_honours_nofail :
  exists o,
    whole_run pm_eq None w25_cfg w25_nomsg w25_nofail w25_files [] = Some o
    /\ o_reported o = []
    /\ forallb (fun s => existsb (hides pm_eq true (unmatched_emsg s)) w25_nofail) (o_unmatched o) = true
    /\ o_unmatched o <> []
    /\ o_status o = 0.
Proof. exact witness_unmatched_honours_nofail. Qed.
Print Assumptions C25_former_witness_honours_nofail.

(* ... and 7 without the exitcode suppression *)
Theorem C25_unmatched_suppression_raises :
  exists o, whole_run pm_eq None w25_cfg w25_nomsg [] w25_files [] = Some o /\ o_reported o = [] /\ o_status o = 7.
Proof. exact witness_unmatched_raises. Qed.
Print Assumptions C25_unmatched_suppression_raises.

(* premises are inhabited *)
Example C25_ex_inline_present : Forall (inline_present w25_nomsg) w25_files.
Proof. repeat constructor. Qed.
Example C25_ex_run_single : exists o, whole_run pm_eq None w24_cfg w24_nomsg [] w24_files [] = Some o.
Proof. eexists. vm_compute. reflexivity. Qed.
Example C25_ex_run_multi : exists o, whole_run pm_eq (Some EProcess) w24_cfg w24_nomsg [] w24_files [] = Some o.
Proof. eexists. vm_compute. reflexivity. Qed.
Example C25_ex_logger : exists st' outs, logger_run pm_eq true (mkL w24_nomsg [] [] false) [(w24_finding, [109])] = Some (st', outs).
Proof. eexists. eexists. vm_compute. reflexivity. Qed.
Example C25_ex_file : exists fr, check_file pm_eq true w24_nomsg [] (mkF S_AC [] [] [(w24_finding, [109])]) = Some fr.
Proof. eexists. vm_compute. reflexivity. Qed.
Example C25_ex_zero : c_exitcode w24_cfg = 0.
Proof. reflexivity. Qed.
