(* C23  Suppressions hide exactly the matching findings.
   Statements only; every proof is `exact <lemma>`. *)
From CV Require Import Base.Bytes Base.Glob Base.GlobProofs Base.GlobTermination Supp.Defs Supp.Proofs Supp.ListProofs.

(* the declarative glob language: '*' any sequence, '?' one character *)
Theorem C23_glob_language p n : glob_spec p n = true <-> gmatch p n.
Proof. exact (glob_spec_gmatch p n). Qed.
Print Assumptions C23_glob_language.

(* matchglob, as the code runs it (backtrack stack, p[1] look-ahead), answers
   with the glob language on the two C strings, for every pattern and name *)
Theorem C23_matchglob_spec fuel pattern name b :
  matchglob_fuel fuel pattern name = Some b -> b = glob_spec (cstr pattern) (cstr name).
Proof. exact (matchglob_fuel_spec fuel pattern name b). Qed.
Print Assumptions C23_matchglob_spec.

(* ... and it always answers: an explicit fuel bound (|name|+1)^(stars+1) suffices, so the code's
   unbounded loop terminates on every input and returns the language's verdict *)
Theorem C23_matchglob_total pattern name :
  matchglob_fuel (S (S (length (cstr name)) ^ S (stars (cstr pattern)))) pattern name
  = Some (glob_spec (cstr pattern) (cstr name)).
Proof.
  destruct (matchglob_fuel _ pattern name) as [b|] eqn:E.
  - f_equal. exact (matchglob_fuel_spec _ pattern name b E).
  - exfalso. exact (matchglob_fuel_terminates pattern name E).
Qed.
Print Assumptions C23_matchglob_total.

(* one suppression against one finding: Matched exactly on the documented rule *)
Theorem C23_is_suppressed_matches_doc pm s e r :
  is_suppressed pm s e = Some r -> (r = RMatched <-> matches_doc pm s e = true).
Proof. exact (is_suppressed_matches_doc pm s e r). Qed.
Print Assumptions C23_is_suppressed_matches_doc.

(* a list query: suppressed iff some applicable suppression matches by the rule *)
Theorem C23_list_is_suppressed_spec pm g e l l' b :
  list_is_suppressed pm l e g = Some (l', b) ->
  b = existsb (hides pm g e) l /\ Forall2 (flags_after pm g e) l l'.
Proof. exact (list_is_suppressed_spec pm g e l l' b). Qed.
Print Assumptions C23_list_is_suppressed_spec.

(* any sequence of findings through the logger: a finding is forwarded iff it
   is the first occurrence of its text and no applicable nomsg suppression
   matches it; nofail suppressions and bookkeeping flags have no influence *)
Theorem C23_reported_iff_unsuppressed pm g ms st st' outs :
  logger_run pm g st ms = Some (st', outs) ->
  outs = spec_forward pm g (l_nomsg st) (l_seen st) ms.
Proof. intros H. exact (proj1 (logger_run_spec pm g ms st st' outs H)). Qed.
Print Assumptions C23_reported_iff_unsuppressed.

(* non-vacuity: the machine answers on concrete inputs, both ways *)
Example C23_glob_true : matchglob [42;63]%N [97]%N = Some true.        (* "*?" "a" *)
Proof. vm_compute. reflexivity. Qed.
Example C23_glob_false : matchglob [97;42;98]%N [97;99]%N = Some false. (* "a*b" "ac" *)
Proof. vm_compute. reflexivity. Qed.
