(* C23  Suppressions hide exactly the matching findings.
   Statements only; every proof is `exact <lemma>`. *)
From CV Require Import Base.Bytes Base.Glob Base.GlobProofs Base.GlobTermination Supp.Defs Supp.Proofs Supp.ListProofs Supp.ParseDefs Supp.ParseProofs Supp.PairDefs Supp.PairProofs Supp.DispatchDefs Supp.DispatchProofs Supp.InlineDefs Supp.InlineProofs.
Local Open Scope N_scope.

(* the declarative glob language: '*' any sequence, '?' one character *)
Theorem C23_glob_language p n : glob_spec p n = true <-> gmatch p n.
Proof. exact (glob_spec_gmatch p n). Qed.
Print Assumptions C23_glob_language.

(* matchglob, as the code runs it (backtrack stack, p[1] look-ahead), answers
   with the glob language on the two C strings, for every pattern and name *)
Theorem C23_matchglob_spec fuel pattern name b :
  matchglob_fuel fuel pattern name = Some b -> b = glob_spec (cstr pattern) (cstr name).
Proof. exact (matchglob_fuel_spec fuel pattern name b). Qed.
Print Assumptions C23_matchglob_spec.

(* ... and it always answers: an explicit fuel bound (|name|+1)^(stars+1) suffices, so the code's
   unbounded loop terminates on every input and returns the language's verdict *)
Theorem C23_matchglob_total pattern name :
  matchglob_fuel (S (S (length (cstr name)) ^ S (stars (cstr pattern)))) pattern name
  = Some (glob_spec (cstr pattern) (cstr name)).
Proof.
  destruct (matchglob_fuel _ pattern name) as [b|] eqn:E.
  - f_equal. exact (matchglob_fuel_spec _ pattern name b E).
  - exfalso. exact (matchglob_fuel_terminates pattern name E).
Qed.
Print Assumptions C23_matchglob_total.

(* one suppression against one finding: Matched exactly on the documented rule *)
Theorem C23_is_suppressed_matches_doc pm s e r :
  is_suppressed pm s e = Some r -> (r = RMatched <-> matches_doc pm s e = true).
Proof. exact (is_suppressed_matches_doc pm s e r). Qed.
Print Assumptions C23_is_suppressed_matches_doc.

(* a list query: suppressed iff some applicable suppression matches by the rule *)
Theorem C23_list_is_suppressed_spec pm g e l l' b :
  list_is_suppressed pm l e g = Some (l', b) ->
  b = existsb (hides pm g e) l /\ Forall2 (flags_after pm g e) l l'.
Proof. exact (list_is_suppressed_spec pm g e l l' b). Qed.
Print Assumptions C23_list_is_suppressed_spec.

(* any sequence of findings through the logger: a finding is forwarded iff it
   is the first occurrence of its text and no applicable nomsg suppression
   matches it; nofail suppressions and bookkeeping flags have no influence *)
Theorem C23_reported_iff_unsuppressed pm g ms st st' outs :
  logger_run pm g st ms = Some (st', outs) ->
  outs = spec_forward pm g (l_nomsg st) (l_seen st) ms.
Proof. intros H. exact (proj1 (logger_run_spec pm g ms st st' outs H)). Qed.
Print Assumptions C23_reported_iff_unsuppressed.

(* ---- how suppressions are given ---- *)

(* [error id]:[filename]:[line]: what Suppression::toString prints, parseLine reads back.
   Every clause of `printable` is forced (see Supp/ParseProofs.v); the last one is the caveat
   of the code ("this only works with files which have an extension") *)
Theorem C23_parse_line_print simp p : printable simp p -> parse_line simp (to_string p) = inl p.
Proof. exact (parse_line_print simp p). Qed.
Print Assumptions C23_parse_line_print.

(* REFUTED without the caveat clause: file name c:/Makefile (no '.' after its last ':'),
   no '#', no "//", no line break: "a:c:/Makefile" is rejected ("invalid line number") *)
Theorem C23_parse_line_print_caveat_refuted :
  snd (before_comment (to_string caveat_witness)) = false
  /\ has_char NL (pl_file caveat_witness) = false
  /\ to_string caveat_witness = [97;58;99;58;47;77;97;107;101;102;105;108;101]
  /\ parse_line (fun x => x) (to_string caveat_witness) = inr EBadLine.
Proof. exact parse_line_print_caveat_witness. Qed.
Print Assumptions C23_parse_line_print_caveat_refuted.

(* a suppressions file of any length: exactly the lines that are not blank and do not start
   (after white space) with '#' or "//", split at '\n' and '\r', are parsed, in order;
   the first failing line stops the file *)
Theorem C23_parse_file_lines simp data :
  parse_file simp data = add_lines simp [] (filter relevant (split_str NL (cr_to_nl data))).
Proof. exact (parse_file_lines simp data). Qed.
Print Assumptions C23_parse_file_lines.

Theorem C23_parse_file_all_parsed simp ls acc out :
  add_lines simp acc ls = (out, true) ->
  exists ps, out = acc ++ ps /\ map (parse_line simp) ls = map (fun p => inl p) ps.
Proof. exact (add_lines_all simp ls acc out). Qed.
Print Assumptions C23_parse_file_all_parsed.

(* an inline comment: keyword, id, attributes; else it is not a suppression *)
Theorem C23_parse_comment_words body :
  has_char SLASH body = false -> has_char SEMI body = false ->
  parse_comment (47 :: 47 :: body) =
  match words body with
  | kw :: id :: ws => if existsb (str_eqb kw) KW
                      then let '(sym, ok) := attrs ws [] true in Some (mkPC id sym [] ok)
                      else None
  | _ => None
  end.
Proof. exact (parse_comment_words body). Qed.
Print Assumptions C23_parse_comment_words.

(* // cppcheck-suppress[-begin|-end|-file|-macro] id [symbolName=sym] yields exactly id and sym *)
Theorem C23_parse_comment_spec kw id sym :
  In kw KW -> wordlike id -> (sym = [] \/ wordlike sym) ->
  parse_comment (47 :: 47 :: 32 :: kw ++ 32 :: id ++ (if is_nil sym then [] else 32 :: SYMBOLNAME_EQ ++ sym))
  = Some (mkPC id sym [] true).
Proof. exact (parse_comment_spec kw id sym). Qed.
Print Assumptions C23_parse_comment_spec.

(* cppcheck-suppress[id1,id2,...] yields exactly the listed ids, any number of them *)
Theorem C23_parse_multi_spec pre ids post :
  has_char LBR pre = false -> ids <> [] ->
  Forall (fun i => i <> [] /\ nosp i = true /\ has_char COMMA i = false /\ has_char RBR i = false) ids ->
  parse_multi (pre ++ LBR :: join [COMMA] ids ++ RBR :: post) = (map (fun i => (i, [])) ids, true).
Proof. exact (parse_multi_spec pre ids post). Qed.
Print Assumptions C23_parse_multi_spec.

(* the dispatcher of the preprocessor (parseInlineSuppressionCommentToken): a comment whose text
   does not start with cppcheck-suppress (after '/', '*', blanks) is no suppression ... *)
Theorem C23_dispatch_not_keyword c : starts_with CS (drop_lead c) = false -> dispatch c = DNot.
Proof. exact (dispatch_not_keyword c). Qed.
Print Assumptions C23_dispatch_not_keyword.

(* ... and the documented single forms get the type their keyword stands for (unique, file,
   blockBegin, blockEnd, macro) and exactly the id with its symbol name *)
Theorem C23_dispatch_spec kw id sym :
  In kw KW -> wordlike id -> has_char LBR id = false -> (sym = [] \/ wordlike sym) ->
  dispatch (47 :: 47 :: 32 :: kw ++ 32 :: id ++ (if is_nil sym then [] else 32 :: SYMBOLNAME_EQ ++ sym))
  = DOk (kw_type kw) [(id, sym)] false.
Proof. exact (dispatch_spec kw id sym). Qed.
Print Assumptions C23_dispatch_spec.

(* -begin / -end comments of a file, any number: every resulting block suppression is a
   (begin, end on a later line, same id, same symbol name) pair of the file with the lines of the two
   comments, and every entry is accounted for (half of a block, or reported invalid) *)
Theorem C23_pair_blocks_sound es blocks bad :
  pair_blocks es = (blocks, bad) ->
  (forall k, In k blocks -> block_ok es k) /\ N.of_nat (length es) = bad + 2 * N.of_nat (length blocks).
Proof. exact (pair_blocks_sound es blocks bad). Qed.
Print Assumptions C23_pair_blocks_sound.

Theorem C23_pair_single i sy l1 l2 : (l1 < l2)%Z ->
  pair_blocks [mkBE false i sy l1; mkBE true i sy l2] = ([mkBlk i sy l1 l2], 0).
Proof. exact (pair_single i sy l1 l2). Qed.
Print Assumptions C23_pair_single.

(* a block is opened and closed for the same id (after fix ec62462; part of block_ok in
   C23_pair_blocks_sound): an end naming another id closes nothing, both comments are invalid *)
Theorem C23_pair_other_id i1 i2 sy l1 l2 : i1 <> i2 ->
  pair_blocks [mkBE false i1 sy l1; mkBE true i2 sy l2] = ([], 2).
Proof. exact (pair_other_id i1 i2 sy l1 l2). Qed.
Print Assumptions C23_pair_other_id.

(* the input that refuted it before the fix: -begin uninitvar ... -end nullPointer *)
Theorem C23_pair_former_witness :
  pair_blocks [mkBE false S_UNINITVAR [] 3; mkBE true S_NULLPTR [] 5] = ([], 2).
Proof. exact former_pair_witness. Qed.
Print Assumptions C23_pair_former_witness.

(* where an inline suppression applies (addInlineSuppressions over the token sequence of a file):
   a comment that starts its line is attached to the line of the next code token ... *)
Theorem C23_inline_comment_before_code pre c k post i sy :
  Forall code pre -> code k -> Forall code post -> t_comment c = true ->
  sameline (hd_opt (rev pre)) (Some c) = false ->
  dispatch (t_text c) = DOk TUnique [(i, sy)] false -> valid_inline_id i = true ->
  inline_suppressions (pre ++ c :: k :: post) = ([mkIS i sy TUnique (t_line k) NO_LINE NO_LINE false], 0).
Proof. exact (comment_before_code pre c k post i sy). Qed.
Print Assumptions C23_inline_comment_before_code.

(* ... a comment after code on its line to that line; the "{" rule of the manual decides
   whether it also covers the next line *)
Theorem C23_inline_comment_after_code pre p c post i sy :
  Forall code pre -> code p -> Forall code post -> t_comment c = true ->
  t_line p = t_line c ->
  dispatch (t_text c) = DOk TUnique [(i, sy)] false -> valid_inline_id i = true ->
  inline_suppressions (pre ++ p :: c :: post)
  = ([mkIS i sy TUnique (t_line c) NO_LINE NO_LINE (brace_rule (hd_opt (rev pre)) p c (hd_opt post))], 0).
Proof. exact (comment_after_code pre p c post i sy). Qed.
Print Assumptions C23_inline_comment_after_code.

(* cppcheck-suppress-file is accepted only before any code *)
Theorem C23_inline_file_comment pre c k post i sy :
  Forall code pre -> code k -> Forall code post -> t_comment c = true ->
  sameline (hd_opt (rev pre)) (Some c) = false ->
  dispatch (t_text c) = DOk TFile [(i, sy)] false -> valid_inline_id i = true ->
  inline_suppressions (pre ++ c :: k :: post)
  = if is_nil pre then ([mkIS i sy TFile (t_line c) NO_LINE NO_LINE false], 0) else ([], 1).
Proof. exact (file_comment pre c k post i sy). Qed.
Print Assumptions C23_inline_file_comment.

(* premises are inhabited *)
Example C23_ex_printable : printable (fun x => x) (mkPL [97] [98;46;99] 12 [115] false).   (* a:b.c:12 symbol s *)
Proof. unfold printable. cbn. repeat split; try reflexivity; try discriminate. Qed.
Example C23_ex_inline : exists l, inline_suppressions
  [mkTok 1 false [123]; mkTok 2 true [47;47;32;99;112;112;99;104;101;99;107;45;115;117;112;112;114;101;115;115;32;97]; mkTok 3 false [120]] = (l, 0) /\ l <> [].
Proof. eexists. split; [vm_compute; reflexivity|discriminate]. Qed.
Example C23_ex_kw_types : map kw_type KW = [TUnique; TBlockBegin; TBlockEnd; TFile; TMacro].
Proof. reflexivity. Qed.
Example C23_ex_pair : exists b n, pair_blocks [mkBE false [97] [] 1; mkBE true [97] [] 2] = (b, n).
Proof. eexists. eexists. reflexivity. Qed.
Example C23_ex_wordlike : wordlike [110;117;108;108;80;111;105;110;116;101;114].
Proof. repeat split. discriminate. Qed.
Example C23_ex_kw : In [99;112;112;99;104;101;99;107;45;115;117;112;112;114;101;115;115] KW.
Proof. left. reflexivity. Qed.
Example C23_ex_add_lines : add_lines (fun x => x) [] [[97]; [98;58;99;46;99]] = ([mkPL [97] [] NO_LINE [] false; mkPL [98] [99;46;99] NO_LINE [] false], true).
Proof. vm_compute. reflexivity. Qed.

(* non-vacuity: the machine answers on concrete inputs, both ways *)
Example C23_glob_true : matchglob [42;63]%N [97]%N = Some true.        (* "*?" "a" *)
Proof. vm_compute. reflexivity. Qed.
Example C23_glob_false : matchglob [97;42;98]%N [97;99]%N = Some false. (* "a*b" "ac" *)
Proof. vm_compute. reflexivity. Qed.
