(* C09  Expression types follow the language's conversion rules.
   Statements only; every proof is `exact <lemma>`. *)
From CV Require Import Base.Bytes Lit.Platform Lit.Gen_Platforms TypeConv.Gen_TypeRank TypeConv.Defs TypeConv.Spec
  TypeConv.Proofs TypeConv.LitProofs TypeConv.Explain TypeConv.Parametric TypeConv.Unary TypeConv.Refuted.
Local Open Scope N_scope.

(* on every assignment of widths with 1 < char < short < int < long < long long (strictly), for all
   operand types and all operator classes, setValueType's result is the C++ type of the expression
   (integer promotions by representability, usual arithmetic conversions by rank and width) *)
Theorem C09_result_type_spec_under_strict_widths w op a b : strict w ->
  ctype_of (result_type (opk_of op) (vt_of a) (vt_of b)) = Some (c_result true w op a b).
Proof. exact (result_type_spec_under_strict_widths w op a b). Qed.
Print Assumptions C09_result_type_spec_under_strict_widths.

(* the same for C, for arithmetic, bit and shift operators *)
Theorem C09_result_type_spec_c_under_strict_widths w op a b : strict w -> op = CArith \/ op = CShift ->
  ctype_of (result_type (opk_of op) (vt_of a) (vt_of b)) = Some (c_result false w op a b).
Proof. exact (result_type_spec_c_under_strict_widths w op a b). Qed.
Print Assumptions C09_result_type_spec_c_under_strict_widths.

(* refuted on equal widths: sizeof(long) = sizeof(int) (win32A/W, win64, unix32, arm32, ...):
   `unsigned int op long` is unsigned long, the code says signed long *)
Theorem C09_result_type_equal_width_refuted :
  exists p, In p Gen_platforms /\ int_bit p = long_bit p /\
    ctype_of (result_type OArith (vt_of CUInt) (vt_of CLong)) = Some CLong /\
    c_result false (widths_of p) CArith CUInt CLong = CULong /\ c_result true (widths_of p) CArith CUInt CLong = CULong.
Proof. exact result_type_equal_width_refuted. Qed.
Print Assumptions C09_result_type_equal_width_refuted.

(* refuted where sizeof(short) = sizeof(int) (avr8, pic8, msp430, ...): unsigned short promotes to unsigned int *)
Theorem C09_promotion_equal_width_refuted :
  exists p, In p Gen_platforms /\ short_bit p = int_bit p /\
    ctype_of (result_type OArith (vt_of CUShort) (vt_of CUShort)) = Some CInt /\
    c_result false (widths_of p) CArith CUShort CUShort = CUInt.
Proof. exact promotion_equal_width_refuted. Qed.
Print Assumptions C09_promotion_equal_width_refuted.

(* refuted for C on every platform: comparison / logical operators have type int, the code says bool *)
Theorem C09_c_comparison_refuted : forall w a b,
  ctype_of (result_type OCompare (vt_of a) (vt_of b)) = Some CBool /\ c_result false w CCompare a b = CInt.
Proof. exact c_comparison_refuted. Qed.
Print Assumptions C09_c_comparison_refuted.

(* refuted for C: `x ? c : c` with both operands of one type below int is promoted in C *)
Theorem C09_c_conditional_small_refuted : forall w, strict w ->
  ctype_of (result_type OTernary (vt_of CUChar) (vt_of CUChar)) = Some CUChar /\ c_result false w CCond CUChar CUChar = CInt.
Proof. exact c_conditional_small_refuted. Qed.
Print Assumptions C09_c_conditional_small_refuted.

(* `x ? i : u` with two different types of one rank is unsigned int (C and C++); refuted before /repo 513f3e3 *)
Example C09_ex_conditional_mixed_sign : forall cpp,
  ctype_of (result_type OTernary (vt_of CInt) (vt_of CUInt)) = Some CUInt /\
  c_result cpp (widths_of plat_unix64) CCond CInt CUInt = CUInt.
Proof. exact conditional_mixed_sign_now. Qed.

(* integer literals (holds since /repo 75f7975; before, refuted by `0x100000000` and `020000000000`
   on unix64): for every platform record with int <= long <= long long, every value and suffix, when
   ISO C 6.4.4.1 gives the literal a type, setValueTypeInTokenList gives that type *)
Theorem C09_literal_type_spec p dec usfx lcount v t :
  1 <= int_bit p -> int_bit p <= long_bit p -> long_bit p <= longlong_bit p ->
  literal_ctype (widths_of p) dec usfx lcount v = Some t ->
  ctype_of (literal_type p dec usfx lcount v) = Some t.
Proof. exact (literal_type_spec p dec usfx lcount v t). Qed.
Print Assumptions C09_literal_type_spec.

(* on the shipped platforms every disagreement with ISO C (any operator class, operand pair, C or C++)
   has one of four causes: equal width of a lower-ranked unsigned and a higher-ranked signed type,
   an unsigned type below int as wide as int, C comparison typed bool, C conditional of one small type;
   `explain = 0` is agreement (finite: the regenerated table x 2 x 4 x 12 x 12) *)
Theorem C09_table_deviations_explained : table_explained Gen_platforms = true.
Proof. exact table_deviations_explained. Qed.
Print Assumptions C09_table_deviations_explained.

Theorem C09_explain_0_agrees cpp w op a b : explain cpp w op a b = 0 ->
  ctype_of (result_type (opk_of op) (vt_of a) (vt_of b)) = Some (c_result cpp w op a b).
Proof. exact (explain_0_agrees cpp w op a b). Qed.
Print Assumptions C09_explain_0_agrees.

(* UNBOUNDED version of the table theorem: for EVERY assignment of widths with
   1 < char <= short <= int <= long <= long long (any equalities; all shipped platforms and any platform
   file are instances), every language, operator class and operand pair: the model gives the ISO C type,
   or the disagreement is in one of the four classes; the class is decided by `explain` from the operand
   types and the width (in)equalities.  Proof: spec, model and `explain` depend on the widths only through
   their order type (canon), and each of the 16 x 2 order types is checked by computation *)
Theorem C09_deviations_explained_for_all_widths w cpp op a b : ordered w -> explain cpp w op a b <> 9.
Proof. exact (deviations_explained_for_all_widths w cpp op a b). Qed.
Print Assumptions C09_deviations_explained_for_all_widths.

Theorem C09_result_type_spec_for_all_widths w cpp op a b : ordered w ->
  ctype_of (result_type (opk_of op) (vt_of a) (vt_of b)) = Some (c_result cpp w op a b) \/
  (1 <= explain cpp w op a b /\ explain cpp w op a b <= 4).
Proof. exact (result_type_spec_for_all_widths w cpp op a b). Qed.
Print Assumptions C09_result_type_spec_for_all_widths.

(* the four classes, exactly: 1 equal width of a lower-ranked unsigned and a higher-ranked signed operand,
   2 an unsigned operand below int that int cannot represent, 3 C comparison, 4 C conditional of one small
   type (a fifth, the conditional of two different types of one rank, is empty since /repo 513f3e3); any class means disagreement *)
Theorem C09_explain_class_sound cpp w op a b :
  let k := explain cpp w op a b in
  (k = 1 -> cause_equal_width w a b = true /\ (op = CArith \/ op = CCond)) /\
  (k = 2 -> (cause_promotion w a = true \/ cause_promotion w b = true) /\ op <> CCompare) /\
  (k = 3 -> cpp = false /\ op = CCompare) /\
  (k = 4 -> cpp = false /\ op = CCond /\ small_same a b = true) /\
  (k <> 0 -> agrees cpp w op a b = false).
Proof. exact (explain_class_sound cpp w op a b). Qed.
Print Assumptions C09_explain_class_sound.

(* unary + - ~ : the promoted type for every ordered assignment of widths, unless the operand is an
   unsigned type below int that int cannot represent (class 2, same defect as for binary operators) *)
Theorem C09_unary_arith_spec w a : ordered w ->
  ctype_of (result_type1 UArith (vt_of a)) = Some (promote w a) \/ cause_promotion w a = true.
Proof. exact (unary_arith_spec w a). Qed.
Print Assumptions C09_unary_arith_spec.

(* ++ -- : the operand's type for every operand type (true since /repo 4cd9f32; before, `us++` was typed signed int) *)
Theorem C09_incdec_spec w a : ctype_of (result_type1 UIncDec (vt_of a)) = Some (c_result1 w UIncDec a).
Proof. exact (incdec_spec w a). Qed.
Print Assumptions C09_incdec_spec.

Theorem C09_unary_deviations_explained w op a : ordered w -> explain1 w op a <> 9.
Proof. exact (unary_deviations_explained w op a). Qed.
Print Assumptions C09_unary_deviations_explained.

Example C09_ex_ordered_ilp32 : ordered (widths_of plat_unix32).
Proof. unfold ordered; vm_compute; repeat split; try discriminate; reflexivity. Qed.

(* non-vacuity: strict widths exist (LP64), and a platform of the table has them *)
Example C09_ex_strict : strict (mkW 8 16 32 64 128 true).
Proof. unfold strict; cbn; lia. Qed.
Example C09_ex_literal : literal_ctype (widths_of plat_unix64) false false 0 4294967296 = Some CLong.
Proof. vm_compute. reflexivity. Qed.
Example C09_ex_uint_long_lp64 : c_result false (widths_of plat_unix64) CArith CUInt CLong = CLong.
Proof. vm_compute. reflexivity. Qed.
