(* C08  Name resolution agrees with the compiler -- the variable half: lib/tokenize.cpp's
   VariableMap (Names/Defs.v, tied to the class by the script driver and to setVarIdPass1 by the
   operation trace) refines lexical scoping. partial: the mapping program -> operations
   (setVarIdPass1's declaration recognition) and overload resolution are tied by runs only. *)
From Coq Require Import List NArith Bool Sorted.
From CV Require Import Base.Bytes Names.Defs Names.VmProofs Names.FindDefs Names.FindProofs.
Import ListNotations.
Local Open Scope N_scope.

(* For every operation sequence (no side condition since /repo f35544d undoes in reverse): every
   lookup through the local map answers the innermost binding of the frame-stack specification
   (a lookup at a `type name (` site whose entry is already `assigned` may answer "none" instead),
   every Add/Fresh returns the id the specification allocates, Leave returns what the spec returns. *)
Theorem C08_vm_refines_scopes : forall ops, outs_ok out_ok ops (run_vm ops) (run_sp ops).
Proof. exact vm_refines_scopes. Qed.
Print Assumptions C08_vm_refines_scopes.

Example C08_vm_refines_scopes_inhabited :
  redecl_free [Add [120] true; Enter; Add [120] false; Use [120] false false; Leave; Use [120] false false] = true /\
  run_vm [Add [120] true; Enter; Add [120] false; Use [120] false false; Leave; Use [120] false false] = [1; 0; 2; 2; 1; 1].
Proof. vm_compute. split; reflexivity. Qed.

(* the former counterexample (a name declared twice inside one frame, C: `for (int i..) { int i; }`)
   now restores the outer binding *)
Theorem C08_vm_same_scope_redecl_restored :
  redecl_free redecl_witness = false /\ run_vm redecl_witness = run_sp redecl_witness /\ nth 4 (run_vm redecl_witness) 9 = 0.
Proof. exact vm_same_scope_redecl_restored. Qed.
Print Assumptions C08_vm_same_scope_redecl_restored.

(* `::name` (lookups through mVariableId_global): if every declaration made while no
   frame is open is flagged globalNamespace, a lookup of a name the global frame binds answers that
   binding. *)
Theorem C08_vm_global_lookup : forall ops,
  glob_flag_ok ops = true -> outs_ok out_ok_glob ops (run_vm ops) (run_sp ops).
Proof. exact vm_global_lookup. Qed.
Print Assumptions C08_vm_global_lookup.

Example C08_vm_global_lookup_inhabited :
  let ops := [Add [97] true; Enter; Add [97] false; Find [97] true; Leave] in
  glob_flag_ok ops = true /\ run_vm ops = [1; 0; 2; 1; 1].
Proof. vm_compute. repeat split; reflexivity. Qed.

(* ... and only then: a name the global frame does not bind can be answered with a parameter's id. *)
Theorem C08_vm_global_pollution_refuted :
  exists ops, run_sp ops <> run_vm ops /\
              nth 3 (run_sp ops) 9 = 0 /\ nth 3 (run_vm ops) 9 = 1.
Proof. exact vm_global_pollution_refuted. Qed.
Print Assumptions C08_vm_global_pollution_refuted.

(* distinct declarations never share an identity: the ids returned by Add/Fresh are strictly
   increasing (hence pairwise distinct) and never 0, for every operation sequence *)
Theorem C08_vm_ids_distinct : forall ops,
  StronglySorted N.lt (new_ids ops (run_vm ops)) /\ NoDup (new_ids ops (run_vm ops)) /\
  Forall (fun i => i <> 0) (new_ids ops (run_vm ops)).
Proof. exact vm_ids_distinct. Qed.
Print Assumptions C08_vm_ids_distinct.

(* Leave restores exactly the outer bindings: around a balanced block the answer for every name is
   what it was before the block *)
Theorem C08_vm_leave_restores : forall pre body,
  bal 0 body = true ->
  forall k, vm_view (fst (vm_run vm0 (pre ++ Enter :: body ++ [Leave]))) k = vm_view (fst (vm_run vm0 pre)) k.
Proof. exact vm_leave_restores. Qed.
Print Assumptions C08_vm_leave_restores.

Example C08_vm_leave_restores_inhabited :
  let pre := [Add [120] true] in let body := [Add [120] false; Enter; Add [121] false; Leave; Add [121] false] in
  bal 0 body = true /\ bal 0 [Add [120] false; Add [120] false] = true.
Proof. vm_compute. split; reflexivity. Qed.

(* ---- the function half: Scope::findFunction / ValueType::matchParameter for free functions with value parameters of
   builtin arithmetic type (Names/FindDefs.v), against C++'s best viable function *)

(* sound where it matters most: a candidate that matches every argument exactly, being the only such candidate, is what
   findFunction returns, and it is the best viable function (unbounded in the number of overloads and in arity,
   default arguments included) *)
Theorem C08_find_function_sound_partial : forall fs args i f,
  In (i, f) (cands fs (length args) 0) ->
  is_exact f args = true ->
  (forall j g, In (j, g) (cands fs (length args) 0) -> j <> i -> is_exact g args = false) ->
  find_function fs args = Some i /\ is_best fs args i = true.
Proof. exact find_function_exact_sound. Qed.
Print Assumptions C08_find_function_sound_partial.

Example C08_find_function_sound_partial_inhabited :
  let fs := [mkSig [sL] 0; mkSig [sI; sD] 1; mkSig [sI; sI] 0] in
  cands fs 1 0 = [(0, mkSig [sL] 0); (1, mkSig [sI; sD] 1)]%nat /\ is_exact (mkSig [sI; sD] 1) [sI] = true /\
  is_exact (mkSig [sL] 0) [sI] = false /\ find_function fs [sI] = Some 1%nat.
Proof. vm_compute. repeat split; reflexivity. Qed.

(* a single arity-viable candidate is returned whatever its conversions *)
Theorem C08_find_function_single : forall fs args i f,
  cands fs (length args) 0 = [(i, f)] -> find_function fs args = Some i /\ is_best fs args i = true.
Proof. exact find_function_single. Qed.
Print Assumptions C08_find_function_single.

(* beyond that the FALLBACK1/FALLBACK2 ranking is not C++'s (full soundness is refuted):
   f(int) f(long) f(double), f(short): two FALLBACK1 candidates tie and the FALLBACK2 candidate f(double) wins (C++: f(int));
   g(long,long) g(double,int), g(int,short): the FALLBACK1 candidate wins (C++: g(double,int)) *)
Theorem C08_find_function_fallback_refuted :
  (find_function w1_fs [sS] = Some 2%nat /\ best_viable w1_fs [sS] = Some 0%nat) /\
  (find_function w2_fs [sI; sS] = Some 0%nat /\ best_viable w2_fs [sI; sS] = Some 1%nat).
Proof. exact find_function_fallback_refuted. Qed.
Print Assumptions C08_find_function_fallback_refuted.
