(* Token::astOperand1 / astOperand2 / astParent keep the AST a forest whose parent and operand
   edges agree, over any sequence of calls (C14 ast_forest_inv). *)
From CV Require Import Base.Bytes Dump.Defs.
Require Import Lia ZifyBool.
Local Open Scope N_scope.

(* ------------------------------------------------------------------ parent chains *)
Fixpoint upf (par : N -> option N) (n : nat) (x : N) : option N :=
  match n with
  | O => Some x
  | S n' => match par x with Some p => upf par n' p | None => None end
  end.
Definition up (h : heap) := upf (h_par h).
(* the parent chain of x ends *)
Definition terminates (par : N -> option N) (x : N) : Prop := exists n, upf par n x = None.

Lemma upf_ext par par' : (forall x, par x = par' x) -> forall n x, upf par n x = upf par' n x.
Proof.
  intros E n. induction n as [|n IH]; intros x; cbn; [reflexivity|].
  rewrite <- E. destruct (par x); [apply IH | reflexivity].
Qed.

Lemma upf_none_mono par : forall n x, upf par n x = None -> upf par (S n) x = None.
Proof.
  induction n as [|n IH]; intros x H; [discriminate|].
  cbn in H. cbn [upf]. destruct (par x) as [p|]; [|reflexivity]. apply IH in H. exact H.
Qed.

Lemma upf_none_le par n m x : (n <= m)%nat -> upf par n x = None -> upf par m x = None.
Proof. induction 1 as [|m Hle IH]; [tauto|]. intros H0. apply upf_none_mono. tauto. Qed.

Lemma upf_add par : forall a b x, upf par (a + b) x = match upf par a x with Some y => upf par b y | None => None end.
Proof.
  induction a as [|a IH]; intros b x; cbn; [reflexivity|].
  destruct (par x); [apply IH | reflexivity].
Qed.

(* cutting the edge above x *)
Lemma term_cut par x : forall y, terminates par y -> terminates (upd par x None) y.
Proof.
  intros y [n H]. revert y H. induction n as [|n IH]; intros y H; [discriminate|].
  cbn in H. destruct (N.eq_dec y x) as [->|Hne].
  - exists 1%nat. cbn. unfold upd. rewrite N.eqb_refl. reflexivity.
  - destruct (par y) as [p|] eqn:E.
    + destruct (IH p H) as [m Hm]. exists (S m). cbn. unfold upd at 1.
      replace (y =? x) with false by lia. rewrite E. exact Hm.
    + exists 1%nat. cbn. unfold upd. replace (y =? x) with false by lia. rewrite E. reflexivity.
Qed.

(* a chain that never meets t is not changed by a new edge above t *)
Lemma same_chain par t v : forall n z, (forall k, upf par k z <> Some t) ->
  upf (upd par t v) n z = upf par n z.
Proof.
  induction n as [|n IH]; intros z H; cbn; [reflexivity|].
  assert (z <> t) by (intros ->; apply (H O); reflexivity).
  unfold upd at 1. replace (z =? t) with false by lia.
  destruct (par z) as [p|] eqn:E; [|reflexivity].
  apply IH. intros k. specialize (H (S k)). cbn in H. rewrite E in H. exact H.
Qed.

(* hanging the root t under x, when t is not above x *)
Lemma term_add par t x :
  (forall k, upf par k x <> Some t) -> terminates par x ->
  forall y, terminates par y -> terminates (upd par t (Some x)) y.
Proof.
  intros Hx [m Hm] y [n H].
  assert (Hm' : upf (upd par t (Some x)) m x = None) by (rewrite same_chain; assumption).
  revert y H. induction n as [|n IH]; intros y H; [discriminate|].
  cbn in H. destruct (N.eq_dec y t) as [->|Hne].
  - exists (S m). cbn. unfold upd at 1. rewrite N.eqb_refl. exact Hm'.
  - destruct (par y) as [p|] eqn:E.
    + destruct (IH p H) as [k Hk]. exists (S k). cbn. unfold upd at 1.
      replace (y =? t) with false by lia. rewrite E. exact Hk.
    + exists 1%nat. cbn. unfold upd. replace (y =? t) with false by lia. rewrite E. reflexivity.
Qed.

(* the cycle test of Token::astParent *)
Lemma on_chain_false fuel h x : forall t, on_chain fuel h x t = Some false ->
  forall y, t = Some y -> forall n, up h n y <> Some x.
Proof.
  induction fuel as [|f IH]; intros t H y -> n; cbn in H.
  - destruct (y =? x); discriminate.
  - destruct (y =? x) eqn:E; [discriminate|].
    destruct n as [|n]; cbn.
    + intros [= ->]. lia.
    + destruct (h_par h y) as [p|] eqn:Ep; [|discriminate].
      apply (IH (Some p) H p eq_refl).
Qed.

(* ------------------------------------------------------------------ the invariant *)
Record AInv (h : heap) : Prop := mkAInv {
  (* an operand's parent is the token that holds it *)
  a_op : forall b p c, get_op b h p = Some c -> h_par h c = Some p;
  (* a token's parent holds it as an operand *)
  a_par : forall c p, h_par h c = Some p -> exists b, get_op b h p = Some c;
  (* the two operands of a token differ *)
  a_dist : forall b p c, get_op b h p = Some c -> get_op (negb b) h p <> Some c;
  (* every parent chain ends: no cycle *)
  a_term : forall x, terminates (h_par h) x
}.

Lemma ainv_ext h h' :
  (forall x, h_par h' x = h_par h x) -> (forall b x, get_op b h' x = get_op b h x) -> AInv h -> AInv h'.
Proof.
  intros Ep Eo [A B D T]. constructor.
  - intros b p c H. rewrite Eo in H. rewrite Ep. eauto.
  - intros c p H. rewrite Ep in H. destruct (B c p H) as [b Hb]. exists b. rewrite Eo. exact Hb.
  - intros b p c H. rewrite Eo in *. eauto.
  - intros x. destruct (T x) as [n Hn]. exists n. rewrite (upf_ext _ _ Ep). exact Hn.
Qed.

Lemma ainv_empty : AInv h_empty.
Proof.
  constructor.
  - intros b p c H; destruct b; discriminate.
  - intros c p H; discriminate.
  - intros b p c H; destruct b; discriminate.
  - intros x. exists 1%nat. reflexivity.
Qed.

(* the "clear children" block of Token::astParent *)
Definition clear (h : heap) (x : N) : heap :=
  match h_par h x with
  | Some p =>
      let ha := if oeqb (h_op1 h p) x then set_op1 h p None else h in
      if oeqb (h_op2 ha p) x then set_op2 ha p None else ha
  | None => h
  end.

Lemma set_parent_ok fuel h x tok h' :
  ast_set_parent fuel h x tok = (h', SOk) ->
  on_chain fuel h x tok = Some false /\ h' = set_par (clear h x) x tok.
Proof.
  unfold ast_set_parent, clear. destruct (on_chain fuel h x tok) as [[|]|]; try discriminate.
  intros E. injection E as <-. split; reflexivity.
Qed.

Lemma oeqb_true a b : oeqb a b = true <-> a = Some b.
Proof.
  destruct a as [y|]; cbn; [|split; discriminate].
  split; [intros H; f_equal; lia | intros [= ->]; lia].
Qed.

Lemma clear_par h x y : h_par (clear h x) y = h_par h y.
Proof.
  unfold clear. destruct (h_par h x) as [p|]; [|reflexivity].
  destruct (oeqb (h_op1 h p) x); destruct (oeqb _ x); reflexivity.
Qed.

(* under the invariant, clear h x removes exactly the operand slots that hold x *)
Lemma clear_op h x : AInv h -> forall b q,
  get_op b (clear h x) q = if oeqb (get_op b h q) x then None else get_op b h q.
Proof.
  intros [A B D T] b q. unfold clear.
  destruct (h_par h x) as [p|] eqn:Ep.
  - (* slots other than p's cannot hold x *)
    destruct (N.eq_dec q p) as [->|Hq].
    + destruct b; cbn [get_op].
      * destruct (oeqb (h_op1 h p) x) eqn:E1.
        { destruct (oeqb (h_op2 (set_op1 h p None) p) x); cbn; unfold upd; rewrite N.eqb_refl; reflexivity. }
        { destruct (oeqb (h_op2 h p) x); cbn; reflexivity. }
      * destruct (oeqb (h_op1 h p) x) eqn:E1; cbn [h_op2 set_op1].
        { destruct (oeqb (h_op2 h p) x) eqn:E2; cbn; [unfold upd; rewrite N.eqb_refl|]; reflexivity. }
        { destruct (oeqb (h_op2 h p) x) eqn:E2; cbn; [unfold upd; rewrite N.eqb_refl|]; reflexivity. }
    + assert (Hn : forall b', oeqb (get_op b' h q) x = false).
      { intros b'. destruct (oeqb (get_op b' h q) x) eqn:E; [|reflexivity].
        apply oeqb_true in E. apply A in E. congruence. }
      rewrite Hn.
      destruct (oeqb (h_op1 h p) x); [destruct (oeqb (h_op2 (set_op1 h p None) p) x) | destruct (oeqb (h_op2 h p) x)];
        destruct b; cbn; unfold upd; replace (q =? p) with false by lia; reflexivity.
  - destruct (oeqb (get_op b h q) x) eqn:E; [|reflexivity].
    apply oeqb_true in E. apply A in E. congruence.
Qed.

Lemma clear_op_some h x : AInv h -> forall b q c,
  get_op b (clear h x) q = Some c <-> get_op b h q = Some c /\ c <> x.
Proof.
  intros HI b q c. rewrite (clear_op h x HI).
  destruct (get_op b h q) as [y|] eqn:E; cbn.
  - destruct (y =? x) eqn:Ey; split.
    + discriminate.
    + intros [[= ->] H]. lia.
    + intros [= ->]. split; [reflexivity | lia].
    + intros [[= ->] _]. reflexivity.
  - split; [discriminate | intros [H _]; discriminate].
Qed.

(* x detached from its parent *)
Definition detached (h : heap) (x : N) : heap := set_par (clear h x) x None.

Lemma get_op_set_par b h k v q : get_op b (set_par h k v) q = get_op b h q.
Proof. destruct b; reflexivity. Qed.

Lemma detached_inv h x : AInv h -> AInv (detached h x).
Proof.
  intros HI. pose proof HI as [A B D T]. unfold detached. constructor.
  - intros b p c H. rewrite get_op_set_par in H. apply (clear_op_some h x HI) in H. destruct H as [H Hc].
    cbn. unfold upd. replace (c =? x) with false by lia. rewrite clear_par. eauto.
  - intros c p H. cbn in H. unfold upd in H. destruct (c =? x) eqn:E; [discriminate|].
    rewrite clear_par in H. destruct (B c p H) as [b Hb]. exists b.
    rewrite get_op_set_par. apply (clear_op_some h x HI). split; [exact Hb | lia].
  - intros b p c H. rewrite get_op_set_par in *. apply (clear_op_some h x HI) in H. destruct H as [H Hc].
    intros H'. apply (clear_op_some h x HI) in H'. destruct H' as [H' _]. exact (D b p c H H').
  - intros y. cbn. destruct (T y) as [n Hn].
    assert (Hy : terminates (h_par (clear h x)) y).
    { exists n. rewrite (upf_ext _ (h_par h)); [exact Hn | apply clear_par]. }
    apply term_cut. exact Hy.
Qed.

Lemma detached_par_x h x : h_par (detached h x) x = None.
Proof. cbn. unfold upd. rewrite N.eqb_refl. reflexivity. Qed.

Lemma detached_no_op h x : AInv h -> forall b q, get_op b (detached h x) q <> Some x.
Proof.
  intros HI b q H. unfold detached in H. rewrite get_op_set_par in H.
  apply (clear_op_some h x HI) in H. tauto.
Qed.

Lemma detached_op_none h x b q : AInv h -> get_op b h q = None -> get_op b (detached h x) q = None.
Proof.
  intros HI H. unfold detached. rewrite get_op_set_par, (clear_op h x HI), H. reflexivity.
Qed.

Lemma detached_chain h x : forall n z, (forall k, up h k z <> Some x) -> up (detached h x) n z = up h n z.
Proof.
  intros n z H. unfold up, detached. cbn [h_par set_par].
  rewrite same_chain.
  - apply upf_ext. apply clear_par.
  - intros k. rewrite (upf_ext _ (h_par h)) by apply clear_par. apply H.
Qed.

Lemma get_set_op b w h k v q :
  get_op b (set_op w h k v) q = if Bool.eqb b w && (q =? k) then v else get_op b h q.
Proof. destruct b, w; cbn; unfold upd; destruct (q =? k); reflexivity. Qed.

Lemma par_set_op w h k v y : h_par (set_op w h k v) y = h_par h y.
Proof. destruct w; reflexivity. Qed.

(* attach the detached token t as operand w of x *)
Lemma attach_inv h t x w :
  AInv h -> h_par h t = None -> (forall k, up h k x <> Some t) -> get_op w h x = None ->
  AInv (set_op w (set_par h t (Some x)) x (Some t)).
Proof.
  intros HI Hroot Hnc Hfree. pose proof HI as [A B D T].
  assert (Hnot : forall b q, get_op b h q <> Some t).
  { intros b q H. apply A in H. congruence. }
  constructor.
  - intros b p c H. rewrite get_set_op, get_op_set_par in H. rewrite par_set_op. cbn. unfold upd.
    destruct (Bool.eqb b w && (p =? x)) eqn:E.
    + injection H as <-. rewrite N.eqb_refl. f_equal. lia.
    + destruct (c =? t) eqn:Ec; [exfalso; apply (Hnot b p); rewrite H; f_equal; lia|]. eauto.
  - intros c p H. rewrite par_set_op in H. cbn in H. unfold upd in H.
    destruct (c =? t) eqn:Ec.
    + injection H as <-. exists w. rewrite get_set_op. rewrite Bool.eqb_reflx, N.eqb_refl. cbn. f_equal. lia.
    + destruct (B c p H) as [b Hb]. exists b. rewrite get_set_op, get_op_set_par.
      destruct (Bool.eqb b w && (p =? x)) eqn:E; [|exact Hb].
      exfalso. apply andb_true_iff in E. destruct E as [E1 E2]. apply Bool.eqb_prop in E1. subst b.
      assert (p = x) by lia. subst p. congruence.
  - intros b p c H. rewrite get_set_op, get_op_set_par in *.
    destruct (Bool.eqb b w && (p =? x)) eqn:E.
    + injection H as <-. apply andb_true_iff in E. destruct E as [E1 E2]. apply Bool.eqb_prop in E1. subst b.
      replace (Bool.eqb (negb w) w) with false by (destruct w; reflexivity). cbn. apply Hnot.
    + destruct (Bool.eqb (negb b) w && (p =? x)) eqn:E'.
      * intros [= ->]. apply (Hnot b p). exact H.
      * eapply D; eauto.
  - intros y. destruct (term_add (h_par h) t x Hnc (T x) y (T y)) as [n Hn]. exists n.
    rewrite (upf_ext _ (upd (h_par h) t (Some x))); [exact Hn|]. intros z. rewrite par_set_op. reflexivity.
Qed.

Lemma on_chain_none fuel h x : on_chain fuel h x None = Some false.
Proof. destruct fuel; reflexivity. Qed.

Lemma set_parent_none fuel h c : ast_set_parent fuel h c None = (detached h c, SOk).
Proof. unfold ast_set_parent. rewrite on_chain_none. reflexivity. Qed.

Theorem set_op_inv w fuel h x tok h' :
  AInv h -> ast_set_op w fuel h x tok = (h', SOk) -> AInv h'.
Proof.
  intros HI. unfold ast_set_op.
  assert (HA : exists h1,
    (match get_op w h x with Some c => ast_set_parent fuel h c None | None => (h, SOk) end) = (h1, SOk)
    /\ AInv h1 /\ get_op w h1 x = None).
  { destruct (get_op w h x) as [c|] eqn:E.
    - exists (detached h c). split; [apply set_parent_none|]. split; [apply detached_inv; exact HI|].
      unfold detached. rewrite get_op_set_par, (clear_op h c HI), E. cbn. rewrite N.eqb_refl. reflexivity.
    - exists h. tauto. }
  destruct HA as (h1 & -> & HI1 & Hfree).
  destruct tok as [t|].
  - destruct (ast_top fuel h1 t) as [t'|]; [|discriminate].
    destruct (ast_set_parent fuel h1 t' (Some x)) as [h2 s2] eqn:E2.
    destruct s2; try discriminate. intros E; injection E as <-.
    apply set_parent_ok in E2. destruct E2 as [Hch ->].
    apply (ainv_ext (set_op w (set_par (detached h1 t') t' (Some x)) x (Some t'))).
    + intros z. rewrite !par_set_op. cbn. unfold upd. destruct (z =? t'); reflexivity.
    + intros b z. rewrite !get_set_op, !get_op_set_par. unfold detached. rewrite get_op_set_par. reflexivity.
    + apply attach_inv.
      * apply detached_inv; exact HI1.
      * apply detached_par_x.
      * intros k. rewrite detached_chain; apply (on_chain_false fuel h1 t' (Some x) Hch x eq_refl).
      * apply detached_op_none; assumption.
  - intros E; injection E as <-. apply (ainv_ext h1); [| |exact HI1].
    + intros z. apply par_set_op.
    + intros b z. rewrite get_set_op. destruct (Bool.eqb b w && (z =? x)) eqn:E; [|reflexivity].
      apply andb_true_iff in E. destruct E as [E1 E2]. apply Bool.eqb_prop in E1. subst b.
      assert (z = x) by lia. subst z. symmetry. exact Hfree.
Qed.

Lemma run_op_inv fuel h o h' : AInv h -> run_op fuel h o = (h', SOk) -> AInv h'.
Proof.
  intros HI. destruct o as [p c|p c|x t]; cbn [run_op].
  - apply set_op_inv; exact HI.
  - apply set_op_inv; exact HI.
  - intros E; injection E as <-. apply (ainv_ext h); [reflexivity | intros b z; destruct b; reflexivity | exact HI].
Qed.

Lemma run_ops_inv fuel : forall ops h d h' n,
  AInv h -> run_ops fuel h ops d = (h', SOk, n) -> AInv h'.
Proof.
  induction ops as [|o r IH]; intros h d h' n HI; cbn [run_ops].
  - intros E; injection E as <- _. exact HI.
  - destruct (run_op fuel h o) as [h1 s] eqn:E1. destruct s.
    + intros E. eapply IH; [|exact E]. eapply run_op_inv; eauto.
    + intros E; discriminate.
    + intros E; discriminate.
Qed.

(* the statement of the property *)
Definition ast_consistent (h : heap) : Prop :=
  (forall c p, h_par h c = Some p <-> (h_op1 h p = Some c \/ h_op2 h p = Some c) /\ True) /\
  (forall p c, h_op1 h p = Some c -> h_op2 h p <> Some c) /\
  (forall x n, up h (S n) x <> Some x).

Lemma no_cycle par x : terminates par x -> forall n, upf par (S n) x <> Some x.
Proof.
  intros [m Hm] n H.
  assert (Hk : forall k, upf par (k * S n) x = Some x).
  { induction k as [|k IHk]; [reflexivity|].
    replace (S k * S n)%nat with (S n + k * S n)%nat by lia. rewrite upf_add, H. exact IHk. }
  specialize (Hk m). rewrite (upf_none_le par m (m * S n) x) in Hk; [discriminate | nia | exact Hm].
Qed.

Theorem ainv_consistent h : AInv h -> ast_consistent h.
Proof.
  intros [A B D T]. split; [|split].
  - intros c p. split.
    + intros H. split; [|exact I]. destruct (B c p H) as [[|] Hb]; [left | right]; exact Hb.
    + intros [[H|H] _]; [apply (A true) | apply (A false)]; exact H.
  - intros p c H. apply (D true p c H).
  - intros x n. apply no_cycle, T.
Qed.

Theorem ast_forest_inv fuel ops h n :
  run_ops fuel h_empty ops 0 = (h, SOk, n) -> ast_consistent h.
Proof. intros H. apply ainv_consistent. eapply run_ops_inv; [apply ainv_empty | exact H]. Qed.
