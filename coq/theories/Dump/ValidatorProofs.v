(* Soundness of the AST / link parts of the dump validator (C14 check_doc_ast_links_sound):
   when check_doc accepts a document, the AST edges of every token are mutual, operands differ,
   every parent chain ends, and links are symmetric without fixed points - stated on the
   attribute values of the document itself. *)
From CV Require Import Base.Bytes Dump.Defs Dump.ResolveProofs.
Require Import Lia ZifyBool.
From Coq Require Import FMapPositive.
Local Open Scope N_scope.

(* the value of attribute a of element x in the document (the last one written; XML has at most
   one), None when absent or null *)
Definition attr_sel (a : str) (x : N) (r : ref) : bool := (r_owner r =? x) && str_eqb (r_attr r) a.
Definition attr_val (d : doc) (a : str) (x : N) : option N :=
  nz (option_map r_target (find (attr_sel a x) (rev (d_refs d)))).

Lemma attr_map_spec a : forall rs m x,
  nfind x (attr_map a rs m) =
  match find (attr_sel a x) (rev rs) with Some r => Some (r_target r) | None => nfind x m end.
Proof.
  induction rs as [|r rs IH]; intros m x; cbn [attr_map rev]; [reflexivity|].
  rewrite IH, find_app'. destruct (find (attr_sel a x) (rev rs)) as [r'|]; [reflexivity|].
  cbn [find]. unfold attr_sel at 1. destruct (str_eqb (r_attr r) a) eqn:Ea.
  - destruct (r_owner r =? x) eqn:Eo; cbn [andb].
    + apply N.eqb_eq in Eo. subst x. apply nfind_add_same.
    + apply nfind_add_other. lia.
  - rewrite andb_false_r. reflexivity.
Qed.

Lemma get_attr d a x : get (attr_map a (d_refs d) (PM.empty N)) x = attr_val d a x.
Proof.
  unfold get, attr_val. rewrite attr_map_spec, nfind_empty.
  destruct (find (attr_sel a x) (rev (d_refs d))); reflexivity.
Qed.

Lemma oeqb_eq a b : oeqb a b = true <-> a = Some b.
Proof.
  destruct a as [y|]; cbn; [|split; discriminate].
  split; [intros H; f_equal; lia | intros [= ->]; lia].
Qed.

(* n steps up the astParent attribute *)
Fixpoint par_iter (d : doc) (n : nat) (x : N) : option N :=
  match n with
  | O => Some x
  | S n' => match attr_val d A_PARENT x with Some p => par_iter d n' p | None => None end
  end.

Lemma reaches_root_spec d : forall n x,
  reaches_root n (mk_tables (d_refs d)) x = true -> exists k, par_iter d (S k) x = None.
Proof.
  induction n as [|n IH]; intros x H; cbn in H; unfold mk_tables in H; cbn [t_par] in H; rewrite get_attr in H.
  - destruct (attr_val d A_PARENT x) eqn:E; [discriminate|]. exists O. cbn. rewrite E. reflexivity.
  - destruct (attr_val d A_PARENT x) as [p|] eqn:E.
    + destruct (IH p H) as [k Hk]. exists (S k). cbn [par_iter]. rewrite E. exact Hk.
    + exists O. cbn. rewrite E. reflexivity.
Qed.

Definition token_ids (d : doc) : list N := map e_id (tokens_of (d_elems d)).

Theorem check_doc_ast_links_sound d :
  check_doc d = VOk ->
  forall x, In x (token_ids d) ->
    (forall p, attr_val d A_PARENT x = Some p -> attr_val d A_OP1 p = Some x \/ attr_val d A_OP2 p = Some x) /\
    (forall c, attr_val d A_OP1 x = Some c -> attr_val d A_PARENT c = Some x /\ attr_val d A_OP2 x <> Some c) /\
    (forall c, attr_val d A_OP2 x = Some c -> attr_val d A_PARENT c = Some x) /\
    (exists k, par_iter d (S k) x = None) /\
    (forall y, attr_val d A_LINK x = Some y -> attr_val d A_LINK y = Some x /\ y <> x).
Proof.
  unfold check_doc. destruct (dup_id _ _); [discriminate|].
  destruct (first_bad (ref_ok _) _); [discriminate|].
  set (t := mk_tables (d_refs d)). set (ts := tokens_of (d_elems d)).
  destruct (first_bad (fun e => ast_ok_at t (e_id e)) ts) eqn:E1; [discriminate|].
  destruct (first_bad (fun e => reaches_root (length ts) t (e_id e)) ts) eqn:E2; [discriminate|].
  destruct (first_bad (fun e => link_ok_at t (e_id e)) ts) eqn:E3; [discriminate|].
  intros _ x Hx. unfold token_ids in Hx. fold ts in Hx. apply in_map_iff in Hx. destruct Hx as (e & <- & He).
  pose proof (first_bad_none _ _ E1 e He) as A. pose proof (first_bad_none _ _ E2 e He) as B.
  pose proof (first_bad_none _ _ E3 e He) as C0. cbn beta in A, B, C0.
  unfold ast_ok_at, t, mk_tables in A. cbn [t_par t_o1 t_o2] in A. rewrite !get_attr in A.
  apply andb_true_iff in A. destruct A as [A A3]. apply andb_true_iff in A. destruct A as [A1 A2].
  split; [|split; [|split; [|split]]].
  - intros p Hp. rewrite Hp in A1. rewrite !get_attr in A1. apply orb_true_iff in A1.
    destruct A1 as [H|H]; apply oeqb_eq in H; tauto.
  - intros c Hc. rewrite Hc in A2. rewrite !get_attr in A2. apply andb_true_iff in A2. destruct A2 as [H1 H2].
    apply oeqb_eq in H1. split; [exact H1|]. intros H. apply oeqb_eq in H. rewrite H in H2. discriminate.
  - intros c Hc. rewrite Hc in A3. rewrite !get_attr in A3. apply oeqb_eq in A3. exact A3.
  - apply (reaches_root_spec d _ _ B).
  - intros y Hy. unfold link_ok_at, t, mk_tables in C0. cbn [t_link] in C0. rewrite !get_attr in C0.
    rewrite Hy in C0. rewrite get_attr in C0. apply andb_true_iff in C0. destruct C0 as [H1 H2].
    apply oeqb_eq in H1. split; [exact H1 | lia].
Qed.
