(* The id resolution of cppcheckdata.py (IdMap, second pass) and the validator's reference
   check (C14 resolve_total_on_closed, check_doc_refs_sound). *)
From CV Require Import Base.Bytes Dump.Defs.
Require Import Lia ZifyBool.
From Coq Require Import FMapPositive.
Local Open Scope N_scope.

Lemma nkey_inj a b : nkey a = nkey b -> a = b.
Proof.
  unfold nkey. intros H. apply N.succ_inj. rewrite <- !N.succ_pos_spec. rewrite H. reflexivity.
Qed.

Lemma nfind_add_same {A} k (v : A) m : nfind k (nadd k v m) = Some v.
Proof. unfold nfind, nadd. apply PM.gss. Qed.

Lemma nfind_add_other {A} k k' (v : A) m : k <> k' -> nfind k' (nadd k v m) = nfind k' m.
Proof. unfold nfind, nadd. intros H. apply PM.gso. intros E. apply nkey_inj in E. congruence. Qed.

Lemma nfind_empty {A} k : nfind k (PM.empty A) = None.
Proof. unfold nfind. apply PM.gempty. Qed.

Lemma find_app' {A} (f : A -> bool) l1 l2 :
  find f (l1 ++ l2) = match find f l1 with Some x => Some x | None => find f l2 end.
Proof. induction l1 as [|a l1 IH]; cbn; [reflexivity|]. destruct (f a); [reflexivity | exact IH]. Qed.

(* IdMap after the first pass: the last element that carries the id *)
Lemma build_idmap_spec : forall es m id,
  nfind id (build_idmap es m) =
  match find (fun e => e_id e =? id) (rev es) with Some e => Some e | None => nfind id m end.
Proof.
  induction es as [|e es IH]; intros m id; cbn [build_idmap rev]; [reflexivity|].
  rewrite IH. rewrite find_app'.
  destruct (find (fun e0 => e_id e0 =? id) (rev es)) as [e'|]; [reflexivity|].
  cbn [find]. destruct (e_id e =? id) eqn:E.
  - apply N.eqb_eq in E. subst id. apply nfind_add_same.
  - apply nfind_add_other. lia.
Qed.

Lemma build_idmap_found es id e :
  nfind id (build_idmap es (PM.empty elem)) = Some e -> In e es /\ e_id e = id.
Proof.
  rewrite build_idmap_spec. destruct (find _ (rev es)) as [e'|] eqn:F.
  - intros [= <-]. apply find_some in F. destruct F as [Hin Hid]. split; [apply in_rev; exact Hin | lia].
  - rewrite nfind_empty. discriminate.
Qed.

Lemma build_idmap_complete es id e :
  In e es -> e_id e = id -> exists e', nfind id (build_idmap es (PM.empty elem)) = Some e'.
Proof.
  intros Hin Hid. rewrite build_idmap_spec.
  destruct (find (fun e0 => e_id e0 =? id) (rev es)) as [e'|] eqn:F; [eauto|].
  exfalso. pose proof (find_none _ _ F e) as Hn. cbn in Hn. apply in_rev in Hin. specialize (Hn Hin). lia.
Qed.

(* a document in which every id-valued attribute is null or names an element of the document *)
Definition closed_ref (d : doc) (r : ref) : Prop :=
  r_target r = 0 \/ exists e, In e (d_elems d) /\ e_id e = r_target r.
Definition closed (d : doc) : Prop := forall r, In r (d_refs d) -> closed_ref d r.

(* what a resolved entry says *)
Definition entry_ok (d : doc) (re : ref * option elem) : Prop :=
  match snd re with
  | None => r_target (fst re) = 0 \/
            (r_strict (fst re) = false /\ forall e, In e (d_elems d) -> e_id e <> r_target (fst re))
  | Some e => r_target (fst re) <> 0 /\ In e (d_elems d) /\ e_id e = r_target (fst re)
  end.

Lemma resolve_refs_spec d : forall rs acc,
  let m := build_idmap (d_elems d) (PM.empty elem) in
  match resolve_refs m rs acc with
  | Resolved g => exists g', g = rev acc ++ g' /\ map fst g' = rs /\ Forall (entry_ok d) g'
  | Dangling r => In r rs /\ r_strict r = true /\ ~ closed_ref d r
  end.
Proof.
  intros rs. induction rs as [|r rs IH]; intros acc m; cbn [resolve_refs].
  - exists []. rewrite rev_append_rev, !app_nil_r. split; [reflexivity|]. split; [reflexivity | constructor].
  - unfold lookup, is_null.
    destruct (r_target r =? 0) eqn:E0.
    + specialize (IH ((r, None) :: acc)). fold m in IH. cbn zeta in IH.
      destruct (resolve_refs m rs ((r, None) :: acc)) as [g|r'].
      * destruct IH as (g' & -> & Hm & Hf). exists ((r, None) :: g'). cbn [rev]. rewrite <- app_assoc. split; [reflexivity|].
        split; [cbn; f_equal; exact Hm|]. constructor; [|exact Hf]. unfold entry_ok. cbn. left. lia.
      * destruct IH as (A & B & C0). split; [right; exact A | tauto].
    + destruct (nfind (r_target r) m) as [e|] eqn:F.
      * specialize (IH ((r, Some e) :: acc)). fold m in IH. cbn zeta in IH.
        destruct (resolve_refs m rs ((r, Some e) :: acc)) as [g|r'].
        { destruct IH as (g' & -> & Hm & Hf). exists ((r, Some e) :: g'). cbn [rev]. rewrite <- app_assoc. split; [reflexivity|].
          split; [cbn; f_equal; exact Hm|]. constructor; [|exact Hf]. unfold entry_ok. cbn.
          apply build_idmap_found in F. split; [lia | exact F]. }
        { destruct IH as (A & B & C0). split; [right; exact A | tauto]. }
      * assert (Hno : forall e, In e (d_elems d) -> e_id e <> r_target r).
        { intros e Hin Hid. destruct (build_idmap_complete _ _ _ Hin Hid) as [e' He']. fold m in He'. congruence. }
        destruct (r_strict r) eqn:S.
        { split; [left; reflexivity|]. split; [exact S|]. intros [Hz|(e & Hin & Hid)]; [lia | eapply Hno; eauto]. }
        { specialize (IH ((r, None) :: acc)). fold m in IH. cbn zeta in IH.
          destruct (resolve_refs m rs ((r, None) :: acc)) as [g|r'].
          - destruct IH as (g' & -> & Hm & Hf). exists ((r, None) :: g'). cbn [rev]. rewrite <- app_assoc. split; [reflexivity|].
            split; [cbn; f_equal; exact Hm|]. constructor; [|exact Hf]. unfold entry_ok. cbn. right. tauto.
          - destruct IH as (A & B & C0). split; [right; exact A | tauto]. }
Qed.

(* the reader succeeds on every closed document and finds, for each attribute, an element that
   carries the id *)
Theorem resolve_total_on_closed d :
  closed d ->
  exists g, resolve d = Resolved g /\ map fst g = d_refs d /\
            Forall (fun re => match snd re with
                              | None => r_target (fst re) = 0
                              | Some e => In e (d_elems d) /\ e_id e = r_target (fst re)
                              end) g.
Proof.
  intros Hc. unfold resolve. pose proof (resolve_refs_spec d (d_refs d) []) as H. cbn zeta in H.
  destruct (resolve_refs _ (d_refs d) []) as [g|r].
  - destruct H as (g' & -> & Hm & Hf). cbn [rev app]. exists g'. split; [reflexivity|]. split; [exact Hm|].
    rewrite Forall_forall in *. intros [r oe] Hin. specialize (Hf _ Hin). unfold entry_ok in Hf. cbn in *.
    destruct oe as [e|]; [tauto|].
    destruct Hf as [Hz|[_ Hno]]; [exact Hz|].
    assert (Hr : In r (d_refs d)) by (rewrite <- Hm; apply (in_map fst _ _ Hin)).
    destruct (Hc r Hr) as [Hz|(e & He & Hid)]; [exact Hz | exfalso; eapply Hno; eauto].
  - destruct H as (A & _ & C0). exfalso. apply C0. apply Hc. exact A.
Qed.

(* and it raises only on a strict attribute that is not closed *)
Theorem resolve_dangling_not_closed d r :
  resolve d = Dangling r -> In r (d_refs d) /\ r_strict r = true /\ ~ closed_ref d r.
Proof.
  unfold resolve. intros H. pose proof (resolve_refs_spec d (d_refs d) []) as S. cbn zeta in S.
  rewrite H in S. exact S.
Qed.

(* ------------------------------------------------------------------ the validator, reference part *)
Lemma first_bad_none {A} (f : A -> bool) l : first_bad f l = None -> forall x, In x l -> f x = true.
Proof.
  induction l as [|a l IH]; intros H x Hin; [contradiction|].
  cbn in H. destruct (f a) eqn:E; [|discriminate].
  destruct Hin as [<-|Hin]; [exact E | apply IH; assumption].
Qed.

Lemma dup_id_none : forall es seen,
  dup_id es seen = None ->
  NoDup (map e_id es) /\ forall e, In e es -> nfind (e_id e) seen = None.
Proof.
  induction es as [|e es IH]; intros seen H; cbn in *.
  - split; [constructor | tauto].
  - destruct (nfind (e_id e) seen) eqn:F; [discriminate|].
    destruct (IH _ H) as [Hnd Hs]. split.
    + constructor; [|exact Hnd]. intros Hin. apply in_map_iff in Hin. destruct Hin as (e' & Hid & Hin).
      specialize (Hs e' Hin). rewrite Hid, nfind_add_same in Hs. discriminate.
    + intros e' [<-|Hin]; [exact F|].
      specialize (Hs e' Hin). destruct (N.eq_dec (e_id e) (e_id e')) as [E|NE].
      * rewrite <- E, nfind_add_same in Hs. discriminate.
      * rewrite nfind_add_other in Hs by exact NE. exact Hs.
Qed.

Lemma kind_eqb_eq a b : kind_eqb a b = true -> a = b.
Proof. destruct a, b; cbn; intros; try reflexivity; discriminate. Qed.

(* when the validator accepts: ids are unique and every id-valued attribute is null or names
   the (unique) element of the required kind in the same configuration *)
Theorem check_doc_refs_sound d :
  check_doc d = VOk ->
  NoDup (map e_id (d_elems d)) /\
  forall r, In r (d_refs d) ->
    r_target r = 0 \/ exists e, In e (d_elems d) /\ e_id e = r_target r /\ e_kind e = r_kind r.
Proof.
  unfold check_doc. destruct (dup_id (d_elems d) (PM.empty unit)) eqn:Ed; [discriminate|].
  destruct (first_bad (ref_ok (build_idmap (d_elems d) (PM.empty elem))) (d_refs d)) eqn:Er; [discriminate|].
  intros _. split; [apply (dup_id_none _ _ Ed)|].
  intros r Hin. pose proof (first_bad_none _ _ Er r Hin) as H. unfold ref_ok, lookup, is_null in H.
  destruct (r_target r =? 0) eqn:E0; [left; lia|].
  destruct (nfind (r_target r) _) as [e|] eqn:F; [|discriminate].
  right. exists e. apply build_idmap_found in F. destruct F as [A B]. split; [exact A|]. split; [exact B|].
  apply kind_eqb_eq. exact H.
Qed.

Theorem check_doc_closed d : check_doc d = VOk -> closed d.
Proof.
  intros H r Hin. destruct (check_doc_refs_sound d H) as [_ Hr].
  destruct (Hr r Hin) as [Hz|(e & A & B & _)]; [left; exact Hz | right; eauto].
Qed.
