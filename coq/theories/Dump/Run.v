(* Entry point of the extracted executable for C14: decodes a case, runs the model. *)
From CV Require Import Base.Bytes Ctu.Defs Dump.Defs.
Local Open Scope N_scope.

Definition BAD : list str := [[66]].    (* "B": malformed case *)
Definition FUELS : str := [70].         (* "F" *)
Definition tag_is (t name : str) : bool := str_eqb t name.

Definition nd (s : str) : N := match N_of_dec s with Some z => z | None => 0 end.
Definition on_of (s : str) : option N := N_of_dec s.      (* "" -> None *)
Definition str_of_on (o : option N) : str := match o with Some n => dec_of_N n | None => [] end.

(* hexadecimal ids as printed by id_string *)
Definition hex_digit (c : N) : option N :=
  if (48 <=? c) && (c <=? 57) then Some (c - 48)
  else if (97 <=? c) && (c <=? 102) then Some (c - 87)
  else if (65 <=? c) && (c <=? 70) then Some (c - 55)
  else None.
Fixpoint hex_acc (acc : N) (s : str) : option N :=
  match s with
  | [] => Some acc
  | c :: r => match hex_digit c with
              | Some d => hex_acc (N.double (N.double (N.double (N.double acc))) + d) r
              | None => None
              end
  end.
Definition N_of_hex (s : str) : option N := match s with [] => None | _ => hex_acc 0 s end.

(* --- links --- *)
Definition links_out (n : N) (ts : list str) : list str :=
  match create_links ts with
  | LOk P => [[79]] ++ map (fun i => str_of_on (link_of P i)) (map N.of_nat (seq 0 (length ts)))
  | LUnmatched i => [[85]; dec_of_N i]
  | LStuck => [[83]]
  end.

(* --- ast --- *)
Fixpoint take_ops (l : list str) : option (list aop) :=
  match l with
  | [] => Some []
  | k :: p :: c :: r =>
      match take_ops r with
      | Some ops =>
          if tag_is k [49] then Some (OSet1 (nd p) (on_of c) :: ops)
          else if tag_is k [50] then Some (OSet2 (nd p) (on_of c) :: ops)
          else if tag_is k [84] then Some (OTop (nd p) (on_of c) :: ops)
          else None
      | None => None
      end
  | _ => None
  end.

Definition status_out (s : status) : str :=
  match s with SOk => [111;107] | SCyclic => [99;121;99] | SFuel => FUELS end.

Definition heap_out (h : heap) (n : nat) : list str :=
  flat_map (fun i => [str_of_on (h_par h i); str_of_on (h_op1 h i); str_of_on (h_op2 h i)])
           (map N.of_nat (seq 0 n)).

Definition ast_out (n : N) (ops : list aop) : list str :=
  let k := N.to_nat n in
  match run_ops (S k) h_empty ops 0 with
  | (h, s, done) => status_out s :: dec_of_N done :: heap_out h k
  end.

(* --- doc --- *)
Definition kind_of (s : str) : option kind :=
  match s with
  | [84] => Some KToken | [83] => Some KScope | [67] => Some KContainer | [70] => Some KFunction
  | [86] => Some KVariable | [76] => Some KValues | [89] => Some KType
  | _ => None
  end.
Definition kind_out (k : kind) : str :=
  match k with
  | KToken => [84] | KScope => [83] | KContainer => [67] | KFunction => [70]
  | KVariable => [86] | KValues => [76] | KType => [89]
  end.

(* records of six fields:  E kind id str - -   |   R owner attr target kind strict *)
Fixpoint take_doc (fuel : nat) (l : list str) (es : list elem) (rs : list ref) : option doc :=
  match fuel with
  | O => None
  | S f =>
      match l with
      | [] => Some (mkD (rev_append es []) (rev_append rs []))
      | t :: a :: b :: c :: d :: e :: r =>
          if tag_is t [69] then
            match kind_of a, N_of_hex b with
            | Some k, Some id => take_doc f r (mkE k id c :: es) rs
            | _, _ => None
            end
          else if tag_is t [82] then
            match N_of_hex a, N_of_hex c, kind_of d with
            | Some o, Some tg, Some k => take_doc f r es (mkR o b tg k (bool_of_str e) :: rs)
            | _, _, _ => None
            end
          else None
      | _ => None
      end
  end.

Definition ref_out (r : ref) : list str :=
  [dec_of_N (r_owner r); r_attr r; dec_of_N (r_target r)].

Definition verdict_out (v : verdict) : list str :=
  match v with
  | VOk => [[111;107]]
  | VDupId id => [[100;117;112]; dec_of_N id]                                  (* dup *)
  | VDangling r => [100;97;110;103;108;105;110;103] :: ref_out r               (* dangling *)
  | VAst t => [[97;115;116]; dec_of_N t]                                       (* ast *)
  | VCycle t => [[99;121;99;108;101]; dec_of_N t]                              (* cycle *)
  | VLink t => [[108;105;110;107]; dec_of_N t]                                 (* link *)
  | VBracketUnmatched p => [[117;110;109;97;116;99;104;101;100]; dec_of_N p]   (* unmatched *)
  | VBracketLink p => [[98;114;97;99;107;101;116]; dec_of_N p]                 (* bracket *)
  | VNesting p => [[110;101;115;116;105;110;103]; dec_of_N p]                  (* nesting *)
  end.

Definition resolve_out (d : doc) : list str :=
  match resolve d with
  | Resolved g => [111;107] :: map (fun re => match snd re with
                                              | Some e => kind_out (e_kind e)
                                              | None => []
                                              end) g
  | Dangling r => [100;97;110;103;108;105;110;103] :: ref_out r
  end.

(* tags: "links" "ast" "toxml" "check" "resolve" *)
Definition run (fields : list str) : list str :=
  match fields with
  | [] => BAD
  | tag :: args =>
      if tag_is tag [108;105;110;107;115] then links_out 0 args
      else if tag_is tag [97;115;116] then
        match args with
        | n :: r => match take_ops r with Some ops => ast_out (nd n) ops | None => BAD end
        | [] => BAD
        end
      else if tag_is tag [116;111;120;109;108] then
        match args with [s] => [toxml s] | [] => [toxml []] | _ => BAD end
      else if tag_is tag [99;104;101;99;107] then
        match take_doc (S (length args)) args [] [] with
        | Some d => verdict_out (check_doc d)
        | None => BAD
        end
      else if tag_is tag [114;101;115;111;108;118;101] then
        match take_doc (S (length args)) args [] [] with
        | Some d => resolve_out d
        | None => BAD
        end
      else BAD
  end.
