(* The stack core of Tokenizer::createLinks2: whatever the Token::Match heuristics decide, the
   '<' '>' pairs it links and the bracket pairs it walks over are mutually disjoint or nested
   (C14 links2_nested). *)
From CV Require Import Base.Bytes Dump.Defs Dump.LinksProofs.
Require Import Lia ZifyBool Sorted.
Local Open Scope N_scope.

Definition pr (x : N * N * bool) : N * N := fst x.

Section Inv2.
Variable E : N -> ev2.   (* the event of the loop body at a position *)

Definition is_gt_link (e : ev2) : Prop := e = E2Gt true true.

Record Inv2 (i : N) (st : l2state) : Prop := mkInv2 {
  i2_type : forall p b, In (p, b) (l2_type st) -> p < i /\ E p = (if b then E2Lt else E2Open);
  i2_sorted : StronglySorted (fun a b => fst b < fst a) (l2_type st);
  i2_pairs : forall o c b, In (o, c, b) (l2_pairs st) ->
               o < c /\ c < i /\ (if b then E o = E2Lt /\ E c = E2Gt true true else E o = E2Open /\ E c = E2Close);
  i2_sep : forall o c b p x, In (o, c, b) (l2_pairs st) -> In (p, x) (l2_type st) -> p < o \/ c < p;
  i2_nest : pairs_ok (map pr (l2_pairs st))
}.

Lemma inv2_init : Inv2 0 (mkL2 [] []).
Proof. constructor; cbn; try tauto. constructor. Qed.

Lemma sorted_split (t pre r : list (N * bool)) x :
  StronglySorted (fun a b => fst b < fst a) t -> t = pre ++ x :: r ->
  StronglySorted (fun a b => fst b < fst a) r /\ forall y, In y r -> fst y < fst x.
Proof.
  revert t. induction pre as [|a pre IH]; intros t Hs ->; cbn in Hs.
  - inversion Hs as [|? ? Hs' Hall]; subst. split; [exact Hs'|]. rewrite Forall_forall in Hall. exact Hall.
  - inversion Hs as [|? ? Hs' Hall]; subst. eapply IH; [exact Hs' | reflexivity].
Qed.

Lemma inv2_weaken i st : Inv2 i st -> Inv2 (i + 1) st.
Proof.
  intros [T Ss P Sp N0]. constructor; auto.
  - intros p b H. destruct (T p b H). split; [lia | assumption].
  - intros o c b H. destruct (P o c b H) as (A & B & C0). split; [exact A|]. split; [lia | exact C0].
Qed.

Lemma inv2_push i st (b : bool) :
  Inv2 i st -> E i = (if b then E2Lt else E2Open) -> Inv2 (i + 1) (mkL2 ((i, b) :: l2_type st) (l2_pairs st)).
Proof.
  intros [T Ss P Sp N0] HE. constructor; cbn [l2_type l2_pairs].
  - intros p b' [H|H]; [injection H as <- <-; split; [lia | exact HE]|]. destruct (T p b' H). split; [lia | assumption].
  - constructor; [exact Ss|]. apply Forall_forall. intros [p b'] H. cbn. apply T in H. lia.
  - intros o c b' H. destruct (P o c b' H) as (A & B & C0). split; [exact A|]. split; [lia | exact C0].
  - intros o c b' p x H [H'|H']; [injection H' as <- <-; right; apply P in H; lia | eapply Sp; eauto].
  - exact N0.
Qed.

(* discard the entries above x, pop x and (optionally) record the pair (x, i) *)
Lemma inv2_pop i st pre o b r (rec : bool) :
  Inv2 i st -> l2_type st = pre ++ (o, b) :: r ->
  (rec = true -> if b then E i = E2Gt true true else E i = E2Close) ->
  Inv2 (i + 1) (mkL2 r (if rec then (o, i, b) :: l2_pairs st else l2_pairs st)).
Proof.
  intros [T Ss P Sp N0] Ht HE.
  destruct (sorted_split _ pre r (o, b) Ss Ht) as [Sr Hlt].
  assert (Hin : forall y, In y r -> In y (l2_type st)) by (intros y Hy; rewrite Ht; apply in_or_app; right; right; exact Hy).
  assert (Ho : In (o, b) (l2_type st)) by (rewrite Ht; apply in_or_app; right; left; reflexivity).
  destruct (T o b Ho) as [Hoi HEo].
  constructor; cbn [l2_type l2_pairs].
  - intros p b' H. destruct (T p b' (Hin _ H)). split; [lia | assumption].
  - exact Sr.
  - destruct rec.
    + intros o' c' b' [H|H].
      * injection H as <- <- <-. split; [lia|]. split; [lia|]. specialize (HE eq_refl). destruct b; tauto.
      * destruct (P o' c' b' H) as (A & B & C0). split; [exact A|]. split; [lia | exact C0].
    + intros o' c' b' H. destruct (P o' c' b' H) as (A & B & C0). split; [exact A|]. split; [lia | exact C0].
  - destruct rec.
    + intros o' c' b' p x [H|H] H'.
      * injection H as <- <- <-. left. apply (Hlt (p, x) H').
      * eapply Sp; [exact H | apply Hin; exact H'].
    + intros o' c' b' p x H H'. eapply Sp; [exact H | apply Hin; exact H'].
  - destruct rec; [|exact N0]. cbn [map pr fst]. split; [|exact N0].
    intros o' c' H. apply in_map_iff in H. destruct H as ([[o2 c2] b2] & E2 & H2). cbn in E2. injection E2 as -> ->.
    destruct (Sp o' c' b2 o b H2 Ho) as [A|A].
    + right. apply P in H2. lia.
    + left. exact A.
Qed.

Lemma drop_lt_split t x r : drop_lt t = x :: r -> exists pre, t = pre ++ x :: r.
Proof.
  induction t as [|[p b] t IH]; cbn; [discriminate|].
  destruct b.
  - intros H. destruct (IH H) as [pre ->]. exists ((p, true) :: pre). reflexivity.
  - intros [= <- <-]. exists []. reflexivity.
Qed.

Lemma drop_lt_head t o b r : drop_lt t = (o, b) :: r -> b = false.
Proof.
  induction t as [|[p b'] t IH]; cbn; [discriminate|].
  destruct b'; [exact IH | intros [= _ <- _]; reflexivity].
Qed.

Lemma inv2_step i st st' : Inv2 i st -> step2 st i (E i) = S2Cont st' -> Inv2 (i + 1) st'.
Proof.
  intros HI. destruct (E i) eqn:HE; cbn [step2].
  - intros [= <-]. apply (inv2_push i st false HI HE).
  - destruct (l2_type st) as [|x0 t0] eqn:Et; [intros [= <-]; apply inv2_weaken; exact HI|].
    destruct (drop_lt (x0 :: t0)) as [|[o b] r] eqn:Ed; [discriminate|]. intros [= <-].
    destruct (drop_lt_split _ _ _ Ed) as [pre Hp]. pose proof (drop_lt_head _ _ _ _ Ed) as ->.
    apply (inv2_pop i st pre o false r true HI); [rewrite Et; exact Hp | intros _; exact HE].
  - intros [= <-]. apply (inv2_push i st true HI HE).
  - destruct (l2_type st) as [|[o [|]] r] eqn:Et; try (intros [= <-]; apply inv2_weaken; exact HI).
    intros [= <-]. apply (inv2_pop i st [] o true r false HI Et). discriminate.
  - destruct (l2_type st) as [|[o [|]] r] eqn:Et; try (intros [= <-]; apply inv2_weaken; exact HI).
    destruct pop; [|intros [= <-]; apply inv2_weaken; exact HI].
    destruct link; intros [= <-].
    + apply (inv2_pop i st [] o true r true HI Et). intros _. exact HE.
    + apply (inv2_pop i st [] o true r false HI Et). discriminate.
  - intros [= <-]. apply inv2_weaken; exact HI.
Qed.

Definition agree2 (i : N) (es : list ev2) : Prop :=
  forall k e, nth_error es k = Some e -> E (i + N.of_nat k) = e.

Lemma loop2_inv : forall es i st st',
  agree2 i es -> Inv2 i st -> loop2 st i es = S2Cont st' -> Inv2 (i + N.of_nat (length es)) st'.
Proof.
  induction es as [|e es IH]; intros i st st' Ha HI H; cbn [loop2 length] in *.
  - injection H as <-. rewrite N.add_0_r. exact HI.
  - assert (He : E i = e) by (specialize (Ha O e eq_refl); rewrite N.add_0_r in Ha; exact Ha).
    assert (Ha' : agree2 (i + 1) es).
    { intros k x Hk. specialize (Ha (S k) x Hk). rewrite <- Ha. f_equal. lia. }
    subst e. destruct (step2 st i (E i)) as [s|] eqn:Es; [|discriminate].
    replace (i + N.of_nat (S (length es))) with (i + 1 + N.of_nat (length es)) by lia.
    eapply IH; eauto. eapply inv2_step; eauto.
Qed.
End Inv2.

Theorem links2_nested es st :
  create_links2 es = S2Cont st ->
  let E := fun p => nth (N.to_nat p) es E2Other in
  (* every recorded pair: an opening position before its closing position, of one kind *)
  (forall o c b, In (o, c, b) (l2_pairs st) ->
     o < c /\ c < N.of_nat (length es) /\
     (if b then E o = E2Lt /\ E c = E2Gt true true else E o = E2Open /\ E c = E2Close)) /\
  (* '<' '>' pairs and bracket pairs together are pairwise disjoint or nested *)
  pairs_ok (map pr (l2_pairs st)) /\
  ForallOrdPairs nested_or_disjoint (map pr (l2_pairs st)).
Proof.
  intros H E. unfold create_links2 in H.
  assert (Ha : agree2 E 0 es).
  { intros k e Hk. unfold E. rewrite N.add_0_l, Nat2N.id. apply nth_error_nth. exact Hk. }
  pose proof (loop2_inv E es 0 _ st Ha (inv2_init E) H) as [T Ss P Sp N0]. rewrite N.add_0_l in P.
  split; [exact P|]. split; [exact N0 | apply pairs_ok_pairwise; exact N0].
Qed.
