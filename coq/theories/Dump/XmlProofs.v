(* ErrorLogger::toxml produces attribute-safe text (C14 toxml_attr_safe). *)
From CV Require Import Base.Bytes Ctu.Defs.
Require Import Lia ZifyBool.
Local Open Scope N_scope.

(* a character that may stand for itself inside a quoted XML attribute value *)
Definition plain_char (c : N) : bool :=
  (32 <=? c) && (c <=? 127) && negb (c =? 60) && negb (c =? 62) && negb (c =? 38)
  && negb (c =? 34) && negb (c =? 39).

(* the references the writer uses: &lt; &gt; &amp; &quot; &apos; &#10; &#09; &#13; *)
Definition entities : list str :=
  [[38;108;116;59]; [38;103;116;59]; [38;97;109;112;59]; [38;113;117;111;116;59];
   [38;97;112;111;115;59]; [38;35;49;48;59]; [38;35;48;57;59]; [38;35;49;51;59]].

(* attribute-safe text: plain characters and complete references, nothing else *)
Inductive attr_safe : str -> Prop :=
| AS_nil : attr_safe []
| AS_plain c r : plain_char c = true -> attr_safe r -> attr_safe (c :: r)
| AS_ent e r : In e entities -> attr_safe r -> attr_safe (e ++ r).

Lemma toxml_char_safe c r : attr_safe r -> attr_safe (toxml_char c ++ r).
Proof.
  intros Hr. unfold toxml_char.
  destruct (c =? 60) eqn:E1. { apply (AS_ent [38;108;116;59]); [cbn; tauto | exact Hr]. }
  destruct (c =? 62) eqn:E2. { apply (AS_ent [38;103;116;59]); [cbn; tauto | exact Hr]. }
  destruct (c =? 38) eqn:E3. { apply (AS_ent [38;97;109;112;59]); [cbn; tauto | exact Hr]. }
  destruct (c =? 34) eqn:E4. { apply (AS_ent [38;113;117;111;116;59]); [cbn; tauto | exact Hr]. }
  destruct (c =? 39) eqn:E5. { apply (AS_ent [38;97;112;111;115;59]); [cbn; tauto | exact Hr]. }
  destruct (c =? 0) eqn:E6. { cbn [app]. apply AS_plain; [reflexivity|]. apply AS_plain; [reflexivity| exact Hr]. }
  destruct (c =? 10) eqn:E7. { apply (AS_ent [38;35;49;48;59]); [cbn; tauto | exact Hr]. }
  destruct (c =? 9) eqn:E8. { apply (AS_ent [38;35;48;57;59]); [cbn; tauto | exact Hr]. }
  destruct (c =? 13) eqn:E9. { apply (AS_ent [38;35;49;51;59]); [cbn; tauto | exact Hr]. }
  destruct ((32 <=? c) && (c <=? 127)) eqn:E10.
  - cbn [app]. apply AS_plain; [| exact Hr]. unfold plain_char. rewrite E10, E1, E2, E3, E4, E5. reflexivity.
  - cbn [app]. apply AS_plain; [reflexivity | exact Hr].
Qed.

Theorem toxml_attr_safe : forall s, attr_safe (toxml s).
Proof.
  unfold toxml. induction s as [|c s IH]; cbn [flat_map].
  - constructor.
  - apply toxml_char_safe, IH.
Qed.

(* consequence, byte by byte: printable range only, and none of the four characters lt, gt, double quote, apostrophe raw; an ampersand only as
   the first character of a reference, by attr_safe *)
Definition out_byte_ok (c : N) : Prop :=
  32 <= c <= 127 /\ c <> 60 /\ c <> 62 /\ c <> 34 /\ c <> 39.

Lemma attr_safe_bytes s : attr_safe s -> Forall out_byte_ok s.
Proof.
  induction 1.
  - constructor.
  - constructor; [| assumption]. unfold plain_char in H. unfold out_byte_ok. lia.
  - apply Forall_app; split; [| assumption].
    cbn in H. unfold out_byte_ok.
    repeat (destruct H as [H|H]; [subst e; repeat constructor; lia|]). contradiction.
Qed.

Theorem toxml_bytes_ok s : Forall out_byte_ok (toxml s).
Proof. apply attr_safe_bytes, toxml_attr_safe. Qed.

