(* C14  Dump output is well-formed and self-consistent: the model.

   Code modelled:
     lib/tokenize.cpp  linkBrackets / Tokenizer::createLinks       -> link_brackets / step_tok / create_links
     lib/token.cpp     Token::astParent(Token* tok)                    -> ast_set_parent
                       Token::astTop() (lib/token.h, with the mAstTop cache) -> ast_top
                       Token::astOperand1 / astOperand2            -> ast_set_op true / false
                       Token::astTop(Token* tok) (the cache setter)    -> OTop in run_ops
     lib/errorlogger.cpp ErrorLogger::toxml                        -> Ctu.Defs.toxml (shared with C22)
     addons/cppcheckdata.py  Configuration.set_id_map (IdMap, setId)-> build_idmap / resolve
   and the dump validator (check_doc) that the check runs over real --dump files.

   Positions and ids are N.  No proofs in this file. *)
From CV Require Import Base.Bytes.
From Coq Require Import FMapPositive.
Local Open Scope N_scope.

(* ================================================================== (i) createLinks *)
Definition first_char (s : str) : N := match s with c :: _ => c | [] => 0 end.

(* the three bracket kinds of createLinks: links1 '{' '}', links2 '(' ')', links3 '[' ']' *)
Inductive bk := B1 | B2 | B3.
Definition bk_open (k : bk) : N := match k with B1 => 123 | B2 => 40 | B3 => 91 end.
Definition bk_close (k : bk) : N := match k with B1 => 125 | B2 => 41 | B3 => 93 end.

Record lstate := mkL {
  l_type : list (N * N);   (* std::stack<const Token*> type : (position, first character), top first *)
  l_1 : list N; l_2 : list N; l_3 : list N;   (* links1 / links2 / links3, top first *)
  l_pairs : list (N * N)   (* calls of Token::createMutualLinks(open, close), latest first *)
}.

Definition get_links (k : bk) (st : lstate) : list N :=
  match k with B1 => l_1 st | B2 => l_2 st | B3 => l_3 st end.
Definition set_links (k : bk) (v : list N) (st : lstate) : lstate :=
  match k with
  | B1 => mkL (l_type st) v (l_2 st) (l_3 st) (l_pairs st)
  | B2 => mkL (l_type st) (l_1 st) v (l_3 st) (l_pairs st)
  | B3 => mkL (l_type st) (l_1 st) (l_2 st) v (l_pairs st)
  end.
Definition set_type (v : list (N * N)) (st : lstate) : lstate :=
  mkL v (l_1 st) (l_2 st) (l_3 st) (l_pairs st).
Definition add_pair (p : N * N) (st : lstate) : lstate :=
  mkL (l_type st) (l_1 st) (l_2 st) (l_3 st) (p :: l_pairs st).

(* SUnm i = unmatchedToken(token at i) thrown; SStuck = type.top() on an empty stack (undefined
   behaviour in the C++; proved unreachable) *)
Inductive lstep := SCont (st : lstate) | SUnm (i : N) | SStuck.

(* static void linkBrackets(tokenizer, type, links, token, open, close) *)
Definition link_brackets (st : lstate) (k : bk) (i c : N) : lstep :=
  if c =? bk_open k then
    SCont (set_type ((i, c) :: l_type st) (set_links k (i :: get_links k st) st))
  else if c =? bk_close k then
    match get_links k st with
    | [] => SUnm i
    | o :: rest =>
        match l_type st with
        | [] => SStuck
        | (ti, tc) :: trest =>
            if tc =? bk_open k
            then SCont (add_pair (o, i) (set_links k rest (set_type trest st)))
            else SUnm ti
        end
    end
  else SCont st.

(* body of the token loop of Tokenizer::createLinks (the old link is reset first, so the
   result depends on the token texts only) *)
Definition step_tok (st : lstate) (i c : N) : lstep :=
  match link_brackets st B1 i c with
  | SCont s1 => match link_brackets s1 B2 i c with
                | SCont s2 => link_brackets s2 B3 i c
                | r => r
                end
  | r => r
  end.

Fixpoint links_loop (st : lstate) (i : N) (cs : list N) : lstep :=
  match cs with
  | [] => SCont st
  | c :: r => match step_tok st i c with
              | SCont s => links_loop s (i + 1) r
              | e => e
              end
  end.

Definition l_init : lstate := mkL [] [] [] [] [].

Inductive lres := LOk (pairs : list (N * N)) | LUnmatched (i : N) | LStuck.

Definition links_finish (st : lstate) : lres :=
  match l_1 st with
  | o :: _ => LUnmatched o
  | [] => match l_2 st with
          | o :: _ => LUnmatched o
          | [] => match l_3 st with
                  | o :: _ => LUnmatched o
                  | [] => LOk (l_pairs st)
                  end
          end
  end.

Definition create_links_chars (cs : list N) : lres :=
  match links_loop l_init 0 cs with
  | SCont st => links_finish st
  | SUnm i => LUnmatched i
  | SStuck => LStuck
  end.

Definition create_links (ts : list str) : lres := create_links_chars (map first_char ts).

(* Token::link() after createMutualLinks(o, c) for every pair *)
Definition link_of (P : list (N * N)) (i : N) : option N :=
  match find (fun p => (fst p =? i) || (snd p =? i)) P with
  | Some (o, c) => Some (if o =? i then c else o)
  | None => None
  end.

(* ================================================================== (i') createLinks2: the stack core
   Tokenizer::createLinks2 links '<' with '>' using ONE stack `type` that holds the already linked
   { [ ( and the '<' candidates. Which '<' is pushed, which '>' links or is skipped, and when the
   || && ; branch discards candidates is decided by Token::Match heuristics; they are abstracted as
   the event the loop body performs on the stack, so the theorem covers every outcome of them. *)
Inductive ev2 :=
| E2Open                 (* linked { [ ( : type.push(token) *)
| E2Close                (* linked } ] ) : pop the '<' on top, then the opener *)
| E2Lt                   (* '<' taken as a template bracket: type.push(token) *)
| E2Drop                 (* || && ; branch: one type.pop() while the top is '<' *)
| E2Gt (pop link : bool) (* '>' (or one half of a split '>>') with a '<' on top: `continue` before the pop
                            (pop = false), pop without linking, or pop and createMutualLinks *)
| E2Other.

Record l2state := mkL2 {
  l2_type : list (N * bool);           (* (position, is '<'), top first *)
  l2_pairs : list (N * N * bool)       (* (open, close, is '<>'), latest first; bracket pairs are recorded as well *)
}.
Inductive l2step := S2Cont (st : l2state) | S2Stuck.   (* S2Stuck: type.top() on an empty stack *)

Fixpoint drop_lt (t : list (N * bool)) : list (N * bool) :=
  match t with
  | (_, true) :: r => drop_lt r
  | _ => t
  end.

Definition step2 (st : l2state) (i : N) (e : ev2) : l2step :=
  match e with
  | E2Open => S2Cont (mkL2 ((i, false) :: l2_type st) (l2_pairs st))
  | E2Lt => S2Cont (mkL2 ((i, true) :: l2_type st) (l2_pairs st))
  | E2Close =>
      match l2_type st with
      | [] => S2Cont st                                   (* !type.empty() && ... *)
      | _ => match drop_lt (l2_type st) with
             | [] => S2Stuck
             | (o, _) :: r => S2Cont (mkL2 r ((o, i, false) :: l2_pairs st))
             end
      end
  | E2Drop =>
      match l2_type st with
      | (_, true) :: r => S2Cont (mkL2 r (l2_pairs st))
      | _ => S2Cont st
      end
  | E2Gt pop link =>
      match l2_type st with
      | (o, true) :: r =>
          if pop then S2Cont (mkL2 r (if link then (o, i, true) :: l2_pairs st else l2_pairs st))
          else S2Cont st
      | _ => S2Cont st
      end
  | E2Other => S2Cont st
  end.

Fixpoint loop2 (st : l2state) (i : N) (es : list ev2) : l2step :=
  match es with
  | [] => S2Cont st
  | e :: r => match step2 st i e with
              | S2Cont s => loop2 s (i + 1) r
              | S2Stuck => S2Stuck
              end
  end.
Definition create_links2 (es : list ev2) : l2step := loop2 (mkL2 [] []) 0 es.

(* ================================================================== (ii) the AST setters *)
Record heap := mkH {
  h_par : N -> option N;   (* mAstParent *)
  h_op1 : N -> option N;   (* mAstOperand1 *)
  h_op2 : N -> option N;   (* mAstOperand2 *)
  h_top : N -> option N    (* mAstTop (cache written by the astTop setter) *)
}.
Definition h_empty : heap := mkH (fun _ => None) (fun _ => None) (fun _ => None) (fun _ => None).

Definition upd (f : N -> option N) (k : N) (v : option N) : N -> option N :=
  fun x => if x =? k then v else f x.
Definition oeqb (a : option N) (b : N) : bool := match a with Some x => x =? b | None => false end.

Definition set_par (h : heap) (k : N) (v : option N) := mkH (upd (h_par h) k v) (h_op1 h) (h_op2 h) (h_top h).
Definition set_op1 (h : heap) (k : N) (v : option N) := mkH (h_par h) (upd (h_op1 h) k v) (h_op2 h) (h_top h).
Definition set_op2 (h : heap) (k : N) (v : option N) := mkH (h_par h) (h_op1 h) (upd (h_op2 h) k v) (h_top h).
Definition set_top (h : heap) (k : N) (v : option N) := mkH (h_par h) (h_op1 h) (h_op2 h) (upd (h_top h) k v).

Inductive status := SOk | SCyclic | SFuel.

(* const Token* tok2 = tok; while (tok2) { if (this == tok2) throw; tok2 = tok2->astParent(); }
   Some true = thrown, Some false = loop left, None = out of fuel *)
Fixpoint on_chain (fuel : nat) (h : heap) (this : N) (t : option N) : option bool :=
  match t with
  | None => Some false
  | Some x =>
      if x =? this then Some true
      else match fuel with
           | O => None
           | S f => on_chain f h this (h_par h x)
           end
  end.

(* void Token::astParent(Token* tok)   (this->astParent(tok)) *)
Definition ast_set_parent (fuel : nat) (h : heap) (this : N) (tok : option N) : heap * status :=
  match on_chain fuel h this tok with
  | None => (h, SFuel)
  | Some true => (h, SCyclic)
  | Some false =>
      let h1 := match h_par h this with
                | Some p =>
                    let ha := if oeqb (h_op1 h p) this then set_op1 h p None else h in
                    if oeqb (h_op2 ha p) this then set_op2 ha p None else ha
                | None => h
                end in
      (set_par h1 this tok, SOk)
  end.

(* Token::astTop(): the cached mAstTop if set, else walk the parents *)
Fixpoint walk_top (fuel : nat) (h : heap) (x : N) : option N :=
  match h_par h x with
  | None => Some x
  | Some p => match fuel with O => None | S f => walk_top f h p end
  end.
Definition ast_top (fuel : nat) (h : heap) (x : N) : option N :=
  match h_top h x with Some t => Some t | None => walk_top fuel h x end.

(* void Token::astOperand1(Token* tok) (which = true) / astOperand2 (which = false).
   On a throw the heap is returned as the C++ leaves it (old operand already detached). *)
Definition get_op (which : bool) (h : heap) (k : N) : option N := if which then h_op1 h k else h_op2 h k.
Definition set_op (which : bool) (h : heap) (k : N) (v : option N) : heap :=
  if which then set_op1 h k v else set_op2 h k v.

Definition ast_set_op (which : bool) (fuel : nat) (h : heap) (this : N) (tok : option N) : heap * status :=
  let '(h1, s1) := match get_op which h this with
                   | Some c => ast_set_parent fuel h c None
                   | None => (h, SOk)
                   end in
  match s1 with
  | SOk =>
      match tok with
      | Some t =>
          match ast_top fuel h1 t with
          | None => (h1, SFuel)
          | Some t' =>
              let '(h2, s2) := ast_set_parent fuel h1 t' (Some this) in
              match s2 with
              | SOk => (set_op which h2 this (Some t'), SOk)
              | _ => (h2, s2)
              end
          end
      | None => (set_op which h1 this None, SOk)
      end
  | _ => (h1, s1)
  end.

Inductive aop :=
| OSet1 (p : N) (c : option N)
| OSet2 (p : N) (c : option N)
| OTop (x : N) (t : option N).

Definition run_op (fuel : nat) (h : heap) (o : aop) : heap * status :=
  match o with
  | OSet1 p c => ast_set_op true fuel h p c
  | OSet2 p c => ast_set_op false fuel h p c
  | OTop x t => (set_top h x t, SOk)
  end.

(* runs until the first exception; returns the heap, the status and the number of completed ops *)
Fixpoint run_ops (fuel : nat) (h : heap) (ops : list aop) (done : N) : heap * status * N :=
  match ops with
  | [] => (h, SOk, done)
  | o :: r => match run_op fuel h o with
              | (h', SOk) => run_ops fuel h' r (done + 1)
              | (h', s) => (h', s, done)
              end
  end.

(* ================================================================== (iv) the dump as a document *)
Inductive kind := KToken | KScope | KContainer | KFunction | KVariable | KValues | KType.
Definition kind_eqb (a b : kind) : bool :=
  match a, b with
  | KToken, KToken | KScope, KScope | KContainer, KContainer | KFunction, KFunction
  | KVariable, KVariable | KValues, KValues | KType, KType => true
  | _, _ => false
  end.

(* one element that carries an id; e_str is the token text (tokens only) *)
Record elem := mkE { e_kind : kind; e_id : N; e_str : str }.

(* one id-valued attribute: owner element id, attribute name, target id, the kind the target
   must have, and whether cppcheckdata.py reads it with IdMap[...] (strict, KeyError when
   missing) or IdMap.get(...) / not at all (lenient) *)
Record ref := mkR { r_owner : N; r_attr : str; r_target : N; r_kind : kind; r_strict : bool }.

Record doc := mkD { d_elems : list elem; d_refs : list ref }.

Module PM := PositiveMap.
Definition nkey (n : N) : positive := N.succ_pos n.
Definition nfind {A} (n : N) (m : PM.t A) : option A := PM.find (nkey n) m.
Definition nadd {A} (n : N) (v : A) (m : PM.t A) : PM.t A := PM.add (nkey n) v m.

(* IdMap = {None: None, '0': None, ...}; then IdMap[x.Id] = x in list order (later wins) *)
Fixpoint build_idmap (es : list elem) (m : PM.t elem) : PM.t elem :=
  match es with
  | [] => m
  | e :: r => build_idmap r (nadd (e_id e) e m)
  end.

Definition is_null (id : N) : bool := id =? 0.

Inductive rres := RNull | RFound (e : elem) | RMissing.
Definition lookup (m : PM.t elem) (id : N) : rres :=
  if is_null id then RNull
  else match nfind id m with Some e => RFound e | None => RMissing end.

(* second pass (setId): every attribute is looked up; a strict miss raises *)
Inductive resolved := Resolved (g : list (ref * option elem)) | Dangling (r : ref).

Fixpoint resolve_refs (m : PM.t elem) (rs : list ref) (acc : list (ref * option elem)) : resolved :=
  match rs with
  | [] => Resolved (rev_append acc [])
  | r :: rest =>
      match lookup m (r_target r) with
      | RNull => resolve_refs m rest ((r, None) :: acc)
      | RFound e => resolve_refs m rest ((r, Some e) :: acc)
      | RMissing => if r_strict r then Dangling r else resolve_refs m rest ((r, None) :: acc)
      end
  end.

Definition resolve (d : doc) : resolved :=
  resolve_refs (build_idmap (d_elems d) (PM.empty elem)) (d_refs d) [].

(* ------------------------------------------------------------------ the validator *)
(* 1. ids are unique *)
Fixpoint dup_id (es : list elem) (seen : PM.t unit) : option N :=
  match es with
  | [] => None
  | e :: r => match nfind (e_id e) seen with
              | Some _ => Some (e_id e)
              | None => dup_id r (nadd (e_id e) tt seen)
              end
  end.

(* 2. every reference is null or resolves to an element of the required kind *)
Definition ref_ok (m : PM.t elem) (r : ref) : bool :=
  match lookup m (r_target r) with
  | RNull => true
  | RFound e => kind_eqb (e_kind e) (r_kind r)
  | RMissing => false
  end.

(* attribute names the checker interprets *)
Definition A_LINK : str := [116;111;107;101;110;46;108;105;110;107].  (* "token.link" *)
Definition A_PARENT : str := [116;111;107;101;110;46;97;115;116;80;97;114;101;110;116].  (* "token.astParent" *)
Definition A_OP1 : str := [116;111;107;101;110;46;97;115;116;79;112;101;114;97;110;100;49].  (* "token.astOperand1" *)
Definition A_OP2 : str := [116;111;107;101;110;46;97;115;116;79;112;101;114;97;110;100;50].  (* "token.astOperand2" *)

(* attribute tables: owner id -> target id, for one attribute name *)
Fixpoint attr_map (a : str) (rs : list ref) (m : PM.t N) : PM.t N :=
  match rs with
  | [] => m
  | r :: rest => attr_map a rest (if str_eqb (r_attr r) a then nadd (r_owner r) (r_target r) m else m)
  end.

Definition nz (o : option N) : option N :=
  match o with Some 0 => None | x => x end.
Definition get (m : PM.t N) (x : N) : option N := nz (nfind x m).

Record tables := mkT { t_link : PM.t N; t_par : PM.t N; t_o1 : PM.t N; t_o2 : PM.t N }.
Definition mk_tables (rs : list ref) : tables :=
  mkT (attr_map A_LINK rs (PM.empty N)) (attr_map A_PARENT rs (PM.empty N))
      (attr_map A_OP1 rs (PM.empty N)) (attr_map A_OP2 rs (PM.empty N)).

(* 3. AST edges agree, per token x *)
Definition ast_ok_at (t : tables) (x : N) : bool :=
  (match get (t_par t) x with
   | Some p => oeqb (get (t_o1 t) p) x || oeqb (get (t_o2 t) p) x
   | None => true
   end) &&
  (match get (t_o1 t) x with
   | Some c => oeqb (get (t_par t) c) x && negb (oeqb (get (t_o2 t) x) c)
   | None => true
   end) &&
  (match get (t_o2 t) x with
   | Some c => oeqb (get (t_par t) c) x
   | None => true
   end).

(* the parent chain of x ends within fuel steps *)
Fixpoint reaches_root (fuel : nat) (t : tables) (x : N) : bool :=
  match get (t_par t) x with
  | None => true
  | Some p => match fuel with O => false | S f => reaches_root f t p end
  end.

(* 4. links are mutual *)
Definition link_ok_at (t : tables) (x : N) : bool :=
  match get (t_link t) x with
  | Some y => oeqb (get (t_link t) y) x && negb (y =? x)
  | None => true
  end.

(* 5. the links of { } ( ) [ ] tokens are exactly what createLinks computes on the dumped
   token sequence (symmetric, matching kinds, properly nested) *)
Definition is_bracket_char (c : N) : bool :=
  (c =? 123) || (c =? 125) || (c =? 40) || (c =? 41) || (c =? 91) || (c =? 93).

Fixpoint tokens_of (es : list elem) : list elem :=
  match es with
  | [] => []
  | e :: r => if kind_eqb (e_kind e) KToken then e :: tokens_of r else tokens_of r
  end.

Fixpoint index_map (ts : list elem) (i : N) (m : PM.t N) : PM.t N :=
  match ts with
  | [] => m
  | e :: r => index_map r (i + 1) (nadd (e_id e) i m)
  end.

(* position of the link target of every bracket token, in token order (None: not a bracket) *)
Definition dumped_bracket_links (t : tables) (ts : list elem) (pos : PM.t N) : list (N * option N) :=
  flat_map (fun e => if is_bracket_char (first_char (e_str e))
                     then match nfind (e_id e) pos with
                          | Some i => [(i, match get (t_link t) (e_id e) with
                                           | Some y => nfind y pos
                                           | None => None
                                           end)]
                          | None => []
                          end
                     else []) ts.

Fixpoint pairs_map (P : list (N * N)) (m : PM.t N) : PM.t N :=
  match P with
  | [] => m
  | (o, c) :: r => pairs_map r (nadd o c (nadd c o m))
  end.

Definition oN_eqb (a b : option N) : bool :=
  match a, b with
  | Some x, Some y => x =? y
  | None, None => true
  | _, _ => false
  end.

(* 6. all links of the dump ({ } ( ) [ ] and < >) are properly nested: one stack of the positions at
   which the open tokens expect their partner *)
Fixpoint nest_check (t : tables) (pos : PM.t N) (ts : list elem) (i : N) (stack : list N) : option N :=
  match ts with
  | [] => None
  | e :: r =>
      match get (t_link t) (e_id e) with
      | None => nest_check t pos r (i + 1) stack
      | Some y =>
          match nfind y pos with
          | None => Some i
          | Some j =>
              if i <? j then nest_check t pos r (i + 1) (j :: stack)
              else match stack with
                   | c :: s' => if c =? i then nest_check t pos r (i + 1) s' else Some i
                   | [] => Some i
                   end
          end
      end
  end.

Inductive verdict :=
| VOk
| VDupId (id : N)
| VDangling (r : ref)
| VAst (tok : N)
| VCycle (tok : N)
| VLink (tok : N)
| VBracketUnmatched (pos : N)
| VBracketLink (pos : N)
| VNesting (pos : N).

Fixpoint first_bad {A} (f : A -> bool) (l : list A) : option A :=
  match l with
  | [] => None
  | x :: r => if f x then first_bad f r else Some x
  end.

Definition check_doc (d : doc) : verdict :=
  match dup_id (d_elems d) (PM.empty unit) with
  | Some id => VDupId id
  | None =>
      let m := build_idmap (d_elems d) (PM.empty elem) in
      match first_bad (ref_ok m) (d_refs d) with
      | Some r => VDangling r
      | None =>
          let t := mk_tables (d_refs d) in
          let ts := tokens_of (d_elems d) in
          let n := length ts in
          match first_bad (fun e => ast_ok_at t (e_id e)) ts with
          | Some e => VAst (e_id e)
          | None =>
              match first_bad (fun e => reaches_root n t (e_id e)) ts with
              | Some e => VCycle (e_id e)
              | None =>
                  match first_bad (fun e => link_ok_at t (e_id e)) ts with
                  | Some e => VLink (e_id e)
                  | None =>
                      match create_links (map e_str ts) with
                      | LOk P =>
                          let pm := pairs_map P (PM.empty N) in
                          let pos := index_map ts 0 (PM.empty N) in
                          match first_bad (fun il => oN_eqb (snd il) (nfind (fst il) pm))
                                          (dumped_bracket_links t ts pos) with
                          | Some il => VBracketLink (fst il)
                          | None => match nest_check t pos ts 0 [] with
                                    | Some i => VNesting i
                                    | None => VOk
                                    end
                          end
                      | LUnmatched i => VBracketUnmatched i
                      | LStuck => VBracketUnmatched 0
                      end
                  end
              end
          end
      end
  end.
