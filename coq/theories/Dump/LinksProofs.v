(* Tokenizer::createLinks: when it succeeds the links are an involution on the bracket
   positions, pair brackets of the same kind, and are properly nested (C14 links_symmetric_nested). *)
From CV Require Import Base.Bytes Dump.Defs.
Require Import Lia ZifyBool Sorted.
Local Open Scope N_scope.

(* ------------------------------------------------------------------ one token *)
Definition do_open (k : bk) (st : lstate) (i c : N) : lstate :=
  set_type ((i, c) :: l_type st) (set_links k (i :: get_links k st) st).

Definition do_close (k : bk) (st : lstate) (i : N) : lstep :=
  match get_links k st with
  | [] => SUnm i
  | o :: rest =>
      match l_type st with
      | [] => SStuck
      | (ti, tc) :: trest =>
          if tc =? bk_open k
          then SCont (add_pair (o, i) (set_links k rest (set_type trest st)))
          else SUnm ti
      end
  end.

Lemma lb_other st k i c : c <> bk_open k -> c <> bk_close k -> link_brackets st k i c = SCont st.
Proof.
  intros H1 H2. unfold link_brackets.
  destruct (c =? bk_open k) eqn:E1; [apply N.eqb_eq in E1; contradiction|].
  destruct (c =? bk_close k) eqn:E2; [apply N.eqb_eq in E2; contradiction|]. reflexivity.
Qed.

Lemma lb_open st k i : link_brackets st k i (bk_open k) = SCont (do_open k st i (bk_open k)).
Proof. unfold link_brackets. rewrite N.eqb_refl. reflexivity. Qed.

Lemma lb_close st k i : link_brackets st k i (bk_close k) = do_close k st i.
Proof.
  unfold link_brackets, do_close.
  destruct (bk_close k =? bk_open k) eqn:E; [destruct k; discriminate|].
  rewrite N.eqb_refl. reflexivity.
Qed.

Lemma step_tok_cases st i c :
  (exists k, c = bk_open k /\ step_tok st i c = SCont (do_open k st i c)) \/
  (exists k, c = bk_close k /\ step_tok st i c = do_close k st i) \/
  (is_bracket_char c = false /\ step_tok st i c = SCont st).
Proof.
  unfold step_tok.
  destruct (N.eq_dec c 123) as [->|N1].
  { left. exists B1. split; [reflexivity|]. rewrite (lb_open st B1). rewrite !lb_other by (cbn; lia). reflexivity. }
  destruct (N.eq_dec c 40) as [->|N2].
  { left. exists B2. split; [reflexivity|]. rewrite (lb_other st B1) by (cbn; lia).
    rewrite (lb_open st B2). rewrite lb_other by (cbn; lia). reflexivity. }
  destruct (N.eq_dec c 91) as [->|N3].
  { left. exists B3. split; [reflexivity|]. rewrite (lb_other st B1) by (cbn; lia).
    rewrite (lb_other st B2) by (cbn; lia). apply (lb_open st B3). }
  destruct (N.eq_dec c 125) as [->|N4].
  { right; left. exists B1. split; [reflexivity|]. rewrite (lb_close st B1).
    destruct (do_close B1 st i); reflexivity. }
  destruct (N.eq_dec c 41) as [->|N5].
  { right; left. exists B2. split; [reflexivity|]. rewrite (lb_other st B1) by (cbn; lia).
    rewrite (lb_close st B2). destruct (do_close B2 st i); reflexivity. }
  destruct (N.eq_dec c 93) as [->|N6].
  { right; left. exists B3. split; [reflexivity|]. rewrite (lb_other st B1) by (cbn; lia).
    rewrite (lb_other st B2) by (cbn; lia). apply (lb_close st B3). }
  right; right. split.
  - unfold is_bracket_char. lia.
  - rewrite !lb_other by (cbn; lia). reflexivity.
Qed.

Lemma bk_open_inj k k' : bk_open k = bk_open k' -> k = k'.
Proof. destruct k, k'; cbn; intros; try reflexivity; lia. Qed.

Lemma open_is_bracket k : is_bracket_char (bk_open k) = true.
Proof. destruct k; reflexivity. Qed.
Lemma close_is_bracket k : is_bracket_char (bk_close k) = true.
Proof. destruct k; reflexivity. Qed.

(* ------------------------------------------------------------------ the invariant *)
(* latest pair first: every earlier pair lies before it or inside it *)
Fixpoint pairs_ok (P : list (N * N)) : Prop :=
  match P with
  | [] => True
  | (o, c) :: r => (forall o' c', In (o', c') r -> c' < o \/ (o < o' /\ c' < c)) /\ pairs_ok r
  end.

Definition kfilter (k : bk) (t : list (N * N)) : list N :=
  map fst (filter (fun pc => snd pc =? bk_open k) t).

Section Inv.
Variable C : N -> N.   (* first character of the token at a position *)

Record Inv (i : N) (st : lstate) : Prop := mkInv {
  inv_type : forall p c, In (p, c) (l_type st) -> p < i /\ C p = c /\ exists k, c = bk_open k;
  inv_sorted : StronglySorted (fun a b => fst b < fst a) (l_type st);
  inv_links : forall k, get_links k st = kfilter k (l_type st);
  inv_pairs : forall o c, In (o, c) (l_pairs st) ->
                o < c /\ c < i /\ exists k, C o = bk_open k /\ C c = bk_close k;
  inv_sep : forall o c p x, In (o, c) (l_pairs st) -> In (p, x) (l_type st) -> p < o \/ c < p;
  inv_nest : pairs_ok (l_pairs st);
  inv_cover : forall p, p < i -> is_bracket_char (C p) = true ->
                (exists x, In (p, x) (l_type st)) \/
                (exists q, In (p, q) (l_pairs st) \/ In (q, p) (l_pairs st))
}.

Lemma inv_init : Inv 0 l_init.
Proof.
  constructor; cbn; try tauto; try (intros; lia).
  - constructor.
  - intros k; destruct k; reflexivity.
Qed.

Lemma get_set_links_same k v st : get_links k (set_links k v st) = v.
Proof. destruct k; reflexivity. Qed.
Lemma get_set_links_other k k' v st : k <> k' -> get_links k' (set_links k v st) = get_links k' st.
Proof. destruct k, k'; intros; try reflexivity; congruence. Qed.
Lemma type_set_links k v st : l_type (set_links k v st) = l_type st.
Proof. destruct k; reflexivity. Qed.
Lemma pairs_set_links k v st : l_pairs (set_links k v st) = l_pairs st.
Proof. destruct k; reflexivity. Qed.
Lemma get_links_set_type k v st : get_links k (set_type v st) = get_links k st.
Proof. destruct k; reflexivity. Qed.
Lemma get_links_add_pair k p st : get_links k (add_pair p st) = get_links k st.
Proof. destruct k; reflexivity. Qed.

Lemma inv_open i st k : Inv i st -> C i = bk_open k -> Inv (i + 1) (do_open k st i (bk_open k)).
Proof.
  intros [Ht Hs Hl Hp Hsep Hn Hc] HC. unfold do_open.
  constructor; cbn [l_type l_pairs set_type]; rewrite ?pairs_set_links.
  - intros p c [E|H].
    + injection E as <- <-. split; [lia|]. split; [exact HC|]. eauto.
    + destruct (Ht p c H) as (A & B & D). split; [lia|]. tauto.
  - constructor; [exact Hs|]. apply Forall_forall. intros [p c] H. cbn. apply Ht in H. lia.
  - intros k'. rewrite get_links_set_type. unfold kfilter. cbn [filter snd].
    destruct (bk_open k =? bk_open k') eqn:E.
    + apply N.eqb_eq, bk_open_inj in E. subst k'. rewrite get_set_links_same. cbn. f_equal. apply Hl.
    + rewrite get_set_links_other by (intros ->; rewrite N.eqb_refl in E; discriminate). apply Hl.
  - intros o c H. destruct (Hp o c H) as (A & B & D). split; [exact A|]. split; [lia| exact D].
  - intros o c p x H [E|H'].
    + injection E as <- <-. right. apply Hp in H. lia.
    + eapply Hsep; eauto.
  - exact Hn.
  - intros p Hlt Hb. destruct (N.eq_dec p i) as [->|Hne].
    + left. exists (bk_open k). left. reflexivity.
    + destruct (Hc p ltac:(lia) Hb) as [[x H]|H].
      * left. exists x. right. exact H.
      * right. exact H.
Qed.

Lemma kfilter_head k ti tc trest o rest :
  kfilter k ((ti, tc) :: trest) = o :: rest -> tc = bk_open k -> o = ti /\ rest = kfilter k trest.
Proof.
  unfold kfilter. cbn [filter snd]. intros H ->. rewrite N.eqb_refl in H. cbn in H.
  injection H as <- <-. split; reflexivity.
Qed.

Lemma kfilter_skip k k' ti trest : k <> k' -> kfilter k' ((ti, bk_open k) :: trest) = kfilter k' trest.
Proof.
  intros H. unfold kfilter. cbn [filter snd].
  destruct (bk_open k =? bk_open k') eqn:E; [apply N.eqb_eq, bk_open_inj in E; contradiction | reflexivity].
Qed.

Lemma inv_close i st k st' :
  Inv i st -> C i = bk_close k -> do_close k st i = SCont st' -> Inv (i + 1) st'.
Proof.
  intros [Ht Hs Hl Hp Hsep Hn Hc] HC. unfold do_close.
  destruct (get_links k st) as [|o rest] eqn:EL; [discriminate|].
  destruct (l_type st) as [|[ti tc] trest] eqn:ET; [discriminate|].
  destruct (tc =? bk_open k) eqn:Ek; [|discriminate].
  apply N.eqb_eq in Ek. intros E. injection E as <-.
  rewrite Hl in EL. destruct (kfilter_head _ _ _ _ _ _ EL Ek) as [-> ->].
  assert (Hti : ti < i /\ C ti = tc) by (destruct (Ht ti tc (or_introl eq_refl)) as (A & B & _); tauto).
  inversion Hs as [|? ? Hs' Hall]; subst.
  constructor; cbn [l_type l_pairs add_pair]; rewrite ?type_set_links, ?pairs_set_links; cbn [l_type l_pairs set_type].
  - intros p c H. destruct (Ht p c (or_intror H)) as (A & B & D). split; [lia|]. tauto.
  - exact Hs'.
  - intros k'. rewrite get_links_add_pair. destruct (N.eq_dec (bk_open k) (bk_open k')) as [E|NE].
    + apply bk_open_inj in E. subst k'. rewrite get_set_links_same. reflexivity.
    + assert (k <> k') by congruence. rewrite get_set_links_other by assumption.
      rewrite get_links_set_type, Hl. apply kfilter_skip. assumption.
  - intros o c [E|H].
    + injection E as <- <-. split; [lia|]. split; [lia|]. exists k. split; [lia | exact HC].
    + destruct (Hp o c H) as (A & B & D). split; [exact A|]. split; [lia | exact D].
  - intros o c p x [E|H] H'.
    + injection E as <- <-. left. rewrite Forall_forall in Hall. apply (Hall (p, x)) in H'. exact H'.
    + eapply Hsep; [exact H | right; exact H'].
  - split; [| exact Hn]. intros o' c' H.
    destruct (Hsep o' c' ti (bk_open k) H (or_introl eq_refl)) as [A|A].
    + right. apply Hp in H. lia.
    + left. exact A.
  - intros p Hlt Hb. destruct (N.eq_dec p i) as [->|Hne].
    + right. exists ti. right. left. reflexivity.
    + destruct (Hc p ltac:(lia) Hb) as [[x [E|H]]|[q H]].
      * injection E as <- <-. right. exists i. left. left. reflexivity.
      * left. exists x. exact H.
      * right. exists q. destruct H; [left | right]; right; assumption.
Qed.

Lemma close_not_stuck i st k : Inv i st -> do_close k st i <> SStuck.
Proof.
  intros [Ht Hs Hl Hp Hsep Hn Hc]. unfold do_close.
  destruct (get_links k st) as [|o rest] eqn:EL; [discriminate|].
  destruct (l_type st) as [|[ti tc] trest] eqn:ET.
  - rewrite Hl in EL. discriminate.
  - destruct (tc =? bk_open k); discriminate.
Qed.

Lemma inv_other i st : Inv i st -> is_bracket_char (C i) = false -> Inv (i + 1) st.
Proof.
  intros [Ht Hs Hl Hp Hsep Hn Hc] Hb. constructor; auto.
  - intros p c H. destruct (Ht p c H) as (A & B & D). split; [lia|]. tauto.
  - intros o c H. destruct (Hp o c H) as (A & B & D). split; [exact A|]. split; [lia | exact D].
  - intros p Hlt Hb'. destruct (N.eq_dec p i) as [->|Hne]; [congruence|]. apply Hc; [lia | exact Hb'].
Qed.

Lemma inv_step i st st' : Inv i st -> step_tok st i (C i) = SCont st' -> Inv (i + 1) st'.
Proof.
  intros HI H. destruct (step_tok_cases st i (C i)) as [(k & E & S)|[(k & E & S)|(E & S)]]; rewrite S in H.
  - injection H as <-. rewrite E. apply inv_open; assumption.
  - eapply inv_close; eauto.
  - injection H as <-. apply inv_other; assumption.
Qed.

Lemma step_not_stuck i st : Inv i st -> step_tok st i (C i) <> SStuck.
Proof.
  intros HI. destruct (step_tok_cases st i (C i)) as [(k & E & S)|[(k & E & S)|(E & S)]]; rewrite S; try discriminate.
  eapply close_not_stuck; eauto.
Qed.

(* the characters of cs sit at positions i, i+1, ... *)
Definition agree (i : N) (cs : list N) : Prop :=
  forall k c, nth_error cs k = Some c -> C (i + N.of_nat k) = c.

Lemma agree_cons i c cs : agree i (c :: cs) -> C i = c /\ agree (i + 1) cs.
Proof.
  intros H. split.
  - specialize (H O c eq_refl). rewrite N.add_0_r in H. exact H.
  - intros k x Hk. specialize (H (S k) x Hk). rewrite <- H. f_equal. lia.
Qed.

Lemma loop_inv : forall cs i st st',
  agree i cs -> Inv i st -> links_loop st i cs = SCont st' -> Inv (i + N.of_nat (length cs)) st'.
Proof.
  induction cs as [|c cs IH]; intros i st st' Ha HI H; cbn [links_loop length] in *.
  - injection H as <-. rewrite N.add_0_r. exact HI.
  - apply agree_cons in Ha. destruct Ha as [Hc Ha]. subst c.
    destruct (step_tok st i (C i)) as [s| |] eqn:E; try discriminate.
    replace (i + N.of_nat (S (length cs))) with (i + 1 + N.of_nat (length cs)) by lia.
    eapply IH; eauto. eapply inv_step; eauto.
Qed.

Lemma loop_not_stuck : forall cs i st, agree i cs -> Inv i st -> links_loop st i cs <> SStuck.
Proof.
  induction cs as [|c cs IH]; intros i st Ha HI; cbn [links_loop].
  - discriminate.
  - apply agree_cons in Ha. destruct Ha as [Hc Ha]. subst c.
    destruct (step_tok st i (C i)) as [s| |] eqn:E; try discriminate.
    + eapply IH; eauto. eapply inv_step; eauto.
    + exfalso. eapply step_not_stuck; eauto.
Qed.

Lemma finish_ok st i P : Inv i st -> links_finish st = LOk P -> l_type st = [] /\ P = l_pairs st.
Proof.
  intros [Ht Hs Hl Hp Hsep Hn Hc]. unfold links_finish.
  destruct (l_1 st) eqn:E1; [|discriminate].
  destruct (l_2 st) eqn:E2; [|discriminate].
  destruct (l_3 st) eqn:E3; [|discriminate].
  intros E. injection E as <-. split; [|reflexivity].
  destruct (l_type st) as [|[p c] t] eqn:ET; [reflexivity|]. exfalso.
  destruct (Ht p c (or_introl eq_refl)) as (_ & _ & k & ->).
  specialize (Hl k). unfold kfilter in Hl. cbn [filter snd] in Hl. rewrite N.eqb_refl in Hl.
  destruct k; cbn in Hl; congruence.
Qed.
End Inv.

(* ------------------------------------------------------------------ link_of on a nested pair list *)
Definition endpoints (P : list (N * N)) : list N := flat_map (fun p => [fst p; snd p]) P.

Lemma pairs_ok_endpoints P :
  (forall o c, In (o, c) P -> o < c) -> pairs_ok P -> NoDup (endpoints P).
Proof.
  induction P as [|[o c] r IH]; intros Hlt Hok; cbn.
  - constructor.
  - destruct Hok as [H1 H2].
    assert (Hoc : o < c) by (apply Hlt; left; reflexivity).
    assert (IHr : NoDup (endpoints r)) by (apply IH; [intros; apply Hlt; right; assumption | exact H2]).
    assert (Hfar : forall x, In x (endpoints r) -> x <> o /\ x <> c).
    { intros x Hx. unfold endpoints in Hx. apply in_flat_map in Hx. destruct Hx as ([o' c'] & Hin & Hx).
      assert (o' < c') by (apply Hlt; right; assumption).
      destruct (H1 o' c' Hin); cbn in Hx; destruct Hx as [<-|[<-|[]]]; lia. }
    constructor.
    + intros [E|Hin]; [lia|]. apply Hfar in Hin. lia.
    + constructor; [|exact IHr]. intros Hin. apply Hfar in Hin. lia.
Qed.

Lemma find_pair_spec P i o c :
  NoDup (endpoints P) -> In (o, c) P -> (o = i \/ c = i) ->
  find (fun p => (fst p =? i) || (snd p =? i)) P = Some (o, c).
Proof.
  induction P as [|[o' c'] r IH]; intros Hnd Hin Hi; [contradiction|].
  cbn [find fst snd]. cbn in Hnd.
  destruct Hin as [E|Hin].
  - injection E as -> ->. replace ((o =? i) || (c =? i)) with true by lia. reflexivity.
  - assert (In o (endpoints r) /\ In c (endpoints r)).
    { unfold endpoints. split; apply in_flat_map; exists (o, c); cbn; tauto. }
    inversion Hnd as [|? ? Ha Hnd']; subst. inversion Hnd' as [|? ? Hb Hnd'']; subst.
    replace ((o' =? i) || (c' =? i)) with false.
    + apply IH; assumption.
    + symmetry. apply orb_false_iff. split; apply N.eqb_neq; intros ->; destruct Hi as [->| ->]; cbn in Ha; tauto.
Qed.

Lemma link_of_spec P i q :
  link_of P i = Some q -> exists o c, In (o, c) P /\ ((o = i /\ q = c) \/ (o <> i /\ c = i /\ q = o)).
Proof.
  unfold link_of. destruct (find _ P) as [[o c]|] eqn:E; [|discriminate].
  apply find_some in E. destruct E as [Hin Hb]. cbn in Hb.
  intros H. injection H as <-. exists o, c. split; [exact Hin|].
  destruct (o =? i) eqn:Eo.
  - left. apply N.eqb_eq in Eo. tauto.
  - right. apply N.eqb_neq in Eo. split; [exact Eo|]. split; [lia | reflexivity].
Qed.

Theorem links_symmetric_nested cs P :
  create_links_chars cs = LOk P ->
  let C := fun p => nth (N.to_nat p) cs 0 in
  let n := N.of_nat (length cs) in
  (* pairs: an opening bracket before a closing bracket of the same kind *)
  (forall o c, In (o, c) P -> o < c /\ c < n /\ exists k, C o = bk_open k /\ C c = bk_close k) /\
  (* every bracket token is linked *)
  (forall p, p < n -> is_bracket_char (C p) = true -> exists q, link_of P p = Some q) /\
  (* links are what the pairs say, and only bracket tokens are linked *)
  (forall p q, link_of P p = Some q -> In (p, q) P \/ In (q, p) P) /\
  (* symmetric: an involution without fixed points *)
  (forall p q, link_of P p = Some q -> link_of P q = Some p /\ p <> q) /\
  (* properly nested, across the three kinds *)
  pairs_ok P.
Proof.
  intros H C n. unfold create_links_chars in H.
  destruct (links_loop l_init 0 cs) as [st| |] eqn:EL; try discriminate.
  assert (Ha : agree C 0 cs).
  { intros k c Hk. unfold C. rewrite N.add_0_l, Nat2N.id. apply nth_error_nth. exact Hk. }
  pose proof (loop_inv C cs 0 l_init st Ha (inv_init C) EL) as HI. rewrite N.add_0_l in HI. fold n in HI.
  destruct (finish_ok C st n P HI H) as [Hty ->].
  destruct HI as [Ht Hs Hl Hp Hsep Hn Hc].
  assert (Hlt : forall o c, In (o, c) (l_pairs st) -> o < c) by (intros o c Hin; apply Hp in Hin; tauto).
  pose proof (pairs_ok_endpoints _ Hlt Hn) as Hnd.
  split; [exact Hp|]. split; [|split; [|split; [|exact Hn]]].
  - intros p Hp' Hb. destruct (Hc p Hp' Hb) as [[x Hx]|[q [Hq|Hq]]].
    + rewrite Hty in Hx. contradiction.
    + exists q. unfold link_of. rewrite (find_pair_spec _ p p q Hnd Hq (or_introl eq_refl)). rewrite N.eqb_refl. reflexivity.
    + exists q. unfold link_of. rewrite (find_pair_spec _ p q p Hnd Hq (or_intror eq_refl)).
      apply Hlt in Hq. replace (q =? p) with false by lia. reflexivity.
  - intros p q Hl'. apply link_of_spec in Hl'. destruct Hl' as (o & c & Hin & [[-> ->]|(_ & -> & ->)]); tauto.
  - intros p q Hl'. apply link_of_spec in Hl'. destruct Hl' as (o & c & Hin & [[-> ->]|(Hne & -> & ->)]).
    + pose proof (Hlt _ _ Hin). split; [|lia]. unfold link_of.
      rewrite (find_pair_spec _ c p c Hnd Hin (or_intror eq_refl)). replace (p =? c) with false by lia. reflexivity.
    + pose proof (Hlt _ _ Hin). split; [|lia]. unfold link_of.
      rewrite (find_pair_spec _ o o p Hnd Hin (or_introl eq_refl)). rewrite N.eqb_refl. reflexivity.
Qed.

Theorem create_links_never_stuck cs : create_links_chars cs <> LStuck.
Proof.
  unfold create_links_chars.
  set (C := fun p => nth (N.to_nat p) cs 0).
  assert (Ha : agree C 0 cs).
  { intros k c Hk. unfold C. rewrite N.add_0_l, Nat2N.id. apply nth_error_nth. exact Hk. }
  destruct (links_loop l_init 0 cs) as [st| |] eqn:EL; try discriminate.
  - unfold links_finish. destruct (l_1 st); [|discriminate]. destruct (l_2 st); [|discriminate].
    destruct (l_3 st); discriminate.
  - exfalso. eapply loop_not_stuck; eauto. apply inv_init.
Qed.

(* pairs_ok in the symmetric wording of the property: any two pairs are disjoint or nested *)
Definition nested_or_disjoint (p q : N * N) : Prop :=
  snd p < fst q \/ snd q < fst p \/ (fst p < fst q /\ snd q < snd p) \/ (fst q < fst p /\ snd p < snd q).

Lemma pairs_ok_pairwise P : pairs_ok P -> ForallOrdPairs nested_or_disjoint P.
Proof.
  induction P as [|[o c] r IH]; intros H.
  - constructor.
  - destruct H as [H1 H2]. constructor; [|apply IH; exact H2].
    apply Forall_forall. intros [o' c'] Hin. unfold nested_or_disjoint. cbn.
    destruct (H1 o' c' Hin); lia.
Qed.
