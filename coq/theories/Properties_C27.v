(* C27  Severity and certainty options gate findings monotonically.
   Statements only. Model: Gate/Defs.v. The theorems are about the gate; that cppcheck's output
   *is* `filter (gate S) candidates` with candidates independent of S is established by the
   differential runs of tools/props/c27.py (the level is "partial"). *)
From CV Require Import Base.Bytes Addon.Defs Gate.Defs Gate.Proofs.

(* what passes the gate has an enabled severity (error always), is inconclusive only with
   --inconclusive, and a condition/default-argument value finding needs `warning` *)
Theorem C27_gate_sound o c :
  gate o c = true ->
  (c_sev c = SError \/ sev_on o (c_sev c) = true)
  /\ (c_inconclusive c = true -> inconclusive_on o = true)
  /\ (forall v, c_value c = Some v ->
        ((v_condition v = true \/ v_defaultArg v = true) -> sev_on o SWarning = true)
        /\ (v_inconclusive v = true -> inconclusive_on o = true)).
Proof. exact (gate_sound o c). Qed.
Print Assumptions C27_gate_sound.

(* enabling more severities / --inconclusive never closes the gate *)
Theorem C27_gate_monotone a b c : opts_le a b -> gate a c = true -> gate b c = true.
Proof. exact (gate_monotone a b c). Qed.
Print Assumptions C27_gate_monotone.

(* for any candidate list: the report under S is a sublist of the report under S' (same
   candidates, same order, rendering untouched), hence a sub-multiset *)
Theorem C27_report_monotone a b cands : opts_le a b -> sublist (report a cands) (report b cands).
Proof. exact (report_monotone a b cands). Qed.
Print Assumptions C27_report_monotone.

Theorem C27_report_submultiset a b cands (p : cand -> bool) :
  opts_le a b -> (length (filter p (report a cands)) <= length (filter p (report b cands)))%nat.
Proof. exact (report_submultiset a b cands p). Qed.
Print Assumptions C27_report_submultiset.

(* the report under S is the gate of S applied to the report with everything enabled *)
Theorem C27_report_is_filter_of_all o cands : report o cands = filter (gate o) (report opts_all cands).
Proof. exact (report_is_filter_of_all o cands). Qed.
Print Assumptions C27_report_is_filter_of_all.

Theorem C27_report_sound o cands c : In c (report o cands) -> In c cands /\ gate o c = true.
Proof. exact (report_sound o cands c). Qed.
Print Assumptions C27_report_sound.

(* non-vacuity *)
Definition ex_small := mkOpts (fun s => match s with SWarning => true | _ => false end) false.
Definition ex_big := mkOpts (fun s => match s with SWarning | SStyle => true | _ => false end) true.
Example C27_ex_le : opts_le ex_small ex_big.
Proof. split; [intros []; cbn; auto; discriminate | discriminate]. Qed.
Example C27_ex_gate_open : gate ex_small (mkCand SWarning false (Some (mkV true false false)) []) = true.
Proof. reflexivity. Qed.
Example C27_ex_gate_closed : gate ex_small (mkCand SStyle false None []) = false.
Proof. reflexivity. Qed.
Example C27_ex_error_always : gate (mkOpts (fun _ => false) false) (mkCand SError false None []) = true.
Proof. reflexivity. Qed.
