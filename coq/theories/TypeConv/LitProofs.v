(* Integer literal types: setValueTypeInTokenList against ISO C 6.4.4.1, for arbitrary platforms and values. *)
From CV Require Import Base.Bytes Lit.Platform TypeConv.Gen_TypeRank TypeConv.Defs TypeConv.Spec TypeConv.Proofs.
Require Import Lia ZifyBool.
Local Open Scope N_scope.

Lemma half_le v m : 1 <= m -> (N.shiftr v 1 <=? m - 1) = (v <? 2 * m).
Proof.
  intros Hm. rewrite N.shiftr_div_pow2. change (2 ^ 1) with 2.
  assert (Hd : v = 2 * (v / 2) + v mod 2) by (apply N.div_mod; lia).
  assert (Hr : v mod 2 < 2) by (apply N.mod_lt; lia).
  generalize dependent (v / 2). generalize dependent (v mod 2). intros r Hr q Hd.
  destruct (N.leb_spec q (m - 1)); destruct (N.ltb_spec v (2 * m)); try reflexivity; lia.
Qed.

Lemma le_pred v m : 1 <= m -> (v <=? m - 1) = (v <? m).
Proof. intros. destruct (N.leb_spec v (m - 1)); destruct (N.ltb_spec v m); try reflexivity; lia. Qed.

(* the literal typing agrees with ISO C 6.4.4.1 whenever the language gives the literal a type *)
Theorem literal_type_spec p dec usfx lcount v t :
  1 <= int_bit p -> int_bit p <= long_bit p -> long_bit p <= longlong_bit p ->
  literal_ctype (widths_of p) dec usfx lcount v = Some t ->
  ctype_of (literal_type p dec usfx lcount v) = Some t.
Proof.
  intros H1 H2 H3.
  unfold literal_type, literal_ctype, is_int_value, is_long_value, is_longlong_value, max_signed, fits.
  set (ib := int_bit p) in *. set (lb := long_bit p) in *. set (llb := longlong_bit p) in *.
  assert (Pi : 1 <= 2 ^ (ib - 1)) by (apply N.lt_pred_le, N.neq_0_lt_0, N.pow_nonzero; lia).
  assert (Pl : 1 <= 2 ^ (lb - 1)) by (apply N.lt_pred_le, N.neq_0_lt_0, N.pow_nonzero; lia).
  assert (Pll : 1 <= 2 ^ (llb - 1)) by (apply N.lt_pred_le, N.neq_0_lt_0, N.pow_nonzero; lia).
  assert (Ei : 2 ^ ib = 2 * 2 ^ (ib - 1)) by (rewrite <- N.pow_succ_r'; f_equal; lia).
  assert (El : 2 ^ lb = 2 * 2 ^ (lb - 1)) by (rewrite <- N.pow_succ_r'; f_equal; lia).
  assert (Ell : 2 ^ llb = 2 * 2 ^ (llb - 1)) by (rewrite <- N.pow_succ_r'; f_equal; lia).
  assert (Mil : 2 ^ (ib - 1) <= 2 ^ (lb - 1)) by (apply N.pow_le_mono_r; lia).
  assert (Mll : 2 ^ (lb - 1) <= 2 ^ (llb - 1)) by (apply N.pow_le_mono_r; lia).
  destruct (N.eqb_spec lcount 0) as [E0|E0]; [subst lcount|];
  [| destruct (N.eqb_spec lcount 1) as [E1|E1]; [subst lcount|] ];
  destruct usfx, dec; cbn [N.eqb N.leb N.compare Pos.compare Pos.compare_cont app find andb negb orb];
  try (replace (lcount <=? 1) with false by (symmetry; apply N.leb_gt; lia));
  cbn [app find andb negb orb];
  unfold fits; cbn [widths_of width is_signed w_int w_long w_llong]; fold ib lb llb;
  rewrite ?Ei, ?El, ?Ell;
  rewrite ?(half_le v _ Pi), ?(half_le v _ Pl), ?(half_le v _ Pll), ?(le_pred v _ Pi), ?(le_pred v _ Pl), ?(le_pred v _ Pll);
  repeat match goal with
         | |- context [?a <? ?b] => destruct (N.ltb_spec a b)
         end; cbn [find andb negb orb]; intros E; inversion E; subst; try reflexivity; try lia.
Qed.
