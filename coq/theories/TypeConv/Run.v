(* Entry point of the extracted executable for C09. *)
From CV Require Import Base.Bytes Lit.Platform Lit.Gen_Platforms TypeConv.Gen_TypeRank TypeConv.Defs TypeConv.Spec TypeConv.Proofs TypeConv.Explain TypeConv.Unary.
Local Open Scope N_scope.

Definition BAD : list str := [[66]].
Definition nd (s : str) : N := match N_of_dec s with Some z => z | None => 0 end.
Definition tag_is (t : str) (name : str) : bool := str_eqb t name.

Definition ctype_of_N (n : N) : option ctype :=
  nth_error [CBool; CSChar; CUChar; CChar; CShort; CUShort; CInt; CUInt; CLong; CULong; CLLong; CULLong] (N.to_nat n).
Definition N_of_ctype (t : ctype) : N :=
  match t with
  | CBool => 0 | CSChar => 1 | CUChar => 2 | CChar => 3 | CShort => 4 | CUShort => 5 | CInt => 6 | CUInt => 7
  | CLong => 8 | CULong => 9 | CLLong => 10 | CULLong => 11
  end.
Definition cop_of_N (n : N) : option cop :=
  nth_error [CArith; CShift; CCompare; CCond] (N.to_nat n).

(* dump spelling: valueType-type, valueType-sign *)
Definition type_name (t : vtype) : str :=
  match t with
  | VBool => [98;111;111;108] | VChar => [99;104;97;114] | VShort => [115;104;111;114;116]
  | VWchar => [119;99;104;97;114;95;116] | VInt => [105;110;116] | VLong => [108;111;110;103]
  | VLongLong => [108;111;110;103;32;108;111;110;103]
  end.
Definition sign_name (s : vsign) : str :=
  match s with SUnknown => [] | SSigned => [115;105;103;110;101;100] | SUnsigned => [117;110;115;105;103;110;101;100] end.
Definition vtype_of_name (s : str) : option vtype :=
  find (fun t => str_eqb (type_name t) s) [VBool; VChar; VShort; VWchar; VInt; VLong; VLongLong].
Definition vsign_of_name (s : str) : vsign :=
  if str_eqb s (sign_name SSigned) then SSigned else if str_eqb s (sign_name SUnsigned) then SUnsigned else SUnknown.
Definition vt_out (v : vt) : list str := [type_name (vt_type v); sign_name (vt_sign v)].
Definition ct_out (o : option ctype) : list str :=
  match o with Some t => [dec_of_N (N_of_ctype t)] | None => [[63]] end.

(* tags: "rt" op a b | "spec" cpp platform op a b | "lit" platform dec usfx lcount value
         | "litspec" platform dec usfx lcount value | "ranks" *)
Definition run (fields : list str) : list str :=
  match fields with
  | [] => BAD
  | tag :: args =>
      if tag_is tag [114;116] then
        match args with
        | [o; a; b] => match cop_of_N (nd o), ctype_of_N (nd a), ctype_of_N (nd b) with
                       | Some op, Some ta, Some tb =>
                           let r := result_type (opk_of op) (vt_of ta) (vt_of tb) in
                           vt_out r ++ ct_out (ctype_of r)
                       | _, _, _ => BAD
                       end
        | _ => BAD
        end
      else if tag_is tag [114;116;118] then
        (* "rtv" op type1 sign1 type2 sign2 : operand types as the dump spells them *)
        match args with
        | [o; t1; s1; t2; s2] =>
            match cop_of_N (nd o), vtype_of_name t1, vtype_of_name t2 with
            | Some op, Some a, Some b =>
                vt_out (result_type (opk_of op) (mkVt a (vsign_of_name s1)) (mkVt b (vsign_of_name s2)))
            | _, _, _ => BAD
            end
        | _ => BAD
        end
      else if tag_is tag [114;116;49] then
        (* "rt1" op(0 arith, 1 incdec) type sign : unary operator on an operand typed as the dump spells it *)
        match args with
        | [o; t1; s1] => match vtype_of_name t1 with
                      | Some a => vt_out (result_type1 (if nd o =? 0 then UArith else UIncDec) (mkVt a (vsign_of_name s1)))
                      | None => BAD
                      end
        | _ => BAD
        end
      else if tag_is tag [115;112;101;99;49] then
        (* "spec1" platform op(0 arith, 1 incdec) a -> ctype, class *)
        match args with
        | [name; o; a] =>
            match find_platform name Gen_platforms, ctype_of_N (nd a) with
            | Some p, Some ta =>
                let op := if nd o =? 0 then UArith else UIncDec in
                ct_out (Some (c_result1 (widths_of p) op ta)) ++ [dec_of_N (explain1 (widths_of p) op ta)]
            | _, _ => BAD
            end
        | _ => BAD
        end
      else if tag_is tag [115;112;101;99] then
        match args with
        | [cpp; name; o; a; b] =>
            match find_platform name Gen_platforms, cop_of_N (nd o), ctype_of_N (nd a), ctype_of_N (nd b) with
            | Some p, Some op, Some ta, Some tb =>
                ct_out (Some (c_result (bool_of_str cpp) (widths_of p) op ta tb)) ++ [dec_of_N (explain (bool_of_str cpp) (widths_of p) op ta tb)]
            | _, _, _, _ => BAD
            end
        | _ => BAD
        end
      else if tag_is tag [108;105;116] then
        match args with
        | [name; dec; usfx; lc; v] =>
            match find_platform name Gen_platforms with
            | Some p => let r := literal_type p (bool_of_str dec) (bool_of_str usfx) (nd lc) (nd v) in
                        vt_out r ++ ct_out (ctype_of r)
            | None => BAD
            end
        | _ => BAD
        end
      else if tag_is tag [108;105;116;115;112;101;99] then
        match args with
        | [name; dec; usfx; lc; v] =>
            match find_platform name Gen_platforms with
            | Some p => ct_out (literal_ctype (widths_of p) (bool_of_str dec) (bool_of_str usfx) (nd lc) (nd v))
            | None => BAD
            end
        | _ => BAD
        end
      else if tag_is tag [114;97;110;107;115] then
        map dec_of_N [rank_BOOL; rank_CHAR; rank_SHORT; rank_WCHAR_T; rank_INT; rank_LONG; rank_LONGLONG; rank_UNKNOWN_INT;
                      rank_FLOAT; rank_DOUBLE; rank_LONGDOUBLE]
      else BAD
  end.
