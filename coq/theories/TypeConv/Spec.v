(* ISO C 6.3.1.1 (integer promotions), 6.3.1.8 (usual arithmetic conversions), 6.5.7 (shifts),
   6.5.8/9/13/14 (comparison and logical operators have type int; bool in C++), 6.5.15 (conditional),
   6.4.4.1 (type of an integer constant), over an arbitrary assignment of widths.  Independent of the model. *)
From Coq Require Import NArith Bool List.
Import ListNotations.
Local Open Scope N_scope.

Inductive ctype := CBool | CSChar | CUChar | CChar | CShort | CUShort | CInt | CUInt | CLong | CULong | CLLong | CULLong.

Record widths := mkW { w_char : N; w_short : N; w_int : N; w_long : N; w_llong : N; w_char_signed : bool }.

Definition width (w : widths) (t : ctype) : N :=
  match t with
  | CBool => 1
  | CSChar | CUChar | CChar => w_char w
  | CShort | CUShort => w_short w
  | CInt | CUInt => w_int w
  | CLong | CULong => w_long w
  | CLLong | CULLong => w_llong w
  end.

Definition is_signed (w : widths) (t : ctype) : bool :=
  match t with
  | CSChar | CShort | CInt | CLong | CLLong => true
  | CChar => w_char_signed w
  | _ => false
  end.

(* conversion rank (6.3.1.1p1) *)
Definition crank (t : ctype) : N :=
  match t with
  | CBool => 0 | CSChar | CUChar | CChar => 1 | CShort | CUShort => 2 | CInt | CUInt => 3
  | CLong | CULong => 4 | CLLong | CULLong => 5
  end.

(* can `int` represent every value of t? *)
Definition int_represents (w : widths) (t : ctype) : bool :=
  if is_signed w t then width w t <=? w_int w else width w t <? w_int w.

Definition promote (w : widths) (t : ctype) : ctype :=
  if crank t <? 3 then (if int_represents w t then CInt else CUInt) else t.

Definition to_unsigned (t : ctype) : ctype :=
  match t with CInt => CUInt | CLong => CULong | CLLong => CULLong | _ => t end.

(* usual arithmetic conversions on promoted operands *)
Definition uac (w : widths) (a b : ctype) : ctype :=
  let a := promote w a in
  let b := promote w b in
  if crank a =? crank b then
    (if is_signed w a && is_signed w b then a else to_unsigned a)
  else
    let '(hi, lo) := if crank a <? crank b then (b, a) else (a, b) in
    if Bool.eqb (is_signed w hi) (is_signed w lo) then hi
    else if negb (is_signed w hi) then hi                        (* unsigned operand has the greater rank *)
    else if width w lo <? width w hi then hi                     (* signed type represents all values of the unsigned one *)
    else to_unsigned hi.

Inductive cop := CArith | CShift | CCompare | CCond.

(* the type of `a op b` in C (cpp = false) or C++ (cpp = true) *)
Definition c_result (cpp : bool) (w : widths) (op : cop) (a b : ctype) : ctype :=
  match op with
  | CArith => uac w a b
  | CShift => promote w a
  | CCompare => if cpp then CBool else CInt
  | CCond => if cpp && (match a, b with
                        | CBool, CBool | CSChar, CSChar | CUChar, CUChar | CChar, CChar | CShort, CShort
                        | CUShort, CUShort => true
                        | _, _ => false end) then a else uac w a b
  end.

(* 6.4.4.1p5: the first type of the list in which the value fits *)
Definition fits (w : widths) (t : ctype) (v : N) : bool :=
  if is_signed w t then v <? 2 ^ (width w t - 1) else v <? 2 ^ width w t.

Definition literal_ctype (w : widths) (dec usfx : bool) (lcount : N) (v : N) : option ctype :=
  let cands :=
    (if lcount =? 0 then (if usfx then [CUInt] else if dec then [CInt] else [CInt; CUInt]) else []) ++
    (if lcount <=? 1 then (if usfx then [CULong] else if dec then [CLong] else [CLong; CULong]) else []) ++
    (if usfx then [CULLong] else if dec then [CLLong] else [CLLong; CULLong]) in
  List.find (fun t => fits w t v) cands.
