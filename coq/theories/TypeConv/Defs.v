(* Result types of operators on integral operands (C09).
   Model of SymbolDatabase::setValueType(Token*, const ValueType&) (lib/symboldatabase.cpp): the
   `<<|>>` branch, the final "integral x integral" branch (arithmetical, bit, ternary, inc/dec,
   assignment operators), the ternary shortcut (type and sign equal); of setValueTypeInTokenList for
   comparison/logical operators and for integer literals.  The integer types are ranked by the
   position of their enumerator in ValueType::Type (Gen_TypeRank.v, regenerated from the header).
   Executable definitions only. *)
From CV Require Import Base.Bytes Lit.Platform TypeConv.Gen_TypeRank.
Local Open Scope N_scope.

Inductive vtype := VBool | VChar | VShort | VWchar | VInt | VLong | VLongLong.
Inductive vsign := SUnknown | SSigned | SUnsigned.
Record vt := mkVt { vt_type : vtype; vt_sign : vsign }.

Definition type_rank (t : vtype) : N :=
  match t with
  | VBool => rank_BOOL | VChar => rank_CHAR | VShort => rank_SHORT | VWchar => rank_WCHAR_T
  | VInt => rank_INT | VLong => rank_LONG | VLongLong => rank_LONGLONG
  end.

(* operator classes as setValueType distinguishes them *)
Inductive opk :=
| OArith        (* isArithmeticalOp: + - * / % ; eBitOp: & | ^ (binary) *)
| OShift        (* << >> *)
| OCompare      (* comparison and logical operators: typed by setValueTypeInTokenList *)
| OTernary.     (* ':' below '?' *)

Definition int_signed : vt := mkVt VInt SSigned.

Definition vt_eqb (a b : vt) : bool :=
  (type_rank (vt_type a) =? type_rank (vt_type b)) &&
  match vt_sign a, vt_sign b with
  | SUnknown, SUnknown | SSigned, SSigned | SUnsigned, SUnsigned => true
  | _, _ => false
  end.

Definition result_type (op : opk) (t1 t2 : vt) : vt :=
  match op with
  | OCompare => mkVt VBool SUnknown
  | OShift =>
      (* vt1->type < BOOL || vt1->type >= INT ? *vt1 : signed int *)
      if (type_rank (vt_type t1) <? rank_BOOL) || (rank_INT <=? type_rank (vt_type t1)) then t1 else int_signed
  | OArith | OTernary =>
      let tern := match op with OTernary => true | _ => false end in
      (* '?' : isTypeEqual (type, pointer, scope ...) and, since /repo 513f3e3, the same sign -> *vt1 *)
      if tern && vt_eqb t1 t2 then t1
      else
        let r :=
          if type_rank (vt_type t2) <? type_rank (vt_type t1) then t1
          else if type_rank (vt_type t1) =? type_rank (vt_type t2) then
            mkVt (vt_type t1)
                 (match vt_sign t1, vt_sign t2 with
                  | SUnsigned, _ | _, SUnsigned => SUnsigned
                  | SUnknown, _ | _, SUnknown => SUnknown
                  | _, _ => SSigned
                  end)
          else t2 in
        if (type_rank (vt_type r) <? rank_INT) &&
           negb (tern && (type_rank (vt_type r) =? rank_BOOL))
        then int_signed else r
  end.

(* ---- integer literals: setValueTypeInTokenList.  dec = MathLib::isDec && !MathLib::isOct (a decimal
   literal; since /repo 75f7975); usfx = a 'u'/'U' occurs;
   lcount = number of l/L in the suffix (i64 counts as 2); value = toBigUNumber *)
Definition max_signed (bits : N) : N := 2 ^ (bits - 1) - 1.
Definition is_int_value (p : platform) (v : N) : bool := v <=? max_signed (int_bit p).
Definition is_long_value (p : platform) (v : N) : bool := v <=? max_signed (long_bit p).
Definition is_longlong_value (p : platform) (v : N) : bool := v <=? max_signed (longlong_bit p).

Definition literal_type (p : platform) (dec usfx : bool) (lcount : N) (value : N) : vt :=
  let sign0 := if usfx then SUnsigned else SSigned in
  let rk : N := if lcount =? 0 then 0 else if lcount =? 1 then 1 else 2 in     (* 0 INT, 1 LONG, 2 LONGLONG *)
  let v1 := if usfx then N.shiftr value 1 else value in
  if (rk =? 0) && is_int_value p v1 then mkVt VInt sign0
  else if (rk =? 0) && negb dec && is_int_value p (N.shiftr value 1) then mkVt VInt SUnsigned
  else if (rk <=? 1) && is_long_value p v1 then mkVt VLong sign0
  else if (rk <=? 1) && negb dec && is_long_value p (N.shiftr value 1) then mkVt VLong SUnsigned
  else if is_longlong_value p v1 then mkVt VLongLong sign0
  else mkVt VLongLong SUnsigned.
