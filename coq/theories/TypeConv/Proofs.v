(* The model's result types against ISO C, over arbitrary widths. *)
From CV Require Import Base.Bytes Lit.Platform TypeConv.Gen_TypeRank TypeConv.Defs TypeConv.Spec.
Require Import Lia ZifyBool.
Local Open Scope N_scope.

Definition vt_of (t : ctype) : vt :=
  match t with
  | CBool => mkVt VBool SUnknown
  | CSChar => mkVt VChar SSigned | CUChar => mkVt VChar SUnsigned | CChar => mkVt VChar SUnknown
  | CShort => mkVt VShort SSigned | CUShort => mkVt VShort SUnsigned
  | CInt => mkVt VInt SSigned | CUInt => mkVt VInt SUnsigned
  | CLong => mkVt VLong SSigned | CULong => mkVt VLong SUnsigned
  | CLLong => mkVt VLongLong SSigned | CULLong => mkVt VLongLong SUnsigned
  end.

Definition ctype_of (v : vt) : option ctype :=
  match vt_type v, vt_sign v with
  | VBool, _ => Some CBool
  | VChar, SSigned => Some CSChar | VChar, SUnsigned => Some CUChar | VChar, SUnknown => Some CChar
  | VShort, SSigned => Some CShort | VShort, SUnsigned => Some CUShort
  | VInt, SSigned => Some CInt | VInt, SUnsigned => Some CUInt
  | VLong, SSigned => Some CLong | VLong, SUnsigned => Some CULong
  | VLongLong, SSigned => Some CLLong | VLongLong, SUnsigned => Some CULLong
  | _, _ => None
  end.

Definition opk_of (op : cop) : opk :=
  match op with CArith => OArith | CShift => OShift | CCompare => OCompare | CCond => OTernary end.

Definition strict (w : widths) : Prop :=
  1 < w_char w /\ w_char w < w_short w /\ w_short w < w_int w /\ w_int w < w_long w /\ w_long w < w_llong w.

Definition widths_of (p : platform) : widths :=
  mkW (p_char_bit p) (short_bit p) (int_bit p) (long_bit p) (longlong_bit p) (p_sign p =? 115).

Ltac decide_cmp :=
  repeat match goal with
         | |- context [?a <? ?b] =>
             first [ replace (a <? b) with true by (symmetry; apply N.ltb_lt; lia)
                   | replace (a <? b) with false by (symmetry; apply N.ltb_ge; lia) ]
         | |- context [?a <=? ?b] =>
             first [ replace (a <=? b) with true by (symmetry; apply N.leb_le; lia)
                   | replace (a <=? b) with false by (symmetry; apply N.leb_gt; lia) ]
         end.

Ltac solve_case :=
  cbv [c_result result_type opk_of vt_of ctype_of uac promote int_represents is_signed width crank to_unsigned
       type_rank vt_type vt_sign vt_eqb int_signed
       rank_BOOL rank_CHAR rank_SHORT rank_WCHAR_T rank_INT rank_LONG rank_LONGLONG
       w_char w_short w_int w_long w_llong w_char_signed Bool.eqb andb orb negb];
  decide_cmp; cbn; try reflexivity.

Lemma result_type_strict_arith w a b : strict w ->
  ctype_of (result_type OArith (vt_of a) (vt_of b)) = Some (uac w a b).
Proof.
  destruct w as [wc ws wi wl wll cs]. unfold strict. cbn [w_char w_short w_int w_long w_llong]. intros (H1 & H2 & H3 & H4 & H5).
  destruct cs; destruct a, b; solve_case.
Qed.

Lemma result_type_strict_shift w a b : strict w ->
  ctype_of (result_type OShift (vt_of a) (vt_of b)) = Some (promote w a).
Proof.
  destruct w as [wc ws wi wl wll cs]. unfold strict. cbn [w_char w_short w_int w_long w_llong]. intros (H1 & H2 & H3 & H4 & H5).
  destruct cs; destruct a; solve_case.
Qed.

Lemma result_type_strict_cond_cpp w a b : strict w ->
  ctype_of (result_type OTernary (vt_of a) (vt_of b)) = Some (c_result true w CCond a b).
Proof.
  destruct w as [wc ws wi wl wll cs]. unfold strict. cbn [w_char w_short w_int w_long w_llong]. intros (H1 & H2 & H3 & H4 & H5).
  destruct cs; destruct a, b; solve_case.
Qed.

(* all operators, C++ reading of comparison and conditional *)
Theorem result_type_spec_under_strict_widths w op a b : strict w ->
  ctype_of (result_type (opk_of op) (vt_of a) (vt_of b)) = Some (c_result true w op a b).
Proof.
  intros H. destruct op.
  - exact (result_type_strict_arith w a b H).
  - exact (result_type_strict_shift w a b H).
  - reflexivity.
  - exact (result_type_strict_cond_cpp w a b H).
Qed.

(* C: arithmetic, bit and shift operators (comparison and ?: differ, see the refutations) *)
Theorem result_type_spec_c_under_strict_widths w op a b : strict w -> op = CArith \/ op = CShift ->
  ctype_of (result_type (opk_of op) (vt_of a) (vt_of b)) = Some (c_result false w op a b).
Proof.
  intros H [->| ->]; [exact (result_type_strict_arith w a b H) | exact (result_type_strict_shift w a b H)].
Qed.

