(* Unary operators (C09): + - ~ and ++ -- on an integral operand.
   Code (setValueType with vt2 == nullptr, lib/symboldatabase.cpp): the parent of a single operand that is
   an arithmetical, bit or inc/dec operator gets *vt1; "below INT => signed int" applies to the
   arithmetical and bit operators (to inc/dec as well before /repo 4cd9f32).  ISO C: + - ~ have the promoted type (6.5.3.3), ++ and -- the type of the operand (6.5.2.4, 6.5.3.1). *)
From CV Require Import Base.Bytes Lit.Platform Lit.Gen_Platforms TypeConv.Gen_TypeRank TypeConv.Defs TypeConv.Spec TypeConv.Proofs
  TypeConv.Explain TypeConv.Parametric.
Require Import Lia ZifyBool.
Local Open Scope N_scope.

Inductive uop := UArith | UIncDec.

Definition result_type1 (op : uop) (t : vt) : vt :=
  match op with
  | UIncDec => t                         (* since /repo 4cd9f32: no promotion for eIncDecOp *)
  | UArith => if type_rank (vt_type t) <? rank_INT then int_signed else t
  end.

Definition c_result1 (w : widths) (op : uop) (a : ctype) : ctype :=
  match op with UArith => promote w a | UIncDec => a end.

(* + - ~ : the promoted type, on every ordered assignment of widths unless the operand is an unsigned type
   below int that int cannot represent (class 2) *)
Theorem unary_arith_spec w a : ordered w ->
  ctype_of (result_type1 UArith (vt_of a)) = Some (promote w a) \/ cause_promotion w a = true.
Proof.
  intros H. rewrite <- (promote_canon w a H), <- (cause_promotion_canon w a H).
  pose proof (canon_in_list w) as Hin.
  assert (Hall : forallb (fun cw => forallb (fun t =>
            match ctype_of (result_type1 UArith (vt_of t)) with
            | Some r => ctype_eqb r (promote cw t) || cause_promotion cw t
            | None => false end) all_ctypes) canon_list = true) by (vm_compute; reflexivity).
  rewrite forallb_forall in Hall. specialize (Hall _ Hin).
  rewrite forallb_forall in Hall. specialize (Hall a (all_ctypes_complete a)).
  destruct (ctype_of (result_type1 UArith (vt_of a))) as [r|]; [|discriminate].
  apply orb_true_iff in Hall as [E|E]; [left | right; exact E].
  f_equal. destruct r, (promote (canon w) a); try discriminate; reflexivity.
Qed.

(* ++ -- : the operand's type, for every operand type (true since /repo 4cd9f32; before, `us++` was typed signed int) *)
Theorem incdec_spec w a : ctype_of (result_type1 UIncDec (vt_of a)) = Some (c_result1 w UIncDec a).
Proof. destruct a; reflexivity. Qed.

(* class of a unary disagreement: 0 agree | 2 promotion | 9 unexplained *)
Definition explain1 (w : widths) (op : uop) (a : ctype) : N :=
  match ctype_of (result_type1 op (vt_of a)) with
  | Some r => if ctype_eqb r (c_result1 w op a) then 0
              else match op with
                   | UArith => if cause_promotion w a then 2 else 9
                   | UIncDec => 9
                   end
  | None => 9
  end.

Theorem unary_deviations_explained w op a : ordered w -> explain1 w op a <> 9.
Proof.
  intros H. destruct op.
  - unfold explain1, c_result1. destruct (unary_arith_spec w a H) as [E|E].
    + rewrite E. assert (ctype_eqb (promote w a) (promote w a) = true) as -> by (destruct (promote w a); reflexivity). discriminate.
    + destruct (ctype_of (result_type1 UArith (vt_of a))) as [r|] eqn:Er; [|destruct a; discriminate].
      destruct (ctype_eqb r (promote w a)); [discriminate|]. rewrite E. discriminate.
  - unfold explain1, c_result1. destruct a; cbn; discriminate.
Qed.
