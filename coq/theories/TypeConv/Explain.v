(* Classification of every disagreement between the model and ISO C by its cause (executable; used by
   the table theorem in Refuted.v and by the check to key known findings). *)
From CV Require Import Base.Bytes Lit.Platform TypeConv.Gen_TypeRank TypeConv.Defs TypeConv.Spec TypeConv.Proofs.
Local Open Scope N_scope.

Definition ctype_eqb (a b : ctype) : bool :=
  match a, b with
  | CBool, CBool | CSChar, CSChar | CUChar, CUChar | CChar, CChar | CShort, CShort | CUShort, CUShort
  | CInt, CInt | CUInt, CUInt | CLong, CLong | CULong, CULong | CLLong, CLLong | CULLong, CULLong => true
  | _, _ => false
  end.

Definition agrees (cpp : bool) (w : widths) (op : cop) (a b : ctype) : bool :=
  match ctype_of (result_type (opk_of op) (vt_of a) (vt_of b)) with
  | Some t => ctype_eqb t (c_result cpp w op a b)
  | None => false
  end.

(* an operand below int that `int` cannot represent (unsigned, as wide as int) *)
Definition cause_promotion (w : widths) (t : ctype) : bool := (crank t <? 3) && negb (int_represents w t).

(* after promotion: different ranks, the higher-ranked operand signed, the other unsigned and equally wide *)
Definition cause_equal_width (w : widths) (a b : ctype) : bool :=
  let a := promote w a in
  let b := promote w b in
  let '(hi, lo) := if crank a <? crank b then (b, a) else (a, b) in
  negb (crank a =? crank b) && is_signed w hi && negb (is_signed w lo) && (width w lo =? width w hi).

Definition small_same (a b : ctype) : bool := ctype_eqb a b && (crank a <? 3).

(* 0 agree | 1 equal width | 2 promotion | 3 C comparison is int | 4 C conditional of one small type | 9 unexplained   (class 5, conditional of two types of one rank, is empty since /repo 513f3e3) *)
Definition explain (cpp : bool) (w : widths) (op : cop) (a b : ctype) : N :=
  if agrees cpp w op a b then 0
  else match op with
       | CCompare => if negb cpp then 3 else 9
       | CShift => if cause_promotion w a then 2 else 9
       | CArith => if cause_promotion w a || cause_promotion w b then 2
                   else if cause_equal_width w a b then 1 else 9
       | CCond => if negb cpp && small_same a b then 4
                  else if cause_promotion w a || cause_promotion w b then 2
                  else if cause_equal_width w a b then 1 else 9
       end.

Definition all_ctypes : list ctype := [CBool; CSChar; CUChar; CChar; CShort; CUShort; CInt; CUInt; CLong; CULong; CLLong; CULLong].
Definition all_cops : list cop := [CArith; CShift; CCompare; CCond].

Definition table_explained (ps : list platform) : bool :=
  forallb (fun p => forallb (fun cpp => forallb (fun op => forallb (fun a => forallb (fun b =>
    negb (explain cpp (widths_of p) op a b =? 9)) all_ctypes) all_ctypes) all_cops) [true; false]) ps.
