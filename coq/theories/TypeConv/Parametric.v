(* The classification of disagreements holds for EVERY assignment of widths with
   1 < char <= short <= int <= long <= long long (any equalities), not only for the shipped platforms:
   the specification, the model and `explain` depend on the widths only through their order type,
   and there are 16 order types (x 2 for the signedness of plain char), each checked by computation. *)
From CV Require Import Base.Bytes Lit.Platform TypeConv.Gen_TypeRank TypeConv.Defs TypeConv.Spec TypeConv.Proofs TypeConv.Explain.
Require Import Lia ZifyBool.
Local Open Scope N_scope.

Definition ordered (w : widths) : Prop :=
  1 < w_char w /\ w_char w <= w_short w /\ w_short w <= w_int w /\ w_int w <= w_long w /\ w_long w <= w_llong w.

(* canonical representative of the order type of w *)
Definition canon (w : widths) : widths :=
  let c := 8 in
  let s := if w_char w <? w_short w then c + 8 else c in
  let i := if w_short w <? w_int w then s + 8 else s in
  let l := if w_int w <? w_long w then i + 8 else i in
  let ll := if w_long w <? w_llong w then l + 8 else l in
  mkW c s i l ll (w_char_signed w).

(* the six width values by index *)
Definition sel (w : widths) (k : nat) : N :=
  match k with
  | O => 1 | 1%nat => w_char w | 2%nat => w_short w | 3%nat => w_int w | 4%nat => w_long w | _ => w_llong w
  end.
Definition idx (t : ctype) : nat :=
  match t with
  | CBool => 0 | CSChar | CUChar | CChar => 1 | CShort | CUShort => 2 | CInt | CUInt => 3
  | CLong | CULong => 4 | CLLong | CULLong => 5
  end%nat.
Lemma width_sel w t : width w t = sel w (idx t).
Proof. destruct t; reflexivity. Qed.

Ltac split_order w :=
  destruct w as [wc ws wi wl wll cs]; unfold ordered, canon in *; cbn [w_char w_short w_int w_long w_llong w_char_signed] in *;
  destruct (N.ltb_spec wc ws), (N.ltb_spec ws wi), (N.ltb_spec wi wl), (N.ltb_spec wl wll).

Lemma sel_iso w i j : ordered w -> (i < 6)%nat -> (j < 6)%nat ->
  (sel w i <? sel w j) = (sel (canon w) i <? sel (canon w) j) /\
  (sel w i <=? sel w j) = (sel (canon w) i <=? sel (canon w) j) /\
  (sel w i =? sel w j) = (sel (canon w) i =? sel (canon w) j).
Proof.
  intros H Hi Hj.
  assert (Hi' : (i = 0 \/ i = 1 \/ i = 2 \/ i = 3 \/ i = 4 \/ i = 5)%nat) by lia.
  assert (Hj' : (j = 0 \/ j = 1 \/ j = 2 \/ j = 3 \/ j = 4 \/ j = 5)%nat) by lia.
  clear Hi Hj.
  destruct Hi' as [ -> | [ -> | [ -> | [ -> | [ -> | -> ] ] ] ] ];
  destruct Hj' as [ -> | [ -> | [ -> | [ -> | [ -> | -> ] ] ] ] ];
    split_order w; cbn [sel w_char w_short w_int w_long w_llong N.add Pos.add Pos.succ];
    (split; [|split]);
    match goal with
    | |- ?x = ?x => reflexivity
    | |- (?a <? ?b) = ?r => let v := eval vm_compute in r in
        transitivity v; [lazymatch v with true => apply N.ltb_lt; lia | false => apply N.ltb_ge; lia end | vm_compute; reflexivity]
    | |- (?a <=? ?b) = ?r => let v := eval vm_compute in r in
        transitivity v; [lazymatch v with true => apply N.leb_le; lia | false => apply N.leb_gt; lia end | vm_compute; reflexivity]
    | |- (?a =? ?b) = ?r => let v := eval vm_compute in r in
        transitivity v; [lazymatch v with true => apply N.eqb_eq; lia | false => apply N.eqb_neq; lia end | vm_compute; reflexivity]
    end.
Qed.

Lemma idx_lt t : (idx t < 6)%nat.
Proof. destruct t; cbn; lia. Qed.

Lemma width_iso w a b : ordered w ->
  (width w a <? width w b) = (width (canon w) a <? width (canon w) b) /\
  (width w a <=? width w b) = (width (canon w) a <=? width (canon w) b) /\
  (width w a =? width w b) = (width (canon w) a =? width (canon w) b).
Proof. intros H. rewrite !width_sel. apply sel_iso; auto using idx_lt. Qed.

Lemma is_signed_canon w t : is_signed (canon w) t = is_signed w t.
Proof. destruct t; reflexivity. Qed.

Lemma int_represents_canon w t : ordered w -> int_represents (canon w) t = int_represents w t.
Proof.
  intros H. unfold int_represents. rewrite is_signed_canon.
  change (w_int w) with (width w CInt). change (w_int (canon w)) with (width (canon w) CInt).
  destruct (width_iso w t CInt H) as (E1 & E2 & _). rewrite E1, E2. reflexivity.
Qed.

Lemma promote_canon w t : ordered w -> promote (canon w) t = promote w t.
Proof. intros H. unfold promote. rewrite (int_represents_canon w t H). reflexivity. Qed.

Lemma uac_canon w a b : ordered w -> uac (canon w) a b = uac w a b.
Proof.
  intros H. unfold uac. rewrite !(promote_canon w _ H), !is_signed_canon.
  destruct (crank (promote w a) <? crank (promote w b));
    match goal with
    | |- context [width (canon w) ?x <? width (canon w) ?y] =>
        destruct (width_iso w x y H) as (E & _ & _); rewrite <- E; reflexivity
    end.
Qed.

Lemma c_result_canon cpp w op a b : ordered w -> c_result cpp (canon w) op a b = c_result cpp w op a b.
Proof.
  intros H. unfold c_result. destruct op; rewrite ?(uac_canon w a b H), ?(promote_canon w a H); reflexivity.
Qed.

Lemma agrees_canon cpp w op a b : ordered w -> agrees cpp (canon w) op a b = agrees cpp w op a b.
Proof. intros H. unfold agrees. rewrite (c_result_canon cpp w op a b H). reflexivity. Qed.

Lemma cause_promotion_canon w t : ordered w -> cause_promotion (canon w) t = cause_promotion w t.
Proof. intros H. unfold cause_promotion. rewrite (int_represents_canon w t H). reflexivity. Qed.

Lemma cause_equal_width_canon w a b : ordered w -> cause_equal_width (canon w) a b = cause_equal_width w a b.
Proof.
  intros H. unfold cause_equal_width. rewrite !(promote_canon w _ H).
  destruct (crank (promote w a) <? crank (promote w b)); rewrite !is_signed_canon;
    match goal with
    | |- context [width (canon w) ?x =? width (canon w) ?y] =>
        destruct (width_iso w x y H) as (_ & _ & E); rewrite <- E; reflexivity
    end.
Qed.

Lemma explain_canon cpp w op a b : ordered w -> explain cpp (canon w) op a b = explain cpp w op a b.
Proof.
  intros H. unfold explain.
  rewrite (agrees_canon cpp w op a b H), !(cause_promotion_canon w _ H), (cause_equal_width_canon w a b H). reflexivity.
Qed.

(* the 32 canonical records *)
Definition canon_list : list widths :=
  flat_map (fun cs => flat_map (fun s => flat_map (fun i => flat_map (fun l => map (fun ll => mkW 8 s i l ll cs)
    [l; l + 8]) [i; i + 8]) [s; s + 8]) [8; 16]) [true; false].

Definition list_explained (ws : list widths) : bool :=
  forallb (fun w => forallb (fun cpp => forallb (fun op => forallb (fun a => forallb (fun b =>
    negb (explain cpp w op a b =? 9)) all_ctypes) all_ctypes) all_cops) [true; false]) ws.

Lemma canon_list_explained : list_explained canon_list = true.
Proof. vm_compute. reflexivity. Qed.

Lemma canon_in_list w : In (canon w) canon_list.
Proof.
  destruct w as [wc ws wi wl wll cs]. unfold canon. cbn [w_char w_short w_int w_long w_llong w_char_signed].
  destruct (wc <? ws), (ws <? wi), (wi <? wl), (wl <? wll), cs; vm_compute; tauto.
Qed.

Lemma all_ctypes_complete t : In t all_ctypes.
Proof. destruct t; vm_compute; tauto. Qed.
Lemma all_cops_complete o : In o all_cops.
Proof. destruct o; vm_compute; tauto. Qed.

(* for every ordered assignment of widths, every language, operator class and operand pair: the model
   agrees with ISO C or the disagreement falls in one of the four classes *)
Theorem deviations_explained_for_all_widths w cpp op a b : ordered w -> explain cpp w op a b <> 9.
Proof.
  intros H. rewrite <- (explain_canon cpp w op a b H).
  pose proof canon_list_explained as E. unfold list_explained in E.
  rewrite forallb_forall in E. specialize (E _ (canon_in_list w)).
  rewrite forallb_forall in E. specialize (E cpp ltac:(destruct cpp; vm_compute; tauto)).
  rewrite forallb_forall in E. specialize (E op (all_cops_complete op)).
  rewrite forallb_forall in E. specialize (E a (all_ctypes_complete a)).
  rewrite forallb_forall in E. specialize (E b (all_ctypes_complete b)).
  apply negb_true_iff, N.eqb_neq in E. exact E.
Qed.

Lemma explain_0_agrees' cpp w op a b : explain cpp w op a b = 0 ->
  ctype_of (result_type (opk_of op) (vt_of a) (vt_of b)) = Some (c_result cpp w op a b).
Proof.
  unfold explain. destruct (agrees cpp w op a b) eqn:E.
  - intros _. unfold agrees in E. destruct (ctype_of _) as [t|]; [|discriminate].
    f_equal. destruct t, (c_result cpp w op a b); try discriminate; reflexivity.
  - destruct op; repeat match goal with |- context [if ?c then _ else _] => destruct c end; discriminate.
Qed.

(* spelled out: outside the five classes the model gives the ISO C type *)
Corollary result_type_spec_for_all_widths w cpp op a b : ordered w ->
  ctype_of (result_type (opk_of op) (vt_of a) (vt_of b)) = Some (c_result cpp w op a b) \/
  (1 <= explain cpp w op a b /\ explain cpp w op a b <= 4).
Proof.
  intros H. pose proof (deviations_explained_for_all_widths w cpp op a b H) as Hn.
  destruct (N.eq_dec (explain cpp w op a b) 0) as [E|E]; [left; exact (explain_0_agrees' cpp w op a b E)|].
  right. unfold explain in *.
  destruct (agrees cpp w op a b); [contradiction|].
  destruct op; repeat match goal with |- context [if ?c then _ else _] => destruct c end; try lia; contradiction.
Qed.

(* what the class numbers mean (by construction of `explain`) *)
Lemma explain_class_sound cpp w op a b :
  let k := explain cpp w op a b in
  (k = 1 -> cause_equal_width w a b = true /\ (op = CArith \/ op = CCond)) /\
  (k = 2 -> (cause_promotion w a = true \/ cause_promotion w b = true) /\ op <> CCompare) /\
  (k = 3 -> cpp = false /\ op = CCompare) /\
  (k = 4 -> cpp = false /\ op = CCond /\ small_same a b = true) /\
  (k <> 0 -> agrees cpp w op a b = false).
Proof.
  unfold explain. destruct (agrees cpp w op a b); [repeat split; intros; try discriminate; congruence|].
  destruct op, cpp; cbn [negb andb];
    repeat match goal with
           | |- context [if ?c then _ else _] => let E := fresh "E" in destruct c eqn:E
           end;
    repeat split; intros; try discriminate; try congruence; try tauto; auto;
    repeat match goal with
           | H : (_ && _) = true |- _ => apply andb_true_iff in H; destruct H
           | H : (_ || _) = true |- _ => apply orb_true_iff in H
           | H : negb _ = true |- _ => apply negb_true_iff in H
           | H : (_ =? _) = true |- _ => apply N.eqb_eq in H
           end; auto; try tauto.
Qed.
