(* Where the model (and the code) leaves ISO C: witnesses on the regenerated platform table. *)
From CV Require Import Base.Bytes Lit.Platform Lit.Gen_Platforms TypeConv.Gen_TypeRank TypeConv.Defs TypeConv.Spec TypeConv.Proofs TypeConv.Explain.
Require Import Lia ZifyBool.
Local Open Scope N_scope.

(* ---- refutations on platforms of the regenerated table *)
(* sizeof(long) = sizeof(int): unsigned int op long is unsigned long in C, the model says signed long *)
Theorem result_type_equal_width_refuted :
  exists p, In p Gen_platforms /\ int_bit p = long_bit p /\
    ctype_of (result_type OArith (vt_of CUInt) (vt_of CLong)) = Some CLong /\
    c_result false (widths_of p) CArith CUInt CLong = CULong /\ c_result true (widths_of p) CArith CUInt CLong = CULong.
Proof. exists plat_win64. split; [vm_compute; tauto|]. vm_compute. repeat split; reflexivity. Qed.

(* sizeof(short) = sizeof(int): unsigned short promotes to unsigned int, the model says signed int *)
Theorem promotion_equal_width_refuted :
  exists p, In p Gen_platforms /\ short_bit p = int_bit p /\
    ctype_of (result_type OArith (vt_of CUShort) (vt_of CUShort)) = Some CInt /\
    c_result false (widths_of p) CArith CUShort CUShort = CUInt.
Proof. exists plat_avr8. split; [vm_compute; tauto|]. vm_compute. repeat split; reflexivity. Qed.

(* C: a comparison has type int, the model says bool (on every platform) *)
Theorem c_comparison_refuted : forall w a b,
  ctype_of (result_type OCompare (vt_of a) (vt_of b)) = Some CBool /\ c_result false w CCompare a b = CInt.
Proof. intros. split; reflexivity. Qed.

(* C: `x ? c : c` with two operands of the same small type is promoted, the model keeps the type *)
Theorem c_conditional_small_refuted : forall w, strict w ->
  ctype_of (result_type OTernary (vt_of CUChar) (vt_of CUChar)) = Some CUChar /\ c_result false w CCond CUChar CUChar = CInt.
Proof.
  intros w H. destruct w as [wc ws wi wl wll cs]. unfold strict in H. cbn [w_char w_short w_int w_long w_llong] in H.
  destruct H as (H1 & H2 & H3 & H4 & H5). split; [reflexivity|].
  cbv [c_result uac promote int_represents is_signed width crank w_char w_int andb]. decide_cmp. reflexivity.
Qed.

(* `x ? i : u` with two types of one rank: unsigned int in C and C++ (the former witness, before /repo 513f3e3) *)
Example conditional_mixed_sign_now : forall cpp,
  ctype_of (result_type OTernary (vt_of CInt) (vt_of CUInt)) = Some CUInt /\
  c_result cpp (widths_of plat_unix64) CCond CInt CUInt = CUInt.
Proof. intros cpp. split; [reflexivity | destruct cpp; reflexivity]. Qed.

(* ---- integer literals: the two former witnesses (before /repo 75f7975) now get the C type *)
Example literal_hex_2_32_unix64 : ctype_of (literal_type plat_unix64 false false 0 4294967296) = Some CLong.
Proof. vm_compute. reflexivity. Qed.
Example literal_oct_2_31_unix64 : ctype_of (literal_type plat_unix64 false false 0 2147483648) = Some CUInt.
Proof. vm_compute. reflexivity. Qed.

(* ---- on the shipped platforms (none has strictly increasing widths) every disagreement with ISO C,
   for every operator class, operand pair and language, has one of the four named causes
   (finite statement over the regenerated table: |table| x 2 x 4 x 12 x 12 cases) *)
Theorem table_deviations_explained : table_explained Gen_platforms = true.
Proof. vm_compute. reflexivity. Qed.

Lemma explain_0_agrees cpp w op a b : explain cpp w op a b = 0 ->
  ctype_of (result_type (opk_of op) (vt_of a) (vt_of b)) = Some (c_result cpp w op a b).
Proof.
  unfold explain. destruct (agrees cpp w op a b) eqn:E.
  - intros _. unfold agrees in E. destruct (ctype_of _) as [t|]; [|discriminate].
    f_equal. destruct t, (c_result cpp w op a b); try discriminate; reflexivity.
  - destruct op; repeat match goal with |- context [if ?c then _ else _] => destruct c end; discriminate.
Qed.
