(* C01  Value-flow facts hold in every UB-free execution — the part decided by
   proof: the leaf transfer functions every pass funnels through. *)
From CV Require Import Base.Bytes VF.Defs VF.Proofs VF.MiniC VF.MiniCProofs.
Local Open Scope Z_scope.

(* calculate<bigint>: exact whenever the mathematical result fits 64 bits *)
Theorem C01_calc_sound o x y r :
  calc o x y = Some r -> in64 (math o x y) = true -> r = math o x y.
Proof. exact (calc_sound o x y r). Qed.
Print Assumptions C01_calc_sound.

Theorem C01_calc_error_iff o x y :
  calc o x y = None <->
  ((o = Div \/ o = Mod) /\ y <= 0) \/ ((o = Shl \/ o = Shr) /\ (63 <= y \/ y < 0 \/ x < 0)).
Proof. exact (calc_error_iff o x y). Qed.
Print Assumptions C01_calc_error_iff.

(* castValue: the unique representative modulo 2^bit in the target range, all widths below 64 *)
Theorem C01_cast_value_spec s bit v : 1 <= bit < 64 ->
  let r := cast_value s bit v in
  (r - v) mod 2 ^ bit = 0 /\
  match s with
  | Signed => - 2 ^ (bit - 1) <= r < 2 ^ (bit - 1)
  | Unsigned => 0 <= r < 2 ^ bit
  end.
Proof. exact (cast_value_spec s bit v). Qed.
Print Assumptions C01_cast_value_spec.

(* ... and therefore C's conversion to a type of that width, on every platform *)
Theorem C01_cast_value_is_convert p t v :
  t_base t <> TBool -> 1 <= bits_of p (t_base t) < 64 ->
  cast_value (t_sign t) (bits_of p (t_base t)) v = convert p t v.
Proof. exact (cast_value_is_convert p t v). Qed.
Print Assumptions C01_cast_value_is_convert.

Theorem C01_truncate_int_spec v size s : 1 <= size < 8 ->
  let r := truncate_int v size s in
  (r - v) mod 2 ^ (8 * size) = 0 /\
  match s with
  | Signed => - 2 ^ (8 * size - 1) <= r < 2 ^ (8 * size - 1)
  | Unsigned => 0 <= r < 2 ^ (8 * size)
  end.
Proof. exact (truncate_int_spec v size s). Qed.
Print Assumptions C01_truncate_int_spec.

Theorem C01_min_max_spec bits s lo hi : 2 <= bits < 62 ->
  min_max bits s = Some (lo, hi) ->
  match s with
  | Signed => lo = - 2 ^ (bits - 1) /\ hi = 2 ^ (bits - 1) - 1
  | Unsigned => lo = 0 /\ hi = 2 ^ bits - 1
  end.
Proof. exact (min_max_spec bits s lo hi). Qed.
Print Assumptions C01_min_max_spec.

(* the MiniC interpreter used as execution oracle: on closed expressions it is the constant-expression
   semantics; every conversion lands in the target type's range; stored values stay in range along
   every execution of every program (any fuel) *)
Theorem C01_veval_embed p g e : veval p g (embed e) = eval p e.
Proof. exact (veval_embed p g e). Qed.
Print Assumptions C01_veval_embed.

Theorem C01_convert_fits p t v : platform_ok p -> fits p t (convert p t v) = true.
Proof. exact (convert_fits p t v). Qed.
Print Assumptions C01_convert_fits.

Theorem C01_exec_env_ok fuel p g tr ss o g' tr' :
  platform_ok p -> env_ok p g -> exec fuel p g tr ss = (o, g', tr') -> env_ok p g'.
Proof. exact (exec_env_ok fuel p g tr ss o g' tr'). Qed.
Print Assumptions C01_exec_env_ok.

Example C01_calc_example : calc Add 9223372036854775807 1 = Some (-9223372036854775808).
Proof. vm_compute. reflexivity. Qed.
