(* matchglob terminates: an explicit fuel bound that always suffices.
   Potential: sum over the backtrack stack of |saved name| * B^(stars in saved pattern)
   plus (|n|+1) * B^(stars p) for the run about to start, with B = |name| + 1. *)
From CV Require Import Base.Bytes Base.Glob.
From Coq Require Import Arith Lia.
Local Open Scope nat_scope.

Fixpoint stars (p : str) : nat :=
  match p with
  | [] => 0
  | c :: p' => (if N.eqb c STAR then 1 else 0) + stars p'
  end.

Section Bound.
  Variable L : nat.                 (* length of the name being matched *)
  Let B := S L.

  Definition weight (e : str * str) : nat := length (snd e) * B ^ stars (fst e).
  Definition measure (stk : stack) : nat := list_sum (map weight stk).

  Lemma measure_app a b : measure (a ++ b) = measure a + measure b.
  Proof. unfold measure. rewrite map_app, list_sum_app. reflexivity. Qed.

  Lemma skip_to_len c n : length (skip_to c n) <= length n.
  Proof.
    induction n as [|x n IH]; cbn [skip_to]; [lia|].
    destruct c as [c'|]; [destruct (N.eqb x c')|]; cbn [length]; lia.
  Qed.

  Lemma pow_pos : forall k, 1 <= B ^ k.
  Proof. intros k. induction k; cbn; unfold B in *; lia. Qed.

  Lemma inner_bound p : forall n stk m n1 stk1,
    inner p n stk = (m, n1, stk1) -> length n <= L ->
    exists new, stk1 = new ++ stk
      /\ measure new + 1 <= (length n + 1) * B ^ stars p
      /\ Forall (fun e => 1 <= length (snd e) <= L) new.
  Proof.
    induction p as [|c p IH]; intros n stk m n1 stk1 H HL.
    - cbn in H. injection H as <- <- <-. exists []. cbn. repeat split; [lia|constructor].
    - cbn [inner] in H. cbn [stars]. destruct (N.eqb c STAR) eqn:Hs.
      + set (nn := if is_wild (hd_error p) then n else skip_to (hd_error p) n) in *.
        assert (Hnn : length nn <= length n).
        { unfold nn. destruct (is_wild (hd_error p)); [lia|apply skip_to_len]. }
        destruct nn as [|y nn'] eqn:En.
        * apply IH in H; [|cbn; lia]. destruct H as (new & -> & Hm & HF).
          exists new. split; [reflexivity|]. split; [|exact HF].
          cbn [length] in Hm. cbn [plus Nat.pow].
          pose proof (pow_pos (stars p)). nia.
        * apply IH in H; [|lia]. destruct H as (new & -> & Hm & HF).
          exists (new ++ [(c :: p, y :: nn')]). rewrite <- app_assoc. split; [reflexivity|].
          split.
          -- rewrite measure_app. unfold measure at 2. cbn [map list_sum]. unfold weight.
             cbn [fst snd stars]. rewrite Hs. cbn [plus Nat.pow].
             assert (Ha : length (y :: nn') + 1 <= B) by (unfold B; lia).
             pose proof (pow_pos (stars p)) as Hp1. unfold list_sum. cbn [fold_right].
             set (a := length (y :: nn')) in *. set (Pw := B ^ stars p) in *.
             assert (Hq : (a + 1) * Pw <= B * Pw) by (apply Nat.mul_le_mono_r; exact Ha).
             set (Q := B * Pw) in *. clearbody Q. nia.
          -- apply Forall_app. split; [exact HF|]. constructor; [|constructor]. cbn [snd]. cbn [length] in *. lia.
      + cbn [plus]. destruct (N.eqb c QM).
        * destruct n as [|x n'].
          -- injection H as <- <- <-. exists []. cbn. pose proof (pow_pos (stars p)). repeat split; [nia|constructor].
          -- apply IH in H; [|cbn in HL; lia]. destruct H as (new & -> & Hm & HF).
             exists new. repeat split; [|exact HF]. cbn [length]. nia.
        * destruct n as [|x n'].
          -- injection H as <- <- <-. exists []. cbn. pose proof (pow_pos (stars p)). repeat split; [nia|constructor].
          -- destruct (N.eqb x c).
             ++ apply IH in H; [|cbn in HL; lia]. destruct H as (new & -> & Hm & HF).
                exists new. repeat split; [|exact HF]. cbn [length]. nia.
             ++ injection H as <- <- <-. exists []. cbn [length]. pose proof (pow_pos (stars p)).
                repeat split; [cbn; nia|constructor].
  Qed.

  Definition potential (p n : str) (stk : stack) : nat :=
    measure stk + (length n + 1) * B ^ stars p.

  Definition stk_ok (stk : stack) : Prop := Forall (fun e => 1 <= length (snd e) <= L) stk.

  Lemma outer_terminates fuel : forall p n stk,
    length n <= L -> stk_ok stk -> potential p n stk < fuel -> outer fuel p n stk <> None.
  Proof.
    induction fuel as [|f IH]; intros p n stk HL Hok Hpot; [lia|].
    cbn [outer]. destruct (inner p n stk) as [[m n1] stk1] eqn:Hi.
    destruct (inner_bound p n stk m n1 stk1 Hi HL) as (new & -> & Hm & HF).
    destruct (m && is_nil n1); [discriminate|].
    destruct (new ++ stk) as [|[p2 n2] stk2] eqn:Es; [discriminate|].
    assert (Hok1 : stk_ok ((p2, n2) :: stk2)).
    { rewrite <- Es. apply Forall_app. split; assumption. }
    inversion Hok1 as [|e r He Hr]; subst. cbn [snd] in He.
    apply IH.
    - destruct n2; cbn in *; lia.
    - exact Hr.
    - assert (Hmm : measure ((p2, n2) :: stk2) = measure new + measure stk) by (rewrite <- Es; apply measure_app).
      destruct n2 as [|y n2']; [cbn in He; lia|].
      unfold potential, measure, list_sum in *. cbn [map fold_right] in Hmm.
      unfold weight at 1 in Hmm. cbn [fst snd tl length] in *.
      replace (length n2' + 1) with (S (length n2')) by lia.
      set (W := S (length n2') * B ^ stars p2) in *. clearbody W.
      set (X := (length n + 1) * B ^ stars p) in *. clearbody X. lia.
  Qed.
End Bound.

(* total correctness: with this much fuel the machine always answers *)
Theorem matchglob_fuel_terminates pattern name :
  matchglob_fuel (S (S (length (cstr name)) ^ S (stars (cstr pattern)))) pattern name <> None.
Proof.
  unfold matchglob_fuel. apply (outer_terminates (length (cstr name))).
  - lia.
  - constructor.
  - unfold potential, measure. cbn [map list_sum Nat.pow].
    replace (length (cstr name) + 1) with (S (length (cstr name))) by lia.
    unfold list_sum. cbn [fold_right]. 
    set (X := S (length (cstr name)) * S (length (cstr name)) ^ stars (cstr pattern)). lia.
Qed.
