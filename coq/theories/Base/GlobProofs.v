From CV Require Import Base.Bytes Base.Glob.
Local Open Scope N_scope.

Lemma glob_star_unfold p n :
  glob_spec (STAR :: p) n =
  glob_spec p n || match n with [] => false | _ :: n' => glob_spec (STAR :: p) n' end.
Proof. destruct n; reflexivity. Qed.

Lemma glob_star_nil p : glob_spec (STAR :: p) [] = glob_spec p [].
Proof. rewrite glob_star_unfold. apply orb_false_r. Qed.

Lemma glob_nonstar c p n : (c =? STAR) = false ->
  glob_spec (c :: p) n =
  match n with [] => false | x :: n' => ((c =? QM) || (x =? c)) && glob_spec p n' end.
Proof. intros H. cbn [glob_spec]. rewrite H. reflexivity. Qed.

Lemma glob_only_star n : glob_spec [STAR] n = true.
Proof. induction n as [|x n IH]; rewrite glob_star_unfold; [reflexivity|]. rewrite IH. apply orb_true_r. Qed.

(* spec = relation *)
Lemma gmatch_star_inv p n : gmatch (STAR :: p) n -> exists k, gmatch p (skipn k n).
Proof.
  intros H. inversion H as [|p0 n0 k Hk|p0 x n0 Hm|c p0 n0 Hc1 Hc2 Hm]; subst.
  - exists k. exact Hk.
  - contradiction.
Qed.

Lemma gmatch_star_cons p x n : gmatch (STAR :: p) n -> gmatch (STAR :: p) (x :: n).
Proof. intros H. apply gmatch_star_inv in H. destruct H as [k Hk]. apply (gm_star p (x :: n) (S k)). exact Hk. Qed.

Theorem glob_spec_gmatch p n : glob_spec p n = true <-> gmatch p n.
Proof.
  revert n. induction p as [|c p IH]; intros n.
  - split.
    + destruct n; [constructor|discriminate].
    + intros H. inversion H. reflexivity.
  - destruct (c =? STAR) eqn:Hs.
    + apply N.eqb_eq in Hs. subst c. induction n as [|x n IHn].
      * rewrite glob_star_nil. rewrite IH. split.
        -- intros H. apply (gm_star p [] 0%nat). exact H.
        -- intros H. apply gmatch_star_inv in H. destruct H as [k Hk].
           destruct k; exact Hk.
      * rewrite glob_star_unfold. rewrite orb_true_iff, IH, IHn. split.
        -- intros [H|H]; [apply (gm_star p (x :: n) 0%nat); exact H|apply gmatch_star_cons; exact H].
        -- intros H. apply gmatch_star_inv in H. destruct H as [k Hk].
           destruct k as [|k]; [left; exact Hk|right; apply (gm_star p n k); exact Hk].
    + rewrite (glob_nonstar _ _ _ Hs). destruct n as [|x n].
      * split; [discriminate|]. intros H. inversion H; subst; discriminate.
      * rewrite andb_true_iff, orb_true_iff, IH, !N.eqb_eq. apply N.eqb_neq in Hs. split.
        -- intros [[Hc|Hc] Hm]; subst.
           ++ constructor; exact Hm.
           ++ destruct (N.eq_dec c QM) as [->|Hq]; constructor; auto.
        -- intros H. inversion H; subst; auto. contradiction.
Qed.

(* ---------- the machine computes the spec ---------- *)
Definition alts (stk : stack) : bool :=
  existsb (fun e => glob_spec (fst e) (tl (snd e))) stk.

Lemma skip_to_none n : skip_to None n = [].
Proof. induction n; simpl; auto. Qed.

(* skipping to the first occurrence of a literal does not lose matches *)
Lemma star_skip_lit c p n : (c =? STAR) = false -> (c =? QM) = false ->
  glob_spec (STAR :: c :: p) n = glob_spec (STAR :: c :: p) (skip_to (Some c) n).
Proof.
  intros Hs Hq. induction n as [|x n IH]; [reflexivity|].
  cbn [skip_to]. destruct (x =? c) eqn:Hx; [reflexivity|].
  rewrite glob_star_unfold. rewrite (glob_nonstar _ _ _ Hs). rewrite Hq, Hx. simpl. exact IH.
Qed.

Lemma inner_spec p : forall n stk m n1 stk1,
  inner p n stk = (m, n1, stk1) ->
  glob_spec p n || alts stk = (m && is_nil n1) || alts stk1.
Proof.
  induction p as [|c p IH]; intros n stk m n1 stk1 H.
  - cbn in H. injection H as <- <- <-. destruct n; reflexivity.
  - cbn [inner] in H. destruct (c =? STAR) eqn:Hs.
    + apply N.eqb_eq in Hs. subst c.
      destruct (is_wild (hd_error p)) eqn:Hw.
      * (* next is a wildcard: no skipping *)
        apply IH in H. rewrite <- H. rewrite glob_star_unfold.
        destruct n as [|x n]; [rewrite orb_false_r; reflexivity|].
        cbn [alts existsb fst snd tl]. rewrite orb_assoc. reflexivity.
      * destruct p as [|c p].
        -- (* star is the last pattern character *)
           cbn [hd_error] in H. rewrite skip_to_none in H. cbn in H.
           injection H as <- <- <-. rewrite glob_only_star. reflexivity.
        -- cbn [hd_error is_wild] in Hw, H. apply orb_false_iff in Hw. destruct Hw as [Hcs Hcq].
           apply IH in H. rewrite <- H. rewrite (star_skip_lit c p n Hcs Hcq).
           destruct (skip_to (Some c) n) as [|y n2] eqn:Hsk.
           ++ rewrite glob_star_nil. reflexivity.
           ++ rewrite glob_star_unfold. cbn [alts existsb fst snd tl].
              rewrite orb_assoc. reflexivity.
    + destruct (c =? QM) eqn:Hq.
      * rewrite (glob_nonstar _ _ _ Hs), Hq. destruct n as [|x n].
        -- injection H as <- <- <-. reflexivity.
        -- apply IH in H. exact H.
      * rewrite (glob_nonstar _ _ _ Hs), Hq. destruct n as [|x n].
        -- injection H as <- <- <-. reflexivity.
        -- cbn [orb]. destruct (x =? c) eqn:Hx.
           ++ apply IH in H. exact H.
           ++ injection H as <- <- <-. reflexivity.
Qed.

Lemma outer_spec fuel : forall p n stk b,
  outer fuel p n stk = Some b -> b = glob_spec p n || alts stk.
Proof.
  induction fuel as [|f IH]; intros p n stk b H; [discriminate|].
  cbn [outer] in H. destruct (inner p n stk) as [[m n1] stk1] eqn:Hi.
  apply inner_spec in Hi. rewrite Hi.
  destruct (m && is_nil n1) eqn:Hm.
  - injection H as <-. reflexivity.
  - destruct stk1 as [|[p2 n2] stk2].
    + injection H as <-. reflexivity.
    + apply IH in H. rewrite H. reflexivity.
Qed.

(* Whatever fuel the machine is given, if it answers, the answer is the
   documented glob semantics of the two C strings. *)
Theorem matchglob_fuel_spec fuel pattern name b :
  matchglob_fuel fuel pattern name = Some b ->
  b = glob_spec (cstr pattern) (cstr name).
Proof.
  unfold matchglob_fuel. intros H. apply outer_spec in H. rewrite H. apply orb_false_r.
Qed.
