(* Shared conventions: a character is an N (0..255), a string a list N.
   Decimal printing/parsing is used by the run_* entry points so that the
   OCaml driver and the C++ harness exchange nothing but byte strings. *)
From Coq Require Export List NArith ZArith Bool Lia.
Export ListNotations.
Local Open Scope N_scope.

Definition byte := N.
Definition str := list N.

Definition str_eqb (a b : str) : bool :=
  if list_eq_dec N.eq_dec a b then true else false.

Lemma str_eqb_eq a b : str_eqb a b = true <-> a = b.
Proof. unfold str_eqb; destruct (list_eq_dec N.eq_dec a b); split; congruence. Qed.

(* --- decimal --- *)
Definition digit_of (c : N) : option N :=
  if (48 <=? c) && (c <=? 57) then Some (c - 48) else None.

Fixpoint dec_acc (acc : N) (s : str) : option N :=
  match s with
  | [] => Some acc
  | c :: s' => match digit_of c with
               | Some d => dec_acc (acc * 10 + d) s'
               | None => None
               end
  end.

Definition N_of_dec (s : str) : option N :=
  match s with [] => None | _ => dec_acc 0 s end.

Definition Z_of_dec (s : str) : option Z :=
  match s with
  | 45 :: s' => option_map (fun n => Z.opp (Z.of_N n)) (N_of_dec s')
  | _ => option_map Z.of_N (N_of_dec s)
  end.

(* printing: fuel = number of binary digits + 1 is always enough *)
Fixpoint dec_digits (fuel : nat) (n : N) (acc : str) : str :=
  match fuel with
  | O => acc
  | S f => let acc' := (48 + n mod 10) :: acc in
           if n / 10 =? 0 then acc' else dec_digits f (n / 10) acc'
  end.

Definition dec_of_N (n : N) : str := dec_digits (S (N.to_nat (N.size n))) n [].

Definition dec_of_Z (z : Z) : str :=
  match z with
  | Zneg p => 45 :: dec_of_N (Npos p)
  | _ => dec_of_N (Z.to_N z)
  end.

Definition str_of_bool (b : bool) : str := if b then [49] else [48].
Definition bool_of_str (s : str) : bool := str_eqb s [49].

(* ASCII helpers *)
Definition is_digit (c : N) : bool := (48 <=? c) && (c <=? 57).
Definition is_upper (c : N) : bool := (65 <=? c) && (c <=? 90).
Definition is_lower (c : N) : bool := (97 <=? c) && (c <=? 122).
Definition is_alpha (c : N) : bool := is_upper c || is_lower c.
Definition is_alnum (c : N) : bool := is_alpha c || is_digit c.
Definition to_lower (c : N) : N := if is_upper c then c + 32 else c.
Definition to_upper (c : N) : N := if is_lower c then c - 32 else c.
Definition is_space (c : N) : bool :=
  (c =? 32) || ((9 <=? c) && (c <=? 13)).

Fixpoint starts_with (pre s : str) : bool :=
  match pre, s with
  | [], _ => true
  | a :: pre', b :: s' => (a =? b) && starts_with pre' s'
  | _ :: _, [] => false
  end.

Definition ends_with (suf s : str) : bool := starts_with (rev suf) (rev s).

(* split on a separator byte *)
Fixpoint split_on (sep : N) (s : str) (cur : str) : list str :=
  match s with
  | [] => [rev cur]
  | c :: s' => if c =? sep then rev cur :: split_on sep s' [] else split_on sep s' (c :: cur)
  end.
Definition split (sep : N) (s : str) : list str := split_on sep s [].

Fixpoint join (sep : str) (l : list str) : str :=
  match l with
  | [] => []
  | [x] => x
  | x :: l' => x ++ sep ++ join sep l'
  end.
