(* matchglob (lib/utils.cpp): model of the backtracking matcher as the code
   runs it (explicit backtrack stack, look-ahead at p[1]) and the declarative
   glob language it is documented to implement. *)
From CV Require Import Base.Bytes.
Local Open Scope N_scope.

Definition STAR : N := 42.
Definition QM : N := 63.

(* c_str() semantics: the matcher stops at the first NUL *)
Fixpoint cstr (s : str) : str :=
  match s with
  | [] => []
  | c :: s' => if c =? 0 then [] else c :: cstr s'
  end.

(* ---------- specification ---------- *)
(* '*' = any sequence (possibly empty), '?' = exactly one character,
   anything else = itself *)
Fixpoint glob_spec (p : str) : str -> bool :=
  match p with
  | [] => fun n => match n with [] => true | _ => false end
  | c :: p' =>
      if c =? STAR then
        fix star (n : str) : bool :=
          glob_spec p' n || match n with [] => false | _ :: n' => star n' end
      else
        fun n => match n with
                 | [] => false
                 | x :: n' => ((c =? QM) || (x =? c)) && glob_spec p' n'
                 end
  end.

(* relational reading of the same language *)
Inductive gmatch : str -> str -> Prop :=
| gm_nil : gmatch [] []
| gm_star p n k : gmatch p (skipn k n) -> gmatch (STAR :: p) n
| gm_qm p x n : gmatch p n -> gmatch (QM :: p) (x :: n)
| gm_lit c p n : c <> STAR -> c <> QM -> gmatch p n -> gmatch (c :: p) (c :: n).

(* ---------- the machine ---------- *)
Definition stack := list (str * str).

(* "while (n[0] != 0 and n[0] != c) n++"; c = None stands for p[1] == 0 *)
Fixpoint skip_to (c : option N) (n : str) : str :=
  match n with
  | [] => []
  | x :: n' => match c with
               | Some c' => if x =? c' then n else skip_to c n'
               | None => skip_to c n'
               end
  end.

Definition is_wild (c : option N) : bool :=
  match c with Some c' => (c' =? STAR) || (c' =? QM) | None => false end.

(* the inner while loop: consumes the pattern until mismatch or its end;
   result = (matching, n, backtrack stack) *)
Fixpoint inner (p n : str) (stk : stack) : bool * str * stack :=
  match p with
  | [] => (true, n, stk)
  | c :: p' =>
      if c =? STAR then
        let nx := hd_error p' in
        let n1 := if is_wild nx then n else skip_to nx n in
        let stk1 := match n1 with [] => stk | _ :: _ => (p, n1) :: stk end in
        inner p' n1 stk1
      else if c =? QM then
        match n with [] => (false, n, stk) | _ :: n' => inner p' n' stk end
      else
        match n with
        | x :: n' => if x =? c then inner p' n' stk else (false, n, stk)
        | [] => (false, n, stk)
        end
  end.

Definition is_nil {A} (l : list A) : bool := match l with [] => true | _ => false end.

(* the outer for(;;) loop; None = fuel exhausted (never a normal answer) *)
Fixpoint outer (fuel : nat) (p n : str) (stk : stack) : option bool :=
  match fuel with
  | O => None
  | S f =>
      let '(m, n1, stk1) := inner p n stk in
      if m && is_nil n1 then Some true
      else match stk1 with
           | [] => Some false
           | (p2, n2) :: stk2 => outer f p2 (tl n2) stk2
           end
  end.

Definition matchglob_fuel (fuel : nat) (pattern name : str) : option bool :=
  outer fuel (cstr pattern) (cstr name) [].

(* fuel used by the executable entry point (generous; exhaustion is reported
   as a distinct result by run_*, never as true/false) *)
Definition mg_fuel (p n : str) : nat :=
  S (length p) * S (length n) * S (length n) * 64.

Definition matchglob (pattern name : str) : option bool :=
  matchglob_fuel (mg_fuel pattern name) pattern name.
