(* C11: proofs about stringizing. *)
From CV Require Import Base.Bytes PP.Stringize.
Local Open Scope N_scope.

Lemma go_char c acc r :
  (c =? DQ) = false -> (c =? BS) = false -> unq_go (c :: r) acc = unq_go r (acc ++ [c]).
Proof. intros H1 H2. cbn [unq_go]. now rewrite H1, H2. Qed.

Lemma go_escaped d acc r :
  ((d =? DQ) || (d =? BS) || (d =? SQ))%bool = true -> unq_go (BS :: d :: r) acc = unq_go r (acc ++ [d]).
Proof. intros H. cbn [unq_go]. change (BS =? DQ) with false. change (BS =? BS) with true. cbv iota. now rewrite H. Qed.

Lemma app_snoc {A} (acc : list A) c s : (acc ++ [c]) ++ s = acc ++ c :: s.
Proof. now rewrite <- app_assoc. Qed.

Lemma go_plain s : forall acc rest,
  has DQ s = false -> has BS s = false -> unq_go (s ++ rest) acc = unq_go rest (acc ++ s).
Proof.
  induction s as [|c s IH]; intros acc rest H1 H2; cbn [app]; [now rewrite app_nil_r|].
  cbn [has existsb] in H1, H2. apply Bool.orb_false_iff in H1, H2. destruct H1 as [A1 B1], H2 as [A2 B2].
  rewrite go_char; [|now rewrite N.eqb_sym|now rewrite N.eqb_sym].
  rewrite (IH _ _ B1 B2). now rewrite app_snoc.
Qed.

Lemma go_esc3 s : forall acc rest, unq_go (esc_with [BS; DQ; SQ] s ++ rest) acc = unq_go rest (acc ++ s).
Proof.
  induction s as [|c s IH]; intros acc rest; cbn [esc_with flat_map app]; [now rewrite app_nil_r|].
  fold (esc_with [BS; DQ; SQ] s). cbn [existsb].
  destruct (c =? BS) eqn:E1; [|destruct (c =? DQ) eqn:E2; [|destruct (c =? SQ) eqn:E3]]; cbn [orb app].
  - rewrite go_escaped by (rewrite E1; now rewrite !Bool.orb_true_r || reflexivity). rewrite IH. now rewrite app_snoc.
  - rewrite go_escaped by (now rewrite E2). rewrite IH. now rewrite app_snoc.
  - rewrite go_escaped by (rewrite E3; now rewrite !Bool.orb_true_r). rewrite IH. now rewrite app_snoc.
  - rewrite go_char by assumption. rewrite IH. now rewrite app_snoc.
Qed.

Lemma go_esc2 s : forall acc rest, unq_go (esc_with [DQ; BS] s ++ rest) acc = unq_go rest (acc ++ s).
Proof.
  induction s as [|c s IH]; intros acc rest; cbn [esc_with flat_map app]; [now rewrite app_nil_r|].
  fold (esc_with [DQ; BS] s). cbn [existsb].
  destruct (c =? DQ) eqn:E1; [|destruct (c =? BS) eqn:E2]; cbn [orb app].
  - rewrite go_escaped by (now rewrite E1). rewrite IH. now rewrite app_snoc.
  - rewrite go_escaped by (rewrite E2; now rewrite !Bool.orb_true_r). rewrite IH. now rewrite app_snoc.
  - rewrite go_char by assumption. rewrite IH. now rewrite app_snoc.
Qed.

(* simplecpp's result is always a well-formed string literal denoting the text it was made from *)
Theorem stringize_s_denotes text : unquote (stringize_s text) = Some text.
Proof. unfold stringize_s, unquote. change DQ with 34. rewrite go_esc3. reflexivity. Qed.

Definition plain_ok (ts : list (bool * str)) : Prop :=
  forall ws t, In (ws, t) ts -> lit_start t = false -> has DQ t = false /\ has BS t = false.

Lemma go_body ts : forall first acc rest,
  plain_ok ts -> unq_go (body_c first ts ++ rest) acc = unq_go rest (acc ++ spelling first ts).
Proof.
  induction ts as [|[ws t] ts IH]; intros first acc rest OK; cbn [body_c spelling app]; [now rewrite app_nil_r|].
  assert (OK' : plain_ok ts) by (intros w x H; apply (OK w x); now right).
  rewrite <- !app_assoc.
  assert (SPC : forall (b : bool) a r, unq_go ((if b then [SP] else []) ++ r) a = unq_go r (a ++ (if b then [SP] else []))).
  { intros [|] a r; cbn [app]; [now rewrite go_char|now rewrite app_nil_r]. }
  rewrite SPC. unfold tok_c. destruct (lit_start t) eqn:L.
  - rewrite go_esc2. rewrite IH by exact OK'. now rewrite <- !app_assoc.
  - destruct (OK ws t (or_introl eq_refl) L) as [H1 H2].
    rewrite go_plain by assumption. rewrite IH by exact OK'. now rewrite <- !app_assoc.
Qed.

(* 6.10.3.2p2: the result is a string literal that denotes the spelling of the argument *)
Theorem stringize_c_denotes ts : plain_ok ts -> unquote (stringize_c ts) = Some (spelling true ts).
Proof. intros OK. unfold stringize_c, unquote. change DQ with 34. rewrite go_body by exact OK. reflexivity. Qed.

(* both denote the same text; the spellings differ exactly because of the apostrophe *)
Corollary stringize_same_denotation ts :
  plain_ok ts -> unquote (stringize_s (spelling true ts)) = unquote (stringize_c ts).
Proof. intros OK. now rewrite stringize_s_denotes, stringize_c_denotes. Qed.

Theorem stringize_spelling_differs :
  stringize_s [39; 97; 39] <> stringize_c [(false, [39; 97; 39])].       (* 'a' *)
Proof. vm_compute. discriminate. Qed.
