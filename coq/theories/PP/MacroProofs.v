(* C11 core (iii): proofs about the #/##-free expansion model. *)
From CV Require Import Base.Bytes PP.Macro.
Require Import Lia.

Section Proofs.
Variable tb : table.
Notation exp := (exp tb).
Notation exps := (exps tb).
Notation unhidden := (unhidden tb).
Notation maxbody := (maxbody tb).
Notation enough := (enough tb).

Lemma lookup_in n d : lookup tb n = Some d -> In n (map fst tb).
Proof.
  induction tb as [|[m e] l IH]; cbn; [discriminate|].
  destruct (str_eqb n m) eqn:E; [apply str_eqb_eq in E; subst; now left|right; auto].
Qed.

Lemma maxbody_ge n d : lookup tb n = Some d -> (tsize (body_of d) <= maxbody)%nat.
Proof.
  unfold Macro.maxbody. induction tb as [|[m e] l IH]; cbn; [discriminate|].
  destruct (str_eqb n m); [intros H; inversion H; subst; lia|intros H; specialize (IH H); lia].
Qed.

(* unfolding equations of the mutual fixpoints *)
Lemma exp_S f hs env t : exp (S f) hs env t =
      match t with
      | TEnd => Some []
      | TSym s r => option_map (cons s) (exp f hs env r)
      | TPar i r => option_map (app (nth i env [])) (exp f hs env r)
      | TId n r =>
          match lookup tb n with
          | Some (Obj body) =>
              if mem n hs then option_map (cons n) (exp f hs env r)
              else opt_app (exp f (n :: hs) [] body) (exp f hs env r)
          | _ => option_map (cons n) (exp f hs env r)
          end
      | TCall n a r =>
          match exps f hs env a with
          | None => None
          | Some ea =>
              match lookup tb n with
              | Some (Fn np body) =>
                  if negb (mem n hs) && Nat.eqb (alen a) np
                  then opt_app (exp f (n :: hs) ea body) (exp f hs env r)
                  else option_map (fun o => n :: LP :: commas ea ++ RP :: o) (exp f hs env r)
              | Some (Obj body) =>
                  if mem n hs then option_map (fun o => n :: LP :: commas ea ++ RP :: o) (exp f hs env r)
                  else opt_app (exp f (n :: hs) [] body)
                               (option_map (fun o => LP :: commas ea ++ RP :: o) (exp f hs env r))
              | None => option_map (fun o => n :: LP :: commas ea ++ RP :: o) (exp f hs env r)
              end
          end
      end.
Proof. reflexivity. Qed.
Lemma exps_S f hs env a : exps (S f) hs env a =
      match a with
      | ANil => Some []
      | ACons t a' =>
          match exp f hs env t, exps f hs env a' with
          | Some x, Some l => Some (x :: l)
          | _, _ => None
          end
      end.
Proof. reflexivity. Qed.
Lemma ts_end : tsize TEnd = 1%nat. Proof. reflexivity. Qed.
Lemma ts_sym s r : tsize (TSym s r) = S (tsize r). Proof. reflexivity. Qed.
Lemma ts_id n r : tsize (TId n r) = S (tsize r). Proof. reflexivity. Qed.
Lemma ts_par i r : tsize (TPar i r) = S (tsize r). Proof. reflexivity. Qed.
Lemma ts_call n a r : tsize (TCall n a r) = S (asize a + tsize r). Proof. reflexivity. Qed.
Lemma as_nil : asize ANil = 1%nat. Proof. reflexivity. Qed.
Lemma as_cons t a : asize (ACons t a) = S (tsize t + asize a). Proof. reflexivity. Qed.

Lemma mem_cons x n hs : mem x (n :: hs) = (str_eqb x n || mem x hs)%bool.
Proof. reflexivity. Qed.

Lemma filter_le (l : list str) n hs :
  (length (filter (fun x => negb (mem x (n :: hs))) l) <= length (filter (fun x => negb (mem x hs)) l))%nat.
Proof.
  induction l as [|x l IH]; cbn [filter]; [cbn; lia|].
  rewrite mem_cons. destruct (str_eqb x n); destruct (mem x hs); cbn [orb negb length]; lia.
Qed.

Lemma filter_lt (l : list str) n hs :
  NoDup l -> In n l -> mem n hs = false ->
  (S (length (filter (fun x => negb (mem x (n :: hs))) l)) <= length (filter (fun x => negb (mem x hs)) l))%nat.
Proof.
  induction l as [|x l IH]; intros ND HI HM; [destruct HI|].
  inversion ND as [|? ? Hx ND']; subst. cbn [filter]. rewrite mem_cons.
  destruct HI as [->|HI].
  - assert (E : str_eqb n n = true) by now apply str_eqb_eq.
    rewrite E, HM. cbn [orb negb length]. pose proof (filter_le l n hs). lia.
  - specialize (IH ND' HI HM).
    destruct (str_eqb x n) eqn:E.
    + apply str_eqb_eq in E. subst. contradiction.
    + cbn [orb]. destruct (mem x hs); cbn [negb length]; lia.
Qed.

Lemma unhidden_cons n d hs :
  lookup tb n = Some d -> mem n hs = false -> (S (unhidden (n :: hs)) <= unhidden hs)%nat.
Proof.
  intros L M. unfold Macro.unhidden. apply filter_lt; [apply NoDup_nodup| |exact M].
  apply nodup_In. eapply lookup_in; eauto.
Qed.

(* ---- (a) termination: an explicit, linear fuel bound.  Every recursive call either descends into a
   proper part of the sequence (same hide set) or enters a macro body and adds its name to the hide set. *)
Lemma exp_terminates_both fuel :
  (forall hs env t, (enough hs (tsize t) < fuel)%nat -> exp fuel hs env t <> None) /\
  (forall hs env a, (enough hs (asize a) < fuel)%nat -> exps fuel hs env a <> None).
Proof.
  induction fuel as [|f [IHt IHa]]; [split; intros; lia|].
  assert (BODY : forall n d hs env (s : nat), lookup tb n = Some d -> mem n hs = false ->
                 (enough hs s < S f)%nat -> (1 <= s)%nat -> exp f (n :: hs) env (body_of d) <> None).
  { intros n d hs env s L M H S1. apply IHt. unfold Macro.enough in *.
    pose proof (unhidden_cons n d hs L M). pose proof (maxbody_ge n d L). nia. }
  split.
  - intros hs env t H. unfold Macro.enough in H.
    destruct t as [|s r|n r|i r|n a r]; rewrite exp_S; rewrite ?ts_end, ?ts_sym, ?ts_id, ?ts_par, ?ts_call in H.
    + discriminate.
    + assert (X : exp f hs env r <> None) by (apply IHt; unfold Macro.enough; lia).
      destruct (exp f hs env r); [discriminate|congruence].
    + assert (X : exp f hs env r <> None) by (apply IHt; unfold Macro.enough; lia).
      destruct (lookup tb n) as [[body|np body]|] eqn:L.
      * destruct (mem n hs) eqn:M.
        -- destruct (exp f hs env r); [discriminate|congruence].
        -- assert (Y := BODY n (Obj body) hs [] (S (tsize r)) L M).
           cbn [body_of] in Y. unfold Macro.enough in Y.
           destruct (exp f (n :: hs) [] body); [|exfalso; apply Y; [lia|lia|reflexivity]].
           destruct (exp f hs env r); [discriminate|congruence].
      * destruct (exp f hs env r); [discriminate|congruence].
      * destruct (exp f hs env r); [discriminate|congruence].
    + assert (X : exp f hs env r <> None) by (apply IHt; unfold Macro.enough; lia).
      destruct (exp f hs env r); [discriminate|congruence].
    + assert (X : exp f hs env r <> None) by (apply IHt; unfold Macro.enough; lia).
      assert (Z : exps f hs env a <> None) by (apply IHa; unfold Macro.enough; lia).
      destruct (exps f hs env a) as [ea|]; [|congruence].
      destruct (exp f hs env r) as [o|]; [|congruence].
      destruct (lookup tb n) as [[body|np body]|] eqn:L.
      * destruct (mem n hs) eqn:M; [(cbn; discriminate)|].
        assert (Y := BODY n (Obj body) hs [] (S (asize a + tsize r)) L M).
        cbn [body_of] in Y. unfold Macro.enough in Y.
        destruct (exp f (n :: hs) [] body); [(cbn; discriminate)|exfalso; apply Y; [lia|lia|reflexivity]].
      * destruct (mem n hs) eqn:M; cbn [negb andb]; [(cbn; discriminate)|].
        destruct (Nat.eqb (alen a) np); [|(cbn; discriminate)].
        assert (Y := BODY n (Fn np body) hs ea (S (asize a + tsize r)) L M).
        cbn [body_of] in Y. unfold Macro.enough in Y.
        destruct (exp f (n :: hs) ea body); [(cbn; discriminate)|exfalso; apply Y; [lia|lia|reflexivity]].
      * (cbn; discriminate).
  - intros hs env a H. unfold Macro.enough in H.
    destruct a as [|t a']; rewrite exps_S; rewrite ?as_nil, ?as_cons in H; [discriminate|].
    assert (X : exp f hs env t <> None) by (apply IHt; unfold Macro.enough; lia).
    assert (Z : exps f hs env a' <> None) by (apply IHa; unfold Macro.enough; lia).
    destruct (exp f hs env t); [|congruence]. destruct (exps f hs env a'); [discriminate|congruence].
Qed.

Theorem expand_terminates hs env t fuel :
  (enough hs (tsize t) < fuel)%nat -> exists o, exp fuel hs env t = Some o.
Proof.
  intros H. destruct (exp fuel hs env t) eqn:E; [eauto|].
  exfalso. now apply (proj1 (exp_terminates_both fuel) hs env t H).
Qed.

(* ---- (b) on non-recursive tables the result is call-by-name substitution *)
Variable rank : str -> nat.
Notation CBN := (CBN tb).
Notation CBNA := (CBNA tb).
Notation okt := (okt tb rank).
Notation oka := (oka tb rank).

Lemma sb_end sg : subst sg TEnd = TEnd. Proof. reflexivity. Qed.
Lemma sb_sym sg s r : subst sg (TSym s r) = TSym s (subst sg r). Proof. reflexivity. Qed.
Lemma sb_id sg n r : subst sg (TId n r) = TId n (subst sg r). Proof. reflexivity. Qed.
Lemma sb_par sg i r : subst sg (TPar i r) = tapp (anth i sg) (subst sg r). Proof. reflexivity. Qed.
Lemma sb_call sg n a r : subst sg (TCall n a r) = TCall n (substa sg a) (subst sg r). Proof. reflexivity. Qed.
Lemma sba_nil sg : substa sg ANil = ANil. Proof. reflexivity. Qed.
Lemma sba_cons sg t a : substa sg (ACons t a) = ACons (subst sg t) (substa sg a). Proof. reflexivity. Qed.
Lemma ok_sym b s r : okt b (TSym s r) = okt b r. Proof. reflexivity. Qed.
Lemma ok_par b i r : okt b (TPar i r) = okt b r. Proof. reflexivity. Qed.
Lemma ok_id b n r : okt b (TId n r) =
  (match lookup tb n with Some (Obj _) => (rank n < b)%nat | Some (Fn _ _) => False | None => True end /\ okt b r).
Proof. reflexivity. Qed.
Lemma ok_call b n a r : okt b (TCall n a r) =
  (match lookup tb n with Some (Fn np _) => (rank n < b)%nat /\ alen a = np | Some (Obj _) => False | None => True end
   /\ oka b a /\ okt b r).
Proof. reflexivity. Qed.
Lemma oka_cons b t a : oka b (ACons t a) = (okt b t /\ oka b a). Proof. reflexivity. Qed.

Lemma alen_substa sg a : alen (substa sg a) = alen a.
Proof. induction a as [|t a IH]; [reflexivity|]. rewrite sba_cons. cbn. now rewrite IH. Qed.

Lemma cbn_tapp a oa b ob : CBN a oa -> CBN b ob -> CBN (tapp a b) (oa ++ ob).
Proof.
  intros Ha Hb. induction Ha; cbn [tapp app].
  - exact Hb.
  - now constructor.
  - rewrite <- app_assoc. eapply CBN_obj; eauto.
  - now apply CBN_id.
  - rewrite <- app_assoc. eapply CBN_fn; eauto.
  - replace ((commas ea ++ RP :: o) ++ ob) with (commas ea ++ RP :: (o ++ ob)) by (now rewrite <- app_assoc).
    now apply CBN_call.
Qed.

Lemma cbn_anth sg env : CBNA sg env -> forall i, CBN (anth i sg) (nth i env []).
Proof.
  induction 1 as [|t a x l Ht Ha IH]; intros i.
  - destruct i; constructor.
  - destruct i; cbn; [exact Ht|apply IH].
Qed.

Lemma rank_not_hidden n bound hs :
  (rank n < bound)%nat -> (forall h, In h hs -> (bound <= rank h)%nat) -> mem n hs = false.
Proof.
  intros R H. destruct (mem n hs) eqn:E; [|reflexivity].
  unfold mem in E. apply existsb_exists in E. destruct E as [h [Hh E]]. apply str_eqb_eq in E. subst.
  specialize (H _ Hh). lia.
Qed.

Hypothesis NR : nonrec tb rank.

Lemma exp_sound fuel :
  (forall hs env sg t o bound,
     exp fuel hs env t = Some o -> okt bound t -> (forall h, In h hs -> (bound <= rank h)%nat) -> CBNA sg env ->
     CBN (subst sg t) o) /\
  (forall hs env sg a ea bound,
     exps fuel hs env a = Some ea -> oka bound a -> (forall h, In h hs -> (bound <= rank h)%nat) -> CBNA sg env ->
     CBNA (substa sg a) ea).
Proof.
  induction fuel as [|f [IHt IHa]]; [split; intros; discriminate|].
  split.
  - intros hs env sg t o bound E OK HS EN. rewrite exp_S in E.
    destruct t as [|s r|n r|i r|n a r].
    + inversion E; subst. rewrite sb_end. constructor.
    + rewrite ok_sym in OK. rewrite sb_sym.
      destruct (exp f hs env r) as [o'|] eqn:Er; [|discriminate]. inversion E; subst.
      constructor. eapply IHt; eauto.
    + rewrite ok_id in OK. destruct OK as [OKn OKr]. rewrite sb_id.
      destruct (lookup tb n) as [[body|np body]|] eqn:L.
      * rewrite (rank_not_hidden n bound hs OKn HS) in E.
        destruct (exp f (n :: hs) [] body) as [o1|] eqn:E1; [|discriminate].
        destruct (exp f hs env r) as [o2|] eqn:E2; [|discriminate]. inversion E; subst.
        eapply CBN_obj; [exact L| |eapply IHt; eauto].
        eapply (IHt (n :: hs) [] ANil body o1 (rank n) E1).
        -- exact (NR n (Obj body) L).
        -- intros h [<-|Hh]; [lia|]. specialize (HS _ Hh). lia.
        -- constructor.
      * destruct OKn.
      * destruct (exp f hs env r) as [o'|] eqn:Er; [|discriminate]. inversion E; subst.
        apply CBN_id; [intros b; congruence|]. eapply IHt; eauto.
    + rewrite ok_par in OK. rewrite sb_par.
      destruct (exp f hs env r) as [o'|] eqn:Er; [|discriminate]. inversion E; subst.
      apply cbn_tapp; [now apply cbn_anth|eapply IHt; eauto].
    + rewrite ok_call in OK. destruct OK as [OKn [OKa OKr]]. rewrite sb_call.
      destruct (exps f hs env a) as [ea|] eqn:Ea; [|discriminate].
      assert (CA : CBNA (substa sg a) ea) by (eapply IHa; eauto).
      destruct (lookup tb n) as [[body|np body]|] eqn:L.
      * destruct OKn.
      * destruct OKn as [R AL].
        rewrite (rank_not_hidden n bound hs R HS) in E. rewrite AL, Nat.eqb_refl in E. cbn [negb andb] in E.
        destruct (exp f (n :: hs) ea body) as [o1|] eqn:E1; [|discriminate].
        destruct (exp f hs env r) as [o2|] eqn:E2; [|discriminate]. inversion E; subst.
        eapply CBN_fn; [exact L|apply alen_substa| |eapply IHt; eauto].
        eapply (IHt (n :: hs) ea (substa sg a) body o1 (rank n) E1).
        -- exact (NR n (Fn (alen a) body) L).
        -- intros h [<-|Hh]; [lia|]. specialize (HS _ Hh). lia.
        -- exact CA.
      * destruct (exp f hs env r) as [o'|] eqn:Er; [|discriminate]. inversion E; subst.
        apply CBN_call; [exact L|exact CA|eapply IHt; eauto].
  - intros hs env sg a ea bound E OK HS EN. rewrite exps_S in E.
    destruct a as [|t a'].
    + inversion E; subst. rewrite sba_nil. constructor.
    + rewrite oka_cons in OK. destruct OK as [OKt OKa]. rewrite sba_cons.
      destruct (exp f hs env t) as [x|] eqn:Et; [|discriminate].
      destruct (exps f hs env a') as [l|] eqn:El; [|discriminate]. inversion E; subst.
      constructor; [eapply IHt; eauto|eapply IHa; eauto].
Qed.

(* for a closed, parameter-free sequence over a non-recursive table the expansion is the call-by-name result *)
Theorem expand_eq_call_by_name fuel bound t o :
  okt bound t -> exp fuel [] [] t = Some o -> CBN (subst ANil t) o.
Proof.
  intros OK E. eapply (proj1 (exp_sound fuel) [] [] ANil t o bound E OK); [intros h []|constructor].
Qed.

(* and such a result always exists *)
Theorem expand_total_call_by_name bound t :
  okt bound t -> exists o, exp (S (enough [] (tsize t))) [] [] t = Some o /\ CBN (subst ANil t) o.
Proof.
  intros OK. destruct (expand_terminates [] [] t (S (enough [] (tsize t)))) as [o E]; [lia|].
  exists o. split; [exact E|]. eapply expand_eq_call_by_name; eauto.
Qed.
End Proofs.

Scheme term_mut := Induction for term Sort Prop
  with args_mut := Induction for args Sort Prop.
Combined Scheme term_args_ind from term_mut, args_mut.

Lemma subst_pfree sg :
  (forall t, pfree t -> subst sg t = t) /\ (forall a, pfreea a -> substa sg a = a).
Proof.
  apply term_args_ind.
  - reflexivity.
  - intros s r IH H. change (subst sg (TSym s r)) with (TSym s (subst sg r)). now rewrite IH.
  - intros n r IH H. change (subst sg (TId n r)) with (TId n (subst sg r)). now rewrite IH.
  - intros i r IH H. destruct H.
  - intros n a IHa r IHr [Ha Hr]. change (subst sg (TCall n a r)) with (TCall n (substa sg a) (subst sg r)).
    now rewrite IHa, IHr.
  - reflexivity.
  - intros t IHt a IHa [Ht Ha]. change (substa sg (ACons t a)) with (ACons (subst sg t) (substa sg a)).
    now rewrite IHt, IHa.
Qed.

Theorem expand_total_cbn_file tb rank bound t :
  nonrec tb rank -> okt tb rank bound t -> pfree t ->
  exists o, exp tb (S (enough tb [] (tsize t))) [] [] t = Some o /\ CBN tb t o.
Proof.
  intros NR OK PF. destruct (expand_total_call_by_name tb rank NR bound t OK) as [o [E C]].
  exists o. split; [exact E|]. now rewrite (proj1 (subst_pfree ANil) t PF) in C.
Qed.

(* the hypotheses are inhabited:  #define G(x) x + x   /   #define F(y) G(y) ;   F(G(1)) *)
Definition nG : str := [71%N]. Definition nF : str := [70%N].
Definition tb_ex : table :=
  [(nG, Fn 1 (TPar 0 (TSym [43%N] (TPar 0 TEnd)))); (nF, Fn 1 (TCall nG (ACons (TPar 0 TEnd) ANil) (TSym [59%N] TEnd)))].
Definition rank_ex (n : str) : nat := if str_eqb n nF then 1 else 0.
Definition use_ex : term := TCall nF (ACons (TCall nG (ACons (TSym [49%N] TEnd) ANil) TEnd) ANil) TEnd.

Lemma nonrec_ex : nonrec tb_ex rank_ex.
Proof.
  intros n d H. unfold tb_ex in H. cbn [lookup] in H.
  destruct (str_eqb n nG) eqn:E1.
  - inversion H; subst. cbn. tauto.
  - destruct (str_eqb n nF) eqn:E2; [|discriminate].
    inversion H; subst. apply str_eqb_eq in E2. subst. cbn. repeat split; auto.
Qed.

Lemma okt_ex : okt tb_ex rank_ex 2 use_ex.
Proof. cbn. repeat split; auto. Qed.

Example expand_ex : exp tb_ex 40 [] [] use_ex = Some [[49%N]; [43%N]; [49%N]; [43%N]; [49%N]; [43%N]; [49%N]; [59%N]].   (* 1 + 1 + 1 + 1 ; *)
Proof. vm_compute. reflexivity. Qed.
