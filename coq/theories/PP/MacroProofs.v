(* C11 core (iii): proofs about the #/##-free expansion model. *)
From CV Require Import Base.Bytes PP.Macro.
Require Import Lia.

Section Proofs.
Variable tb : table.
Notation exp := (exp tb).
Notation exps := (exps tb).
Notation unhidden := (unhidden tb).
Notation maxbody := (maxbody tb).
Notation enough := (enough tb).

Lemma lookup_in n d : lookup tb n = Some d -> In n (map fst tb).
Proof.
  induction tb as [|[m e] l IH]; cbn; [discriminate|].
  destruct (str_eqb n m) eqn:E; [apply str_eqb_eq in E; subst; now left|right; auto].
Qed.

Lemma maxbody_ge n d : lookup tb n = Some d -> (tsize (body_of d) <= maxbody)%nat.
Proof.
  unfold Macro.maxbody. induction tb as [|[m e] l IH]; cbn; [discriminate|].
  destruct (str_eqb n m); [intros H; inversion H; subst; lia|intros H; specialize (IH H); lia].
Qed.

(* unfolding equations of the mutual fixpoints *)
Lemma exp_S f hs env t : exp (S f) hs env t =
      match t with
      | TEnd => Some []
      | TSym s r => option_map (cons s) (exp f hs env r)
      | TPar i r => option_map (app (nth i env [])) (exp f hs env r)
      | TId n r =>
          match lookup tb n with
          | Some (Obj body) =>
              if mem n hs then option_map (cons n) (exp f hs env r)
              else opt_app (exp f (n :: hs) [] body) (exp f hs env r)
          | _ => option_map (cons n) (exp f hs env r)
          end
      | TCall n a r =>
          match exps f hs env a with
          | None => None
          | Some ea =>
              match lookup tb n with
              | Some (Fn np body) =>
                  if negb (mem n hs) && Nat.eqb (alen a) np
                  then opt_app (exp f (n :: hs) ea body) (exp f hs env r)
                  else option_map (fun o => n :: LP :: commas ea ++ RP :: o) (exp f hs env r)
              | Some (Obj body) =>
                  if mem n hs then option_map (fun o => n :: LP :: commas ea ++ RP :: o) (exp f hs env r)
                  else opt_app (exp f (n :: hs) [] body)
                               (option_map (fun o => LP :: commas ea ++ RP :: o) (exp f hs env r))
              | None => option_map (fun o => n :: LP :: commas ea ++ RP :: o) (exp f hs env r)
              end
          end
      end.
Proof. reflexivity. Qed.
Lemma exps_S f hs env a : exps (S f) hs env a =
      match a with
      | ANil => Some []
      | ACons t a' =>
          match exp f hs env t, exps f hs env a' with
          | Some x, Some l => Some (x :: l)
          | _, _ => None
          end
      end.
Proof. reflexivity. Qed.
Lemma ts_end : tsize TEnd = 1%nat. Proof. reflexivity. Qed.
Lemma ts_sym s r : tsize (TSym s r) = S (tsize r). Proof. reflexivity. Qed.
Lemma ts_id n r : tsize (TId n r) = S (tsize r). Proof. reflexivity. Qed.
Lemma ts_par i r : tsize (TPar i r) = S (tsize r). Proof. reflexivity. Qed.
Lemma ts_call n a r : tsize (TCall n a r) = S (asize a + tsize r). Proof. reflexivity. Qed.
Lemma as_nil : asize ANil = 1%nat. Proof. reflexivity. Qed.
Lemma as_cons t a : asize (ACons t a) = S (tsize t + asize a). Proof. reflexivity. Qed.

Lemma mem_cons x n hs : mem x (n :: hs) = (str_eqb x n || mem x hs)%bool.
Proof. reflexivity. Qed.

Lemma filter_le (l : list str) n hs :
  (length (filter (fun x => negb (mem x (n :: hs))) l) <= length (filter (fun x => negb (mem x hs)) l))%nat.
Proof.
  induction l as [|x l IH]; cbn [filter]; [cbn; lia|].
  rewrite mem_cons. destruct (str_eqb x n); destruct (mem x hs); cbn [orb negb length]; lia.
Qed.

Lemma filter_lt (l : list str) n hs :
  NoDup l -> In n l -> mem n hs = false ->
  (S (length (filter (fun x => negb (mem x (n :: hs))) l)) <= length (filter (fun x => negb (mem x hs)) l))%nat.
Proof.
  induction l as [|x l IH]; intros ND HI HM; [destruct HI|].
  inversion ND as [|? ? Hx ND']; subst. cbn [filter]. rewrite mem_cons.
  destruct HI as [->|HI].
  - assert (E : str_eqb n n = true) by now apply str_eqb_eq.
    rewrite E, HM. cbn [orb negb length]. pose proof (filter_le l n hs). lia.
  - specialize (IH ND' HI HM).
    destruct (str_eqb x n) eqn:E.
    + apply str_eqb_eq in E. subst. contradiction.
    + cbn [orb]. destruct (mem x hs); cbn [negb length]; lia.
Qed.

Lemma unhidden_cons n d hs :
  lookup tb n = Some d -> mem n hs = false -> (S (unhidden (n :: hs)) <= unhidden hs)%nat.
Proof.
  intros L M. unfold Macro.unhidden. apply filter_lt; [apply NoDup_nodup| |exact M].
  apply nodup_In. eapply lookup_in; eauto.
Qed.

(* ---- (a) termination: an explicit, linear fuel bound.  Every recursive call either descends into a
   proper part of the sequence (same hide set) or enters a macro body and adds its name to the hide set. *)
Lemma exp_terminates_both fuel :
  (forall hs env t, (enough hs (tsize t) < fuel)%nat -> exp fuel hs env t <> None) /\
  (forall hs env a, (enough hs (asize a) < fuel)%nat -> exps fuel hs env a <> None).
Proof.
  induction fuel as [|f [IHt IHa]]; [split; intros; lia|].
  assert (BODY : forall n d hs env (s : nat), lookup tb n = Some d -> mem n hs = false ->
                 (enough hs s < S f)%nat -> (1 <= s)%nat -> exp f (n :: hs) env (body_of d) <> None).
  { intros n d hs env s L M H S1. apply IHt. unfold Macro.enough in *.
    pose proof (unhidden_cons n d hs L M). pose proof (maxbody_ge n d L). nia. }
  split.
  - intros hs env t H. unfold Macro.enough in H.
    destruct t as [|s r|n r|i r|n a r]; rewrite exp_S; rewrite ?ts_end, ?ts_sym, ?ts_id, ?ts_par, ?ts_call in H.
    + discriminate.
    + assert (X : exp f hs env r <> None) by (apply IHt; unfold Macro.enough; lia).
      destruct (exp f hs env r); [discriminate|congruence].
    + assert (X : exp f hs env r <> None) by (apply IHt; unfold Macro.enough; lia).
      destruct (lookup tb n) as [[body|np body]|] eqn:L.
      * destruct (mem n hs) eqn:M.
        -- destruct (exp f hs env r); [discriminate|congruence].
        -- assert (Y := BODY n (Obj body) hs [] (S (tsize r)) L M).
           cbn [body_of] in Y. unfold Macro.enough in Y.
           destruct (exp f (n :: hs) [] body); [|exfalso; apply Y; [lia|lia|reflexivity]].
           destruct (exp f hs env r); [discriminate|congruence].
      * destruct (exp f hs env r); [discriminate|congruence].
      * destruct (exp f hs env r); [discriminate|congruence].
    + assert (X : exp f hs env r <> None) by (apply IHt; unfold Macro.enough; lia).
      destruct (exp f hs env r); [discriminate|congruence].
    + assert (X : exp f hs env r <> None) by (apply IHt; unfold Macro.enough; lia).
      assert (Z : exps f hs env a <> None) by (apply IHa; unfold Macro.enough; lia).
      destruct (exps f hs env a) as [ea|]; [|congruence].
      destruct (exp f hs env r) as [o|]; [|congruence].
      destruct (lookup tb n) as [[body|np body]|] eqn:L.
      * destruct (mem n hs) eqn:M; [(cbn; discriminate)|].
        assert (Y := BODY n (Obj body) hs [] (S (asize a + tsize r)) L M).
        cbn [body_of] in Y. unfold Macro.enough in Y.
        destruct (exp f (n :: hs) [] body); [(cbn; discriminate)|exfalso; apply Y; [lia|lia|reflexivity]].
      * destruct (mem n hs) eqn:M; cbn [negb andb]; [(cbn; discriminate)|].
        destruct (Nat.eqb (alen a) np); [|(cbn; discriminate)].
        assert (Y := BODY n (Fn np body) hs ea (S (asize a + tsize r)) L M).
        cbn [body_of] in Y. unfold Macro.enough in Y.
        destruct (exp f (n :: hs) ea body); [(cbn; discriminate)|exfalso; apply Y; [lia|lia|reflexivity]].
      * (cbn; discriminate).
  - intros hs env a H. unfold Macro.enough in H.
    destruct a as [|t a']; rewrite exps_S; rewrite ?as_nil, ?as_cons in H; [discriminate|].
    assert (X : exp f hs env t <> None) by (apply IHt; unfold Macro.enough; lia).
    assert (Z : exps f hs env a' <> None) by (apply IHa; unfold Macro.enough; lia).
    destruct (exp f hs env t); [|congruence]. destruct (exps f hs env a'); [discriminate|congruence].
Qed.

Theorem expand_terminates hs env t fuel :
  (enough hs (tsize t) < fuel)%nat -> exists o, exp fuel hs env t = Some o.
Proof.
  intros H. destruct (exp fuel hs env t) eqn:E; [eauto|].
  exfalso. now apply (proj1 (exp_terminates_both fuel) hs env t H).
Qed.
End Proofs.
