(* C11: the # operator (C11 6.10.3.2p2) and simplecppsquotes Macro::expandHash + escapeString, on spellings.
   Definitions only. *)
From CV Require Import Base.Bytes.
Local Open Scope N_scope.

Definition DQ : N := 34. Definition BS : N := 92. Definition SQ : N := 39. Definition SP : N := 32.

(* a string literal or character constant, possibly with an encoding prefix L u U u8 *)
Definition lit_start (s : str) : bool :=
  match s with
  | 34 :: _ | 39 :: _ => true
  | 76 :: 34 :: _ | 76 :: 39 :: _ => true                       (* L *)
  | 85 :: 34 :: _ | 85 :: 39 :: _ => true                       (* U *)
  | 117 :: 34 :: _ | 117 :: 39 :: _ => true                     (* u *)
  | 117 :: 56 :: 34 :: _ | 117 :: 56 :: 39 :: _ => true         (* u8 *)
  | _ => false
  end.

Definition esc_with (set : list N) (s : str) : str :=
  flat_map (fun c => if existsb (N.eqb c) set then [BS; c] else [c]) s.

(* the standard: a backslash before each dquote and \ of a string literal / character constant, other tokens as spelled;
   white space between tokens becomes one blank (ws = the token is preceded by white space) *)
Definition tok_c (t : str) : str := if lit_start t then esc_with [DQ; BS] t else t.
Fixpoint body_c (first : bool) (ts : list (bool * str)) : str :=
  match ts with
  | [] => []
  | (ws, t) :: r => (if ws && negb first then [SP] else []) ++ tok_c t ++ body_c false r
  end.
Definition stringize_c (ts : list (bool * str)) : str := DQ :: body_c true ts ++ [DQ].

(* the text the argument denotes *)
Fixpoint spelling (first : bool) (ts : list (bool * str)) : str :=
  match ts with
  | [] => []
  | (ws, t) :: r => (if ws && negb first then [SP] else []) ++ t ++ spelling false r
  end.

(* simplecpp: the assembled text is escaped as a whole: \ dquote and squote everywhere *)
Definition stringize_s (text : str) : str := DQ :: esc_with [BS; DQ; SQ] text ++ [DQ].

(* reading a string literal back: the characters it denotes (simple escapes \dquote \\ \squote only) *)
Fixpoint unq_go (l : str) (acc : str) : option str :=
  match l with
  | [] => None                                    (* unterminated *)
  | c :: r =>
      if c =? DQ then match r with [] => Some acc | _ => None end      (* a bare dquote must be the closing one *)
      else if c =? BS then
        match r with
        | d :: r' => if (d =? DQ) || (d =? BS) || (d =? SQ) then unq_go r' (acc ++ [d]) else None
        | [] => None
        end
      else unq_go r (acc ++ [c])
  end.
Definition unquote (s : str) : option str :=
  match s with
  | 34 :: r => unq_go r []
  | _ => None
  end.

Definition has (c : N) (s : str) : bool := existsb (N.eqb c) s.
