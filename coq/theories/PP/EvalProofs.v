(* C11 core (ii): where simplecpp's #if evaluator leaves C 6.6 (machine-checked witnesses),
   and the agreement on a single binary operation. *)
From CV Require Import Base.Bytes PP.Eval.
Local Open Scope Z_scope.

Definition L (z : Z) := ELit z false.
Definition U (z : Z) := ELit z true.

(* each line: the tree, what C says, what simplecpp computes on the tokens `print 0 e` *)
Definition deviates (e : expr) (c : cres) (s : outcome Z) : Prop :=
  ceval e = c /\ ppeval (print 0 e) = s.

(* !!1 : the single left-to-right scan of constFoldUnaryNotPosNeg folds the inner ! only; two tokens remain -> 0 *)
Lemma dev_not_not : deviates (EUn ONot (EUn ONot (L 1))) (CVal 1 false) (Val 0).
Proof. split; vm_compute; reflexivity. Qed.
(* - - 1 *)
Lemma dev_neg_neg : deviates (EUn OMinus (EUn OMinus (L 1))) (CVal 1 false) (Val 0).
Proof. split; vm_compute; reflexivity. Qed.
(* ~~1 *)
Lemma dev_compl_compl : deviates (EUn OCompl (EUn OCompl (L 1))) (CVal 1 false) (Val 0).
Proof. split; vm_compute; reflexivity. Qed.
(* 1 || 0 && 0 : && and || are folded in one pass, left to right *)
Lemma dev_lor_land : deviates (EBin OLOr (L 1) (EBin OLAnd (L 0) (L 0))) (CVal 1 false) (Val 0).
Proof. split; vm_compute; reflexivity. Qed.
(* 0 != 2 > 1 : relational and equality operators are folded in one pass *)
Lemma dev_ne_gt : deviates (EBin ONe (L 0) (EBin OGt (L 2) (L 1))) (CVal 1 false) (Val 0).
Proof. split; vm_compute; reflexivity. Qed.
(* 1 ? 2 : 0 ? 0 : 0 : the conditional operator takes one token per branch *)
Lemma dev_cond_nested : deviates (ECond (L 1) (L 2) (ECond (L 0) (L 0) (L 0))) (CVal 2 false) (Val 0).
Proof. split; vm_compute; reflexivity. Qed.
(* 0 - 1 < 0u : unsigned operands are computed as long long *)
Lemma dev_unsigned_lt : deviates (EBin OLt (EBin OMinus (L 0) (L 1)) (U 0)) (CVal 0 false) (Val 1).
Proof. split; vm_compute; reflexivity. Qed.
(* !0u : the string "0u" is not "0" *)
Lemma dev_not_0u : deviates (EUn ONot (U 0)) (CVal 1 false) (Val 0).
Proof. split; vm_compute; reflexivity. Qed.

(* 0 && 1/0 : operands that C does not evaluate are folded, the division throws *)
Lemma dev_unevaluated_div : deviates (EBin OLAnd (L 0) (EBin ODiv (L 1) (L 0))) (CVal 0 false) Exc.
Proof. split; vm_compute; reflexivity. Qed.

Theorem ppeval_spec_refuted :
  exists e z, ceval e = CVal z false /\ z <> 0 /\ ppeval (print 0 e) = Val 0.
Proof. exists (EUn ONot (EUn ONot (L 1))), 1. repeat split; try (vm_compute; reflexivity). discriminate. Qed.

(* agreement on one binary operation of two non-negative plain literals, for every operator and all values:
   same value, exception exactly on division by zero, C-undefined exactly where the model reports Range *)
Definition is_binop (o : op) : bool :=
  match o with ONot | OCompl | OQuest | OColon => false | _ => true end.

Theorem ppeval_single_binop o a b :
  is_binop o = true -> 0 <= a -> 0 <= b ->
  match cbin o (a, false) (b, false) with
  | CVal r _ => ppeval [TNum a true; TOp o; TNum b true] = Val r
  | CDiv0 => ppeval [TNum a true; TOp o; TNum b true] = Exc
  | CUndef => ppeval [TNum a true; TOp o; TNum b true] = Range
  end.
Proof.
  intros Ho Ha Hb.
  assert (Hb1 : (b =? -1) = false) by (apply Z.eqb_neq; lia).
  assert (Ha0 : (0 <=? a) = true) by (apply Z.leb_le; lia).
  destruct o; try discriminate; unfold ppeval, cbin; cbn -[Z.mul Z.add Z.sub Z.quot Z.rem Z.shiftl Z.shiftr Z.land Z.lor Z.lxor in_ll Z.eqb Z.ltb Z.leb Z.gtb Z.geb MINLL];
    rewrite ?Hb1, ?Ha0; cbn -[Z.mul Z.add Z.sub Z.quot Z.rem Z.shiftl Z.shiftr Z.land Z.lor Z.lxor in_ll Z.eqb Z.ltb Z.leb Z.gtb Z.geb MINLL].
  all: try (destruct (in_ll _); reflexivity).
  all: try (destruct (b =? 0); reflexivity).
  all: try reflexivity.
  all: try (destruct ((0 <=? b) && (b <? 64))%bool; cbn; try reflexivity; destruct (in_ll _); reflexivity).
Qed.
