(* Conditional-inclusion skeleton (C11 core i; the guard trees are shared with C12).
   Model of the directive loop of simplecpp::preprocess (externals/simplecpp/simplecpp.cpp):
   the `ifstates` stack True / ElseIsTrue / AlwaysFalse, which conditions are
   evaluated, when a line is kept, and the "#x without #if" error.
   Definitions only. *)
From CV Require Import Base.Bytes.
Local Open Scope N_scope.

Section Cond.
Variable G : Type.                    (* a controlling condition *)

(* source files as trees: a forest is a sequence of lines and conditional groups *)
Inductive forest :=
| FNil
| FCode (id : N) (next : forest)                          (* one ordinary line *)
| FGroup (g : G) (body : forest) (t : tail) (next : forest) (* #if g body t *)
with tail :=
| TEnd                                                    (* #endif *)
| TElse (body : forest)                                   (* #else body #endif *)
| TElif (g : G) (body : forest) (t : tail).               (* #elif g body t *)

Inductive dir := DIf (g : G) | DElif (g : G) | DElse | DEndif | DLine (id : N).

Fixpoint flatten (f : forest) : list dir :=
  match f with
  | FNil => []
  | FCode id n => DLine id :: flatten n
  | FGroup g b t n => DIf g :: flatten b ++ flatten_tail t ++ flatten n
  end
with flatten_tail (t : tail) : list dir :=
  match t with
  | TEnd => [DEndif]
  | TElse b => DElse :: flatten b ++ [DEndif]
  | TElif g b t' => DElif g :: flatten b ++ flatten_tail t'
  end.

Fixpoint ids (f : forest) : list N :=
  match f with
  | FNil => []
  | FCode id n => id :: ids n
  | FGroup _ b t n => ids b ++ ids_tail t ++ ids n
  end
with ids_tail (t : tail) : list N :=
  match t with
  | TEnd => []
  | TElse b => ids b
  | TElif _ b t' => ids b ++ ids_tail t'
  end.

(* ---- the declarative meaning (C 6.10.1): a line is kept iff every enclosing
   group is the first group of its chain whose condition is true. Conditions are
   evaluated only where the standard evaluates them; a failing evaluation (None)
   makes the translation unit invalid. *)
Variable ev : G -> option bool.

Fixpoint keep (f : forest) : option (list N) :=
  match f with
  | FNil => Some []
  | FCode id n => option_map (cons id) (keep n)
  | FGroup g b t n =>
      match ev g with
      | None => None
      | Some c =>
          match (if c then keep b else keep_tail t), keep n with
          | Some x, Some y => Some (x ++ y)
          | _, _ => None
          end
      end
  end
with keep_tail (t : tail) : option (list N) :=
  match t with
  | TEnd => Some []
  | TElse b => keep b
  | TElif g b t' =>
      match ev g with
      | None => None
      | Some c => if c then keep b else keep_tail t'
      end
  end.

(* ---- the machine *)
Inductive ifstate := STrue | SElseIsTrue | SAlwaysFalse.

Definition ifstate_eqb (a b : ifstate) : bool :=
  match a, b with
  | STrue, STrue | SElseIsTrue, SElseIsTrue | SAlwaysFalse, SAlwaysFalse => true
  | _, _ => false
  end.

(* the stack without its bottom element (simplecpp pushes True first; size<=1
   there is `[]` here); `top [] = STrue`. *)
Definition top (st : list ifstate) : ifstate :=
  match st with [] => STrue | s :: _ => s end.

Inductive res (A : Type) := Ok (a : A) | ErrNesting | ErrEval.
Arguments Ok {A}. Arguments ErrNesting {A}. Arguments ErrEval {A}.

Definition cond_step (st : list ifstate) (d : dir) : res (list ifstate * option N) :=
  match d with
  | DLine id => Ok (st, match top st with STrue => Some id | _ => None end)
  | DIf g =>
      match top st with
      | STrue => match ev g with
                 | None => ErrEval
                 | Some c => Ok ((if c then STrue else SElseIsTrue) :: st, None)
                 end
      | _ => Ok (SAlwaysFalse :: st, None)           (* condition not evaluated *)
      end
  | DElif g =>
      match st with
      | [] => ErrNesting                              (* "#elif without #if" *)
      | SAlwaysFalse :: _ => Ok (st, None)            (* condition not evaluated *)
      | s :: r =>                                     (* True or ElseIsTrue: evaluated *)
          match ev g with
          | None => ErrEval
          | Some c => Ok ((match s with
                           | STrue => SAlwaysFalse
                           | _ => if c then STrue else SElseIsTrue
                           end) :: r, None)
          end
      end
  | DElse =>
      match st with
      | [] => ErrNesting
      | s :: r => Ok ((match s with SElseIsTrue => STrue | _ => SAlwaysFalse end) :: r, None)
      end
  | DEndif =>
      match st with
      | [] => ErrNesting
      | _ :: r => Ok (r, None)
      end
  end.

Fixpoint cond_run (st : list ifstate) (ds : list dir) : res (list ifstate * list N) :=
  match ds with
  | [] => Ok (st, [])
  | d :: ds' =>
      match cond_step st d with
      | Ok (st', o) =>
          match cond_run st' ds' with
          | Ok (st'', out) => Ok (st'', match o with Some id => id :: out | None => out end)
          | ErrNesting => ErrNesting
          | ErrEval => ErrEval
          end
      | ErrNesting => ErrNesting
      | ErrEval => ErrEval
      end
  end.

(* what simplecpp outputs for a whole file: the kept lines; an open group at
   the end of the file is not diagnosed *)
Definition cond_file (ds : list dir) : res (list N) :=
  match cond_run [] ds with
  | Ok (_, out) => Ok out
  | ErrNesting => ErrNesting
  | ErrEval => ErrEval
  end.

End Cond.

Arguments FNil {G}. Arguments FCode {G}. Arguments FGroup {G}.
Arguments TEnd {G}. Arguments TElse {G}. Arguments TElif {G}.
Arguments DIf {G}. Arguments DElif {G}. Arguments DElse {G}. Arguments DEndif {G}. Arguments DLine {G}.
Arguments Ok {A}. Arguments ErrNesting {A}. Arguments ErrEval {A}.
