(* C11 core (ii): the #if evaluator of simplecpp (externals/simplecpp/simplecpp.cpp
   evaluate -> simplifyName, TokenList::constFold and its passes constFoldUnaryNotPosNeg,
   constFoldMulDivRem, constFoldAddSub, constFoldShift, constFoldComparison, constFoldBitwise,
   constFoldLogicalOp, constFoldQuestionOp), as a rewriting of the token list, and the
   C 6.6 / 6.10.1 meaning of the same expressions on syntax trees.  Definitions only. *)
From CV Require Import Base.Bytes.
Local Open Scope Z_scope.

Inductive op :=
| ONot | OCompl | OPlus | OMinus | OMul | ODiv | OMod | OShl | OShr
| OLt | OLe | OGt | OGe | OEq | ONe | OBAnd | OBXor | OBOr | OLAnd | OLOr | OQuest | OColon.

Definition op_eqb (a b : op) : bool :=
  match a, b with
  | ONot, ONot | OCompl, OCompl | OPlus, OPlus | OMinus, OMinus | OMul, OMul | ODiv, ODiv | OMod, OMod
  | OShl, OShl | OShr, OShr | OLt, OLt | OLe, OLe | OGt, OGt | OGe, OGe | OEq, OEq | ONe, ONe
  | OBAnd, OBAnd | OBXor, OBXor | OBOr, OBOr | OLAnd, OLAnd | OLOr, OLOr | OQuest, OQuest | OColon, OColon => true
  | _, _ => false
  end.

(* a number token: its value as stringToLL reads it, and whether its spelling is exactly
   what toString prints (false for a literal with a u/U suffix: "0u" is not the string "0") *)
Inductive tok :=
| TNum (z : Z) (plain : bool)
| TOp (o : op)
| TLP | TRP
| TBad.                      (* a token that is neither number nor operator, e.g. "--5" *)

Definition is_num (t : tok) : bool := match t with TNum _ _ => true | _ => false end.
Definition is_rp (t : tok) : bool := match t with TRP => true | _ => false end.
Definition is_zero_str (t : tok) : bool := match t with TNum 0 true => true | _ => false end.

Definition MINLL : Z := - 9223372036854775808.
Definition MAXLL : Z := 9223372036854775807.
Definition in_ll (z : Z) : bool := (MINLL <=? z) && (z <=? MAXLL).

Inductive outcome (A : Type) := Val (a : A) | Exc | Range.
(* Exc: simplecpp throws (division by zero, invalid expression);
   Range: a long long operation of the C++ code would overflow or shift out of range (undefined
   behaviour there): the model does not predict these, they are counted, never compared *)
Arguments Val {A}. Arguments Exc {A}. Arguments Range {A}.

Definition b2z (b : bool) : Z := if b then 1 else 0.

(* one binary operation on long long, as the pass computes it *)
Definition bin_ll (o : op) (a b : Z) : outcome Z :=
  let chk r := if in_ll r then Val r else Range in
  match o with
  | OMul => chk (a * b)
  | ODiv => if b =? 0 then Exc else if (b =? -1) && (a =? MINLL) then Exc else Val (Z.quot a b)
  | OMod => if b =? 0 then Exc else if (b =? -1) && (a =? MINLL) then Exc else Val (Z.rem a b)
  | OPlus => chk (a + b)
  | OMinus => chk (a - b)
  | OShl => if (0 <=? b) && (b <? 64) && (0 <=? a) then chk (Z.shiftl a b) else Range
  | OShr => if (0 <=? b) && (b <? 64) then Val (Z.shiftr a b) else Range
  | OLt => Val (b2z (a <? b)) | OLe => Val (b2z (a <=? b))
  | OGt => Val (b2z (a >? b)) | OGe => Val (b2z (a >=? b))
  | OEq => Val (b2z (a =? b)) | ONe => Val (b2z (negb (a =? b)))
  | OBAnd => Val (Z.land a b) | OBXor => Val (Z.lxor a b) | OBOr => Val (Z.lor a b)
  | OLAnd => Val (b2z (negb (a =? 0) && negb (b =? 0)))
  | OLOr => Val (b2z (negb (a =? 0) || negb (b =? 0)))
  | _ => Exc
  end.

(* a left-to-right pass folding `num o num` for o in `ops`; acc is the reversed part already passed
   (after a fold the result becomes the left neighbour of what follows: `tok = tok->previous`) *)
Fixpoint fold_bin (ops : list op) (acc : list tok) (rest : list tok) : outcome (list tok) :=
  match rest with
  | [] => Val (rev acc)
  | t :: rest' =>
      match t with
      | TRP => Val (rev acc ++ rest)                  (* the loops stop at the first ')' *)
      | TOp o =>
          match acc, rest' with
          | TNum a pa :: acc', TNum b pb :: rest'' =>
              if existsb (op_eqb o) ops then
                match bin_ll o a b with
                | Val r => fold_bin ops (TNum r true :: acc') rest''
                | Exc => Exc
                | Range => Range
                end
              else fold_bin ops (t :: acc) rest'
          | _, _ => fold_bin ops (t :: acc) rest'
          end
      | _ => fold_bin ops (t :: acc) rest'
      end
  end.

(* constFoldUnaryNotPosNeg *)
Fixpoint fold_unary (acc : list tok) (rest : list tok) : outcome (list tok) :=
  match rest with
  | [] => Val (rev acc)
  | t :: rest' =>
      match t, rest' with
      | TRP, _ => Val (rev acc ++ rest)
      | TOp ONot, TNum b pb :: rest'' =>
          fold_unary (TNum (b2z (is_zero_str (TNum b pb))) true :: acc) rest''
      | TOp OCompl, TNum b pb :: rest'' =>
          fold_unary (TNum (- b - 1) true :: acc) rest''
      | TOp OPlus, TNum b pb :: rest'' =>
          match acc with
          | TNum _ _ :: _ => fold_unary (t :: acc) rest'
          | _ => fold_unary (TNum b pb :: acc) rest''
          end
      | TOp OMinus, TNum b pb :: rest'' =>
          match acc with
          | TNum _ _ :: _ => fold_unary (t :: acc) rest'
          | _ => (* "-" + str: a number again only if str starts with a digit *)
                 if 0 <=? b then fold_unary (TNum (- b) (pb && negb (b =? 0)) :: acc) rest''
                 else fold_unary (TBad :: acc) rest''
          end
      | _, _ => fold_unary (t :: acc) rest'
      end
  end.

(* constFoldQuestionOp: `num ? t : f` keeps one token; the scan restarts after every rewrite *)
Fixpoint quest_scan (acc : list tok) (rest : list tok) : outcome (option (list tok)) :=
  (* Some l: one rewrite done, l is the new segment; None: nothing to rewrite *)
  match rest with
  | [] => Val None
  | TRP :: _ => Val None
  | TOp OQuest :: rest' =>
      match acc, rest' with
      | [], _ => Exc
      | _, [] => Exc
      | _, [_] => Exc
      | c :: acc', t :: sep :: rest'' =>
          if is_num c then
            match sep with
            | TOp OColon =>
                match rest'' with
                | [] => Exc
                | f :: rest3 => Val (Some (rev acc' ++ (if is_zero_str c then f else t) :: rest3))
                end
            | _ => quest_scan (TOp OQuest :: acc) rest'
            end
          else quest_scan (TOp OQuest :: acc) rest'
      end
  | t :: rest' => quest_scan (t :: acc) rest'
  end.

Fixpoint fold_quest (fuel : nat) (seg : list tok) : outcome (list tok) :=
  match fuel with
  | O => Range
  | S f => match quest_scan [] seg with
           | Val (Some seg') => fold_quest f seg'
           | Val None => Val seg
           | Exc => Exc
           | Range => Range
           end
  end.

Definition bind {A B} (x : outcome A) (f : A -> outcome B) : outcome B :=
  match x with Val a => f a | Exc => Exc | Range => Range end.

(* all passes over one segment (which starts at the last '(' or at the front) *)
Definition passes (seg : list tok) : outcome (list tok) :=
  bind (fold_unary [] seg) (fun s1 =>
  bind (fold_bin [OMul; ODiv; OMod] [] s1) (fun s2 =>
  bind (fold_bin [OPlus; OMinus] [] s2) (fun s3 =>
  bind (fold_bin [OShl; OShr] [] s3) (fun s4 =>
  bind (fold_bin [OLt; OLe; OGt; OGe; OEq; ONe] [] s4) (fun s5 =>
  bind (fold_bin [OBAnd] [] s5) (fun s6 =>
  bind (fold_bin [OBXor] [] s6) (fun s7 =>
  bind (fold_bin [OBOr] [] s7) (fun s8 =>
  bind (fold_bin [OLAnd; OLOr] [] s8) (fun s9 =>
  fold_quest (S (length s9)) s9))))))))).

(* split at the last '(' : (before, from '(' on) ; None if there is no '(' *)
Fixpoint split_last_lp (l : list tok) : option (list tok * list tok) :=
  match l with
  | [] => None
  | t :: l' =>
      match split_last_lp l' with
      | Some (a, b) => Some (t :: a, b)
      | None => match t with TLP => Some ([], l) | _ => None end
      end
  end.

Fixpoint const_fold (fuel : nat) (l : list tok) : outcome (list tok) :=
  match fuel with
  | O => Range
  | S f =>
      match l with
      | [] => Val []
      | _ =>
          match split_last_lp l with
          | None => passes l
          | Some (pre, seg) =>
              bind (passes seg) (fun seg' =>
                match seg' with
                | TLP :: x :: TRP :: post => const_fold f (pre ++ x :: post)
                | _ => Val (pre ++ seg')
                end)
          end
      end
  end.

(* evaluate(): one number token left -> its value, anything else -> 0 *)
Definition ppeval (l : list tok) : outcome Z :=
  bind (const_fold (S (length l)) l) (fun r =>
    match r with
    | [TNum z _] => Val z
    | _ => Val 0
    end).

(* ---- C semantics (6.6, 6.10.1p4): intmax_t / uintmax_t on syntax trees *)
Inductive expr :=
| ELit (z : Z) (unsigned : bool)
| EUn (o : op) (a : expr)
| EBin (o : op) (a b : expr)
| ECond (c a b : expr).

Definition TWO64 : Z := 18446744073709551616.
(* value with its type: (z, true) unsigned, z in [0,2^64); (z, false) signed *)
Definition wrapu (z : Z) : Z := z mod TWO64.
Definition as_u (v : Z * bool) : Z := if snd v then fst v else wrapu (fst v).

Inductive cres := CVal (z : Z) (u : bool) | CDiv0 | CUndef.   (* CUndef: signed overflow / bad shift *)

Definition cbin (o : op) (x y : Z * bool) : cres :=
  let u := snd x || snd y in
  let sres r := if in_ll r then CVal r false else CUndef in
  match o with
  | OLAnd => CVal (b2z (negb (fst x =? 0) && negb (fst y =? 0))) false
  | OLOr => CVal (b2z (negb (fst x =? 0) || negb (fst y =? 0))) false
  | OShl => if (0 <=? fst y) && (fst y <? 64)
            then if snd x then CVal (wrapu (Z.shiftl (fst x) (fst y))) true
                 else if 0 <=? fst x then sres (Z.shiftl (fst x) (fst y)) else CUndef
            else CUndef
  | OShr => if (0 <=? fst y) && (fst y <? 64) then CVal (Z.shiftr (fst x) (fst y)) (snd x) else CUndef
  | _ =>
    if u then
      let a := as_u x in let b := as_u y in
      match o with
      | OMul => CVal (wrapu (a * b)) true | OPlus => CVal (wrapu (a + b)) true | OMinus => CVal (wrapu (a - b)) true
      | ODiv => if b =? 0 then CDiv0 else CVal (a / b) true
      | OMod => if b =? 0 then CDiv0 else CVal (a mod b) true
      | OLt => CVal (b2z (a <? b)) false | OLe => CVal (b2z (a <=? b)) false
      | OGt => CVal (b2z (a >? b)) false | OGe => CVal (b2z (a >=? b)) false
      | OEq => CVal (b2z (a =? b)) false | ONe => CVal (b2z (negb (a =? b))) false
      | OBAnd => CVal (Z.land a b) true | OBXor => CVal (Z.lxor a b) true | OBOr => CVal (Z.lor a b) true
      | _ => CUndef
      end
    else
      let a := fst x in let b := fst y in
      match o with
      | OMul => sres (a * b) | OPlus => sres (a + b) | OMinus => sres (a - b)
      | ODiv => if b =? 0 then CDiv0 else if (b =? -1) && (a =? MINLL) then CUndef else CVal (Z.quot a b) false
      | OMod => if b =? 0 then CDiv0 else if (b =? -1) && (a =? MINLL) then CUndef else CVal (Z.rem a b) false
      | OLt => CVal (b2z (a <? b)) false | OLe => CVal (b2z (a <=? b)) false
      | OGt => CVal (b2z (a >? b)) false | OGe => CVal (b2z (a >=? b)) false
      | OEq => CVal (b2z (a =? b)) false | ONe => CVal (b2z (negb (a =? b))) false
      | OBAnd => CVal (Z.land a b) false | OBXor => CVal (Z.lxor a b) false | OBOr => CVal (Z.lor a b) false
      | _ => CUndef
      end
  end.

Fixpoint ceval (e : expr) : cres :=
  match e with
  | ELit z u => CVal z u
  | EUn o a =>
      match ceval a with
      | CVal z u =>
          match o with
          | ONot => CVal (b2z (z =? 0)) false
          | OCompl => if u then CVal (TWO64 - 1 - z) true else CVal (- z - 1) false
          | OPlus => CVal z u
          | OMinus => if u then CVal (wrapu (- z)) true else if z =? MINLL then CUndef else CVal (- z) false
          | _ => CUndef
          end
      | r => r
      end
  | EBin o a b =>
      match o with
      | OLAnd => match ceval a with
                 | CVal z _ => if z =? 0 then CVal 0 false
                               else match ceval b with CVal y _ => CVal (b2z (negb (y =? 0))) false | r => r end
                 | r => r
                 end
      | OLOr => match ceval a with
                | CVal z _ => if z =? 0
                              then match ceval b with CVal y _ => CVal (b2z (negb (y =? 0))) false | r => r end
                              else CVal 1 false
                | r => r
                end
      | _ => match ceval a, ceval b with
             | CVal x ux, CVal y uy => cbin o (x, ux) (y, uy)
             | CVal _ _, r => r
             | r, _ => r
             end
      end
  | ECond c a b =>
      match ceval c with
      | CVal z _ =>
          (* the result type is the common type of both branches (6.5.15) *)
          let u := match ceval a, ceval b with CVal _ ua, CVal _ ub => ua || ub | _, _ => false end in
          match (if z =? 0 then ceval b else ceval a) with
          | CVal r ur => CVal (if u && negb ur then wrapu r else r) (u || ur)
          | r => r
          end
      | r => r
      end
  end.

(* is the #if group taken? *)
Definition ctruth (e : expr) : option bool :=
  match ceval e with CVal z _ => Some (negb (z =? 0)) | _ => None end.
Definition pptruth (l : list tok) : option bool :=
  match ppeval l with Val z => Some (negb (z =? 0)) | _ => None end.

(* printing a tree with the parentheses the grammar requires (and only those) *)
Definition prec (o : op) : nat :=
  match o with
  | OMul | ODiv | OMod => 10 | OPlus | OMinus => 9 | OShl | OShr => 8
  | OLt | OLe | OGt | OGe => 7 | OEq | ONe => 6 | OBAnd => 5 | OBXor => 4 | OBOr => 3
  | OLAnd => 2 | OLOr => 1 | _ => 0
  end%nat.

Definition paren (b : bool) (l : list tok) : list tok := if b then TLP :: l ++ [TRP] else l.

(* `lvl` = the minimal precedence the context accepts without parentheses *)
Fixpoint print (lvl : nat) (e : expr) : list tok :=
  match e with
  | ELit z u => if z <? 0 then [TLP; TOp OMinus; TNum (- z) (negb u); TRP] else [TNum z (negb u)]
  | EUn o a => paren (Nat.ltb 11 lvl) (TOp o :: print 11 a)
  | EBin o a b => paren (Nat.ltb (prec o) lvl) (print (prec o) a ++ TOp o :: print (S (prec o)) b)
  | ECond c a b => paren (Nat.ltb 0 lvl) (print 1 c ++ TOp OQuest :: print 0 a ++ TOp OColon :: print 0 b)
  end.
