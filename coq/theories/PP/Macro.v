(* C11 core (iii), #/##-free fragment: macro expansion as simplecpp's Macro::expand / expandToken /
   expandArg / appendTokens perform it on "closed" token sequences (every function-like macro name is
   directly followed by its parenthesised arguments in the same sequence; object-like bodies do not
   end in a function-like name).  Token sequences are kept parsed: a call is a node.

   What is modelled:
   * Macro::expand(5 args): the macro's name joins `expandedmacros` (hs) while its body is walked;
   * expandToken: a parameter is replaced by the argument, which expandArg has macro-expanded beforehand
     with the enclosing hide set minus the macro being expanded ("temporary amnesia": the arguments are
     expanded as the caller saw them) and which is not rescanned;
   * a call in a body: appendTokens copies the argument tokens with parameters replaced by the expanded
     actuals, the callee's expandArg expands them under the caller's hide set;
   * a name in hs is not expanded (its arguments still are, token by token).
   Definitions only. *)
From CV Require Import Base.Bytes.
Local Open Scope N_scope.

Inductive term :=
| TEnd
| TSym (s : str) (r : term)              (* a token that is not an identifier *)
| TId (n : str) (r : term)               (* an identifier not followed by '(' *)
| TPar (i : nat) (r : term)              (* the i-th parameter of the macro whose body this is *)
| TCall (n : str) (a : args) (r : term)  (* n ( a1 , ... , ak ) *)
with args :=
| ANil
| ACons (t : term) (a : args).

Inductive mdef := Obj (body : term) | Fn (np : nat) (body : term).
Definition table := list (str * mdef).

Fixpoint lookup (tb : table) (n : str) : option mdef :=
  match tb with
  | [] => None
  | (m, d) :: tb' => if str_eqb n m then Some d else lookup tb' n
  end.

Definition mem (n : str) (l : list str) : bool := existsb (str_eqb n) l.

Fixpoint alen (a : args) : nat := match a with ANil => O | ACons _ a' => S (alen a') end.

Definition LP : str := [40]. Definition RP : str := [41]. Definition COMMA : str := [44].

Fixpoint commas (l : list (list str)) : list str :=
  match l with
  | [] => []
  | [x] => x
  | x :: l' => x ++ COMMA :: commas l'
  end.

Definition opt_app (a b : option (list str)) : option (list str) :=
  match a, b with Some x, Some y => Some (x ++ y) | _, _ => None end.

Section Expand.
Variable tb : table.

(* None = out of fuel.  hs = expandedmacros, env = the expanded actual arguments *)
Fixpoint exp (fuel : nat) (hs : list str) (env : list (list str)) (t : term) : option (list str) :=
  match fuel with
  | O => None
  | S f =>
      match t with
      | TEnd => Some []
      | TSym s r => option_map (cons s) (exp f hs env r)
      | TPar i r => option_map (app (nth i env [])) (exp f hs env r)
      | TId n r =>
          match lookup tb n with
          | Some (Obj body) =>
              if mem n hs then option_map (cons n) (exp f hs env r)
              else opt_app (exp f (n :: hs) [] body) (exp f hs env r)
          | _ => option_map (cons n) (exp f hs env r)
          end
      | TCall n a r =>
          match exps f hs env a with
          | None => None
          | Some ea =>
              match lookup tb n with
              | Some (Fn np body) =>
                  if negb (mem n hs) && Nat.eqb (alen a) np
                  then opt_app (exp f (n :: hs) ea body) (exp f hs env r)
                  else option_map (fun o => n :: LP :: commas ea ++ RP :: o) (exp f hs env r)
              | Some (Obj body) =>
                  if mem n hs then option_map (fun o => n :: LP :: commas ea ++ RP :: o) (exp f hs env r)
                  else opt_app (exp f (n :: hs) [] body)
                               (option_map (fun o => LP :: commas ea ++ RP :: o) (exp f hs env r))
              | None => option_map (fun o => n :: LP :: commas ea ++ RP :: o) (exp f hs env r)
              end
          end
      end
  end
with exps (fuel : nat) (hs : list str) (env : list (list str)) (a : args) : option (list (list str)) :=
  match fuel with
  | O => None
  | S f =>
      match a with
      | ANil => Some []
      | ACons t a' =>
          match exp f hs env t, exps f hs env a' with
          | Some x, Some l => Some (x :: l)
          | _, _ => None
          end
      end
  end.

(* ---- sizes and the fuel bound *)
Fixpoint tsize (t : term) : nat :=
  match t with
  | TEnd => 1
  | TSym _ r | TId _ r | TPar _ r => S (tsize r)
  | TCall _ a r => S (asize a + tsize r)
  end
with asize (a : args) : nat :=
  match a with
  | ANil => 1
  | ACons t a' => S (tsize t + asize a')
  end.

Definition body_of (d : mdef) : term := match d with Obj b => b | Fn _ b => b end.
Definition maxbody : nat := fold_right (fun e m => Nat.max (tsize (body_of (snd e))) m) O tb.
(* macros that can still be entered *)
Definition unhidden (hs : list str) : nat := length (filter (fun n => negb (mem n hs)) (nodup (list_eq_dec N.eq_dec) (map fst tb))).
Definition enough (hs : list str) (sz : nat) : nat := (sz + unhidden hs * S maxbody)%nat.

(* ---- specification: call-by-name substitution, no hide sets *)
Fixpoint tapp (a b : term) : term :=
  match a with
  | TEnd => b
  | TSym s r => TSym s (tapp r b)
  | TId n r => TId n (tapp r b)
  | TPar i r => TPar i (tapp r b)
  | TCall n x r => TCall n x (tapp r b)
  end.

Fixpoint anth (i : nat) (a : args) : term :=
  match a, i with
  | ANil, _ => TEnd
  | ACons t _, O => t
  | ACons _ a', S j => anth j a'
  end.

Fixpoint subst (sg : args) (t : term) : term :=
  match t with
  | TEnd => TEnd
  | TSym s r => TSym s (subst sg r)
  | TId n r => TId n (subst sg r)
  | TPar i r => tapp (anth i sg) (subst sg r)
  | TCall n a r => TCall n (substa sg a) (subst sg r)
  end
with substa (sg : args) (a : args) : args :=
  match a with
  | ANil => ANil
  | ACons t a' => ACons (subst sg t) (substa sg a')
  end.

Inductive CBN : term -> list str -> Prop :=
| CBN_end : CBN TEnd []
| CBN_sym s r o : CBN r o -> CBN (TSym s r) (s :: o)
| CBN_obj n r body o1 o2 : lookup tb n = Some (Obj body) -> CBN (subst ANil body) o1 -> CBN r o2 -> CBN (TId n r) (o1 ++ o2)
| CBN_id n r o : (forall b, lookup tb n <> Some (Obj b)) -> CBN r o -> CBN (TId n r) (n :: o)
| CBN_fn n a r np body o1 o2 :
    lookup tb n = Some (Fn np body) -> alen a = np -> CBN (subst a body) o1 -> CBN r o2 -> CBN (TCall n a r) (o1 ++ o2)
| CBN_call n a r ea o : lookup tb n = None -> CBNA a ea -> CBN r o -> CBN (TCall n a r) (n :: LP :: commas ea ++ RP :: o)
with CBNA : args -> list (list str) -> Prop :=
| CBNA_nil : CBNA ANil []
| CBNA_cons t a x l : CBN t x -> CBNA a l -> CBNA (ACons t a) (x :: l).

(* ---- the fragment: closed sequences over a non-recursive table *)
Variable rank : str -> nat.

(* every macro name used in t has rank < bound, object-like names are not called, function-like names are
   called with the right number of arguments *)
Fixpoint okt (bound : nat) (t : term) : Prop :=
  match t with
  | TEnd => True
  | TSym _ r | TPar _ r => okt bound r
  | TId n r =>
      match lookup tb n with
      | Some (Obj _) => (rank n < bound)%nat
      | Some (Fn _ _) => False
      | None => True
      end /\ okt bound r
  | TCall n a r =>
      match lookup tb n with
      | Some (Fn np _) => (rank n < bound)%nat /\ alen a = np
      | Some (Obj _) => False
      | None => True
      end /\ oka bound a /\ okt bound r
  end
with oka (bound : nat) (a : args) : Prop :=
  match a with
  | ANil => True
  | ACons t a' => okt bound t /\ oka bound a'
  end.

Definition nonrec : Prop :=
  forall n d, lookup tb n = Some d -> okt (rank n) (body_of d).
End Expand.

(* no parameter reference (a sequence of the file, not a macro body) *)
Fixpoint pfree (t : term) : Prop :=
  match t with
  | TEnd => True
  | TSym _ r | TId _ r => pfree r
  | TPar _ _ => False
  | TCall _ a r => pfreea a /\ pfree r
  end
with pfreea (a : args) : Prop :=
  match a with
  | ANil => True
  | ACons t a' => pfree t /\ pfreea a'
  end.
