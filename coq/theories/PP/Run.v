(* Entry point of the extracted executable for C11. *)
From CV Require Import Base.Bytes PP.Cond PP.Eval PP.Macro PP.Stringize.
Local Open Scope N_scope.

Definition nd (s : str) : N := match N_of_dec s with Some z => z | None => 0 end.
Definition names_of (s : str) : list str := filter (fun x => match x with [] => false | _ => true end) (split 59 s).
Definition mem_str (m : str) (l : list str) : bool := existsb (str_eqb m) l.
Definition BAD : list str := [[66]].

(* ---- skeleton: conditions of the generated files *)
Inductive pcond :=
| PLit (b : bool)            (* #if 0 / #if 1 *)
| PDef (pos : bool) (m : str) (* #ifdef/#ifndef/#if defined(m)/#if !defined(m) *)
| PName (m : str)            (* #if m : the macro's value 1, or 0 when undefined *)
| PDiv0.                     (* #if 1/0 *)

Definition ev_pcond (S : list str) (c : pcond) : option bool :=
  match c with
  | PLit b => Some b
  | PDef pos m => Some (if pos then mem_str m S else negb (mem_str m S))
  | PName m => Some (mem_str m S)
  | PDiv0 => None
  end.

Definition cond_of (k : N) (m : str) : option pcond :=
  match k with
  | 48 => Some (PLit false) | 49 => Some (PLit true)
  | 100 | 68 => Some (PDef true m) | 110 | 78 => Some (PDef false m)
  | 77 => Some (PName m) | 90 => Some PDiv0
  | _ => None
  end.

Definition pdir_of (f : str) : option (dir pcond) :=
  match f with
  | 73 :: k :: m => option_map DIf (cond_of k m)        (* I<k><m> *)
  | 69 :: k :: m => option_map DElif (cond_of k m)      (* E<k><m> *)
  | [101] => Some DElse
  | [120] => Some DEndif
  | 99 :: i => Some (DLine (nd i))
  | _ => None
  end.

Fixpoint pdirs_of (l : list str) : option (list (dir pcond)) :=
  match l with
  | [] => Some []
  | f :: r => match pdir_of f, pdirs_of r with
              | Some d, Some ds => Some (d :: ds)
              | _, _ => None
              end
  end.

(* ---- expressions *)
Definition op_of (s : str) : option op :=
  match s with
  | [33] => Some ONot | [126] => Some OCompl | [43] => Some OPlus | [45] => Some OMinus
  | [42] => Some OMul | [47] => Some ODiv | [37] => Some OMod
  | [60;60] => Some OShl | [62;62] => Some OShr
  | [60] => Some OLt | [60;61] => Some OLe | [62] => Some OGt | [62;61] => Some OGe
  | [61;61] => Some OEq | [33;61] => Some ONe
  | [38] => Some OBAnd | [94] => Some OBXor | [124] => Some OBOr
  | [38;38] => Some OLAnd | [124;124] => Some OLOr
  | [63] => Some OQuest | [58] => Some OColon
  | _ => None
  end.

Definition tok_of (s : str) : option tok :=
  match s with
  | [40] => Some TLP
  | [41] => Some TRP
  | _ =>
      match op_of s with
      | Some o => Some (TOp o)
      | None =>
          match rev s with
          | 117 :: r => option_map (fun n => TNum (Z.of_N n) false) (N_of_dec (rev r))   (* 5u *)
          | _ => option_map (fun n => TNum (Z.of_N n) true) (N_of_dec s)
          end
      end
  end.

Fixpoint toks_of (l : list str) : option (list tok) :=
  match l with
  | [] => Some []
  | f :: r => match tok_of f, toks_of r with
              | Some d, Some ds => Some (d :: ds)
              | _, _ => None
              end
  end.

(* syntax trees in prefix order: L<n> U<n> 1<op> 2<op> 3 *)
Fixpoint ast_of (fuel : nat) (l : list str) : option (expr * list str) :=
  match fuel with
  | O => None
  | S f =>
      match l with
      | (76 :: n) :: r => option_map (fun v => (ELit (Z.of_N v) false, r)) (N_of_dec n)
      | (85 :: n) :: r => option_map (fun v => (ELit (Z.of_N v) true, r)) (N_of_dec n)
      | (49 :: o) :: r =>
          match op_of o, ast_of f r with
          | Some o', Some (a, r') => Some (EUn o' a, r')
          | _, _ => None
          end
      | (50 :: o) :: r =>
          match op_of o, ast_of f r with
          | Some o', Some (a, r') =>
              match ast_of f r' with
              | Some (b, r'') => Some (EBin o' a b, r'')
              | None => None
              end
          | _, _ => None
          end
      | [51] :: r =>
          match ast_of f r with
          | Some (c, r1) =>
              match ast_of f r1 with
              | Some (a, r2) =>
                  match ast_of f r2 with
                  | Some (b, r3) => Some (ECond c a b, r3)
                  | None => None
                  end
              | None => None
              end
          | None => None
          end
      | _ => None
      end
  end.

Definition tok_eqb (a b : tok) : bool :=
  match a, b with
  | TNum x p, TNum y q => (x =? y)%Z && Bool.eqb p q
  | TOp o, TOp o' => op_eqb o o'
  | TLP, TLP | TRP, TRP | TBad, TBad => true
  | _, _ => false
  end.
Fixpoint toks_eqb (a b : list tok) : bool :=
  match a, b with
  | [], [] => true
  | x :: a', y :: b' => tok_eqb x y && toks_eqb a' b'
  | _, _ => false
  end.

(* ---- macro expansion: items  S<sym> I<id> P<i> C<name> [ items ] ... )   ; a sequence ends at "]" or at the end *)
Fixpoint parse_term (fuel : nat) (l : list str) : option (term * list str) :=
  match fuel with
  | O => None
  | S f =>
      match l with
      | [] => Some (TEnd, [])
      | [93] :: _ => Some (TEnd, l)                                   (* ] not consumed *)
      | (83 :: s) :: r => option_map (fun p => (TSym s (fst p), snd p)) (parse_term f r)
      | (73 :: n) :: r => option_map (fun p => (TId n (fst p), snd p)) (parse_term f r)
      | (80 :: i) :: r => option_map (fun p => (TPar (N.to_nat (nd i)) (fst p), snd p)) (parse_term f r)
      | (67 :: n) :: r =>
          match parse_args f r with
          | Some (a, r') => option_map (fun p => (TCall n a (fst p), snd p)) (parse_term f r')
          | None => None
          end
      | _ => None
      end
  end
with parse_args (fuel : nat) (l : list str) : option (args * list str) :=
  match fuel with
  | O => None
  | S f =>
      match l with
      | [41] :: r => Some (ANil, r)                                   (* ) *)
      | [91] :: r =>                                                  (* [ *)
          match parse_term f r with
          | Some (t, [93] :: r') => option_map (fun p => (ACons t (fst p), snd p)) (parse_args f r')
          | _ => None
          end
      | _ => None
      end
  end.

(* table: count, then per macro: name, O | F<np>, body items, "]" *)
Fixpoint parse_table (k : nat) (l : list str) : option (table * list str) :=
  match k with
  | O => Some ([], l)
  | S k' =>
      match l with
      | name :: kind :: r =>
          match parse_term (S (length r)) r with
          | Some (body, [93] :: r') =>
              let d := match kind with 70 :: np => Fn (N.to_nat (nd np)) body | _ => Obj body end in
              option_map (fun p => ((name, d) :: fst p, snd p)) (parse_table k' r')
          | _ => None
          end
      | _ => None
      end
  end.

Definition run (fields : list str) : list str :=
  match fields with
  | tag :: rest =>
      if str_eqb tag [99;111;110;100] (* "cond" defs dirs *) then
        match rest with
        | defs :: ds =>
            match pdirs_of ds with
            | Some l =>
                match cond_file pcond (ev_pcond (names_of defs)) l with
                | Ok out => [79] :: map dec_of_N out                 (* O ids *)
                | ErrNesting => [[78]]                               (* N *)
                | ErrEval => [[69]]                                  (* E *)
                end
            | None => BAD
            end
        | _ => BAD
        end
      else if str_eqb tag [105;102;120] (* "ifx" n toks ast *) then
        match rest with
        | n :: rest' =>
            match toks_of (firstn (N.to_nat (nd n)) rest') with
            | Some ts =>
                match ppeval ts with
                | Val z => [[86]; dec_of_Z z]
                | Exc => [[88]]
                | Range => [[70]]
                end
            | None => BAD
            end
        | _ => BAD
        end
      else if str_eqb tag [115;112;101;99] (* "spec" n toks ast : does print give these tokens? C value *) then
        match rest with
        | n :: rest' =>
            let k := N.to_nat (nd n) in
            match toks_of (firstn k rest'), ast_of 200 (skipn k rest') with
            | Some ts, Some (e, []) =>
                str_of_bool (toks_eqb ts (print 0 e)) ::
                match ceval e with
                | CVal z u => [[86]; dec_of_Z z; str_of_bool u]
                | CDiv0 => [[68]]
                | CUndef => [[85]]
                end
            | _, _ => BAD
            end
        | _ => BAD
        end
      else if str_eqb tag [104;97;115;104] (* "hash" tok... : # applied to the tokens written without white space *) then
        [stringize_s (concat rest); stringize_c (map (fun t => (false, t)) rest)]
      else if str_eqb tag [109;120] (* "mx" nmacros table items *) then
        match rest with
        | k :: rest' =>
            match parse_table (N.to_nat (nd k)) rest' with
            | Some (tb, items) =>
                match parse_term (S (length items)) items with
                | Some (t, []) =>
                    match exp tb (S (enough tb [] (tsize t))) [] [] t with
                    | Some o => [79] :: o
                    | None => [[70]]
                    end
                | _ => BAD
                end
            | None => BAD
            end
        | _ => BAD
        end
      else BAD
  | _ => BAD
  end.
