(* Proofs about the conditional skeleton: the ifstates machine of simplecpp::preprocess
   against the tree semantics of C 6.10.1. *)
From CV Require Import Base.Bytes PP.Cond.
Local Open Scope N_scope.

Scheme forest_mut := Induction for forest Sort Prop
  with tail_mut := Induction for tail Sort Prop.
Combined Scheme forest_tail_ind from forest_mut, tail_mut.

Section Proofs.
Variable G : Type.
Variable ev : G -> option bool.
Notation forest := (forest G).
Notation tail := (tail G).
Notation cond_run := (cond_run G ev).
Notation keep := (keep G ev).
Notation keep_tail := (keep_tail G ev).

(* prepend emitted lines to a later result *)
Definition pre (l : list N) (r : res (list ifstate * list N)) : res (list ifstate * list N) :=
  match r with Ok (st, out) => Ok (st, l ++ out) | ErrNesting => ErrNesting | ErrEval => ErrEval end.

Lemma pre_nil r : pre [] r = r.
Proof. destruct r as [[? ?]| |]; reflexivity. Qed.
Lemma pre_app a b r : pre (a ++ b) r = pre a (pre b r).
Proof. destruct r as [[? ?]| |]; cbn; try reflexivity. now rewrite app_assoc. Qed.

(* what the machine computes, as a function of the tree: like `keep`, but the first
   #elif after a taken group is evaluated too (its value is not used) *)
Definition first_elif_ok (t : tail) : bool :=
  match t with
  | TElif g _ _ => match ev g with None => false | Some _ => true end
  | _ => true
  end.

Fixpoint keepM (f : forest) : option (list N) :=
  match f with
  | FNil => Some []
  | FCode id n => option_map (cons id) (keepM n)
  | FGroup g b t n =>
      match ev g with
      | None => None
      | Some c =>
          match (if c then (if first_elif_ok t then keepM b else None) else keepM_tail t), keepM n with
          | Some x, Some y => Some (x ++ y)
          | _, _ => None
          end
      end
  end
with keepM_tail (t : tail) : option (list N) :=
  match t with
  | TEnd => Some []
  | TElse b => keepM b
  | TElif g b t' =>
      match ev g with
      | None => None
      | Some c => if c then (if first_elif_ok t' then keepM b else None) else keepM_tail t'
      end
  end.


(* unfolding equations (cbn on the mutual fixpoints exposes the raw fix) *)
Lemma fl_nil : flatten G FNil = []. Proof. reflexivity. Qed.
Lemma fl_end : flatten_tail G TEnd = [DEndif]. Proof. reflexivity. Qed.
Lemma km_nil : keepM FNil = Some []. Proof. reflexivity. Qed.
Lemma km_end : keepM_tail TEnd = Some []. Proof. reflexivity. Qed.
Lemma k_nil : keep FNil = Some []. Proof. reflexivity. Qed.
Lemma k_end : keep_tail TEnd = Some []. Proof. reflexivity. Qed.
Lemma fl_code id n : flatten G (FCode id n) = DLine id :: flatten G n. Proof. reflexivity. Qed.
Lemma fl_group g b t n : flatten G (FGroup g b t n) = DIf g :: flatten G b ++ flatten_tail G t ++ flatten G n.
Proof. reflexivity. Qed.
Lemma fl_else b : flatten_tail G (TElse b) = DElse :: flatten G b ++ [DEndif]. Proof. reflexivity. Qed.
Lemma fl_elif g b t : flatten_tail G (TElif g b t) = DElif g :: flatten G b ++ flatten_tail G t. Proof. reflexivity. Qed.
Lemma km_code id n : keepM (FCode id n) = option_map (cons id) (keepM n). Proof. reflexivity. Qed.
Lemma km_group g b t n : keepM (FGroup g b t n) =
      match ev g with
      | None => None
      | Some c =>
          match (if c then (if first_elif_ok t then keepM b else None) else keepM_tail t), keepM n with
          | Some x, Some y => Some (x ++ y)
          | _, _ => None
          end
      end. Proof. reflexivity. Qed.
Lemma km_else b : keepM_tail (TElse b) = keepM b. Proof. reflexivity. Qed.
Lemma km_elif g b t' : keepM_tail (TElif g b t') =
      match ev g with
      | None => None
      | Some c => if c then (if first_elif_ok t' then keepM b else None) else keepM_tail t'
      end. Proof. reflexivity. Qed.
Lemma k_code id n : keep (FCode id n) = option_map (cons id) (keep n). Proof. reflexivity. Qed.
Lemma k_group g b t n : keep (FGroup g b t n) =
      match ev g with
      | None => None
      | Some c =>
          match (if c then keep b else keep_tail t), keep n with
          | Some x, Some y => Some (x ++ y)
          | _, _ => None
          end
      end. Proof. reflexivity. Qed.
Lemma k_else b : keep_tail (TElse b) = keep b. Proof. reflexivity. Qed.
Lemma k_elif g b t' : keep_tail (TElif g b t') =
      match ev g with
      | None => None
      | Some c => if c then keep b else keep_tail t'
      end. Proof. reflexivity. Qed.
Ltac unf := rewrite ?fl_nil, ?fl_end, ?km_nil, ?km_end, ?k_nil, ?k_end, ?fl_code, ?fl_group, ?fl_else, ?fl_elif, ?km_code, ?km_group, ?km_else, ?km_elif,
                    ?k_code, ?k_group, ?k_else, ?k_elif; cbn [app].
Ltac unfa := rewrite ?fl_nil, ?fl_end, ?km_nil, ?km_end, ?k_nil, ?k_end, ?fl_code, ?fl_group, ?fl_else, ?fl_elif,
                    ?km_code, ?km_group, ?km_else, ?km_elif, ?k_code, ?k_group, ?k_else, ?k_elif in *; cbn [app] in *.

Definition dead (st : list ifstate) : Prop := match st with [] => False | s :: _ => s <> STrue end.

Lemma run_cons st d ds :
  cond_run st (d :: ds) =
  match cond_step G ev st d with
  | Ok (st', o) => match cond_run st' ds with
                   | Ok (st'', out) => Ok (st'', match o with Some id => id :: out | None => out end)
                   | ErrNesting => ErrNesting | ErrEval => ErrEval end
  | ErrNesting => ErrNesting | ErrEval => ErrEval end.
Proof. reflexivity. Qed.

Lemma res_eta (r : res (list ifstate * list N)) :
  match r with Ok (st'', out) => Ok (st'', out) | ErrNesting => ErrNesting | ErrEval => ErrEval end = r.
Proof. destruct r as [[? ?]| |]; reflexivity. Qed.

(* a group below a dead top is skipped: nothing evaluated, nothing kept, no error *)
Lemma skip_dead :
  (forall f st rest, dead st -> cond_run st (flatten G f ++ rest) = cond_run st rest) /\
  (forall t st rest, cond_run (SAlwaysFalse :: st) (flatten_tail G t ++ rest) = cond_run st rest).
Proof.
  apply forest_tail_ind; cbn [flatten flatten_tail app].
  - reflexivity.
  - intros id next IH st rest Hd. rewrite run_cons.
    destruct st as [|s r]; [destruct Hd|]. cbn in Hd.
    destruct s; try congruence; cbn; rewrite IH by (cbn; congruence); apply res_eta.
  - intros g body IHb t IHt next IHn st rest Hd. rewrite run_cons.
    destruct st as [|s r]; [destruct Hd|]. cbn in Hd.
    destruct s; try congruence; cbn;
      rewrite <- !app_assoc, IHb by (cbn; congruence);
      rewrite IHt, IHn by (cbn; congruence); apply res_eta.
  - intros st rest. rewrite run_cons. cbn. apply res_eta.
  - intros body IHb st rest. rewrite run_cons. cbn.
    rewrite <- app_assoc, IHb by (cbn; congruence). cbn [app]. rewrite run_cons. cbn.
    rewrite !res_eta. reflexivity.
  - intros g body IHb t IHt st rest. rewrite run_cons. cbn.
    rewrite <- app_assoc, IHb by (cbn; congruence). rewrite IHt. apply res_eta.
Qed.

Definition live (st : list ifstate) : Prop := top st = STrue.

Definition outcome (o : option (list N)) (r : res (list ifstate * list N)) :=
  match o with Some l => pre l r | None => ErrEval end.

Lemma pre_err_eval l : pre l ErrEval = ErrEval.
Proof. reflexivity. Qed.

Lemma run_live :
  (forall f st rest, live st ->
     cond_run st (flatten G f ++ rest) = outcome (keepM f) (cond_run st rest)) /\
  (forall t st rest, live st ->
     cond_run (SElseIsTrue :: st) (flatten_tail G t ++ rest) = outcome (keepM_tail t) (cond_run st rest) /\
     cond_run (STrue :: st) (flatten_tail G t ++ rest) = if first_elif_ok t then cond_run st rest else ErrEval).
Proof.
  destruct skip_dead as [SKf SKt].
  apply forest_tail_ind.
  - intros st rest Hl. unf. cbn. now rewrite pre_nil.
  - intros id next IH st rest Hl. unf. rewrite run_cons. unfold cond_step. rewrite Hl.
    rewrite IH by exact Hl. destruct (keepM next) as [l|]; cbn; [|reflexivity].
    destruct (cond_run st rest) as [[? ?]| |]; reflexivity.
  - intros g body IHb t IHt next IHn st rest Hl. unf. rewrite run_cons. unfold cond_step. rewrite Hl.
    destruct (ev g) as [[|]|] eqn:E; [| |reflexivity].
    + rewrite <- !app_assoc. rewrite IHb by reflexivity.
      destruct (IHt st (flatten G next ++ rest) Hl) as [_ IHt2]. rewrite IHt2.
      rewrite IHn by exact Hl.
      destruct (first_elif_ok t); cbn.
      * destruct (keepM body) as [x|]; cbn; [|reflexivity].
        destruct (keepM next) as [y|]; cbn; [|reflexivity].
        rewrite pre_app. destruct (pre x (pre y (cond_run st rest))) as [[? ?]| |]; reflexivity.
      * destruct (keepM body) as [x|]; reflexivity.
    + rewrite <- !app_assoc. rewrite SKf by (cbn; congruence).
      destruct (IHt st (flatten G next ++ rest) Hl) as [IHt1 _]. rewrite IHt1.
      rewrite IHn by exact Hl.
      destruct (keepM_tail t) as [x|]; cbn; [|reflexivity].
      destruct (keepM next) as [y|]; cbn; [|reflexivity].
      rewrite pre_app. destruct (pre x (pre y (cond_run st rest))) as [[? ?]| |]; reflexivity.
  - intros st rest Hl. unf. split; rewrite run_cons; cbn; rewrite res_eta; [now rewrite pre_nil|reflexivity].
  - intros body IHb st rest Hl. unf. split; rewrite run_cons; cbn.
    + rewrite <- app_assoc. rewrite IHb by reflexivity. cbn [app]. rewrite run_cons. cbn.
      rewrite !res_eta. destruct (keepM body); cbn; [|reflexivity].
      destruct (pre l (cond_run st rest)) as [[? ?]| |]; reflexivity.
    + rewrite <- app_assoc. rewrite SKf by (cbn; congruence). cbn [app]. rewrite run_cons. cbn.
      now rewrite !res_eta.
  - intros g body IHb t IHt st rest Hl. unf. split; rewrite run_cons; cbn.
    + destruct (ev g) as [[|]|] eqn:E; [| |reflexivity].
      * rewrite <- app_assoc. rewrite IHb by reflexivity.
        destruct (IHt st rest Hl) as [_ IHt2]. rewrite IHt2.
        destruct (first_elif_ok t); cbn.
        -- destruct (keepM body) as [x|]; cbn; [|reflexivity].
           destruct (pre x (cond_run st rest)) as [[? ?]| |]; reflexivity.
        -- destruct (keepM body) as [x|]; reflexivity.
      * rewrite <- app_assoc. rewrite SKf by (cbn; congruence).
        destruct (IHt st rest Hl) as [IHt1 _]. rewrite IHt1.
        destruct (outcome (keepM_tail t) (cond_run st rest)) as [[? ?]| |]; reflexivity.
    + destruct (ev g) as [c|] eqn:E; [|reflexivity].
      rewrite <- app_assoc. rewrite SKf by (cbn; congruence). rewrite SKt. apply res_eta.
Qed.

(* keepM against the declarative keep *)
Fixpoint conds (f : forest) : list G :=
  match f with
  | FNil => []
  | FCode _ n => conds n
  | FGroup g b t n => g :: conds b ++ conds_tail t ++ conds n
  end
with conds_tail (t : tail) : list G :=
  match t with
  | TEnd => []
  | TElse b => conds b
  | TElif g b t' => g :: conds b ++ conds_tail t'
  end.

Lemma keepM_sound :
  (forall f l, keepM f = Some l -> keep f = Some l) /\
  (forall t l, keepM_tail t = Some l -> keep_tail t = Some l).
Proof.
  apply forest_tail_ind.
  - intros; unfa; auto.
  - intros id next IH l H. unfa. destruct (keepM next); cbn in *; [|discriminate]. now rewrite (IH _ eq_refl).
  - intros g body IHb t IHt next IHn l H. unfa.
    destruct (ev g) as [[|]|]; [| |discriminate].
    + destruct (first_elif_ok t); [|discriminate].
      destruct (keepM body) as [x|]; [|discriminate]. destruct (keepM next) as [y|]; [|discriminate].
      now rewrite (IHb _ eq_refl), (IHn _ eq_refl).
    + destruct (keepM_tail t) as [x|]; [|discriminate]. destruct (keepM next) as [y|]; [|discriminate].
      now rewrite (IHt _ eq_refl), (IHn _ eq_refl).
  - intros; unfa; auto.
  - intros; unfa; auto.
  - intros g body IHb t IHt l H. unfa.
    destruct (ev g) as [[|]|]; [| |discriminate].
    + destruct (first_elif_ok t); [|discriminate]. auto.
    + auto.
Qed.

Lemma first_elif_ok_total t : (forall g, In g (conds_tail t) -> ev g <> None) -> first_elif_ok t = true.
Proof.
  destruct t; cbn; auto. intros H. destruct (ev g) eqn:E; auto. exfalso. apply (H g); auto.
Qed.

Lemma keepM_complete :
  (forall f l, (forall g, In g (conds f) -> ev g <> None) -> keep f = Some l -> keepM f = Some l) /\
  (forall t l, (forall g, In g (conds_tail t) -> ev g <> None) -> keep_tail t = Some l -> keepM_tail t = Some l).
Proof.
  apply forest_tail_ind.
  - intros; unfa; auto.
  - intros id next IH l T H. unfa. destruct (keep next); cbn in *; [|discriminate]. now rewrite (IH _ T eq_refl).
  - intros g body IHb t IHt next IHn l T H. unfa.
    assert (Tb : forall g0, In g0 (conds body) -> ev g0 <> None) by (intros; apply T; right; apply in_or_app; auto).
    assert (Tt : forall g0, In g0 (conds_tail t) -> ev g0 <> None)
      by (intros; apply T; right; apply in_or_app; right; apply in_or_app; auto).
    assert (Tn : forall g0, In g0 (conds next) -> ev g0 <> None)
      by (intros; apply T; right; apply in_or_app; right; apply in_or_app; auto).
    destruct (ev g) as [[|]|]; [| |discriminate].
    + rewrite (first_elif_ok_total t Tt).
      destruct (keep body) as [x|]; [|discriminate]. destruct (keep next) as [y|]; [|discriminate].
      now rewrite (IHb _ Tb eq_refl), (IHn _ Tn eq_refl).
    + destruct (keep_tail t) as [x|]; [|discriminate]. destruct (keep next) as [y|]; [|discriminate].
      now rewrite (IHt _ Tt eq_refl), (IHn _ Tn eq_refl).
  - intros; unfa; auto.
  - intros; unfa; auto.
  - intros g body IHb t IHt l T H. unfa.
    assert (Tb : forall g0, In g0 (conds body) -> ev g0 <> None) by (intros; apply T; right; apply in_or_app; auto).
    assert (Tt : forall g0, In g0 (conds_tail t) -> ev g0 <> None) by (intros; apply T; right; apply in_or_app; auto).
    destruct (ev g) as [[|]|]; [| |discriminate].
    + rewrite (first_elif_ok_total t Tt). auto.
    + auto.
Qed.

(* ---- the statements used in Properties_C11.v *)

(* whatever simplecpp keeps is what the standard keeps *)
Theorem cond_file_sound f l :
  cond_file G ev (flatten G f) = Ok l -> keep f = Some l.
Proof.
  unfold cond_file. intros H.
  pose proof (proj1 run_live f [] [] eq_refl) as R. rewrite app_nil_r in R. rewrite R in H.
  destruct (keepM f) as [x|] eqn:K; cbn in H; [|discriminate].
  rewrite app_nil_r in H. inversion H; subst. now apply (proj1 keepM_sound).
Qed.

(* and when every condition of the file can be evaluated, simplecpp keeps exactly that *)
Theorem cond_file_complete f l :
  (forall g, In g (conds f) -> ev g <> None) ->
  keep f = Some l -> cond_file G ev (flatten G f) = Ok l.
Proof.
  intros T H. unfold cond_file.
  pose proof (proj1 run_live f [] [] eq_refl) as R. rewrite app_nil_r in R. rewrite R.
  rewrite (proj1 keepM_complete f l T H). cbn. now rewrite app_nil_r.
Qed.

(* membership form: a line is kept iff the tree semantics keeps it *)
Theorem cond_emit_iff f :
  (forall g, In g (conds f) -> ev g <> None) ->
  forall l, cond_file G ev (flatten G f) = Ok l <-> keep f = Some l.
Proof.
  intros T l. split; [apply cond_file_sound | apply cond_file_complete; exact T].
Qed.

Lemma keep_total :
  (forall f, (forall g, In g (conds f) -> ev g <> None) -> keep f <> None) /\
  (forall t, (forall g, In g (conds_tail t) -> ev g <> None) -> keep_tail t <> None).
Proof.
  apply forest_tail_ind.
  - intros; discriminate.
  - intros id next IH T. unfa. specialize (IH T). destruct (keep next); cbn; [discriminate|congruence].
  - intros g body IHb t IHt next IHn T. unfa.
    assert (Tb : forall g0, In g0 (conds body) -> ev g0 <> None) by (intros; apply T; cbn; right; apply in_or_app; auto).
    assert (Tt : forall g0, In g0 (conds_tail t) -> ev g0 <> None)
      by (intros; apply T; cbn; right; apply in_or_app; right; apply in_or_app; auto).
    assert (Tn : forall g0, In g0 (conds next) -> ev g0 <> None)
      by (intros; apply T; cbn; right; apply in_or_app; right; apply in_or_app; auto).
    specialize (IHb Tb). specialize (IHt Tt). specialize (IHn Tn).
    destruct (ev g) as [[|]|] eqn:E.
    + destruct (keep body); [|congruence]. destruct (keep next); [discriminate|congruence].
    + destruct (keep_tail t); [|congruence]. destruct (keep next); [discriminate|congruence].
    + exfalso. apply (T g); auto. now left.
  - intros; discriminate.
  - intros body IHb T. unfa. auto.
  - intros g body IHb t IHt T. unfa.
    assert (Tb : forall g0, In g0 (conds body) -> ev g0 <> None) by (intros; apply T; cbn; right; apply in_or_app; auto).
    assert (Tt : forall g0, In g0 (conds_tail t) -> ev g0 <> None) by (intros; apply T; cbn; right; apply in_or_app; auto).
    destruct (ev g) as [[|]|] eqn:E; auto.
    exfalso. apply (T g); auto. now left.
Qed.

(* a stray #else / #elif / #endif after any well-nested prefix is an error *)
Theorem cond_stray_err f d rest :
  (forall g, In g (conds f) -> ev g <> None) ->
  (d = DElse \/ d = DEndif \/ exists g, d = DElif g) ->
  cond_file G ev (flatten G f ++ d :: rest) = ErrNesting.
Proof.
  intros T Hd. unfold cond_file.
  rewrite (proj1 run_live f [] (d :: rest) eq_refl).
  destruct (keep f) as [l|] eqn:K.
  - rewrite (proj1 keepM_complete f l T K). cbn.
    destruct Hd as [->|[->|[g ->]]]; reflexivity.
  - exfalso. now apply (proj1 keep_total f T).
Qed.

(* an unterminated group is not diagnosed: the flat list is not the image of any tree *)
Lemma flatten_tail_not_nil t : flatten_tail G t <> [].
Proof. destruct t; discriminate. Qed.

Theorem cond_unterminated_accepted g c :
  ev g = Some c ->
  (forall f, flatten G f <> [DIf g]) /\ cond_file G ev [DIf g] = Ok [].
Proof.
  intros E. split.
  - intros f H. destruct f; unfa; try discriminate.
    inversion H as [[H1 H2]]. apply app_eq_nil in H2. destruct H2 as [_ H2].
    apply app_eq_nil in H2. destruct H2 as [H2 _]. now apply flatten_tail_not_nil in H2.
  - unfold cond_file. cbn. now rewrite E.
Qed.

End Proofs.

(* the deviation: a valid file (the #elif after the taken group is not evaluated by a
   conforming preprocessor) on which simplecpp stops with an evaluation error *)
Definition ev_witness (g : N) : option bool := if (g =? 1)%N then Some true else None.
Definition f_witness : forest N := FGroup 1%N (FCode 7%N FNil) (TElif 2%N (FCode 8%N FNil) TEnd) (FCode 9%N FNil).

Theorem cond_elif_eval_refuted :
  keep N ev_witness f_witness = Some [7%N; 9%N] /\
  cond_file N ev_witness (flatten N f_witness) = ErrEval.
Proof. split; reflexivity. Qed.
