(* Entry point for the extracted executable of the report model (C26). *)
From Coq Require Import Strings.String.
From CV Require Import Base.Bytes Base.Glob Report.Lit Report.Defs Report.Spec Report.Gen_RngSchema Report.Gen_CriticalIds.
Import List ListNotations.
Local Open Scope N_scope.

Definition zd (s : str) : Z := match Z_of_dec s with Some z => z | None => 0%Z end.
Definition nd (s : str) : N := match N_of_dec s with Some z => z | None => 0 end.

Definition sev_of (s : str) : sev :=
  match nd s with
  | 1 => SError | 2 => SWarning | 3 => SStyle | 4 => SPerformance | 5 => SPortability
  | 6 => SInformation | 7 => SDebug | 8 => SInternal | _ => SNone
  end.

Fixpoint take_locs (n : nat) (l : list str) : option (list loc * list str) :=
  match n with
  | O => Some ([], l)
  | S n' =>
      match l with
      | file :: orig :: line :: col :: info :: r =>
          match take_locs n' r with
          | Some (ls, r') => Some (mkLoc file orig (zd line) (nd col) info :: ls, r')
          | None => None
          end
      | _ => None
      end
  end.

(* id guideline classification sev cwe hash incon short verbose remark file0 symbols nlocs (file orig line col info)* *)
Definition take_msg (l : list str) : option (msg * list str) :=
  match l with
  | id :: gl :: cl :: sv :: cwe :: hash :: inc :: sh :: vb :: rem :: f0 :: syms :: n :: r =>
      match take_locs (N.to_nat (nd n)) r with
      | Some (ls, r') => Some (mkMsg id gl cl (sev_of sv) (nd cwe) (nd hash) (bool_of_str inc) sh vb rem f0 syms ls, r')
      | None => None
      end
  | _ => None
  end.

Fixpoint take_msgs (n : nat) (l : list str) : option (list msg) :=
  match n with
  | O => Some []
  | S n' => match take_msg l with
            | Some (m, r) => option_map (cons m) (take_msgs n' r)
            | None => None
            end
  end.

Definition FUEL : list str := [[70]].
Definition BAD : list str := [[66]].
Definition os (o : option str) : list str := match o with Some s => [[49]; s] | None => FUEL end.

Definition crit (id : str) : bool := mem_str id critical_ids.

Definition tag_is (t : str) (name : str) : bool := str_eqb t name.

Definition run (fields : list str) : list str :=
  match fields with
  | [] => BAD
  | tag :: args =>
      if tag_is tag (L "far") then
        match args with [from; to; s] => [far from to s] | _ => BAD end
      else if tag_is tag (L "static") then
        match args with [erase; t] => [subst_static (bool_of_str erase) t] | _ => BAD end
      else if tag_is tag (L "fix") then
        match args with [s] => [fix_invalid_chars s] | _ => BAD end
      else if tag_is tag (L "toxml") then
        match args with [s] => [toxml s] | _ => BAD end
      else if tag_is tag (L "tostr") then
        match args with
        | vb :: tmpl :: tloc :: r =>
            match take_msg r with
            | Some (m, _) => os (to_string (bool_of_str vb) tmpl tloc m)
            | None => BAD
            end
        | _ => BAD
        end
      else if tag_is tag (L "tspec") then
        (* the specification: simultaneous substitution of the parsed template *)
        match args with
        | vb :: tmpl :: tloc :: r =>
            match take_msg r with
            | Some (m, _) => [template_spec_str (bool_of_str vb) tmpl tloc m]
            | None => BAD
            end
        | _ => BAD
        end
      else if tag_is tag (L "xml") then
        match take_msg args with
        | Some (m, _) => [to_xml m]
        | None => BAD
        end
      else if tag_is tag (L "xmlinfo") then
        (* spec-side verdicts on one message: rng conformance, clean names *)
        match take_msg args with
        | Some (m, _) => [str_of_bool (error_conforms rng_schema_gen (error_tree m)); str_of_bool (clean_msgb m)]
        | None => BAD
        end
      else if tag_is tag (L "sarif") then
        match args with
        | ver :: n :: r =>
            match take_msgs (N.to_nat (nd n)) r with
            | Some ms => [sarif_serialize crit ver ms]
            | None => BAD
            end
        | _ => BAD
        end
      else if tag_is tag (L "dedup") then
        map str_of_bool (dedup [] args)
      else BAD
  end.
