(* C26 proofs, XML side: escaping, the printed <error> element is in the XML grammar and
   denotes the tree of the finding, conformance to the regenerated RELAX NG tables. *)
From Coq Require Import Strings.String.
From CV Require Import Base.Bytes Base.Glob Report.Lit Report.Defs Report.Spec Report.Gen_RngSchema.
Import List ListNotations.
Require Import Lia ZifyBool.
Local Open Scope N_scope.

(* ---------- fixInvalidChars ---------- *)
Lemma fix_char_print c : c < 256 -> Forall (fun x => is_print x = true) (fix_char c).
Proof.
  intros H. unfold fix_char. destruct (is_print c) eqn:E.
  - constructor; auto.
  - repeat constructor; unfold is_print; try reflexivity.
    + assert ((c / 64) mod 8 < 8) by (apply N.mod_lt; lia). generalize dependent ((c / 64) mod 8). intros; lia.
    + assert ((c / 8) mod 8 < 8) by (apply N.mod_lt; lia). generalize dependent ((c / 8) mod 8). intros; lia.
    + assert (c mod 8 < 8) by (apply N.mod_lt; lia). generalize dependent (c mod 8). intros; lia.
Qed.

Definition bytes (s : str) : Prop := Forall (fun c => c < 256) s.

Lemma fix_invalid_chars_print s : bytes s -> Forall (fun x => is_print x = true) (fix_invalid_chars s).
Proof.
  induction 1; cbn; [constructor|]. apply Forall_app; split; auto using fix_char_print.
Qed.

Lemma print_clean s : Forall (fun x => is_print x = true) s -> clean_name s.
Proof. apply Forall_impl. intros a H. unfold is_print in H. lia. Qed.

(* ---------- attribute values ---------- *)
Lemma attval_esc_attr v : clean_name v -> attval (esc_attr v) v.
Proof.
  induction 1 as [|c v Hc Hv IH]; cbn; [constructor|].
  unfold esc_attr_char.
  destruct (c =? 34) eqn:E1; [apply N.eqb_eq in E1; subst; apply (av_ent _ _ _ _ ent_quot IH)|].
  destruct (c =? 38) eqn:E2; [apply N.eqb_eq in E2; subst; apply (av_ent _ _ _ _ ent_amp IH)|].
  destruct (c =? 39) eqn:E3; [apply N.eqb_eq in E3; subst; apply (av_ent _ _ _ _ ent_apos IH)|].
  destruct (c =? 60) eqn:E4; [apply N.eqb_eq in E4; subst; apply (av_ent _ _ _ _ ent_lt IH)|].
  destruct (c =? 62) eqn:E5; [apply N.eqb_eq in E5; subst; apply (av_ent _ _ _ _ ent_gt IH)|].
  cbn. apply av_char; auto; lia.
Qed.

Lemma chardata_esc_text v : clean_name v -> chardata (esc_text v) v.
Proof.
  induction 1 as [|c v Hc Hv IH]; cbn; [constructor|].
  unfold esc_text_char.
  destruct (c =? 38) eqn:E2; [apply N.eqb_eq in E2; subst; apply (cd_ent _ _ _ _ ent_amp IH)|].
  destruct (c =? 60) eqn:E4; [apply N.eqb_eq in E4; subst; apply (cd_ent _ _ _ _ ent_lt IH)|].
  destruct (c =? 62) eqn:E5; [apply N.eqb_eq in E5; subst; apply (cd_ent _ _ _ _ ent_gt IH)|].
  cbn. apply cd_char; auto; [left; auto | lia | lia].
Qed.

(* decoding is a function of the encoded bytes: what a reader gets back is the value *)
Lemma entity_fun n c c' : entity n c -> entity n c' -> c = c'.
Proof. inversion 1; inversion 1; subst; try reflexivity; discriminate. Qed.

Lemma entity_no_semicolon n c : entity n c -> ~ In 59 n.
Proof. inversion 1; cbn; intuition discriminate. Qed.

Lemma app_semi_inj (n n' : str) r r' :
  ~ In 59 n -> ~ In 59 n' -> n ++ 59 :: r = n' ++ 59 :: r' -> n = n' /\ r = r'.
Proof.
  revert n'. induction n as [|a n IH]; intros [|a' n'] H1 H2 E; cbn in *.
  - inversion E; auto.
  - inversion E; subst. exfalso; apply H2; auto.
  - inversion E; subst. exfalso; apply H1; auto.
  - inversion E; subst. destruct (IH n') as [-> ->]; auto.
Qed.

Lemma attval_fun e : forall d d', attval e d -> attval e d' -> d = d'.
Proof.
  remember (length e) as k eqn:Hk. revert e Hk.
  induction k as [k IHk] using lt_wf_ind. intros e Hk d d' H1 H2.
  inversion H1; subst; inversion H2; subst; auto; try lia; try congruence.
  - f_equal. eapply (IHk (length e0)); eauto; cbn; lia.
  - f_equal. eapply (IHk (length e0)); eauto; cbn; lia.
  - match goal with Hq : _ ++ 59 :: _ = _ ++ 59 :: _ |- _ =>
      apply app_semi_inj in Hq; eauto using entity_no_semicolon; destruct Hq; subst end.
    f_equal; [eapply entity_fun; eauto|].
    eapply (IHk (length e0)); eauto; cbn; rewrite app_length; cbn; lia.
Qed.

(* ---------- attribute lists ---------- *)
Lemma pr_attr_shape n v r : pr_attr (n, v) ++ r = 32 :: n ++ 61 :: 34 :: esc_attr v ++ 34 :: r.
Proof. unfold pr_attr; cbn [fst snd]. rewrite <- app_comm_cons. rewrite <- !app_assoc. reflexivity. Qed.

Lemma attlist_pr_attrs l :
  Forall (fun a => xml_name (fst a) /\ clean_name (snd a)) l -> attlist (pr_attrs l) l.
Proof.
  induction 1 as [|[n v] l [Hn Hv] Hl IH]; [constructor|].
  change (pr_attrs ((n, v) :: l)) with (pr_attr (n, v) ++ pr_attrs l).
  rewrite pr_attr_shape. apply al_cons; auto using attval_esc_attr.
Qed.

Lemma present_fst_sub (l : list (str * option str)) :
  NoDup (map fst l) -> NoDup (map fst (present l)).
Proof.
  induction l as [|[n [v|]] l IH]; cbn; intros H; inversion H; subst; auto.
  constructor; auto. intros Hin. apply H2.
  clear - Hin. induction l as [|[n' [v'|]] l IH]; cbn in *; auto. destruct Hin; auto.
Qed.

Lemma present_Forall (P : str * str -> Prop) (l : list (str * option str)) :
  Forall (fun p => match snd p with Some v => P (fst p, v) | None => True end) l -> Forall P (present l).
Proof.
  induction 1 as [|[n [v|]] l H Hl IH]; cbn in *; auto.
Qed.

Lemma dec_digits_clean fuel n acc : clean_name acc -> clean_name (dec_digits fuel n acc).
Proof.
  revert n acc. induction fuel; cbn; intros; auto.
  assert (clean_name (48 + n mod 10 :: acc)) by (constructor; auto; generalize (n mod 10); intros; lia).
  destruct (n / 10 =? 0); auto.
Qed.
Lemma dec_of_N_clean n : clean_name (dec_of_N n).
Proof. apply dec_digits_clean. constructor. Qed.
Lemma dec_of_Z_clean z : clean_name (dec_of_Z z).
Proof. destruct z; unfold dec_of_Z; try apply dec_of_N_clean. constructor; [lia|apply dec_of_N_clean]. Qed.

Lemma sev_str_clean s : clean_name (sev_str s).
Proof. destruct s; cbn; repeat constructor; lia. Qed.

Lemma when_ok (P : str -> Prop) b v : (b = true -> P v) -> match when b v with Some x => P x | None => True end.
Proof. destruct b; cbn; auto. Qed.

(* ---------- the printed element denotes the finding's tree ---------- *)
Lemma error_attrs_ok m :
  bytes (m_short m) -> bytes (m_verbose m) -> bytes (m_remark m) -> clean_msg m ->
  Forall (fun a => xml_name (fst a) /\ clean_name (snd a)) (present (error_attrs m)).
Proof.
  intros Hs Hv Hr (Hid & Hgl & Hcl & Hf0 & _ & _).
  apply present_Forall. unfold error_attrs.
  repeat constructor; cbn [fst snd]; try exact I; auto;
    try (apply (when_ok (fun v => xml_name _ /\ clean_name v)); intros _; split; [cbn; auto|]);
    try (split; [cbn; auto|]);
    auto using sev_str_clean, dec_of_N_clean, print_clean, fix_invalid_chars_print.
  repeat constructor; lia.
Qed.

Lemma loc_attrs_ok l :
  bytes (l_info l) -> clean_name (cstr (l_file l)) -> clean_name (cstr (l_orig l)) ->
  Forall (fun a => xml_name (fst a) /\ clean_name (snd a)) (present (loc_attrs l)).
Proof.
  intros Hi Hf Ho. apply present_Forall. unfold loc_attrs.
  repeat constructor; cbn [fst snd]; try exact I; auto;
    try (apply (when_ok (fun v => xml_name _ /\ clean_name v)); intros _; split; [cbn; auto|]);
    try (split; [cbn; auto|]);
    auto using dec_of_N_clean, dec_of_Z_clean, print_clean, fix_invalid_chars_print.
Qed.

Lemma error_names_nodup m : NoDup (map fst (present (error_attrs m))).
Proof.
  apply present_fst_sub. cbn.
  repeat (constructor; [cbn; intuition discriminate|]). constructor.
Qed.
Lemma loc_names_nodup l : NoDup (map fst (present (loc_attrs l))).
Proof.
  apply present_fst_sub. cbn.
  repeat (constructor; [cbn; intuition discriminate|]). constructor.
Qed.

Lemma white_spaces n : white (spaces n).
Proof. induction n; cbn; constructor; auto. Qed.

Lemma white_nl_spaces n : white (10 :: spaces n) /\ 10 :: spaces n <> [].
Proof. split; [constructor; [right; right; left; reflexivity | apply white_spaces] | discriminate]. Qed.

Lemma element_loc l :
  bytes (l_info l) -> clean_name (cstr (l_file l)) -> clean_name (cstr (l_orig l)) ->
  element (L "<location" ++ pr_attrs (present (loc_attrs l)) ++ L "/>") (loc_node l).
Proof.
  intros. unfold loc_node.
  apply (el_empty (L "location")); [cbn; auto | apply attlist_pr_attrs, loc_attrs_ok; auto | apply loc_names_nodup].
Qed.

Lemma element_sym s :
  clean_name (cstr s) ->
  element (L "<symbol>" ++ esc_text (cstr s) ++ L "</symbol>") (sym_node s).
Proof.
  intros H. unfold sym_node.
  change (L "<symbol>" ++ esc_text (cstr s) ++ L "</symbol>")
    with (60 :: L "symbol" ++ [] ++ 62 :: esc_text (cstr s) ++ L "</" ++ L "symbol" ++ [62]).
  apply el_full; [cbn; auto | constructor | constructor |].
  destruct (cstr s) eqn:E; cbn [is_nil].
  - cbn. constructor.
  - apply ct_text; [discriminate|]. rewrite <- E. apply chardata_esc_text. rewrite E; auto.
Qed.

Definition loc_ok (l : loc) : Prop :=
  bytes (l_info l) /\ clean_name (cstr (l_file l)) /\ clean_name (cstr (l_orig l)).

Definition sym_text (s : str) : str := L "<symbol>" ++ esc_text (cstr s) ++ L "</symbol>".
Definition loc_text_xml (l : loc) : str := L "<location" ++ pr_attrs (present (loc_attrs l)) ++ L "/>".

Lemma pr_sym_shape s r : pr_sym s ++ r = (10 :: spaces 12) ++ sym_text s ++ r.
Proof. unfold pr_sym, sym_text. rewrite <- app_comm_cons. rewrite <- app_assoc. reflexivity. Qed.
Lemma pr_loc_shape l r : pr_loc l ++ r = (10 :: spaces 12) ++ loc_text_xml l ++ r.
Proof. unfold pr_loc, loc_text_xml. rewrite <- app_comm_cons. rewrite <- app_assoc. reflexivity. Qed.

Lemma content_syms syms tail tk :
  Forall (fun s => clean_name (cstr s)) syms -> content tail tk ->
  content (flat_map pr_sym syms ++ tail) (map sym_node syms ++ tk).
Proof.
  intros Hs Ht. induction Hs as [|s syms H Hs IH]; [exact Ht|].
  change (flat_map pr_sym (s :: syms)) with (pr_sym s ++ flat_map pr_sym syms).
  change (map sym_node (s :: syms) ++ tk) with (sym_node s :: (map sym_node syms ++ tk)).
  rewrite <- app_assoc. rewrite pr_sym_shape.
  destruct (white_nl_spaces 12). apply ct_white; auto.
  apply ct_elem; auto. apply element_sym; auto.
Qed.

Lemma content_kids locs syms tail tk :
  Forall loc_ok locs -> Forall (fun s => clean_name (cstr s)) syms -> content tail tk ->
  content (flat_map pr_loc locs ++ flat_map pr_sym syms ++ tail)
          (map loc_node locs ++ map sym_node syms ++ tk).
Proof.
  intros Hl Hs Ht. induction Hl as [|l locs (Hi & Hf & Ho) Hl IH]; [apply content_syms; auto|].
  change (flat_map pr_loc (l :: locs)) with (pr_loc l ++ flat_map pr_loc locs).
  change (map loc_node (l :: locs) ++ map sym_node syms ++ tk) with (loc_node l :: (map loc_node locs ++ map sym_node syms ++ tk)).
  rewrite <- app_assoc. rewrite pr_loc_shape.
  destruct (white_nl_spaces 12). apply ct_white; auto.
  apply ct_elem; auto. apply element_loc; auto.
Qed.


(* message texts are bytes (the harness and the binary only ever hold bytes) *)
Definition msg_bytes (m : msg) : Prop :=
  bytes (m_short m) /\ bytes (m_verbose m) /\ bytes (m_remark m) /\ Forall (fun l => bytes (l_info l)) (m_stack m).

Lemma skipn_spaces8 m : skipn 8 (to_xml m) =
  L "<error" ++ pr_attrs (present (error_attrs m)) ++
  (let kids := flat_map pr_loc (rev (m_stack m)) ++ flat_map pr_sym (symbols_of (m_symbols m)) in
   if is_nil kids then L "/>" else 62 :: kids ++ 10 :: spaces 8 ++ L "</error>").
Proof. reflexivity. Qed.

Lemma kids_nil_iff (locs : list loc) (syms : list str) :
  is_nil (flat_map pr_loc locs ++ flat_map pr_sym syms) = true -> locs = [] /\ syms = [].
Proof.
  destruct locs; cbn; [|discriminate]. destruct syms; cbn; [auto|discriminate].
Qed.

Theorem to_xml_denotes m :
  msg_bytes m -> clean_msg m ->
  element (skipn 8 (to_xml m)) (error_tree m).
Proof.
  intros (Hs & Hv & Hr & Hi) Hc. rewrite skipn_spaces8. cbv zeta.
  pose proof Hc as (_ & _ & _ & _ & Hlocs & Hsyms).
  assert (Hl : Forall loc_ok (rev (m_stack m))).
  { apply Forall_rev. rewrite Forall_forall in *. intros l Hin. split; [auto|]. apply Hlocs; auto. }
  unfold error_tree.
  destruct (is_nil (flat_map pr_loc (rev (m_stack m)) ++ flat_map pr_sym (symbols_of (m_symbols m)))) eqn:E.
  - apply kids_nil_iff in E. destruct E as [E1 E2]. rewrite E1, E2. cbn [map app].
    apply (el_empty (L "error")); [cbn; auto | apply attlist_pr_attrs, error_attrs_ok; auto | apply error_names_nodup].
  - change (L "<error" ++ pr_attrs (present (error_attrs m)) ++
            62 :: (flat_map pr_loc (rev (m_stack m)) ++ flat_map pr_sym (symbols_of (m_symbols m))) ++ 10 :: spaces 8 ++ L "</error>")
      with (60 :: L "error" ++ pr_attrs (present (error_attrs m)) ++
            62 :: (flat_map pr_loc (rev (m_stack m)) ++ flat_map pr_sym (symbols_of (m_symbols m))) ++ 10 :: spaces 8 ++ L "</error>").
    replace ((flat_map pr_loc (rev (m_stack m)) ++ flat_map pr_sym (symbols_of (m_symbols m))) ++ 10 :: spaces 8 ++ L "</error>")
      with ((flat_map pr_loc (rev (m_stack m)) ++ flat_map pr_sym (symbols_of (m_symbols m)) ++ 10 :: spaces 8) ++ L "</" ++ L "error" ++ [62])
      by (rewrite <- !app_assoc; reflexivity).
    apply el_full; [cbn; auto | apply attlist_pr_attrs, error_attrs_ok; auto | apply error_names_nodup |].
    replace (map loc_node (rev (m_stack m)) ++ map sym_node (symbols_of (m_symbols m)))
      with (map loc_node (rev (m_stack m)) ++ map sym_node (symbols_of (m_symbols m)) ++ []) by (rewrite app_nil_r; reflexivity).
    apply content_kids; auto.
    rewrite <- (app_nil_r (10 :: spaces 8)). destruct (white_nl_spaces 8). apply ct_white; auto. constructor.
Qed.

(* every byte of the printed element is an XML Char *)
Lemma esc_attr_clean v : clean_name v -> clean_name (esc_attr v).
Proof.
  induction 1; cbn; [constructor|]. apply Forall_app; split; auto.
  unfold esc_attr_char. repeat match goal with |- context [if ?b then _ else _] => destruct b end;
    repeat constructor; auto; lia.
Qed.

(* ---------- RELAX NG ---------- *)
Lemma forallb_map_loc (S : rng_schema) (f : xnode -> bool) (locs : list loc) :
  (forall l, In l locs -> f (loc_node l) = true) -> forallb f (map loc_node locs) = true.
Proof. induction locs; cbn; intros H; auto. rewrite H, IHlocs; auto. Qed.

Lemma kids_ordered_syms syms b : kids_ordered b (map sym_node syms) = true.
Proof. revert b. induction syms; cbn; intros; auto. Qed.

Lemma kids_ordered_locs locs syms :
  kids_ordered false (map loc_node locs ++ map sym_node syms) = true.
Proof. induction locs; cbn; auto using kids_ordered_syms. Qed.

Lemma loc_conforms l :
  (mem_str (node_name (loc_node l)) (rng_error_children rng_schema_gen) && kid_conforms rng_schema_gen (loc_node l)) = true.
Proof.
  unfold loc_node, loc_attrs.
  destruct (negb (str_eqb (l_orig l) (l_file l))), (nonempty (l_info l)); vm_compute; reflexivity.
Qed.

Lemma sym_conforms s :
  (mem_str (node_name (sym_node s)) (rng_error_children rng_schema_gen) && kid_conforms rng_schema_gen (sym_node s)) = true.
Proof. unfold sym_node. destruct (is_nil (cstr s)); vm_compute; reflexivity. Qed.

Theorem xml_conforms_rng m :
  reportable m -> error_conforms rng_schema_gen (error_tree m) = true.
Proof.
  intros (Hs1 & Hs2).
  unfold error_tree, error_conforms.
  assert (Hk : forallb (fun k => mem_str (node_name k) (rng_error_children rng_schema_gen) && kid_conforms rng_schema_gen k)
                 (map loc_node (rev (m_stack m)) ++ map sym_node (symbols_of (m_symbols m))) = true).
  { rewrite forallb_app. apply andb_true_intro; split.
    - apply forallb_forall. intros x Hx. apply in_map_iff in Hx. destruct Hx as (l & <- & Hin). apply loc_conforms.
    - apply forallb_forall. intros x Hx. apply in_map_iff in Hx. destruct Hx as (s & <- & _). apply sym_conforms. }
  rewrite Hk, kids_ordered_locs, !andb_true_r.
  unfold error_attrs.
  destruct (nonempty (m_guideline m)), (nonempty (m_classification m)), (m_cwe m =? 0), (m_hash m =? 0),
           (m_inconclusive m), (nonempty (m_file0 m)), (nonempty (m_remark m));
    cbn [negb when present flat_map snd fst app];
    destruct (m_sev m); try congruence; vm_compute; reflexivity.
Qed.

(* ---------- StdLogger dedup ---------- *)
Fixpoint forwarded (texts : list str) (flags : list bool) : list str :=
  match texts, flags with
  | t :: ts, b :: bs => if b then t :: forwarded ts bs else forwarded ts bs
  | _, _ => []
  end.

Lemma mem_str_In x l : mem_str x l = true <-> In x l.
Proof.
  unfold mem_str. rewrite existsb_exists. split.
  - intros (y & Hy & E). apply str_eqb_eq in E. subst; auto.
  - intros H. exists x. split; auto. apply str_eqb_eq; reflexivity.
Qed.

Lemma dedup_spec texts : forall seen,
  NoDup (forwarded texts (dedup seen texts)) /\
  (forall t, In t (forwarded texts (dedup seen texts)) <-> In t texts /\ ~ In t seen).
Proof.
  induction texts as [|t ts IH]; intros seen; cbn.
  - split; [constructor | intuition].
  - destruct (mem_str t seen) eqn:E; cbn.
    + apply mem_str_In in E. destruct (IH seen) as [H1 H2]. split; auto.
      intros x. rewrite H2. intuition. subst. contradiction.
    + assert (~ In t seen) by (rewrite <- mem_str_In; congruence).
      destruct (IH (t :: seen)) as [H1 H2]. split.
      * constructor; auto. rewrite H2. cbn. intuition.
      * intros x. rewrite H2. cbn. destruct (list_eq_dec N.eq_dec t x) as [->|Hne]; intuition.
Qed.
