(* ASCII literals for byte strings: L "abc" is the list [97;98;99] (computed when the
   definition is read, so Coq's string type does not occur in the definitions). *)
From Coq Require Import Strings.String Strings.Ascii.
From CV Require Import Base.Bytes.

Fixpoint lit (x : string) : str :=
  match x with
  | EmptyString => []
  | String a r => N_of_ascii a :: lit r
  end.

Notation L s := (ltac:(let v := eval vm_compute in (lit s%string) in exact v)) (only parsing).
