(* C26 model: lib/errorlogger.cpp (ErrorMessage::toString / toXML / fixInvalidChars,
   ErrorLogger::toxml / callStackToString, substituteTemplateFormatStatic),
   lib/utils.cpp findAndReplace, tinyxml2 XMLPrinter as used by toXML,
   lib/sarifreport.cpp + picojson serialize(true), StdLogger::reportErr dedup.
   Definitions only; everything is a total computable function on byte lists. *)
From Coq Require Import Strings.String.
From CV Require Import Base.Bytes Base.Glob Report.Lit.
Import List ListNotations.
Local Open Scope N_scope.

Definition is_nil {A} (l : list A) : bool := match l with [] => true | _ => false end.
Definition nonempty {A} (l : list A) : bool := negb (is_nil l).

(* ------------------------------------------------------------------ *)
(* std::string::find / utils.cpp findAndReplace                        *)

(* first index at which pat occurs in s (std::string::find(pat)) *)
Fixpoint find_sub (pat s : str) {struct s} : option nat :=
  if starts_with pat s then Some O
  else match s with
       | [] => None
       | _ :: s' => option_map S (find_sub pat s')
       end.

(* std::string::find(pat, pos) *)
Definition find_from (pat s : str) (pos : nat) : option nat :=
  if (pos <=? length s)%nat then option_map (fun i => (pos + i)%nat) (find_sub pat (skipn pos s)) else None.

(* findAndReplace(source, from, to): leftmost occurrence at or after index is
   replaced, scanning resumes behind the inserted text (which is therefore never
   rescanned by the same call). `from` is non-empty at every call site modelled. *)
Fixpoint far_fuel (fuel : nat) (from to s : str) : str :=
  match fuel with
  | O => s
  | S f =>
      match s with
      | [] => []
      | c :: s' =>
          if starts_with from s then to ++ far_fuel f from to (skipn (length from) s)
          else c :: far_fuel f from to s'
      end
  end.
Definition far (from to s : str) : str := far_fuel (S (length s)) from to s.

(* static void replace(std::string&, const unordered_map&) : single pass over '{'...'}' keys *)
Fixpoint find_byte (b : N) (s : str) : option nat :=
  match s with
  | [] => None
  | c :: s' => if c =? b then Some O else option_map S (find_byte b s')
  end.

Fixpoint lookup (k : str) (m : list (str * str)) : option str :=
  match m with
  | [] => None
  | (k', v) :: m' => if str_eqb k k' then Some v else lookup k m'
  end.

Fixpoint rmap_fuel (fuel : nat) (m : list (str * str)) (s : str) : str :=
  match fuel with
  | O => s
  | S f =>
      match s with
      | [] => []
      | c :: s' =>
          if c =? 123 then
            match find_byte 125 s with
            | None => s                                   (* no '}' any more: break *)
            | Some e =>
                match lookup (firstn (S e) s) m with
                | Some w => w ++ rmap_fuel f m (skipn (S e) s)
                | None => c :: rmap_fuel f m s'
                end
            end
          else c :: rmap_fuel f m s'
      end
  end.
Definition rmap (m : list (str * str)) (s : str) : str := rmap_fuel (S (length s)) m s.

(* static void replaceSpecialChars(std::string&): \b \n \r \t *)
Definition special_of (c : N) : option N :=
  if c =? 98 then Some 8 else if c =? 110 then Some 10 else if c =? 114 then Some 13
  else if c =? 116 then Some 9 else None.

Fixpoint replace_special (s : str) : str :=
  match s with
  | [] => []
  | c :: s' =>
      if c =? 92 then
        match s' with
        | d :: s'' => match special_of d with
                      | Some x => x :: replace_special s''
                      | None => c :: replace_special s'
                      end
        | [] => [c]
        end
      else c :: replace_special s'
  end.

Definition color_names : list (str * N) :=
  [(L "{reset}", 0); (L "{bold}", 1); (L "{dim}", 2); (L "{red}", 31); (L "{green}", 32);
   (L "{blue}", 34); (L "{magenta}", 35); (L "{default}", 39)].
Definition color_map (erase : bool) : list (str * str) :=
  map (fun p => (fst p, if erase then [] else 27 :: 91 :: dec_of_N (snd p) ++ [109])) color_names.

(* substituteTemplateFormatStatic / substituteTemplateLocationStatic.
   erase = true also describes the non-tty case (toString(Color) is "" then). *)
Definition subst_static (erase : bool) (t : str) : str := rmap (color_map erase) (replace_special t).

(* ------------------------------------------------------------------ *)
(* messages                                                             *)

Inductive sev := SNone | SError | SWarning | SStyle | SPerformance | SPortability
               | SInformation | SDebug | SInternal.

Definition sev_str (s : sev) : str :=
  match s with
  | SNone => [] | SError => L "error" | SWarning => L "warning" | SStyle => L "style"
  | SPerformance => L "performance" | SPortability => L "portability"
  | SInformation => L "information" | SDebug => L "debug" | SInternal => L "internal"
  end.

Record loc := mkLoc { l_file : str; l_orig : str; l_line : Z; l_col : N; l_info : str }.

Record msg := mkMsg {
  m_id : str; m_guideline : str; m_classification : str; m_sev : sev; m_cwe : N; m_hash : N;
  m_inconclusive : bool; m_short : str; m_verbose : str; m_remark : str; m_file0 : str;
  m_symbols : str; m_stack : list loc }.

(* Path::toNativeSeparators on a non-Windows build *)
Definition native (s : str) : str := map (fun c => if c =? 92 then 47 else c) s.

(* FileLocation::stringify(false) / ErrorLogger::callStackToString *)
Definition stringify (l : loc) : str :=
  91 :: native (l_file l) ++ (if Z.eqb (l_line l) (-1) then [] else 58 :: dec_of_Z (l_line l)) ++ [93].
Definition callstack_str (cs : list loc) : str := join (L " -> ") (map stringify cs).

(* ------------------------------------------------------------------ *)
(* ErrorMessage::toString                                               *)

Definition INC : str := L "{inconclusive:".

(* the {inconclusive:...} loop. None = a "{inconclusive:" without closing '}' was met
   (outside the modelled domain: the C++ code then works with npos) or fuel ran out. *)
Fixpoint inc_loop (fuel : nat) (incon : bool) (res : str) (pos1 : nat) : option str :=
  match fuel with
  | O => None
  | S f =>
      match find_from INC res pos1 with
      | None => Some res
      | Some p1 =>
          match find_from [125] res (S p1) with
          | None => None
          | Some p2 =>
              let from := firstn (p2 - p1 + 1) (skipn p1 res) in
              let w := if incon then firstn (p2 - p1 - 14) (skipn (p1 + 14) res) else [] in
              inc_loop f incon (far from w res) p1
          end
      end
  end.

Definition endl_of (res : str) : str :=
  match find_byte 13 res with
  | None => [10]
  | Some p => match nth_error res (S p) with
              | Some 10 => [13; 10]
              | _ => [13]
              end
  end.

(* readCode() when the file cannot be read (the only case the model covers):
   the line is empty *)
Definition read_code_unreadable (col : N) (endl : str) : str :=
  endl ++ repeat 32 (N.to_nat (col - 1)) ++ [94].

Definition stack_empty_map : list (str * str) :=
  [(L "{callstack}", []); (L "{file}", L "nofile"); (L "{line}", L "0"); (L "{column}", L "0"); (L "{code}", [])].

Definition loc_text (tloc short : str) (l : loc) : str :=
  let t := far (L "{file}") (native (l_file l)) tloc in
  let t := far (L "{line}") (dec_of_Z (l_line l)) t in
  let t := far (L "{column}") (dec_of_N (l_col l)) t in
  let t := far (L "{info}") (if is_nil (l_info l) then short else l_info l) t in
  far (L "{code}") (read_code_unreadable (l_col l) (endl_of t)) t.

Definition to_string (verbose : bool) (tmpl tloc : str) (m : msg) : option str :=
  let idStr := if is_nil (m_guideline m) then m_id m else m_guideline m in
  let sevStr := if is_nil (m_classification m) then sev_str (m_sev m) else m_classification m in
  let r := far (L "{id}") idStr tmpl in
  match inc_loop (S (S (length r))) (m_inconclusive m) r O with
  | None => None
  | Some r =>
      let r := far (L "{severity}") sevStr r in
      let r := far (L "{cwe}") (dec_of_N (m_cwe m)) r in
      let r := far (L "{message}") (if verbose then m_verbose m else m_short m) r in
      let r := far (L "{remark}") (m_remark m) r in
      let r :=
        match last (map Some (m_stack m)) None with
        | Some bk =>
            let r := far (L "{callstack}") (callstack_str (m_stack m)) r in
            let r := far (L "{file}") (native (l_file bk)) r in
            let r := far (L "{line}") (dec_of_Z (l_line bk)) r in
            let r := far (L "{column}") (dec_of_N (l_col bk)) r in
            far (L "{code}") (read_code_unreadable (l_col bk) (endl_of r)) r
        | None => rmap stack_empty_map r
        end in
      Some (if nonempty tloc && (2 <=? length (m_stack m))%nat
            then r ++ flat_map (fun l => 10 :: loc_text tloc (m_short m) l) (m_stack m)
            else r)
  end.

(* ------------------------------------------------------------------ *)
(* ErrorMessage::fixInvalidChars / ErrorLogger::toxml                   *)

Definition is_print (c : N) : bool := (32 <=? c) && (c <=? 126).
Definition fix_char (c : N) : str :=
  if is_print c then [c]
  else [92; 48 + (c / 64) mod 8; 48 + (c / 8) mod 8; 48 + c mod 8].
Definition fix_invalid_chars (s : str) : str := flat_map fix_char s.

Definition toxml_char (c : N) : str :=
  if c =? 60 then L "&lt;" else if c =? 62 then L "&gt;" else if c =? 38 then L "&amp;"
  else if c =? 34 then L "&quot;" else if c =? 39 then L "&apos;" else if c =? 0 then L "\0"
  else if c =? 10 then L "&#10;" else if c =? 9 then L "&#09;" else if c =? 13 then L "&#13;"
  else if (32 <=? c) && (c <=? 127) then [c] else [120].
Definition toxml (s : str) : str := flat_map toxml_char s.

(* ------------------------------------------------------------------ *)
(* tinyxml2 XMLPrinter::PrintString                                     *)

Definition esc_attr_char (c : N) : str :=
  if c =? 34 then L "&quot;" else if c =? 38 then L "&amp;" else if c =? 39 then L "&apos;"
  else if c =? 60 then L "&lt;" else if c =? 62 then L "&gt;" else [c].
Definition esc_text_char (c : N) : str :=
  if c =? 38 then L "&amp;" else if c =? 60 then L "&lt;" else if c =? 62 then L "&gt;" else [c].
Definition esc_attr (s : str) : str := flat_map esc_attr_char s.
Definition esc_text (s : str) : str := flat_map esc_text_char s.

(* ------------------------------------------------------------------ *)
(* ErrorMessage::toXML                                                  *)

Definition when (b : bool) (v : str) : option str := if b then Some v else None.
Definition present (l : list (str * option str)) : list (str * str) :=
  flat_map (fun p => match snd p with Some v => [(fst p, v)] | None => [] end) l.

(* the values handed to PushAttribute (C string): c_str() stops at NUL *)
Definition error_attrs (m : msg) : list (str * option str) :=
  [ (L "id", Some (cstr (m_id m)));
    (L "guideline", when (nonempty (m_guideline m)) (cstr (m_guideline m)));
    (L "severity", Some (sev_str (m_sev m)));
    (L "classification", when (nonempty (m_classification m)) (cstr (m_classification m)));
    (L "msg", Some (fix_invalid_chars (m_short m)));
    (L "verbose", Some (fix_invalid_chars (m_verbose m)));
    (L "cwe", when (negb (m_cwe m =? 0)) (dec_of_N (m_cwe m)));
    (L "hash", when (negb (m_hash m =? 0)) (dec_of_N (m_hash m)));
    (L "inconclusive", when (m_inconclusive m) (L "true"));
    (L "file0", when (nonempty (m_file0 m)) (cstr (m_file0 m)));
    (L "remark", when (nonempty (m_remark m)) (fix_invalid_chars (m_remark m))) ].

Definition loc_attrs (l : loc) : list (str * option str) :=
  [ (L "origfile", when (negb (str_eqb (l_orig l) (l_file l))) (cstr (l_orig l)));
    (L "file", Some (cstr (l_file l)));
    (L "line", Some (dec_of_Z (Z.max (l_line l) 0)));
    (L "column", Some (dec_of_N (l_col l)));
    (L "info", when (nonempty (l_info l)) (fix_invalid_chars (l_info l))) ].

(* the mSymbolNames loop: pieces between '\n', no piece after a final '\n' *)
Definition symbols_of (s : str) : list str :=
  let l := Bytes.split 10 s in
  if is_nil (last l []) then removelast l else l.

Definition spaces (n : nat) : str := repeat 32 n.
Definition pr_attr (a : str * str) : str := 32 :: fst a ++ L "=""" ++ esc_attr (snd a) ++ [34].
Definition pr_attrs (l : list (str * str)) : str := flat_map pr_attr l.

Definition pr_loc (l : loc) : str :=
  10 :: spaces 12 ++ L "<location" ++ pr_attrs (present (loc_attrs l)) ++ L "/>".
Definition pr_sym (s : str) : str :=
  10 :: spaces 12 ++ L "<symbol>" ++ esc_text (cstr s) ++ L "</symbol>".

Definition to_xml (m : msg) : str :=
  let kids := flat_map pr_loc (rev (m_stack m)) ++ flat_map pr_sym (symbols_of (m_symbols m)) in
  spaces 8 ++ L "<error" ++ pr_attrs (present (error_attrs m)) ++
  (if is_nil kids then L "/>" else 62 :: kids ++ 10 :: spaces 8 ++ L "</error>").

(* the tree the printer was asked to print (attribute values / text before escaping) *)
Inductive xnode := XE (name : str) (attrs : list (str * str)) (kids : list xnode) | XT (text : str).

Definition loc_node (l : loc) : xnode := XE (L "location") (present (loc_attrs l)) [].
Definition sym_node (s : str) : xnode := XE (L "symbol") [] (if is_nil (cstr s) then [] else [XT (cstr s)]).
Definition error_tree (m : msg) : xnode :=
  XE (L "error") (present (error_attrs m))
     (map loc_node (rev (m_stack m)) ++ map sym_node (symbols_of (m_symbols m))).

(* ErrorMessage::getXMLHeader("", 2) / getXMLFooter(2), and the document StdLogger writes
   (every piece through reportErr(string) = text + '\n') *)
Definition xml_header (ver : str) : str :=
  L "<?xml version=""1.0"" encoding=""UTF-8""?>" ++ 10 :: L "<results version=""2"">" ++ 10 ::
  spaces 4 ++ L "<cppcheck version=""" ++ esc_attr (cstr ver) ++ L """/>" ++ 10 :: spaces 4 ++ L "<errors>".
Definition xml_footer : str := spaces 4 ++ L "</errors>" ++ 10 :: L "</results>".
Definition xml_doc (ver : str) (ms : list msg) : str :=
  xml_header ver ++ [10] ++ flat_map (fun m => to_xml m ++ [10]) ms ++ xml_footer ++ [10].

(* ------------------------------------------------------------------ *)
(* RELAX NG conformance of one <error> tree against the regenerated schema
   (Gen_RngSchema.v supplies the tables) *)

Record rng_schema := mkRng {
  rng_error_attrs : list (str * bool);       (* name, required *)
  rng_location_attrs : list (str * bool);
  rng_error_children : list str;             (* allowed child elements, in schema order *)
  rng_severities : list str }.

Definition mem_str (x : str) (l : list str) : bool := existsb (str_eqb x) l.

Definition attrs_conform (allowed : list (str * bool)) (attrs : list (str * str)) : bool :=
  forallb (fun a => mem_str (fst a) (map fst allowed)) attrs &&
  forallb (fun r => negb (snd r) || mem_str (fst r) (map fst attrs)) allowed.

Definition node_name (n : xnode) : str := match n with XE nm _ _ => nm | XT _ => [] end.

Definition kid_conforms (S : rng_schema) (k : xnode) : bool :=
  match k with
  | XE nm attrs kids =>
      if str_eqb nm (L "location") then attrs_conform (rng_location_attrs S) attrs && is_nil kids
      else if str_eqb nm (L "symbol") then is_nil attrs && forallb (fun t => match t with XT _ => true | _ => false end) kids
      else false
  | XT _ => false
  end.

(* children: location* then symbol*, both only if the schema lists them *)
Fixpoint kids_ordered (seen_symbol : bool) (ks : list xnode) : bool :=
  match ks with
  | [] => true
  | k :: ks' =>
      if str_eqb (node_name k) (L "symbol") then kids_ordered true ks'
      else negb seen_symbol && kids_ordered false ks'
  end.

Definition attr_value (n : str) (attrs : list (str * str)) : option str := lookup n attrs.

Definition error_conforms (S : rng_schema) (e : xnode) : bool :=
  match e with
  | XE nm attrs kids =>
      str_eqb nm (L "error") &&
      attrs_conform (rng_error_attrs S) attrs &&
      match attr_value (L "severity") attrs with
      | Some v => mem_str v (rng_severities S)
      | None => false
      end &&
      forallb (fun k => mem_str (node_name k) (rng_error_children S) && kid_conforms S k) kids &&
      kids_ordered false kids
  | XT _ => false
  end.

(* ------------------------------------------------------------------ *)
(* SARIF: picojson values and serialize(true)                           *)

Inductive json := JS (s : str) | JI (z : Z) | JA (l : list json) | JO (l : list (str * json)).

Definition hex_digit (n : N) : N := if n <? 10 then 48 + n else 87 + n.
Definition json_esc_char (c : N) : str :=
  if c =? 34 then [92; 34] else if c =? 92 then [92; 92] else if c =? 47 then [92; 47]
  else if c =? 8 then [92; 98] else if c =? 12 then [92; 102] else if c =? 10 then [92; 110]
  else if c =? 13 then [92; 114] else if c =? 9 then [92; 116]
  else if (c <? 32) || (c =? 127) then [92; 117; 48; 48; hex_digit (c / 16); hex_digit (c mod 16)]
  else [c].
Definition json_str (s : str) : str := 34 :: flat_map json_esc_char s ++ [34].

Definition indent_nl (n : nat) : str := 10 :: spaces (2 * n).

(* _serialize(oi, indent) for indent >= 1 inside, the trailing newline of the
   top-level call is added by pj_top *)
Fixpoint pj (ind : nat) (v : json) : str :=
  match v with
  | JS s => json_str s
  | JI z => dec_of_Z z
  | JA l =>
      91 :: (fix items (first : bool) (l : list json) : str :=
               match l with
               | [] => []
               | x :: l' => (if first then [] else [44]) ++ indent_nl (S ind) ++ pj (S ind) x ++ items false l'
               end) true l
         ++ (if is_nil l then [] else indent_nl ind) ++ [93]
  | JO l =>
      123 :: (fix items (first : bool) (l : list (str * json)) : str :=
                match l with
                | [] => []
                | (k, x) :: l' => (if first then [] else [44]) ++ indent_nl (S ind) ++ json_str k ++ [58; 32]
                                  ++ pj (S ind) x ++ items false l'
                end) true l
          ++ (if is_nil l then [] else indent_nl ind) ++ [125]
  end.
Definition pj_top (v : json) : str := pj 0 v ++ [10].

(* SarifReport *)
Definition sarif_level (critical : bool) (s : sev) : str :=
  if critical then L "error" else
  match s with
  | SError | SWarning => L "error"
  | SStyle | SPortability | SPerformance => L "warning"
  | _ => L "note"
  end.

Definition security_severity (critical : bool) (s : sev) : str :=
  match s with
  | SError => if critical then [] else L "9.9"
  | SWarning => L "8.5"
  | SPerformance | SPortability | SStyle => L "5.5"
  | SInformation | SInternal | SDebug | SNone => L "2"
  end.

Definition clamp1 (z : Z) : Z := if (z <? 1)%Z then 1%Z else z.

Definition sarif_location (l : loc) : json :=
  let ln := JI (clamp1 (l_line l)) in
  let cl := JI (clamp1 (Z.of_N (l_col l))) in
  JO [(L "physicalLocation",
       JO [(L "artifactLocation", JO [(L "uri", JS (l_file l))]);
           (L "region", JO [(L "endColumn", cl); (L "endLine", ln); (L "startColumn", cl); (L "startLine", ln)])])].

Definition sarif_result (crit : str -> bool) (m : msg) : json :=
  JO ([(L "level", JS (sarif_level (crit (m_id m)) (m_sev m)));
       (L "locations", JA (map sarif_location (m_stack m)));
       (L "message", JO [(L "text", JS (m_short m))])] ++
      (if m_hash m =? 0 then [] else [(L "partialFingerprints", JO [(L "hash/v1", JS (dec_of_N (m_hash m)))])]) ++
      [(L "ruleId", JS (m_id m))]).

Definition text_obj : json := JO [(L "text", JS [])].

Definition sarif_rule (crit : str -> bool) (m : msg) : json :=
  let c := crit (m_id m) in
  let ss := if m_cwe m =? 0 then [] else security_severity c (m_sev m) in
  let lvl := JS (sarif_level c (m_sev m)) in
  JO [(L "defaultConfiguration", JO [(L "level", lvl)]);
      (L "fullDescription", text_obj);
      (L "help", text_obj);
      (L "id", JS (m_id m));
      (L "name", JS []);
      (L "properties",
       JO ([(L "precision", JS (if m_inconclusive m then L "medium" else L "high"));
            (L "problem.severity", lvl)] ++
           (if is_nil ss then [] else
              [(L "security-severity", JS ss);
               (L "tags", JA [JS (L "external/cwe/cwe-" ++ dec_of_N (m_cwe m)); JS (L "security")])])));
      (L "shortDescription", text_obj)].

Definition reported (ms : list msg) : list msg := filter (fun m => nonempty (m_stack m)) ms.

Fixpoint first_by_id (seen : list str) (ms : list msg) : list msg :=
  match ms with
  | [] => []
  | m :: ms' => if mem_str (m_id m) seen then first_by_id seen ms' else m :: first_by_id (m_id m :: seen) ms'
  end.

Definition version_word (v : str) : str :=
  match find_byte 32 v with Some i => firstn i v | None => v end.

Definition sarif_doc_tree (crit : str -> bool) (ver : str) (ms : list msg) : json :=
  JO [(L "$schema", JS (L "https://docs.oasis-open.org/sarif/sarif/v2.1.0/errata01/os/schemas/sarif-schema-2.1.0.json"));
      (L "runs", JA [JO [(L "results", JA (map (sarif_result crit) (reported ms)));
                         (L "tool", JO [(L "driver",
                            JO [(L "informationUri", JS (L "https://cppcheck.sourceforge.io"));
                                (L "name", JS (L "Cppcheck"));
                                (L "rules", JA (map (sarif_rule crit) (first_by_id [] (reported ms))));
                                (L "semanticVersion", JS (version_word ver))])])]])].

(* SarifReport::serialize: "version" spliced in front of the printed document *)
Definition sarif_serialize (crit : str -> bool) (ver : str) (ms : list msg) : str :=
  L "{" ++ 10 :: L "  ""version"": ""2.1.0""," ++ tl (pj_top (sarif_doc_tree crit ver ms)).

(* ------------------------------------------------------------------ *)
(* StdLogger::reportErr: duplicates (by rendered text) are dropped      *)

Fixpoint dedup (seen : list str) (texts : list str) : list bool :=
  match texts with
  | [] => []
  | t :: ts => if mem_str t seen then false :: dedup seen ts else true :: dedup (t :: seen) ts
  end.
