(* C26 proofs, text side: findAndReplace on a string made of brace-free text and
   "{name}" tokens; sequential substitution = simultaneous substitution when no
   inserted value contains '{'. *)
From Coq Require Import Strings.String.
From CV Require Import Base.Bytes Base.Glob Report.Lit Report.Defs Report.Spec.
Import List ListNotations.
Require Import Lia ZifyBool.
Local Open Scope N_scope.

(* ---------- findAndReplace: fuel is irrelevant, unfolding equations ---------- *)
Lemma far_fuel_indep from to : from <> [] -> forall f f' s,
  (length s < f)%nat -> (length s < f')%nat -> far_fuel f from to s = far_fuel f' from to s.
Proof.
  intros Hne. induction f as [|f IH]; intros f' s H1 H2; [lia|].
  destruct f' as [|f']; [lia|]. cbn [far_fuel]. destruct s as [|c s]; auto.
  cbn [length] in *.
  destruct (starts_with from (c :: s)).
  - f_equal.
    assert (Hlen : (length (skipn (length from) (c :: s)) <= length s)%nat).
    { rewrite skipn_length. destruct from; [congruence|]. cbn [length]. lia. }
    apply IH; lia.
  - f_equal. apply IH; lia.
Qed.

Lemma far_nil from to : far from to [] = [].
Proof. reflexivity. Qed.

Lemma far_cons from to c s : from <> [] ->
  far from to (c :: s) =
  if starts_with from (c :: s) then to ++ far from to (skipn (length from) (c :: s)) else c :: far from to s.
Proof.
  intros Hne. unfold far.
  change (far_fuel (S (length (c :: s))) from to (c :: s))
    with (if starts_with from (c :: s) then to ++ far_fuel (length (c :: s)) from to (skipn (length from) (c :: s))
          else c :: far_fuel (length (c :: s)) from to s).
  cbn [length].
  destruct (starts_with from (c :: s)).
  - f_equal.
    assert (Hlen : (length (skipn (length from) (c :: s)) <= length s)%nat).
    { rewrite skipn_length. destruct from; [congruence|]. cbn [length]. lia. }
    apply far_fuel_indep; auto; try lia.
  - reflexivity.
Qed.

(* ---------- chunks ---------- *)
Inductive chunk := P (s : str) | T (name : str).
Definition pc (c : chunk) : str := match c with P s => s | T n => 123 :: n ++ [125] end.
Definition pcs (l : list chunk) : str := flat_map pc l.
Definition chunk_ok (c : chunk) : Prop := match c with P s => brace_free s | T n => no_braces n end.

Definition tok (n : str) : str := 123 :: n ++ [125].

Lemma tok_ne n : tok n <> [].
Proof. discriminate. Qed.

(* brace-free text passes through *)
Lemma far_bf n to s r : brace_free s -> far (tok n) to (s ++ r) = s ++ far (tok n) to r.
Proof.
  induction s as [|c s IH]; intros H; auto.
  cbn [app]. rewrite far_cons by apply tok_ne.
  assert (c <> 123) by (intros ->; apply H; left; reflexivity).
  assert (starts_with (tok n) (c :: s ++ r) = false) as ->.
  { unfold tok. cbn [starts_with]. destruct (123 =? c) eqn:E; auto. lia. }
  f_equal. apply IH. intros Hin. apply H. right; auto.
Qed.

Lemma sw_tok pn n r : no_braces pn -> no_braces n ->
  starts_with (pn ++ [125]) (n ++ 125 :: r) = true <-> n = pn.
Proof.
  revert n. induction pn as [|a pn IH]; intros [|b n] [Hp1 Hp2] [Hn1 Hn2]; cbn [app starts_with].
  - rewrite N.eqb_refl. split; auto.
  - assert (b <> 125) by (intros ->; apply Hn2; left; auto).
    destruct (125 =? b) eqn:E; [lia|]. cbn [andb]. split; discriminate.
  - assert (a <> 125) by (intros ->; apply Hp2; left; auto).
    destruct (a =? 125) eqn:E; [lia|]. cbn [andb]. split; discriminate.
  - destruct (a =? b) eqn:E; cbn [andb].
    + apply N.eqb_eq in E. subst b. rewrite IH.
      * split; [intros ->; auto | intros H; inversion H; auto].
      * split; intros Hin; [apply Hp1 | apply Hp2]; right; auto.
      * split; intros Hin; [apply Hn1 | apply Hn2]; right; auto.
    + split; [discriminate|]. intros H; inversion H; subst. rewrite N.eqb_refl in E. discriminate.
Qed.

Definition subst_chunk (pn to : str) (c : chunk) : chunk :=
  match c with
  | T n => if str_eqb n pn then P to else c
  | _ => c
  end.

Lemma skipn_tok n r : skipn (length (tok n)) (tok n ++ r) = r.
Proof.
  rewrite skipn_app. rewrite skipn_all. rewrite Nat.sub_diag. reflexivity.
Qed.

Lemma pc_T_app n r : pc (T n) ++ r = 123 :: n ++ 125 :: r.
Proof. cbn. rewrite <- app_assoc. reflexivity. Qed.

Lemma far_chunks pn to l : no_braces pn -> Forall chunk_ok l ->
  far (tok pn) to (pcs l) = pcs (map (subst_chunk pn to) l).
Proof.
  intros Hpn. induction 1 as [|c l Hc Hl IH]; auto.
  change (pcs (c :: l)) with (pc c ++ pcs l).
  change (pcs (map (subst_chunk pn to) (c :: l))) with (pc (subst_chunk pn to c) ++ pcs (map (subst_chunk pn to) l)).
  destruct c as [s|n]; cbn [chunk_ok] in Hc.
  - cbn [subst_chunk pc]. rewrite far_bf by auto. rewrite IH. reflexivity.
  - rewrite pc_T_app. rewrite far_cons by apply tok_ne.
    unfold tok at 1. cbn [starts_with]. rewrite N.eqb_refl. cbn [andb].
    cbn [subst_chunk].
    destruct (starts_with (pn ++ [125]) (n ++ 125 :: pcs l)) eqn:E.
    + apply sw_tok in E; auto. subst n.
      assert (str_eqb pn pn = true) as -> by (apply str_eqb_eq; auto).
      cbn [pc]. f_equal. rewrite <- IH. f_equal.
      rewrite <- pc_T_app. apply (skipn_tok pn).
    + assert (str_eqb n pn = false) as ->.
      { destruct (str_eqb n pn) eqn:E2; auto. apply str_eqb_eq in E2. subst.
        assert (starts_with (pn ++ [125]) (pn ++ 125 :: pcs l) = true) by (apply sw_tok; auto). congruence. }
      rewrite pc_T_app. f_equal.
      replace (n ++ 125 :: pcs l) with ((n ++ [125]) ++ pcs l) by (rewrite <- app_assoc; reflexivity).
      rewrite far_bf.
      * rewrite IH. rewrite <- app_assoc. reflexivity.
      * destruct Hc as [H1 H2]. intros Hin. apply in_app_or in Hin. destruct Hin as [Hin|[Hin|[]]]; [auto|discriminate].
Qed.

Lemma subst_chunk_ok pn to l : brace_free to -> Forall chunk_ok l -> Forall chunk_ok (map (subst_chunk pn to) l).
Proof.
  intros Ht. induction 1 as [|c l Hc Hl IH]; cbn; constructor; auto.
  destruct c; cbn; auto. destruct (str_eqb name pn); auto.
Qed.

(* ---------- no "{inconclusive:" in a string without such a token ---------- *)
Definition INCN : str := L "inconclusive:".
Definition not_inc (c : chunk) : Prop := match c with P _ => True | T n => starts_with INCN n = false end.

Lemma find_sub_none_bf pat s r : brace_free s ->
  (exists p', pat = 123 :: p') -> find_sub pat r = None -> find_sub pat (s ++ r) = None.
Proof.
  intros H [p' ->] Hr. induction s as [|c s IH]; auto.
  cbn [app find_sub]. assert (c <> 123) by (intros ->; apply H; left; reflexivity).
  cbn [starts_with]. destruct (123 =? c) eqn:E; [lia|]. cbn [andb].
  rewrite IH; auto. intros Hin; apply H; right; auto.
Qed.

Lemma sw_incn_app n r : ~ In 125 INCN -> starts_with INCN (n ++ 125 :: r) = starts_with INCN n.
Proof.
  intros _. unfold INCN.
  (* 13 bytes, none of them '}' *)
  repeat (destruct n as [|? n]; [cbn; repeat match goal with |- context [?a =? 125] => change (a =? 125) with false end;
                                  rewrite ?andb_false_r, ?andb_false_l; reflexivity |
                                  cbn [app starts_with];
                                  match goal with |- (?x =? ?y) && _ = (?x =? ?y) && _ => destruct (x =? y); cbn [andb]; [|reflexivity] end]).
  reflexivity.
Qed.

Lemma sw_INC s : starts_with INC (123 :: s) = starts_with INCN s.
Proof. reflexivity. Qed.
Lemma find_sub_cons pat c s :
  find_sub pat (c :: s) = if starts_with pat (c :: s) then Some O else option_map S (find_sub pat s).
Proof. reflexivity. Qed.

Lemma find_inc_none l : Forall chunk_ok l -> Forall not_inc l -> find_sub INC (pcs l) = None.
Proof.
  induction 1 as [|c l Hc Hl IH]; intros Hn; inversion Hn; subst; [reflexivity|].
  change (pcs (c :: l)) with (pc c ++ pcs l).
  destruct c as [s|n]; cbn [chunk_ok not_inc] in *.
  - cbn [pc]. apply find_sub_none_bf; auto. eexists; reflexivity.
  - rewrite pc_T_app. rewrite find_sub_cons, sw_INC.
    rewrite sw_incn_app by (cbn; intuition discriminate). rewrite H1.
    replace (n ++ 125 :: pcs l) with ((n ++ [125]) ++ pcs l) by (rewrite <- app_assoc; reflexivity).
    rewrite find_sub_none_bf; auto.
    + destruct Hc as [Ha Hb]. intros Hin. apply in_app_or in Hin. destruct Hin as [Hin|[Hin|[]]]; [auto|discriminate].
    + eexists; reflexivity.
Qed.

Lemma inc_loop_none fuel incon l : Forall chunk_ok l -> Forall not_inc l ->
  inc_loop (S fuel) incon (pcs l) O = Some (pcs l).
Proof.
  intros H1 H2. cbn [inc_loop]. unfold find_from. cbn [Nat.leb skipn].
  rewrite find_inc_none; auto.
Qed.

(* ---------- the template as chunks ---------- *)
Definition chunk_of (s : seg) : chunk :=
  match s with Lit t => P t | Fld f => T (field_name f) | Inc t => T (INCN ++ t) end.

Lemma pcs_chunks t : pcs (map chunk_of t) = print_template t.
Proof.
  induction t as [|s t IH]; auto.
  change (pcs (map chunk_of (s :: t))) with (pc (chunk_of s) ++ pcs (map chunk_of t)). rewrite IH.
  change (print_template (s :: t)) with (print_seg s ++ print_template t). f_equal.
  destruct s; reflexivity.
Qed.

Definition inc_free (t : list seg) : Prop := Forall (fun s => match s with Inc _ => False | _ => True end) t.

Lemma not_In_b c l : existsb (N.eqb c) l = false -> ~ In c l.
Proof.
  intros H Hin. assert (existsb (N.eqb c) l = true) by (apply existsb_exists; exists c; split; auto; apply N.eqb_refl).
  congruence.
Qed.

Lemma field_name_nb f : no_braces (field_name f).
Proof. destruct f; split; apply not_In_b; reflexivity. Qed.

Lemma chunks_ok t : clean_template t -> inc_free t -> Forall chunk_ok (map chunk_of t).
Proof.
  intros H1 H2. induction H1 as [|s t Hs Ht IH]; inversion H2; subst; cbn; constructor; auto.
  destruct s; cbn in *; auto using field_name_nb. contradiction.
Qed.

(* one substitution step on the chunk list, spec side *)
Definition fsubst (f : field) (v : str) (c : chunk) : chunk := subst_chunk (field_name f) v c.

Lemma far_field f v l : Forall chunk_ok l ->
  far (123 :: field_name f ++ [125]) v (pcs l) = pcs (map (fsubst f v) l).
Proof. intros. apply (far_chunks (field_name f) v l); auto using field_name_nb. Qed.

Lemma fsubst_ok f v l : brace_free v -> Forall chunk_ok l -> Forall chunk_ok (map (fsubst f v) l).
Proof. apply subst_chunk_ok. Qed.

(* chunk lists produced from a clean template only carry field-name tokens *)
Definition fieldish (c : chunk) : Prop := match c with P _ => True | T n => exists f, n = field_name f end.

Lemma fieldish_not_inc l : Forall fieldish l -> Forall not_inc l.
Proof.
  apply Forall_impl. intros [s|n]; cbn; auto. intros [f ->]. destruct f; reflexivity.
Qed.

Lemma fsubst_fieldish f v l : Forall fieldish l -> Forall fieldish (map (fsubst f v) l).
Proof.
  induction 1 as [|c l Hc Hl IH]; cbn; constructor; auto.
  destruct c; cbn; auto. unfold fsubst, subst_chunk. destruct (str_eqb name (field_name f)); cbn; auto.
Qed.

Lemma chunks_fieldish t : inc_free t -> Forall fieldish (map chunk_of t).
Proof.
  induction 1 as [|s t Hs Ht IH]; cbn; constructor; auto.
  destruct s; cbn; auto. - eexists; reflexivity. - contradiction.
Qed.

(* rendering a chunk list after all substitutions *)
Definition all_subst (vals : list (field * str)) (l : list chunk) : list chunk :=
  fold_left (fun l fv => map (fsubst (fst fv) (snd fv)) l) vals l.

Lemma field_name_inj f g : field_name f = field_name g -> f = g.
Proof. destruct f, g; cbn; intros H; try reflexivity; discriminate. Qed.

Lemma str_eqb_field f g : str_eqb (field_name f) (field_name g) = true <-> f = g.
Proof. rewrite str_eqb_eq. split; [apply field_name_inj | intros ->; auto]. Qed.

(* the final chunk for one template segment once the fields in vals are substituted in order *)
Fixpoint seg_final (vals : list (field * str)) (c : chunk) : chunk :=
  match vals with
  | [] => c
  | (f, v) :: vals' => seg_final vals' (fsubst f v c)
  end.

Lemma all_subst_map vals l : all_subst vals l = map (seg_final vals) l.
Proof.
  revert l. induction vals as [|[f v] vals IH]; intros l; cbn.
  - rewrite map_id. reflexivity.
  - unfold all_subst in *. cbn. rewrite IH. rewrite map_map. reflexivity.
Qed.

Lemma seg_final_P vals s : seg_final vals (P s) = P s.
Proof. induction vals as [|[f v] vals IH]; cbn; auto. Qed.

Lemma seg_final_T vals f :
  seg_final vals (T (field_name f)) =
  match find (fun fv => if str_eqb (field_name f) (field_name (fst fv)) then true else false) vals with
  | Some fv => P (snd fv)
  | None => T (field_name f)
  end.
Proof.
  induction vals as [|[g v] vals IH]; cbn; auto.
  unfold fsubst, subst_chunk. destruct (str_eqb (field_name f) (field_name g)); cbn.
  - apply seg_final_P.
  - apply IH.
Qed.

(* ---------- the theorem: non-empty call stack, no {inconclusive:}, no location template ---------- *)
Definition values (vb : bool) (m : msg) : list (field * str) :=
  map (fun f => (f, field_value vb m [] f)) [FId; FSeverity; FCwe; FMessage; FRemark; FCallstack; FFile; FLine; FColumn].

Lemma last_some {A} (l : list A) (x : A) : last (map Some (l ++ [x])) None = Some x.
Proof. rewrite map_app. cbn [map]. apply last_last. Qed.

Lemma to_string_chunks vb t m :
  clean_template t -> inc_free t -> clean_fields vb m -> m_stack m <> [] ->
  to_string vb (print_template t) [] m = Some (pcs (map (seg_final (values vb m)) (map chunk_of t))).
Proof.
  intros Ht Hi Hf Hs.
  unfold to_string. rewrite <- pcs_chunks.
  set (l0 := map chunk_of t).
  assert (Hok0 : Forall chunk_ok l0) by (apply chunks_ok; auto).
  assert (Hfi0 : Forall fieldish l0) by (apply chunks_fieldish; auto).
  pose proof (Hf FId ltac:(discriminate)) as Vid.
  pose proof (Hf FSeverity ltac:(discriminate)) as Vsev.
  pose proof (Hf FCwe ltac:(discriminate)) as Vcwe.
  pose proof (Hf FMessage ltac:(discriminate)) as Vmsg.
  pose proof (Hf FRemark ltac:(discriminate)) as Vrem.
  pose proof (Hf FCallstack ltac:(discriminate)) as Vcs.
  pose proof (Hf FFile ltac:(discriminate)) as Vfile.
  pose proof (Hf FLine ltac:(discriminate)) as Vline.
  pose proof (Hf FColumn ltac:(discriminate)) as Vcol.
  destruct (exists_last Hs) as (st & bk & Est).
  unfold field_value in *. rewrite Est in *. rewrite last_some in *.
  change (L "{id}") with (123 :: field_name FId ++ [125]).
  rewrite far_field by auto.
  set (l1 := map (fsubst FId _) l0).
  assert (Hok1 : Forall chunk_ok l1) by (apply fsubst_ok; auto).
  assert (Hfi1 : Forall fieldish l1) by (apply fsubst_fieldish; auto).
  rewrite inc_loop_none by auto using fieldish_not_inc.
  change (L "{severity}") with (123 :: field_name FSeverity ++ [125]).
  rewrite far_field by auto.
  set (l2 := map (fsubst FSeverity _) l1).
  assert (Hok2 : Forall chunk_ok l2) by (apply fsubst_ok; auto).
  change (L "{cwe}") with (123 :: field_name FCwe ++ [125]).
  rewrite far_field by auto.
  set (l3 := map (fsubst FCwe _) l2).
  assert (Hok3 : Forall chunk_ok l3) by (apply fsubst_ok; auto).
  change (L "{message}") with (123 :: field_name FMessage ++ [125]).
  rewrite far_field by auto.
  set (l4 := map (fsubst FMessage _) l3).
  assert (Hok4 : Forall chunk_ok l4) by (apply fsubst_ok; auto).
  change (L "{remark}") with (123 :: field_name FRemark ++ [125]).
  rewrite far_field by auto.
  set (l5 := map (fsubst FRemark _) l4).
  assert (Hok5 : Forall chunk_ok l5) by (apply fsubst_ok; auto).
  change (L "{callstack}") with (123 :: field_name FCallstack ++ [125]).
  rewrite far_field by auto.
  set (l6 := map (fsubst FCallstack _) l5).
  assert (Hok6 : Forall chunk_ok l6) by (apply fsubst_ok; auto).
  change (L "{file}") with (123 :: field_name FFile ++ [125]).
  rewrite far_field by auto.
  set (l7 := map (fsubst FFile _) l6).
  assert (Hok7 : Forall chunk_ok l7) by (apply fsubst_ok; auto).
  change (L "{line}") with (123 :: field_name FLine ++ [125]).
  rewrite far_field by auto.
  set (l8 := map (fsubst FLine _) l7).
  assert (Hok8 : Forall chunk_ok l8) by (apply fsubst_ok; auto).
  change (L "{column}") with (123 :: field_name FColumn ++ [125]).
  rewrite far_field by auto.
  set (l9 := map (fsubst FColumn _) l8).
  assert (Hok9 : Forall chunk_ok l9) by (apply fsubst_ok; auto).
  change (L "{code}") with (123 :: field_name FCode ++ [125]).
  rewrite far_field by auto.
  cbn [nonempty is_nil negb andb]. f_equal. f_equal.
  (* no {code} token is left: clean templates exclude it *)
  assert (Hnocode : forall v l, Forall (fun c => c <> T (field_name FCode)) l -> map (fsubst FCode v) l = l).
  { intros v l H. induction H as [|c l Hc Hl IH]; [reflexivity|]. cbn [map]. rewrite IH. f_equal.
    destruct c as [x|name]; [reflexivity|]. unfold fsubst, subst_chunk.
    destruct (str_eqb name (field_name FCode)) eqn:E; [|reflexivity]. apply str_eqb_eq in E. subst. congruence. }
  assert (Hnc0 : Forall (fun c => c <> T (field_name FCode)) l0).
  { subst l0. clear - Ht. induction Ht as [|s t Hs Ht IH]; cbn; constructor; auto.
    destruct s as [x|f|x]; cbn [chunk_of clean_seg] in *; [discriminate | | intros E; inversion E].
    intros E. inversion E as [E']. apply (field_name_inj f FCode) in E'. auto. }
  assert (Hstep : forall f v l, Forall (fun c => c <> T (field_name FCode)) l -> Forall (fun c => c <> T (field_name FCode)) (map (fsubst f v) l)).
  { intros f v l H. induction H as [|c l Hc Hl IH]; cbn [map]; constructor; auto.
    destruct c as [x|name]; [exact Hc|]. unfold fsubst, subst_chunk. destruct (str_eqb name (field_name f)); [discriminate|exact Hc]. }
  rewrite Hnocode by (subst l9 l8 l7 l6 l5 l4 l3 l2 l1; auto 20).
  subst l9 l8 l7 l6 l5 l4 l3 l2 l1.
  rewrite <- all_subst_map. unfold all_subst, values. cbn [map fold_left fst snd].
  unfold field_value. rewrite Est. rewrite last_some. reflexivity.
Qed.

(* the spec renders each segment by its meaning: same thing *)
Lemma seg_final_spec vb m s :
  clean_seg s -> (match s with Inc _ => False | _ => True end) ->
  pc (seg_final (values vb m) (chunk_of s)) = render_seg vb m [] s.
Proof.
  destruct s as [x|f|x]; cbn [chunk_of clean_seg render_seg]; intros Hc Hi.
  - rewrite seg_final_P. reflexivity.
  - rewrite seg_final_T. destruct f; try congruence; reflexivity.
  - contradiction.
Qed.

Lemma render_code_irrelevant vb m c1 c2 t :
  clean_template t -> flat_map (render_seg vb m c1) t = flat_map (render_seg vb m c2) t.
Proof.
  induction 1 as [|s t Hs Ht IH]; cbn; auto. rewrite IH. f_equal.
  destruct s; cbn in *; auto. destruct f; auto. congruence.
Qed.

Theorem template_subst_spec vb t m :
  clean_template t -> inc_free t -> clean_fields vb m -> m_stack m <> [] ->
  to_string vb (print_template t) [] m = Some (template_spec vb t m).
Proof.
  intros Ht Hi Hf Hs. rewrite to_string_chunks; auto. f_equal.
  unfold template_spec. rewrite (render_code_irrelevant vb m _ [] t Ht).
  clear Hs Hf. induction Ht as [|s t Hs Ht IH]; inversion Hi; subst; [reflexivity|].
  change (pcs (map (seg_final (values vb m)) (map chunk_of (s :: t))))
    with (pc (seg_final (values vb m) (chunk_of s)) ++ pcs (map (seg_final (values vb m)) (map chunk_of t))).
  change (flat_map (render_seg vb m []) (s :: t)) with (render_seg vb m [] s ++ flat_map (render_seg vb m []) t).
  rewrite seg_final_spec; auto. f_equal. apply IH; auto.
Qed.
