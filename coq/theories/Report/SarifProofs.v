(* C26 proofs, SARIF side: picojson's string serialisation is in the JSON string grammar
   and denotes the original bytes; what the results array carries. *)
From Coq Require Import Strings.String.
From CV Require Import Base.Bytes Base.Glob Report.Lit Report.Defs Report.Spec.
Import List ListNotations.
Require Import Lia ZifyBool.
Local Open Scope N_scope.

Lemma hex_digit_val n : n < 16 -> hexval (hex_digit n) = Some n.
Proof.
  intros H. unfold hex_digit, hexval. destruct (n <? 10) eqn:E.
  - assert ((48 <=? 48 + n) && (48 + n <=? 57) = true) as -> by lia. f_equal. lia.
  - assert ((48 <=? 87 + n) && (87 + n <=? 57) = false) as -> by lia.
    assert ((97 <=? 87 + n) && (87 + n <=? 102) = true) as -> by lia. f_equal. lia.
Qed.

Lemma json_esc_char_ok c e d : c < 256 -> jstring e d -> jstring (json_esc_char c ++ e) (c :: d).
Proof.
  intros Hc H. unfold json_esc_char.
  destruct (c =? 34) eqn:E1; [apply N.eqb_eq in E1; subst; apply (js_esc _ _ _ _ je_quote H)|].
  destruct (c =? 92) eqn:E2; [apply N.eqb_eq in E2; subst; apply (js_esc _ _ _ _ je_bs H)|].
  destruct (c =? 47) eqn:E3; [apply N.eqb_eq in E3; subst; apply (js_esc _ _ _ _ je_slash H)|].
  destruct (c =? 8) eqn:E4; [apply N.eqb_eq in E4; subst; apply (js_esc _ _ _ _ je_b H)|].
  destruct (c =? 12) eqn:E5; [apply N.eqb_eq in E5; subst; apply (js_esc _ _ _ _ je_f H)|].
  destruct (c =? 10) eqn:E6; [apply N.eqb_eq in E6; subst; apply (js_esc _ _ _ _ je_n H)|].
  destruct (c =? 13) eqn:E7; [apply N.eqb_eq in E7; subst; apply (js_esc _ _ _ _ je_r H)|].
  destruct (c =? 9) eqn:E8; [apply N.eqb_eq in E8; subst; apply (js_esc _ _ _ _ je_t H)|].
  destruct ((c <? 32) || (c =? 127)) eqn:E9.
  - cbn [app].
    assert (Hd : c / 16 < 16) by (apply N.div_lt_upper_bound; lia).
    assert (Hm : c mod 16 < 16) by (apply N.mod_lt; lia).
    replace (c :: d) with (16 * (c / 16) + c mod 16 :: d) by (f_equal; symmetry; apply N.div_mod; lia).
    apply js_u; auto using hex_digit_val.
  - cbn [app]. apply js_char; auto; lia.
Qed.

Theorem json_string_denotes s : Forall (fun c => c < 256) s -> jstring (flat_map json_esc_char s) s.
Proof.
  induction 1 as [|c s Hc Hs IH]; cbn [flat_map]; [constructor|]. apply json_esc_char_ok; auto.
Qed.

(* decoding is a function: a reader gets exactly these bytes back *)
Lemma jescape_fun x c c' : jescape x c -> jescape x c' -> c = c'.
Proof. inversion 1; inversion 1; subst; try reflexivity; discriminate. Qed.

Lemma jstring_fun e : forall d d', jstring e d -> jstring e d' -> d = d'.
Proof.
  remember (length e) as k eqn:Hk. revert e Hk.
  induction k as [k IHk] using lt_wf_ind. intros e Hk d d' H1 H2.
  inversion H1; subst; inversion H2; subst; auto; try lia; try congruence;
    try (match goal with H : jescape 117 _ |- _ => inversion H end).
  - f_equal. eapply (IHk (length e0)); eauto; cbn; lia.
  - f_equal; [eapply jescape_fun; eauto|]. eapply (IHk (length e0)); eauto; cbn; lia.
  - f_equal; [congruence|]. eapply (IHk (length e0)); eauto; cbn; lia.
Qed.

(* the results array: one entry per finding that has a location, in order, carrying
   id, level, message and every location with line/column clamped to >= 1 *)
Definition result_view (crit : str -> bool) (m : msg) : str * str * str * list (str * Z * Z) :=
  (m_id m, sarif_level (crit (m_id m)) (m_sev m), m_short m,
   map (fun l => (l_file l, clamp1 (l_line l), clamp1 (Z.of_N (l_col l)))) (m_stack m)).

Fixpoint jfield (k : str) (l : list (str * json)) : option json :=
  match l with
  | [] => None
  | (k', v) :: l' => if str_eqb k k' then Some v else jfield k l'
  end.
Definition jget (k : str) (v : json) : option json := match v with JO l => jfield k l | _ => None end.
Definition jstr (v : option json) : str := match v with Some (JS s) => s | _ => [] end.
Definition jint (v : option json) : Z := match v with Some (JI z) => z | _ => 0%Z end.
Definition jarr (v : option json) : list json := match v with Some (JA l) => l | _ => [] end.
Definition jbind (v : option json) (k : str) : option json := match v with Some x => jget k x | None => None end.

Definition read_location (v : json) : str * Z * Z :=
  let pl := jget (L "physicalLocation") v in
  (jstr (jbind (jbind pl (L "artifactLocation")) (L "uri")),
   jint (jbind (jbind pl (L "region")) (L "startLine")),
   jint (jbind (jbind pl (L "region")) (L "startColumn"))).

Definition read_result (v : json) : str * str * str * list (str * Z * Z) :=
  (jstr (jget (L "ruleId") v), jstr (jget (L "level") v), jstr (jbind (jget (L "message") v) (L "text")),
   map read_location (jarr (jget (L "locations") v))).

Definition read_results (doc : json) : list json :=
  match jarr (jget (L "runs") doc) with
  | r :: _ => jarr (jget (L "results") r)
  | [] => []
  end.

Lemma read_location_ok l : read_location (sarif_location l) = (l_file l, clamp1 (l_line l), clamp1 (Z.of_N (l_col l))).
Proof. reflexivity. Qed.

Lemma read_result_ok crit m : read_result (sarif_result crit m) = result_view crit m.
Proof.
  unfold read_result, result_view, sarif_result.
  destruct (m_hash m =? 0); cbn; rewrite map_map; repeat f_equal.
Qed.

Theorem sarif_carries crit ver ms :
  map read_result (read_results (sarif_doc_tree crit ver ms)) = map (result_view crit) (reported ms).
Proof.
  unfold read_results, sarif_doc_tree. cbn. rewrite map_map. apply map_ext. intros; apply read_result_ok.
Qed.
