(* C26 specifications (declarative side): the documented meaning of a --template string
   (simultaneous substitution of its fields), the XML 1.0 element grammar at byte level,
   "clean" names. Definitions only. *)
From Coq Require Import Strings.String.
From CV Require Import Base.Bytes Base.Glob Report.Lit Report.Defs.
Import List ListNotations.
Local Open Scope N_scope.

(* ------------------------------------------------------------------ *)
(* templates: literal text, documented fields, {inconclusive:text}      *)

Inductive field := FId | FSeverity | FCwe | FMessage | FRemark | FCallstack | FFile | FLine | FColumn | FCode.

Inductive seg := Lit (s : str) | Fld (f : field) | Inc (text : str).

Definition field_name (f : field) : str :=
  match f with
  | FId => L "id" | FSeverity => L "severity" | FCwe => L "cwe" | FMessage => L "message"
  | FRemark => L "remark" | FCallstack => L "callstack" | FFile => L "file" | FLine => L "line"
  | FColumn => L "column" | FCode => L "code"
  end.

Definition all_fields : list field := [FId; FSeverity; FCwe; FMessage; FRemark; FCallstack; FFile; FLine; FColumn; FCode].

Definition print_seg (s : seg) : str :=
  match s with
  | Lit t => t
  | Fld f => 123 :: field_name f ++ [125]
  | Inc t => L "{inconclusive:" ++ t ++ [125]
  end.
Definition print_template (t : list seg) : str := flat_map print_seg t.

Definition field_value (vb : bool) (m : msg) (code : str) (f : field) : str :=
  let bk := last (map Some (m_stack m)) None in
  match f with
  | FId => if is_nil (m_guideline m) then m_id m else m_guideline m
  | FSeverity => if is_nil (m_classification m) then sev_str (m_sev m) else m_classification m
  | FCwe => dec_of_N (m_cwe m)
  | FMessage => if vb then m_verbose m else m_short m
  | FRemark => m_remark m
  | FCallstack => callstack_str (m_stack m)
  | FFile => match bk with Some l => native (l_file l) | None => L "nofile" end
  | FLine => match bk with Some l => dec_of_Z (l_line l) | None => L "0" end
  | FColumn => match bk with Some l => dec_of_N (l_col l) | None => L "0" end
  | FCode => code
  end.

Definition render_seg (vb : bool) (m : msg) (code : str) (s : seg) : str :=
  match s with
  | Lit t => t
  | Fld f => field_value vb m code f
  | Inc t => if m_inconclusive m then t else []
  end.

(* the finding rendered once: every segment by its own meaning, nothing rescanned *)
Definition template_spec (vb : bool) (t : list seg) (m : msg) : str :=
  let code :=
    match last (map Some (m_stack m)) None with
    | Some bk => read_code_unreadable (l_col bk)
                   (endl_of (flat_map (render_seg vb m (L "{code}")) t))
    | None => []
    end in
  flat_map (render_seg vb m code) t.

(* --template-location fields *)
Inductive lfield := LFile | LLine | LColumn | LInfo | LCode.
Inductive lseg := LLit (s : str) | LFld (f : lfield).
Definition lfield_name (f : lfield) : str :=
  match f with LFile => L "file" | LLine => L "line" | LColumn => L "column" | LInfo => L "info" | LCode => L "code" end.
Definition print_lseg (s : lseg) : str :=
  match s with LLit t => t | LFld f => 123 :: lfield_name f ++ [125] end.
Definition lfield_value (short : str) (l : loc) (code : str) (f : lfield) : str :=
  match f with
  | LFile => native (l_file l) | LLine => dec_of_Z (l_line l) | LColumn => dec_of_N (l_col l)
  | LInfo => if is_nil (l_info l) then short else l_info l
  | LCode => code
  end.
Definition render_lseg (short : str) (l : loc) (code : str) (s : lseg) : str :=
  match s with LLit t => t | LFld f => lfield_value short l code f end.
Definition loc_spec (short : str) (t : list lseg) (l : loc) : str :=
  let code := read_code_unreadable (l_col l) (endl_of (flat_map (render_lseg short l (L "{code}")) t)) in
  flat_map (render_lseg short l code) t.

(* the whole text for one finding *)
Definition text_spec (vb : bool) (t : list seg) (tl : list lseg) (m : msg) : str :=
  template_spec vb t m ++
  (if nonempty tl && (2 <=? length (m_stack m))%nat
   then flat_map (fun l => 10 :: loc_spec (m_short m) tl l) (m_stack m) else []).

(* reading a template string: '{' name '}' with a documented name is a field,
   "{inconclusive:" ... '}' is the conditional text, everything else is literal *)
Definition field_of_key (k : str) : option field :=
  find (fun f => str_eqb k (123 :: field_name f ++ [125])) all_fields.

Fixpoint add_lit (c : N) (t : list seg) : list seg :=
  match t with
  | Lit s :: t' => Lit (c :: s) :: t'
  | _ => Lit [c] :: t
  end.

Fixpoint parse_template_fuel (fuel : nat) (s : str) : list seg :=
  match fuel with
  | O => []
  | S f =>
      match s with
      | [] => []
      | c :: s' =>
          if c =? 123 then
            match find_byte 125 s with
            | None => add_lit c (parse_template_fuel f s')
            | Some e =>
                let key := firstn (S e) s in
                match field_of_key key with
                | Some fl => Fld fl :: parse_template_fuel f (skipn (S e) s)
                | None =>
                    if starts_with INC key
                    then Inc (firstn (e - 14) (skipn 14 s)) :: parse_template_fuel f (skipn (S e) s)
                    else add_lit c (parse_template_fuel f s')
                end
            end
          else add_lit c (parse_template_fuel f s')
      end
  end.
Definition parse_template (s : str) : list seg := parse_template_fuel (S (length s)) s.

Definition lfield_of_key (k : str) : option lfield :=
  find (fun f => str_eqb k (123 :: lfield_name f ++ [125])) [LFile; LLine; LColumn; LInfo; LCode].
Fixpoint add_llit (c : N) (t : list lseg) : list lseg :=
  match t with
  | LLit s :: t' => LLit (c :: s) :: t'
  | _ => LLit [c] :: t
  end.
Fixpoint parse_ltemplate_fuel (fuel : nat) (s : str) : list lseg :=
  match fuel with
  | O => []
  | S f =>
      match s with
      | [] => []
      | c :: s' =>
          if c =? 123 then
            match find_byte 125 s with
            | None => add_llit c (parse_ltemplate_fuel f s')
            | Some e =>
                match lfield_of_key (firstn (S e) s) with
                | Some fl => LFld fl :: parse_ltemplate_fuel f (skipn (S e) s)
                | None => add_llit c (parse_ltemplate_fuel f s')
                end
            end
          else add_llit c (parse_ltemplate_fuel f s')
      end
  end.
Definition parse_ltemplate (s : str) : list lseg := parse_ltemplate_fuel (S (length s)) s.

Definition template_spec_str (vb : bool) (tmpl tloc : str) (m : msg) : str :=
  text_spec vb (parse_template tmpl) (parse_ltemplate tloc) m.

(* hypotheses of the agreement theorem *)
Definition brace_free (s : str) : Prop := ~ In 123 s.
Definition no_braces (s : str) : Prop := ~ In 123 s /\ ~ In 125 s.
Definition brace_freeb (s : str) : bool := negb (existsb (N.eqb 123) s).
Definition no_bracesb (s : str) : bool := negb (existsb (fun c => (c =? 123) || (c =? 125)) s).

(* a template whose literal text has no '{' (so every '{' starts a field) and
   whose {inconclusive:text} texts have no brace at all; {code} is not covered *)
Definition clean_seg (s : seg) : Prop :=
  match s with
  | Lit t => brace_free t
  | Fld f => f <> FCode
  | Inc t => no_braces t
  end.
Definition clean_template (t : list seg) : Prop := Forall clean_seg t.

(* every value that toString inserts is free of '{' *)
Definition clean_fields (vb : bool) (m : msg) : Prop :=
  forall f, f <> FCode -> brace_free (field_value vb m [] f).

(* ------------------------------------------------------------------ *)
(* XML 1.0 at byte level (productions 2, 10, 14, 39-44, 66-68 restricted to the
   five predefined entities; UTF-8 validity of bytes >= 0x80 is not modelled)      *)

Definition xml_char (c : N) : Prop := 32 <= c \/ c = 9 \/ c = 10 \/ c = 13.
Definition xml_charb (c : N) : bool := (32 <=? c) || (c =? 9) || (c =? 10) || (c =? 13).

Definition name_start (c : N) : bool := is_alpha c || (c =? 95) || (c =? 58).
Definition name_char (c : N) : bool := name_start c || is_digit c || (c =? 45) || (c =? 46).
Definition xml_name (s : str) : Prop :=
  match s with [] => False | c :: r => name_start c = true /\ forallb name_char r = true end.

Inductive entity : str -> N -> Prop :=
| ent_quot : entity (L "quot") 34 | ent_amp : entity (L "amp") 38 | ent_apos : entity (L "apos") 39
| ent_lt : entity (L "lt") 60 | ent_gt : entity (L "gt") 62.

(* AttValue between double quotes: encoded bytes, value after entity expansion and
   attribute-value normalisation (literal TAB/LF/CR read as a space) *)
Inductive attval : str -> str -> Prop :=
| av_nil : attval [] []
| av_char c e d : 32 <= c -> c <> 60 -> c <> 38 -> c <> 34 -> attval e d -> attval (c :: e) (c :: d)
| av_ws c e d : c = 9 \/ c = 10 \/ c = 13 -> attval e d -> attval (c :: e) (32 :: d)
| av_ent n c e d : entity n c -> attval e d -> attval (38 :: n ++ 59 :: e) (c :: d).

(* CharData with references (text content) *)
Inductive chardata : str -> str -> Prop :=
| cd_nil : chardata [] []
| cd_char c e d : xml_char c -> c <> 60 -> c <> 38 -> chardata e d -> chardata (c :: e) (c :: d)
| cd_ent n c e d : entity n c -> chardata e d -> chardata (38 :: n ++ 59 :: e) (c :: d).

Definition white (s : str) : Prop := Forall (fun c => c = 32 \/ c = 9 \/ c = 10 \/ c = 13) s.

Inductive attlist : str -> list (str * str) -> Prop :=
| al_nil : attlist [] []
| al_cons n e v r attrs : xml_name n -> attval e v -> attlist r attrs ->
    attlist (32 :: n ++ 61 :: 34 :: e ++ 34 :: r) ((n, v) :: attrs).

(* element ::= EmptyElemTag | STag content ETag ; white space between child
   elements is insignificant (element content), text is kept as an XT node *)
Inductive element : str -> xnode -> Prop :=
| el_empty n a attrs : xml_name n -> attlist a attrs -> NoDup (map fst attrs) ->
    element (60 :: n ++ a ++ L "/>") (XE n attrs [])
| el_full n a attrs c kids : xml_name n -> attlist a attrs -> NoDup (map fst attrs) -> content c kids ->
    element (60 :: n ++ a ++ 62 :: c ++ L "</" ++ n ++ [62]) (XE n attrs kids)
with content : str -> list xnode -> Prop :=
| ct_nil : content [] []
| ct_white w c kids : white w -> w <> [] -> content c kids -> content (w ++ c) kids
| ct_text e d : d <> [] -> chardata e d -> content e [XT d]
| ct_elem e x c kids : element e x -> content c kids -> content (e ++ c) (x :: kids).

(* names that reach the document unfiltered: id, guideline, classification, file0,
   file/origfile of every location, symbol names *)
Definition clean_name (s : str) : Prop := Forall (fun c => 32 <= c) s.
Definition clean_nameb (s : str) : bool := forallb (fun c => 32 <=? c) s.

Definition clean_msg (m : msg) : Prop :=
  clean_name (cstr (m_id m)) /\ clean_name (cstr (m_guideline m)) /\ clean_name (cstr (m_classification m)) /\
  clean_name (cstr (m_file0 m)) /\
  Forall (fun l => clean_name (cstr (l_file l)) /\ clean_name (cstr (l_orig l))) (m_stack m) /\
  Forall (fun s => clean_name (cstr s)) (symbols_of (m_symbols m)).

Definition clean_msgb (m : msg) : bool :=
  clean_nameb (cstr (m_id m)) && clean_nameb (cstr (m_guideline m)) && clean_nameb (cstr (m_classification m)) &&
  clean_nameb (cstr (m_file0 m)) &&
  forallb (fun l => clean_nameb (cstr (l_file l)) && clean_nameb (cstr (l_orig l))) (m_stack m) &&
  forallb (fun s => clean_nameb (cstr s)) (symbols_of (m_symbols m)).

(* what the schema check needs of a message: a severity that can reach toXML
   (StdLogger::reportErr drops Severity::internal; Severity::none is not a reportable severity) *)
Definition reportable (m : msg) : Prop := m_sev m <> SNone /\ m_sev m <> SInternal.

(* ------------------------------------------------------------------ *)
(* JSON string grammar (RFC 8259 section 7) at byte level: the bytes between the quotes
   and the value they denote. \u escapes are only needed below 0x100 here. *)
Definition hexval (c : N) : option N :=
  if (48 <=? c) && (c <=? 57) then Some (c - 48)
  else if (97 <=? c) && (c <=? 102) then Some (c - 87)
  else if (65 <=? c) && (c <=? 70) then Some (c - 55) else None.

Inductive jescape : N -> N -> Prop :=
| je_quote : jescape 34 34 | je_bs : jescape 92 92 | je_slash : jescape 47 47
| je_b : jescape 98 8 | je_f : jescape 102 12 | je_n : jescape 110 10 | je_r : jescape 114 13 | je_t : jescape 116 9.

Inductive jstring : str -> str -> Prop :=
| js_nil : jstring [] []
| js_char c e d : 32 <= c -> c <> 34 -> c <> 92 -> jstring e d -> jstring (c :: e) (c :: d)
| js_esc x c e d : jescape x c -> jstring e d -> jstring (92 :: x :: e) (c :: d)
| js_u h l hv lv e d : hexval h = Some hv -> hexval l = Some lv -> jstring e d ->
    jstring (92 :: 117 :: 48 :: 48 :: h :: l :: e) (16 * hv + lv :: d).
