(* parseInlineSuppressionCommentToken (lib/preprocessor.cpp) on the text of one comment:
   is it a suppression comment, of which type, with which ids. Definitions only. *)
From CV Require Import Base.Bytes Base.Glob Supp.Defs Supp.ParseDefs.
Local Open Scope N_scope.

Definition CS : str := [99;112;112;99;104;101;99;107;45;115;117;112;112;114;101;115;115].  (* cppcheck-suppress *)

Fixpoint drop_lead (s : str) : str :=
  match s with
  | [] => []
  | x :: r => if (x =? 47) || (x =? 42) || (x =? 32) || (x =? 9) then drop_lead r else s
  end.

Fixpoint drop_spaces (s : str) : str :=
  match s with
  | [] => []
  | x :: r => if x =? 32 then drop_spaces r else s
  end.

(* text before the first ' ' or '[', and the text from that character on *)
Fixpoint to_delim (s : str) : str * str :=
  match s with
  | [] => ([], [])
  | x :: r => if (x =? 32) || (x =? LBR) then ([], s) else let '(a, b) := to_delim r in (x :: a, b)
  end.

Definition type_of_suffix (suffix : str) : option stype :=
  match suffix with
  | [] => Some TUnique
  | c :: t =>
      if negb (c =? 45) then None
      else if str_eqb t [102;105;108;101] then Some TFile
      else if str_eqb t [98;101;103;105;110] then Some TBlockBegin
      else if str_eqb t [101;110;100] then Some TBlockEnd
      else if str_eqb t [109;97;99;114;111] then Some TMacro
      else None
  end.

Inductive dres :=
| DNot                                   (* not a suppression comment *)
| DBad                                   (* reported as a bad inline suppression *)
| DOk (t : stype) (items : list (str * str)) (bad : bool).   (* ids with symbol names; bad = an error message too *)

Definition dispatch (comment : str) : dres :=
  if N.of_nat (length comment) <? 17 then DNot
  else
    let s := drop_lead comment in
    if negb (starts_with CS s) then DNot
    else
      match skipn 17 s with
      | [] => DBad                                            (* suppression without error ID *)
      | rest =>
          let '(suffix, from_delim) := to_delim rest in
          match drop_spaces from_delim with
          | [] => DBad                                        (* suppression without error ID *)
          | x :: _ =>
              match type_of_suffix suffix with
              | None => DBad                                  (* unknown suppression type *)
              | Some t =>
                  if x =? LBR then
                    let '(l, ok) := parse_multi comment in
                    DOk t (filter (fun it => negb (is_nil (fst it))) l) (negb ok)
                  else
                    match parse_comment comment with
                    | None => DNot
                    | Some pc => DOk t (if is_nil (pc_id pc) then [] else [(pc_id pc, pc_symbol pc)]) (negb (pc_attr_ok pc))
                    end
              end
          end
      end.
