(* Decimal printing (Base.Bytes.dec_of_N / dec_of_Z = std::to_string) read back by
   strToInt<int> as modelled in Supp/ParseDefs.v. The lemmas about dec_digits are
   those of Par/DecProofs.v (C15), repeated here so that C23 does not depend on the
   generated files of another property. *)
From CV Require Import Base.Bytes Base.Glob Supp.Defs Supp.ParseDefs.
Require Import Lia ZifyBool.
Local Open Scope N_scope.

Definition digit (c : N) : Prop := 48 <= c <= 57.

Lemma is_digit_iff c : is_digit c = true <-> digit c.
Proof. unfold is_digit, digit. lia. Qed.

Definition step (a c : N) : N := a * 10 + (c - 48).

Lemma dec_val_app a ds : fold_left step ds a = a * 10 ^ N.of_nat (length ds) + fold_left step ds 0.
Proof.
  revert a. induction ds as [|d ds IH]; intros a; cbn [fold_left length].
  - cbn. lia.
  - rewrite IH. rewrite (IH (step 0 d)). rewrite Nat2N.inj_succ, N.pow_succ_r'. unfold step. lia.
Qed.

(* no leading zero except for "0" itself *)
Definition lead_ok (ds : str) : Prop :=
  match ds with d :: _ :: _ => d <> 48 | _ => True end.

Lemma dec_digits_S f n acc :
  dec_digits (S f) n acc =
  if n / 10 =? 0 then (48 + n mod 10) :: acc else dec_digits f (n / 10) ((48 + n mod 10) :: acc).
Proof. reflexivity. Qed.

Lemma dec_digits_spec f : forall n acc, n < 10 ^ N.of_nat (S f) ->
  exists d ds, dec_digits (S f) n acc = (d :: ds) ++ acc /\ Forall digit (d :: ds)
            /\ fold_left step (d :: ds) 0 = n /\ (n <> 0 -> d <> 48) /\ (n = 0 -> ds = []).
Proof.
  induction f as [|f IH]; intros n acc Hn.
  - rewrite dec_digits_S. change (10 ^ N.of_nat 1) with 10 in Hn.
    assert (Hd : n / 10 = 0) by (apply N.div_small; exact Hn).
    rewrite Hd. cbn [N.eqb]. rewrite (N.mod_small n 10 Hn).
    exists (48 + n), []. repeat split.
    + constructor; [unfold digit; lia|constructor].
    + cbn [fold_left]. unfold step. lia.
    + lia.
  - rewrite dec_digits_S.
    destruct (n / 10 =? 0) eqn:Hd.
    + apply N.eqb_eq in Hd. assert (n < 10) by (apply N.div_small_iff in Hd; lia).
      rewrite (N.mod_small n 10) by assumption.
      exists (48 + n), []. repeat split.
      * constructor; [unfold digit; lia|constructor].
      * cbn [fold_left]. unfold step. lia.
      * lia.
    + apply N.eqb_neq in Hd.
      assert (Hq : n / 10 < 10 ^ N.of_nat (S f)).
      { apply N.div_lt_upper_bound; [lia|]. rewrite <- N.pow_succ_r'. rewrite <- Nat2N.inj_succ. exact Hn. }
      destruct (IH (n / 10) ((48 + n mod 10) :: acc) Hq) as (d & ds & He & Hf & Hv & Hz & _).
      exists d, (ds ++ [48 + n mod 10]). repeat split.
      * rewrite He. cbn [app]. rewrite <- app_assoc. reflexivity.
      * change (d :: ds ++ [48 + n mod 10]) with ((d :: ds) ++ [48 + n mod 10]).
        apply Forall_app. split; [exact Hf|].
        constructor; [|constructor]. unfold digit. assert (n mod 10 < 10) by (apply N.mod_upper_bound; lia). revert H. generalize (n mod 10). intros; lia.
      * change (d :: ds ++ [48 + n mod 10]) with ((d :: ds) ++ [48 + n mod 10]).
        rewrite fold_left_app. rewrite Hv. cbn [fold_left]. unfold step.
        pose proof (N.div_mod' n 10) as Hdm. revert Hdm. generalize (n mod 10) (n / 10). intros; lia.
      * intros _. apply Hz. exact Hd.
      * intros ->. exfalso. apply Hd. reflexivity.
Qed.

Lemma size_bound n : n < 10 ^ N.of_nat (S (N.to_nat (N.size n))).
Proof.
  rewrite Nat2N.inj_succ, N2Nat.id.
  destruct n as [|p]; [cbn; lia|].
  assert (H1 : N.pos p < 2 ^ N.size (N.pos p)) by (apply N.size_gt).
  assert (H2 : 2 ^ N.size (N.pos p) <= 10 ^ N.size (N.pos p)) by (apply N.pow_le_mono_l; lia).
  assert (H3 : 10 ^ N.size (N.pos p) <= 10 ^ N.succ (N.size (N.pos p))) by (apply N.pow_le_mono_r; lia).
  lia.
Qed.

Lemma dec_of_N_spec n :
  exists d ds, dec_of_N n = d :: ds /\ Forall digit (d :: ds)
            /\ fold_left step (d :: ds) 0 = n /\ (n <> 0 -> d <> 48) /\ (n = 0 -> ds = []).
Proof.
  unfold dec_of_N.
  destruct (dec_digits_spec (N.to_nat (N.size n)) n [] (size_bound n)) as (d & ds & He & H).
  exists d, ds. rewrite He, app_nil_r. split; [reflexivity|exact H].
Qed.


Lemma dec_acc_digits ds : forall a, Forall digit ds -> dec_acc a ds = Some (fold_left step ds a).
Proof.
  induction ds as [|d ds IH]; intros a H; cbn [dec_acc fold_left]; [reflexivity|].
  inversion H as [|? ? Hd Hds]; subst. unfold digit_of.
  assert (Hb : (48 <=? d) && (d <=? 57) = true) by (unfold digit in Hd; lia).
  rewrite Hb. rewrite (IH _ Hds). unfold step. reflexivity.
Qed.

Lemma forallb_digit ds : Forall digit ds -> forallb is_digit ds = true.
Proof. induction 1 as [|d ds Hd _ IH]; cbn; [reflexivity|]. rewrite IH, (proj2 (is_digit_iff d) Hd). reflexivity. Qed.

Lemma str_to_int_dec_N n : (Z.of_N n <= INT_MAX)%Z -> str_to_int (dec_of_N n) = Some (Z.of_N n).
Proof.
  intros Hr. destruct (dec_of_N_spec n) as (d & ds & He & Hf & Hv & Hnz & Hz).
  rewrite He. unfold str_to_int.
  pose proof (Forall_inv Hf) as Hd.
  assert (H45 : (d =? 45) = false) by (unfold digit in Hd; lia).
  assert (H43 : (d =? 43) = false) by (unfold digit in Hd; lia).
  rewrite H45, H43. cbn [orb]. rewrite (proj2 (is_digit_iff d) Hd). cbn [negb orb].
  change (is_nil (d :: ds)) with false. rewrite (forallb_digit _ Hf). cbn [negb orb].
  assert (Hlead : (negb (is_nil ds) && (d =? 48)) = false).
  { destruct ds as [|x ds']; [reflexivity|]. cbn [is_nil negb andb].
    destruct (N.eqb_spec d 48) as [->|]; [|reflexivity].
    exfalso. destruct (N.eq_dec n 0) as [->|Hn]; [specialize (Hz eq_refl); discriminate|apply (Hnz Hn); reflexivity]. }
  rewrite Hlead. unfold N_of_dec. rewrite (dec_acc_digits _ 0 Hf), Hv.
  destruct ((- INT_MAX - 1 <=? Z.of_N n) && (Z.of_N n <=? INT_MAX))%Z eqn:Hb; [reflexivity|].
  unfold INT_MAX in *. lia.
Qed.

Lemma str_to_int_dec_Z z : (- INT_MAX - 1 <= z <= INT_MAX)%Z -> str_to_int (dec_of_Z z) = Some z.
Proof.
  intros Hr. destruct z as [|p|p].
  - reflexivity.
  - change (dec_of_Z (Z.pos p)) with (dec_of_N (N.pos p)).
    rewrite str_to_int_dec_N; [reflexivity|]. unfold INT_MAX in *. lia.
  - change (dec_of_Z (Z.neg p)) with (45 :: dec_of_N (N.pos p)).
    destruct (dec_of_N_spec (N.pos p)) as (d & ds & He & Hf & Hv & Hnz & Hz).
    unfold str_to_int. cbn [N.eqb orb negb]. rewrite He.
    change (Pos.eqb 45 45) with true. cbn [orb negb].
    change (is_nil (d :: ds)) with false. rewrite (forallb_digit _ Hf). cbn [negb orb andb].
    unfold N_of_dec. rewrite (dec_acc_digits _ 0 Hf), Hv.
    destruct ((- INT_MAX - 1 <=? - Z.of_N (N.pos p)) && (- Z.of_N (N.pos p) <=? INT_MAX))%Z eqn:Hb; [reflexivity|].
    unfold INT_MAX in *. lia.
Qed.

Lemma dec_of_N_digits n : Forall digit (dec_of_N n).
Proof. destruct (dec_of_N_spec n) as (d & ds & He & Hf & _). rewrite He. exact Hf. Qed.

(* the printed number contains only digits and possibly a leading '-' *)
Lemma dec_of_Z_chars z c : In c (dec_of_Z z) -> c = 45 \/ digit c.
Proof.
  destruct z as [|p|p]; cbn [dec_of_Z].
  - intros H. right. exact (proj1 (Forall_forall _ _) (dec_of_N_digits _) c H).
  - intros H. right. exact (proj1 (Forall_forall _ _) (dec_of_N_digits _) c H).
  - intros [<-|H]; [left; reflexivity|right]. exact (proj1 (Forall_forall _ _) (dec_of_N_digits _) c H).
Qed.
