(* Proofs about the begin/end pairing (Supp/PairDefs.v). *)
From CV Require Import Base.Bytes Base.Glob Supp.Defs Supp.PairDefs.
Require Import Lia ZifyBool.
Local Open Scope N_scope.

Lemma take_begin_spec ll e : forall bs b rest,
  take_begin ll e bs = Some (b, rest) ->
  In b bs /\ be_id e = be_id b /\ be_sym e = be_sym b /\ (be_line b < be_line e)%Z /\ length bs = S (length rest)
  /\ (forall x, In x rest -> In x bs).
Proof.
  induction bs as [|x r IH]; intros b rest H; cbn [take_begin] in H; [discriminate|].
  destruct ((be_line x =? ll)%Z && str_eqb (be_id e) (be_id x) && str_eqb (be_sym e) (be_sym x) && (be_line x <? be_line e)%Z) eqn:Hc.
  - injection H as <- <-. apply andb_prop in Hc. destruct Hc as [Hc H3]. apply andb_prop in Hc. destruct Hc as [Hc H2].
    apply andb_prop in Hc. destruct Hc as [_ H1]. apply str_eqb_eq in H1. apply str_eqb_eq in H2.
    repeat split; [left; reflexivity|exact H1|exact H2|lia|intros y Hy; right; exact Hy].
  - destruct (take_begin ll e r) as [[y r']|] eqn:Ht; [|discriminate]. injection H as <- <-.
    destruct (IH _ _ eq_refl) as (H1 & H0 & H2 & H3 & H4 & H5). repeat split; auto.
    + right; exact H1.
    + cbn [length]. rewrite H4. reflexivity.
    + intros z [<-|Hz]; [left; reflexivity|right; apply H5; exact Hz].
Qed.

(* a block that results comes from a begin entry and a later-line end entry of the file with the
   same id and the same symbol name; its lines are theirs *)
Definition block_ok (es : list bev) (k : block) : Prop :=
  exists b e, In b es /\ In e es /\ be_end b = false /\ be_end e = true
              /\ be_id e = be_id b /\ be_sym e = be_sym b /\ (be_line b < be_line e)%Z
              /\ k = mkBlk (be_id e) (be_sym e) (be_line b) (be_line e).

Definition inv (seen : list bev) (st : pstate) : Prop :=
  (forall b, In b (ps_pending st) -> In b seen /\ be_end b = false)
  /\ (forall k, In k (ps_blocks st) -> block_ok seen k)
  /\ N.of_nat (length seen) = ps_bad st + 2 * N.of_nat (length (ps_blocks st)) + N.of_nat (length (ps_pending st)) - 0
  /\ True.

Lemma block_ok_mono seen x k : block_ok seen k -> block_ok (seen ++ [x]) k.
Proof.
  intros (b & e & H1 & H2 & H). exists b, e. split; [apply in_or_app; left; exact H1|].
  split; [apply in_or_app; left; exact H2|exact H].
Qed.

Lemma pair_step_inv seen st e : inv seen st -> inv (seen ++ [e]) (pair_step st e).
Proof.
  intros (Hp & Hb & Hc & _). unfold pair_step.
  assert (Hlen : N.of_nat (length (seen ++ [e])) = N.of_nat (length seen) + 1) by (rewrite app_length; cbn; lia).
  destruct (be_end e) eqn:He.
  - destruct (last_line (ps_pending st)) as [ll|].
    + destruct (take_begin ll e (ps_pending st)) as [[b rest]|] eqn:Ht.
      * destruct (take_begin_spec ll e _ _ _ Ht) as (H1 & H0 & H2 & H3 & H4 & H5).
        destruct (Hp b H1) as [Hbs Hbb].
        split; [|split; [|split; [|exact I]]]; cbn [ps_pending ps_blocks ps_bad].
        { intros x Hx. destruct (Hp x (H5 x Hx)) as [Ha Hb']. split; [apply in_or_app; left; exact Ha|exact Hb']. }
        { intros k Hk. apply in_app_or in Hk. destruct Hk as [Hk|[<-|[]]].
          - apply block_ok_mono. apply Hb. exact Hk.
          - exists b, e. repeat split; auto; apply in_or_app; [left; exact Hbs|right; left; reflexivity]. }
        { rewrite Hlen, app_length. cbn [length]. rewrite H4 in Hc. lia. }
      * split; [|split; [|split; [|exact I]]]; cbn [ps_pending ps_blocks ps_bad].
        { intros x Hx. destruct (Hp x Hx) as [Ha Hb']. split; [apply in_or_app; left; exact Ha|exact Hb']. }
        { intros k Hk. apply block_ok_mono. apply Hb. exact Hk. }
        { rewrite Hlen. lia. }
    + split; [|split; [|split; [|exact I]]]; cbn [ps_pending ps_blocks ps_bad].
      { intros x Hx. destruct (Hp x Hx) as [Ha Hb']. split; [apply in_or_app; left; exact Ha|exact Hb']. }
      { intros k Hk. apply block_ok_mono. apply Hb. exact Hk. }
      { rewrite Hlen. lia. }
  - split; [|split; [|split; [|exact I]]]; cbn [ps_pending ps_blocks ps_bad].
    + intros x Hx. apply in_app_or in Hx. destruct Hx as [Hx|[<-|[]]].
      * destruct (Hp x Hx) as [Ha Hb']. split; [apply in_or_app; left; exact Ha|exact Hb'].
      * split; [apply in_or_app; right; left; reflexivity|exact He].
    + intros k Hk. apply block_ok_mono. apply Hb. exact Hk.
    + rewrite Hlen, app_length. cbn [length]. lia.
Qed.

Lemma fold_inv es : forall seen st, inv seen st -> inv (seen ++ es) (fold_left pair_step es st).
Proof.
  induction es as [|e es IH]; intros seen st H; cbn [fold_left]; [rewrite app_nil_r; exact H|].
  replace (seen ++ e :: es) with ((seen ++ [e]) ++ es) by (rewrite <- app_assoc; reflexivity).
  apply IH. apply pair_step_inv. exact H.
Qed.

(* any number of entries: every resulting block is a (begin, later end, same symbol) pair of the
   file, and every entry is accounted for: it is half of a block or is reported as invalid *)
Theorem pair_blocks_sound es blocks bad :
  pair_blocks es = (blocks, bad) ->
  (forall k, In k blocks -> block_ok es k) /\ N.of_nat (length es) = bad + 2 * N.of_nat (length blocks).
Proof.
  unfold pair_blocks. intros H. injection H as <- <-.
  assert (H0 : inv [] (mkPS [] [] 0)) by (split; [intros ? []|split; [intros ? []|split; [reflexivity|exact I]]]).
  destruct (fold_inv es [] _ H0) as (_ & Hb & Hc & _). cbn [app] in *. split; [exact Hb|lia].
Qed.

(* the documented use: one begin, one later end with the same id and symbol: one block over [begin,end] *)
Theorem pair_single i sy l1 l2 : (l1 < l2)%Z ->
  pair_blocks [mkBE false i sy l1; mkBE true i sy l2] = ([mkBlk i sy l1 l2], 0).
Proof.
  intros H. unfold pair_blocks. cbn [fold_left pair_step be_end ps_pending ps_blocks ps_bad app last_line be_line take_begin be_sym be_id].
  rewrite Z.eqb_refl, (proj2 (str_eqb_eq i i) eq_refl), (proj2 (str_eqb_eq sy sy) eq_refl).
  assert (Hl : (l1 <? l2)%Z = true) by lia. rewrite Hl. reflexivity.
Qed.

(* an end that names another id than the pending begin closes nothing (fix ec62462): both
   comments are reported invalid, no block suppression results *)
Theorem pair_other_id i1 i2 sy l1 l2 : i1 <> i2 ->
  pair_blocks [mkBE false i1 sy l1; mkBE true i2 sy l2] = ([], 2).
Proof.
  intros H. unfold pair_blocks. cbn [fold_left pair_step be_end ps_pending ps_blocks ps_bad app last_line be_line take_begin be_sym be_id].
  assert (Hi : str_eqb i2 i1 = false).
  { destruct (str_eqb i2 i1) eqn:E; [|reflexivity]. apply str_eqb_eq in E. congruence. }
  rewrite Hi, andb_false_r. cbn. reflexivity.
Qed.

Definition S_UNINITVAR : str := [117;110;105;110;105;116;118;97;114].
Definition S_NULLPTR : str := [110;117;108;108;80;111;105;110;116;101;114].
(* the input that refuted "same id" before the fix *)
Lemma former_pair_witness :
  pair_blocks [mkBE false S_UNINITVAR [] 3; mkBE true S_NULLPTR [] 5] = ([], 2).
Proof. vm_compute. reflexivity. Qed.
