(* Whole-run model on top of Supp/Defs.v (C24, C25):
   - SuppressionList::addSuppression (duplicate test) / updateSuppressionState and the
     worker -> parent transfers of cli/threadexecutor.cpp and cli/processexecutor.cpp
   - SuppressionList::markUnmatchedInlineSuppressionsAsChecked
   - CppCheck::check(file): dummy query, inline suppressions, marking, the logger
   - Executor::hasToLog (parent side of the thread/process executors)
   - getUnmatchedSuppressions / CppCheckExecutor::reportUnmatchedSuppressions
   - CppCheckExecutor::check_internal: the final process status
   Executable definitions only; proofs are in Supp/ExecProofs.v. *)
From CV Require Import Base.Bytes Base.Glob Supp.Defs.
Local Open Scope N_scope.

(* Suppression::isSameParameters *)
Definition same_params (a b : supp) : bool :=
  str_eqb (s_id a) (s_id b) && str_eqb (s_file a) (s_file b) && (s_line a =? s_line b)%Z
  && str_eqb (s_symbol a) (s_symbol b) && (s_hash a =? s_hash b) && Bool.eqb (s_next a) (s_next b).

(* SuppressionList::addSuppression, for a suppression whose id and file pass the
   syntactic checks (the front ends only hand over such ones): refused iff one with
   the same parameters exists *)
Definition add_supp (l : list supp) (s : supp) : list supp * bool :=
  if existsb (same_params s) l then (l, false) else (l ++ [s], true).

(* SuppressionList::updateSuppressionState: first entry with the same parameters
   gets the flags or-ed in *)
Fixpoint update_state (l : list supp) (s : supp) : list supp * bool :=
  match l with
  | [] => ([], false)
  | x :: r => if same_params s x then (set_flags x (s_matched s) (s_checked s) :: r, true)
              else let '(r', b) := update_state r s in (x :: r', b)
  end.

(* "addSuppression; if refused, updateSuppressionState" (thread + process executors) *)
Definition add_or_update (l : list supp) (s : supp) : list supp :=
  let '(l', ok) := add_supp l s in if ok then l' else fst (update_state l s).

(* ThreadData::check: after a file, every inline suppression is added/updated,
   the state of every non-local one is updated *)
Definition transfer_thread (parent worker : list supp) : list supp :=
  fold_left (fun p s => if s_inline s then add_or_update p s
                        else if negb (is_local s) then fst (update_state p s) else p) worker parent.

(* PipeWriter::writeSuppr + ProcessExecutor::handleRead: inline ones and checked
   ones travel; the parent adds or updates. (The wire format itself is C15's.) *)
Definition transfer_process (parent worker : list supp) : list supp :=
  fold_left (fun p s => if s_inline s || s_checked s then add_or_update p s else p) worker parent.

(* markUnmatchedInlineSuppressionsAsChecked: for every (file, line) of the token
   stream, every suppression of the list located there becomes checked *)
Definition mark_hit (file : str) (line : Z) (s : supp) : bool :=
  match s_type s with
  | TUnique => (s_line s =? line)%Z && str_eqb (s_file s) file
  | TBlock => (s_begin s <=? line)%Z && (line <=? s_end s)%Z && str_eqb (s_file s) file
  | _ => str_eqb (s_file s) file
  end.

Definition mark_checked (locs : list (str * Z)) (l : list supp) : list supp :=
  fold_left (fun l fl => map (fun s => set_flags s false (mark_hit (fst fl) (snd fl) s)) l) locs l.

(* one analysed file: its path, the inline suppressions its preprocessing adds,
   the (file,line) pairs of its token stream, the findings its checkers emit *)
Record finput := mkF { f_path : str; f_inline : list supp; f_locs : list (str * Z); f_msgs : list (emsg * str) }.

(* the "dummy" finding of CppCheck::check(file): empty id, no line *)
Definition dummy (path : str) : emsg := mkEmsg 0 [] path NO_LINE [] [].

Definition add_all (l : list supp) (ss : list supp) : list supp :=
  fold_left (fun l s => fst (add_supp l s)) ss l.

Definition is_nil_list {A} (l : list A) : bool := match l with [] => true | _ => false end.

Record fresult := mkR { r_nomsg : list supp; r_nofail : list supp; r_out : list bool; r_exit : bool }.

Section Exec.
  Variable pm : str -> str -> bool.

  (* CppCheck::check(file) with a fresh per-file logger state (resetExitCode, clear) *)
  Definition check_file (ug : bool) (nomsg nofail : list supp) (f : finput) : option fresult :=
    match list_is_suppressed pm nomsg (dummy (f_path f)) true with
    | None => None
    | Some (n1, _) =>
        let n3 := mark_checked (f_locs f) (add_all n1 (f_inline f)) in
        match logger_run pm ug (mkL n3 nofail [] false) (f_msgs f) with
        | None => None
        | Some (st, outs) => Some (mkR (l_nomsg st) (l_nofail st) outs (l_exit st))
        end
    end.

  (* the forwarded findings of a file, in order *)
  Fixpoint pick {A} (bs : list bool) (xs : list A) : list A :=
    match bs, xs with
    | b :: bs', x :: xs' => if b then x :: pick bs' xs' else pick bs' xs'
    | _, _ => []
    end.

  (* ---- single executor: one CppCheck, global suppressions used by the logger ---- *)
  Record srun := mkS { sr_nomsg : list supp; sr_nofail : list supp;
                       sr_reported : list (emsg * str);   (* handed to StdLogger *)
                       sr_result : N }.                     (* executor result (sum) *)

  Fixpoint single_files (nomsg nofail : list supp) (fs : list finput) : option srun :=
    match fs with
    | [] => Some (mkS nomsg nofail [] 0)
    | f :: r =>
        match check_file true nomsg nofail f with
        | None => None
        | Some fr =>
            match single_files (r_nomsg fr) (r_nofail fr) r with
            | None => None
            | Some sr => Some (mkS (sr_nomsg sr) (sr_nofail sr) (pick (r_out fr) (f_msgs f) ++ sr_reported sr)
                                   ((if r_exit fr then 1 else 0) + sr_result sr))
            end
        end
    end.

  (* ---- thread / process executors: workers without global suppressions, the
     parent filters with Executor::hasToLog (global suppressions, no macro names,
     executor-wide duplicate list) ---- *)
  Definition no_macros (e : emsg) : emsg := mkEmsg (e_hash e) (e_id e) (e_file e) (e_line e) (e_symbols e) [].

  Fixpoint has_to_log (nomsg : list supp) (seen : list str) (ms : list (emsg * str))
    : option (list supp * list str * list bool) :=
    match ms with
    | [] => Some (nomsg, seen, [])
    | (e, text) :: r =>
        match list_is_suppressed pm nomsg (no_macros e) true with
        | None => None
        | Some (n1, sup) =>
            let show := negb sup && negb (is_nil text) && negb (mem_str text seen) in
            match has_to_log n1 (if show then text :: seen else seen) r with
            | None => None
            | Some (n2, seen2, bs) => Some (n2, seen2, show :: bs)
            end
        end
    end.

  Inductive ekind := EThread | EProcess.

  (* files are taken in the given order (one schedule); a worker handles a file
     completely before the parent sees its output.
     thread:  the worker works on the parent's lists (shared objects);
     process: the worker works on a copy of the lists as they were when the
              executor started (base), its nomsg list is transferred afterwards *)
  Fixpoint multi_files (k : ekind) (base_nomsg base_nofail : list supp)
           (nomsg nofail : list supp) (seen : list str) (fs : list finput) : option srun :=
    match fs with
    | [] => Some (mkS nomsg nofail [] 0)
    | f :: r =>
        let wn := match k with EThread => nomsg | EProcess => base_nomsg end in
        let wf := match k with EThread => nofail | EProcess => base_nofail end in
        match check_file false wn wf f with
        | None => None
        | Some fr =>
            let pn := match k with
                      | EThread => transfer_thread (r_nomsg fr) (r_nomsg fr)
                      | EProcess => nomsg
                      end in
            let fwd := pick (r_out fr) (f_msgs f) in
            match has_to_log pn seen fwd with
            | None => None
            | Some (pn1, seen1, shows) =>
                let pn2 := match k with
                           | EThread => pn1
                           | EProcess => transfer_process pn1 (r_nomsg fr)
                           end in
                let pf := match k with EThread => r_nofail fr | EProcess => nofail end in
                match multi_files k base_nomsg base_nofail pn2 pf seen1 r with
                | None => None
                | Some sr => Some (mkS (sr_nomsg sr) (sr_nofail sr) (pick shows fwd ++ sr_reported sr)
                                       ((if r_exit fr then 1 else 0) + sr_result sr))
                end
            end
        end
    end.

  (* ---- unmatched suppressions (cli/cppcheckexecutor.cpp) ---- *)
  Definition STAR_ONLY : str := [42].

  (* s2 (an unmatchedSuppression entry of the same unmatched list) covers s *)
  Definition covers (s2 s : supp) : bool :=
    str_eqb (s_id s2) UNMATCHED
    && (is_nil (s_file s2) || str_eqb (s_file s2) STAR_ONLY || str_eqb (s_file s2) (s_file s))
    && ((s_line s2 =? NO_LINE)%Z || (s_line s2 =? s_line s)%Z).

  (* getUnmatchedSuppressions(unmatched, filters): entries of `unmatched` that are
     neither covered by an unmatchedSuppression entry of the same list nor filtered *)
  Fixpoint any_filter (filters : list str) (id : str) : option bool :=
    match filters with
    | [] => Some false
    | f :: r => match oglob f id with
                | None => None
                | Some true => Some true
                | Some false => any_filter r id
                end
    end.

  Fixpoint get_unmatched_aux (filters : list str) (all um : list supp) : option (list supp) :=
    match um with
    | [] => Some []
    | s :: r =>
        match get_unmatched_aux filters all r with
        | None => None
        | Some r' =>
            if existsb (fun s2 => covers s2 s) all then Some r'
            else match any_filter filters (s_id s) with
                 | None => None
                 | Some true => Some r'
                 | Some false => Some (s :: r')
                 end
        end
    end.

  Definition get_unmatched (filters : list str) (um : list supp) : option (list supp) :=
    get_unmatched_aux filters um um.

  Definition bail (l : list supp) : bool :=
    existsb (fun s => str_eqb (s_id s) UNMATCHED && (is_nil (s_file s) || str_eqb (s_file s) STAR_ONLY)
                      && (s_line s =? NO_LINE)%Z) l.

  Fixpoint locals_of (filters : list str) (l : list supp) (paths : list str) : option (list supp) :=
    match paths with
    | [] => Some []
    | p :: r => match get_unmatched filters (filter (unmatched_local pm p) l), locals_of filters l r with
                | Some a, Some b => Some (a ++ b)
                | _, _ => None
                end
    end.

  (* CppCheckExecutor::reportUnmatchedSuppressions (not in unusedFunction-only mode;
     the list has pairwise different parameters, so re-adding it is the identity):
     the suppressions for which an unmatchedSuppression finding is emitted, in order *)
  Definition report_unmatched (filters : list str) (inline_enabled : bool) (l : list supp) (paths : list str)
    : option (list supp) :=
    if bail l then Some []
    else match locals_of filters l paths,
               (if inline_enabled then get_unmatched filters (filter unmatched_inline l) else Some []),
               get_unmatched filters (filter unmatched_global l) with
         | Some a, Some b, Some c => Some (a ++ b ++ c)
         | _, _, _ => None
         end.

  (* ---- CppCheckExecutor::check_internal ---- *)
  Record config := mkC { c_exitcode : N;     (* --error-exitcode *)
                         c_info : bool;      (* information enabled or --check-config *)
                         c_inline : bool;    (* --inline-suppr *)
                         c_filters : list str }.

  Record outcome := mkO { o_reported : list (emsg * str);  (* findings handed to the output, in order *)
                          o_unmatched : list supp;          (* unmatchedSuppression findings, by suppression *)
                          o_nomsg : list supp;
                          o_status : N }.

  (* the unmatchedSuppression finding emitted for suppression s, as the suppression lists see
     it (SuppressionList::ErrorMessage::fromErrorMessage: no call stack => no file, no line) *)
  Definition unmatched_emsg (s : supp) : emsg :=
    mkEmsg 0 UNMATCHED (s_file s)
           (if is_nil (s_file s) then NO_LINE else if (s_line s =? NO_LINE)%Z then 0%Z else s_line s) [] [].

  (* NofailFilter of check_internal: is some emitted finding not matched by nofail? *)
  Fixpoint unmatched_fail (nofail : list supp) (u : list supp) : option bool :=
    match u with
    | [] => Some false
    | s :: r =>
        match list_is_suppressed pm nofail (unmatched_emsg s) true with
        | None => None
        | Some (nofail', b) =>
            match unmatched_fail nofail' r with
            | None => None
            | Some fr => Some (negb b || fr)
            end
        end
    end.

  Definition exec_files (k : option ekind) (nomsg nofail : list supp) (fs : list finput) : option srun :=
    match k with
    | None => single_files nomsg nofail fs
    | Some k' => multi_files k' nomsg nofail nomsg nofail [] fs
    end.

  (* wp: the whole-program findings, sent through the main CppCheck's logger
     (global suppressions on, duplicate list empty) *)
  Definition whole_run (k : option ekind) (cfg : config) (nomsg nofail : list supp)
             (fs : list finput) (wp : list (emsg * str)) : option outcome :=
    match exec_files k nomsg nofail fs with
    | None => None
    | Some sr =>
        match logger_run pm true (mkL (sr_nomsg sr) (sr_nofail sr) [] false) wp with
        | None => None
        | Some (st, outs) =>
            let rv := N.lor (sr_result sr) (if l_exit st then 1 else 0) in
            let um := if c_info cfg && negb (is_nil_list (l_nomsg st))
                      then report_unmatched (c_filters cfg) (c_inline cfg) (l_nomsg st) (map f_path fs)
                      else Some [] in
            match um with
            | None => None
            | Some u =>
                (* fix 7b7622c: the emitted findings pass a filter that asks the exitcode suppressions *)
                match unmatched_fail (l_nofail st) u with
                | None => None
                | Some fl =>
                    let rv2 := if fl && (rv =? 0) then c_exitcode cfg else rv in
                    Some (mkO (sr_reported sr ++ pick outs wp) u (l_nomsg st)
                              (if rv2 =? 0 then 0 else c_exitcode cfg))
                end
            end
        end
    end.
End Exec.
