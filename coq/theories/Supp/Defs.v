(* Suppression matching and bookkeeping (lib/suppressions.cpp) and the
   suppression gate of CppCheck::CppCheckLogger::reportErr (lib/cppcheck.cpp).
   Shared by C23 (what is hidden), C24 (unmatched suppressions), C25 (exit code).
   Executable definitions only; proofs are in Supp/Proofs.v. *)
From CV Require Import Base.Bytes Base.Glob.
Local Open Scope N_scope.

Inductive stype := TUnique | TFile | TBlock | TBlockBegin | TBlockEnd | TMacro.

Definition stype_eqb (a b : stype) : bool :=
  match a, b with
  | TUnique, TUnique | TFile, TFile | TBlock, TBlock
  | TBlockBegin, TBlockBegin | TBlockEnd, TBlockEnd | TMacro, TMacro => true
  | _, _ => false
  end.

Definition NO_LINE : Z := (-1)%Z.

Record supp := mkSupp {
  s_id : str;  s_file : str;  s_line : Z;  s_begin : Z;  s_end : Z;
  s_type : stype;  s_symbol : str;  s_macro : str;  s_hash : N;
  s_next : bool;       (* thisAndNextLine *)
  s_inline : bool;
  s_matched : bool;  s_checked : bool
}.

Record emsg := mkEmsg {
  e_hash : N;  e_id : str;  e_file : str;  e_line : Z;
  e_symbols : str;            (* '\n'-separated *)
  e_macros : list str
}.

Inductive result := RNone | RChecked | RMatched.

Definition mem_str (x : str) (l : list str) : bool := existsb (str_eqb x) l.

(* None = the glob machine ran out of fuel (reported as such, never as an answer) *)
Definition oglob (p n : str) : option bool := matchglob p n.

Fixpoint any_glob (p : str) (names : list str) : option bool :=
  match names with
  | [] => Some false
  | x :: r => match oglob p x with
              | None => None
              | Some true => Some true
              | Some false => any_glob p r
              end
  end.

(* the symbol loop: split symbolNames on '\n'; an empty symbolNames string has
   no entries (pos < size() fails at once); a trailing '\n' adds no entry *)
Definition symbol_list (s : str) : list str :=
  match s with
  | [] => []
  | _ => let l := split 10 s in
         match rev l with
         | [] :: r => rev r
         | _ => l
         end
  end.

Section WithPathMatch.
  (* PathMatch::match(pattern, path): modelled in C31; a parameter here *)
  Variable pm : str -> str -> bool.

  Definition symbol_part (s : supp) (e : emsg) : option result :=
    if is_nil (s_symbol s) then Some RMatched
    else match any_glob (s_symbol s) (symbol_list (e_symbols e)) with
         | None => None
         | Some true => Some RMatched
         | Some false => Some RChecked
         end.

  Definition is_suppressed_macro (s : supp) (e : emsg) : option result :=
    if negb (mem_str (s_macro s) (e_macros e)) then Some RNone
    else if (0 <? s_hash s) && negb (s_hash s =? e_hash e) then Some RChecked
    else if is_nil (s_id s) then symbol_part s e
    else match oglob (s_id s) (e_id e) with
         | None => None
         | Some false => Some RChecked
         | Some true => symbol_part s e
         end.

  Definition is_suppressed_other (s : supp) (e : emsg) : option result :=
    if stype_eqb (s_type s) TUnique && negb (s_line s =? NO_LINE)%Z && negb (s_line s =? e_line e)%Z
       && negb (s_next s && (s_line s + 1 =? e_line e)%Z)
    then Some RNone
    else if negb (is_nil (s_file s)) && negb (pm (s_file s) (e_file e)) then Some RNone
    else if (0 <? s_hash s) && negb (s_hash s =? e_hash e) then Some RChecked
    else
      let after_id :=
        if stype_eqb (s_type s) TBlock && ((e_line e <? s_begin s)%Z || (s_end s <? e_line e)%Z)
        then Some RChecked else symbol_part s e in
      if is_nil (s_id s) then after_id
      else if is_nil (e_id e) then Some RChecked
      else match oglob (s_id s) (e_id e) with
           | None => None
           | Some false => Some RChecked
           | Some true => after_id
           end.

  Definition is_suppressed (s : supp) (e : emsg) : option result :=
    if stype_eqb (s_type s) TMacro then is_suppressed_macro s e else is_suppressed_other s e.

  (* Suppression::isMatch: updates the flags *)
  Definition set_flags (s : supp) (m c : bool) : supp :=
    mkSupp (s_id s) (s_file s) (s_line s) (s_begin s) (s_end s) (s_type s) (s_symbol s)
           (s_macro s) (s_hash s) (s_next s) (s_inline s) (s_matched s || m) (s_checked s || c).

  Definition is_match (s : supp) (e : emsg) : option (supp * bool) :=
    match is_suppressed s e with
    | None => None
    | Some RNone => Some (s, false)
    | Some RChecked => Some (set_flags s false true, false)
    | Some RMatched => Some (set_flags s true true, true)
    end.

  Definition has_wild (f : str) : bool := existsb (fun c => (c =? STAR) || (c =? QM)) f.
  Definition is_local (s : supp) : bool := negb (is_nil (s_file s)) && negb (has_wild (s_file s)).

  Definition UNMATCHED : str := (* "unmatchedSuppression" *)
    [117;110;109;97;116;99;104;101;100;83;117;112;112;114;101;115;115;105;111;110].

  (* SuppressionList::isSuppressed(errmsg, global): every suppression is tried,
     flags are updated along the way *)
  Fixpoint list_is_suppressed (l : list supp) (e : emsg) (global : bool) : option (list supp * bool) :=
    match l with
    | [] => Some ([], false)
    | s :: r =>
        if (negb global && negb (is_local s))
           || (str_eqb (e_id e) UNMATCHED && negb (str_eqb (s_id s) (e_id e)))
        then match list_is_suppressed r e global with
             | None => None
             | Some (r', b) => Some (s :: r', b)
             end
        else match is_match s e with
             | None => None
             | Some (s', b1) =>
                 match list_is_suppressed r e global with
                 | None => None
                 | Some (r', b2) => Some (s' :: r', b1 || b2)
                 end
             end
    end.

  (* run a sequence of messages through the list *)
  Fixpoint list_run (l : list supp) (es : list (emsg * bool)) : option (list supp * list bool) :=
    match es with
    | [] => Some (l, [])
    | (e, g) :: r =>
        match list_is_suppressed l e g with
        | None => None
        | Some (l', b) =>
            match list_run l' r with
            | None => None
            | Some (l'', bs) => Some (l'', b :: bs)
            end
        end
    end.

  (* --- unmatched-suppression selectors (C24) --- *)
  Definition CHECKERSREPORT : str := (* "checkersReport" *)
    [99;104;101;99;107;101;114;115;82;101;112;111;114;116].

  Definition unmatched_local (file : str) (s : supp) : bool :=
    negb (s_inline s) && negb (s_matched s)
    && negb (negb (s_line s =? NO_LINE)%Z && negb (s_checked s))
    && negb (stype_eqb (s_type s) TMacro)
    && negb (0 <? s_hash s)
    && negb (str_eqb (s_id s) CHECKERSREPORT)
    && is_local s && pm (s_file s) file.

  Definition unmatched_global (s : supp) : bool :=
    negb (s_inline s) && negb (s_matched s)
    && negb (negb (s_checked s) && has_wild (s_file s))
    && negb (0 <? s_hash s)
    && negb (str_eqb (s_id s) CHECKERSREPORT)
    && negb (is_local s).

  Definition unmatched_inline (s : supp) : bool :=
    s_inline s && s_checked s && negb (s_matched s) && negb (0 <? s_hash s).
End WithPathMatch.

(* ------------------------------------------------------------------ *)
(* The suppression gate of CppCheckLogger::reportErr, outside safety mode and
   with library.reportErrors = true. State: nomsg list, nofail list, set of
   rendered messages already seen (mErrorList), exit code. A message is
   (emsg, rendered text). Output: forwarded or not. *)
Record lstate := mkL { l_nomsg : list supp; l_nofail : list supp; l_seen : list str; l_exit : bool }.

Section Logger.
  Variable pm : str -> str -> bool.
  Variable use_global : bool.

  Definition logger_step (st : lstate) (m : emsg * str) : option (lstate * bool) :=
    let '(e, text) := m in
    match list_is_suppressed pm (l_nomsg st) e use_global with
    | None => None
    | Some (nomsg0, suppressed) =>
      (* a worker (no global suppressions) that drops the finding lets the global
         suppressions see it as well (fix 524f0f5) *)
      match (if suppressed && negb use_global then list_is_suppressed pm nomsg0 e true
             else Some (nomsg0, false)) with
      | None => None
      | Some (nomsg1, _) =>
        if is_nil text then Some (mkL nomsg1 (l_nofail st) (l_seen st) (l_exit st), false)
        else if mem_str text (l_seen st) then
          (* a worker that drops the finding as a duplicate lets the global suppressions see it
             as well (fix 243c78e) *)
          match (if negb suppressed && negb use_global then list_is_suppressed pm nomsg1 e true
                 else Some (nomsg1, false)) with
          | None => None
          | Some (nomsg1d, _) => Some (mkL nomsg1d (l_nofail st) (l_seen st) (l_exit st), false)
          end
        else
          let seen1 := text :: l_seen st in
          if suppressed then Some (mkL nomsg1 (l_nofail st) seen1 (l_exit st), false)
          else
            match list_is_suppressed pm (l_nofail st) e true with
            | None => None
            | Some (nofail1, nf) =>
                (* the second nomsg query is made only when nofail did not match (short-circuit) *)
                if nf then Some (mkL nomsg1 nofail1 seen1 (l_exit st), true)
                else match list_is_suppressed pm nomsg1 e true with
                     | None => None
                     | Some (nomsg2, nm) =>
                         Some (mkL nomsg2 nofail1 seen1 (l_exit st || negb nm), true)
                     end
            end
      end
    end.

  Fixpoint logger_run (st : lstate) (ms : list (emsg * str)) : option (lstate * list bool) :=
    match ms with
    | [] => Some (st, [])
    | m :: r => match logger_step st m with
                | None => None
                | Some (st', b) => match logger_run st' r with
                                   | None => None
                                   | Some (st'', bs) => Some (st'', b :: bs)
                                   end
                end
    end.
End Logger.
