(* Proofs about the parsers of Supp/ParseDefs.v. *)
From CV Require Import Base.Bytes Base.Glob Supp.Defs Supp.ParseDefs Supp.DecRoundTrip.
Require Import Lia ZifyBool.
Local Open Scope N_scope.

Lemma has_char_cons c x s : has_char c (x :: s) = (x =? c) || has_char c s.
Proof. reflexivity. Qed.

Lemma has_char_app c a b : has_char c (a ++ b) = has_char c a || has_char c b.
Proof. unfold has_char. apply existsb_app. Qed.

(* ---------- splitting ---------- *)
Lemma split_str_none c a : has_char c a = false -> split_str c a = [a].
Proof.
  induction a as [|x a IH]; intros H; [reflexivity|].
  rewrite has_char_cons in H. apply orb_false_elim in H. destruct H as [Hx Ha].
  cbn [split_str]. rewrite Hx, (IH Ha). reflexivity.
Qed.

Lemma split_str_app c a b : has_char c a = false -> split_str c (a ++ c :: b) = a :: split_str c b.
Proof.
  induction a as [|x a IH]; intros H; cbn [app split_str].
  - rewrite N.eqb_refl. reflexivity.
  - rewrite has_char_cons in H. apply orb_false_elim in H. destruct H as [Hx Ha].
    rewrite Hx, (IH Ha). reflexivity.
Qed.

Lemma first_split_none c a : has_char c a = false -> first_split c a = (a, None).
Proof.
  induction a as [|x a IH]; intros H; [reflexivity|].
  rewrite has_char_cons in H. apply orb_false_elim in H. destruct H as [Hx Ha].
  cbn [first_split]. rewrite Hx, (IH Ha). reflexivity.
Qed.

Lemma first_split_app c a b : has_char c a = false -> first_split c (a ++ c :: b) = (a, Some b).
Proof.
  induction a as [|x a IH]; intros H; cbn [app first_split].
  - rewrite N.eqb_refl. reflexivity.
  - rewrite has_char_cons in H. apply orb_false_elim in H. destruct H as [Hx Ha].
    rewrite Hx, (IH Ha). reflexivity.
Qed.

Lemma last_split_none c a : has_char c a = false -> last_split c a = None.
Proof.
  induction a as [|x a IH]; intros H; [reflexivity|].
  rewrite has_char_cons in H. apply orb_false_elim in H. destruct H as [Hx Ha].
  cbn [last_split]. rewrite (IH Ha), Hx. reflexivity.
Qed.

Lemma last_split_app c a b : has_char c b = false -> last_split c (a ++ c :: b) = Some (a, b).
Proof.
  intros Hb. induction a as [|x a IH]; cbn [app last_split].
  - rewrite (last_split_none c b Hb), N.eqb_refl. reflexivity.
  - rewrite IH. reflexivity.
Qed.

Lemma before_comment_cons2 x y r :
  before_comment (x :: y :: r) =
  if x =? HASH then ([], true)
  else if (x =? SLASH) && (y =? SLASH) then ([], true)
  else let '(a, b) := before_comment (y :: r) in (x :: a, b).
Proof. reflexivity. Qed.

Lemma before_comment_none s : snd (before_comment s) = false -> before_comment s = (s, false).
Proof.
  induction s as [|x s IH]; intros H; [reflexivity|].
  destruct s as [|y s'].
  - cbn in *. destruct (x =? HASH); [discriminate|reflexivity].
  - rewrite before_comment_cons2 in *. destruct (x =? HASH); [discriminate|].
    destruct ((x =? SLASH) && (y =? SLASH)); [discriminate|].
    destruct (before_comment (y :: s')) as [a b] eqn:Hb. cbn [snd] in *. subst b.
    specialize (IH eq_refl). injection IH as <-. reflexivity.
Qed.

(* the printed number has no ':' and no '.' *)
Lemma dec_no_char z c : c <> 45 -> ~ digit c -> has_char c (dec_of_Z z) = false.
Proof.
  intros H1 H2. unfold has_char. destruct (existsb _ _) eqn:He; [|reflexivity].
  apply existsb_exists in He. destruct He as [x [Hx Hc]]. apply N.eqb_eq in Hc. subst x.
  destruct (dec_of_Z_chars z c Hx); contradiction.
Qed.

Section WithSimplify.
  Variable simp : str -> str.

  (* what the printed form must satisfy to be read back; each clause is forced:
     - the text contains no '#' and no "//" (they start a comment);
     - id, file and symbol contain no line break, the id no ':';
     - the file name is in simplified form (parseLine simplifies);
     - a line number needs a file name (toString drops it otherwise) and fits an int;
     - the documented caveat: without a line number, text after the last ':' of the
       file name must contain a '.', else it is taken for a line number *)
  Definition printable (p : pline) : Prop :=
    snd (before_comment (to_string p)) = false
    /\ has_char NL (pl_id p) = false /\ has_char COLON (pl_id p) = false
    /\ has_char NL (pl_file p) = false /\ has_char NL (pl_symbol p) = false
    /\ simp (pl_file p) = pl_file p
    /\ (is_nil (pl_file p) = true -> pl_line p = NO_LINE)
    /\ (- INT_MAX - 1 <= pl_line p <= INT_MAX)%Z
    /\ (pl_line p = NO_LINE ->
        match last_split COLON (pl_file p) with Some (_, l) => has_char DOTC l = true | None => True end).

  Lemma extras_ok p :
    has_char NL (pl_symbol p) = false ->
    exists ex, (if is_nil (pl_symbol p) then [] else NL :: SYMBOL_EQ ++ pl_symbol p)
               ++ (if pl_poly p then NL :: POLYSPACE1 else []) = flat_map (fun e => NL :: e) ex
               /\ Forall (fun e => has_char NL e = false) ex
               /\ parse_extras ex [] false = Some (pl_symbol p, pl_poly p).
  Proof.
    intros Hs. destruct (pl_symbol p) as [|c sy] eqn:Hsym; destruct (pl_poly p); cbn [is_nil app].
    - exists [POLYSPACE1]. split; [reflexivity|split; [repeat constructor|reflexivity]].
    - exists []. split; [reflexivity|split; [constructor|reflexivity]].
    - exists [SYMBOL_EQ ++ c :: sy; POLYSPACE1]. split; [cbn [flat_map app]; rewrite ?app_nil_r; reflexivity|]. split.
      + constructor; [rewrite has_char_app, Hs; reflexivity|repeat constructor].
      + reflexivity.
    - exists [SYMBOL_EQ ++ c :: sy]. split; [cbn [flat_map app]; rewrite ?app_nil_r; reflexivity|]. split.
      + constructor; [rewrite has_char_app, Hs; reflexivity|constructor].
      + reflexivity.
  Qed.

  Lemma split_lines a ex :
    has_char NL a = false -> Forall (fun e => has_char NL e = false) ex ->
    split_str NL (a ++ flat_map (fun e => NL :: e) ex) = a :: ex.
  Proof.
    intros Ha Hex. revert a Ha. induction Hex as [|e ex He _ IH]; intros a Ha; cbn [flat_map].
    - rewrite app_nil_r. apply split_str_none. exact Ha.
    - cbn [app]. rewrite split_str_app by exact Ha. f_equal. apply IH. exact He.
  Qed.

  Theorem parse_line_print p : printable p -> parse_line simp (to_string p) = inl p.
  Proof.
    intros (Hc & Hin & Hic & Hfn & Hsn & Hsimp & Hnofile & Hrange & Hcaveat).
    unfold parse_line. rewrite (before_comment_none _ Hc).
    destruct (extras_ok p Hsn) as (ex & Hex & Hexn & Hpe).
    unfold to_string.
    set (A := if is_nil (pl_file p) then []
              else COLON :: pl_file p ++ (if (pl_line p =? NO_LINE)%Z then [] else COLON :: dec_of_Z (pl_line p))).
    assert (HA : has_char NL A = false).
    { unfold A. destruct (is_nil (pl_file p)); [reflexivity|].
      rewrite has_char_cons, has_char_app, Hfn. cbn [orb].
      destruct (pl_line p =? NO_LINE)%Z; [reflexivity|].
      rewrite has_char_cons. cbn [orb]. apply dec_no_char; [discriminate|unfold digit; cbv; intros [H1 H2]; auto]. }
    replace (pl_id p ++ A ++ (if is_nil (pl_symbol p) then [] else NL :: SYMBOL_EQ ++ pl_symbol p)
               ++ (if pl_poly p then NL :: POLYSPACE1 else []))
      with ((pl_id p ++ A) ++ flat_map (fun e => NL :: e) ex) by (rewrite <- Hex, <- app_assoc; reflexivity).
    rewrite split_lines; [|rewrite has_char_app, Hin, HA; reflexivity|exact Hexn].
    rewrite Hpe. destruct p as [id file line sym poly]. cbn [pl_id pl_file pl_line pl_symbol pl_poly] in *.
    unfold A. clear A HA.
    destruct file as [|fc file'].
    - cbn [is_nil]. rewrite app_nil_r, (first_split_none _ _ Hic). rewrite (Hnofile eq_refl). reflexivity.
    - cbn [is_nil]. rewrite (first_split_app COLON id _ Hic).
      destruct (line =? NO_LINE)%Z eqn:Hl.
      + apply Z.eqb_eq in Hl. subst line. rewrite app_nil_r. specialize (Hcaveat eq_refl).
        destruct (last_split COLON (fc :: file')) as [[f l]|]; [rewrite Hcaveat|]; rewrite Hsimp; reflexivity.
      + cbn [app]. change (fc :: file' ++ COLON :: dec_of_Z line) with ((fc :: file') ++ COLON :: dec_of_Z line).
        rewrite last_split_app by (apply dec_no_char; [discriminate|unfold digit; cbv; intros [H1 H2]; auto]).
        rewrite (dec_no_char line DOTC) by (try discriminate; unfold digit; cbv; intros [H1 H2]; auto).
        cbn [is_nil]. rewrite (str_to_int_dec_Z line Hrange), Hsimp. reflexivity.
  Qed.
End WithSimplify.

(* the documented caveat: a file name whose text after the last ':' has no '.' *)
Definition caveat_witness : pline := mkPL [97] [99;58;47;77;97;107;101;102;105;108;101] NO_LINE [] false.  (* a  c:/Makefile *)

Lemma parse_line_print_caveat_witness :
  snd (before_comment (to_string caveat_witness)) = false
  /\ has_char NL (pl_file caveat_witness) = false
  /\ to_string caveat_witness = [97;58;99;58;47;77;97;107;101;102;105;108;101]     (* "a:c:/Makefile" *)
  /\ parse_line (fun x => x) (to_string caveat_witness) = inr EBadLine.
Proof. vm_compute. repeat split; reflexivity. Qed.

(* ---------- parseFile ---------- *)
Lemma getlines_nil s : getlines s = [] -> s = [].
Proof.
  destruct s as [|x r]; [reflexivity|]. cbn [getlines]. destruct (x =? NL); [discriminate|].
  destruct (getlines r); discriminate.
Qed.

Lemma getlines_split s : split_str NL s = getlines s ++ [[]] \/ split_str NL s = getlines s.
Proof.
  induction s as [|x r IH]; [left; reflexivity|].
  cbn [split_str getlines]. destruct (x =? NL).
  - destruct IH as [-> | ->]; [left|right]; reflexivity.
  - destruct IH as [H|H]; rewrite H.
    + destruct (getlines r) as [|h t]; [right; reflexivity|left; reflexivity].
    + destruct (getlines r) as [|h t] eqn:Hg; [|right; reflexivity].
      apply getlines_nil in Hg. subst r. discriminate H.
  Qed.

Lemma relevant_nil : relevant [] = false.
Proof. reflexivity. Qed.

Lemma filter_relevant_getlines s : filter relevant (getlines s) = filter relevant (split_str NL s).
Proof.
  destruct (getlines_split s) as [-> | ->]; [|reflexivity].
  rewrite filter_app. cbn [filter]. rewrite relevant_nil, app_nil_r. reflexivity.
Qed.

Lemma terminate_lines d :
  flat_map (fun l => l ++ [NL]) (getlines d) = d \/ flat_map (fun l => l ++ [NL]) (getlines d) = d ++ [NL].
Proof.
  induction d as [|x r IH]; [left; reflexivity|].
  cbn [getlines]. destruct (N.eqb_spec x NL) as [->|Hx].
  - cbn [flat_map app]. destruct IH as [-> | ->]; [left|right]; reflexivity.
  - destruct (getlines r) as [|h t] eqn:Hg.
    + apply getlines_nil in Hg. subst r. right. reflexivity.
    + cbn [flat_map app] in *. destruct IH as [-> | ->]; [left|right]; reflexivity.
Qed.

Lemma split_str_nonnil c s : split_str c s <> [].
Proof. destruct s as [|x r]; cbn [split_str]; [discriminate|]. destruct (x =? c); [discriminate|]. destruct (split_str c r); discriminate. Qed.

Lemma split_str_snoc c s : split_str c (s ++ [c]) = split_str c s ++ [[]].
Proof.
  induction s as [|x r IH]; cbn [app split_str].
  - rewrite N.eqb_refl. reflexivity.
  - destruct (x =? c); rewrite IH; [reflexivity|].
    destruct (split_str c r) eqn:Hs; [exfalso; exact (split_str_nonnil c r Hs)|reflexivity].
Qed.

Lemma cr_to_nl_app a b : cr_to_nl (a ++ b) = cr_to_nl a ++ cr_to_nl b.
Proof. apply map_app. Qed.

(* parseFile hands exactly the relevant lines (not blank, not starting with '#' or "//" after
   leading white space) of the text, split at '\n' and '\r', to addSuppressionLine, in order,
   and stops at the first one that fails *)
Theorem parse_file_lines simp data :
  parse_file simp data = add_lines simp [] (filter relevant (split_str NL (cr_to_nl data))).
Proof.
  unfold parse_file. f_equal. rewrite filter_relevant_getlines.
  destruct (terminate_lines data) as [-> | ->]; [reflexivity|].
  rewrite cr_to_nl_app. change (cr_to_nl [NL]) with [NL].
  rewrite split_str_snoc, filter_app. cbn [filter]. rewrite relevant_nil, app_nil_r. reflexivity.
Qed.

(* add_lines over any number of lines: all are parsed and added iff each parses and is addable *)
Lemma add_lines_all simp : forall ls acc out,
  add_lines simp acc ls = (out, true) ->
  exists ps, out = acc ++ ps /\ map (parse_line simp) ls = map (fun p => inl p) ps.
Proof.
  induction ls as [|l ls IH]; intros acc out H; cbn [add_lines] in H.
  - injection H as <-. exists []. rewrite app_nil_r. auto.
  - destruct (parse_line simp l) as [p|e] eqn:Hp; [|discriminate].
    destruct (addable acc p); [|discriminate].
    apply IH in H. destruct H as (ps & -> & Hm). exists (p :: ps). rewrite <- app_assoc. cbn [map app].
    rewrite Hp, Hm. auto.
Qed.

(* ---------- inline comments ---------- *)
Definition nosp (w : str) : bool := forallb (fun c => negb (is_sp c)) w.

Lemma words_aux_word w : nosp w = true -> forall rest cur, words_aux (w ++ rest) cur = words_aux rest (rev w ++ cur).
Proof.
  induction w as [|x w IH]; intros H rest cur; [reflexivity|].
  cbn [nosp forallb] in H. apply andb_prop in H. destruct H as [Hx Hw]. apply negb_true_iff in Hx.
  cbn [app words_aux rev]. rewrite Hx, (IH Hw). rewrite <- app_assoc. reflexivity.
Qed.

Lemma rev_nonnil {A} (w : list A) : w <> [] -> rev w <> [].
Proof. destruct w as [|x w]; [congruence|]. intros _ H. apply (f_equal (@length A)) in H. rewrite rev_length in H. discriminate. Qed.

Lemma words_word_sp w c r : nosp w = true -> w <> [] -> is_sp c = true -> words (w ++ c :: r) = w :: words r.
Proof.
  intros Hw Hn Hc. unfold words. rewrite (words_aux_word w Hw), app_nil_r. cbn [words_aux]. rewrite Hc.
  destruct (rev w) eqn:Hr; [exfalso; exact (rev_nonnil w Hn Hr)|]. rewrite <- Hr, rev_involutive. reflexivity.
Qed.

Lemma words_word_end w : nosp w = true -> w <> [] -> words w = [w].
Proof.
  intros Hw Hn. unfold words. rewrite <- (app_nil_r w) at 1. rewrite (words_aux_word w Hw), app_nil_r. cbn [words_aux].
  destruct (rev w) eqn:Hr; [exfalso; exact (rev_nonnil w Hn Hr)|]. rewrite <- Hr, rev_involutive. reflexivity.
Qed.

Lemma words_sp c r : is_sp c = true -> words (c :: r) = words r.
Proof. intros H. unfold words. cbn [words_aux]. rewrite H. reflexivity. Qed.

Lemma before_dslash_none s : has_char SLASH s = false -> before_dslash s = (s, None).
Proof.
  induction s as [|x s IH]; intros H; [reflexivity|].
  rewrite has_char_cons in H. apply orb_false_elim in H. destruct H as [Hx Hs].
  cbn [before_dslash]. destruct s as [|y s']; [reflexivity|].
  rewrite Hx. cbn [andb]. rewrite (IH Hs). reflexivity.
Qed.

Lemma no_star_slash_end body : has_char SLASH body = false -> ends_with [42; 47] (47 :: 47 :: body) = false.
Proof.
  intros H. unfold ends_with. cbn [rev app]. 
  destruct (rev body) as [|c t] eqn:Hr; [reflexivity|].
  assert (Hin : In c body) by (apply in_rev; rewrite Hr; left; reflexivity).
  assert (Hc : (c =? SLASH) = false).
  { destruct (c =? SLASH) eqn:E; [|reflexivity]. exfalso.
    assert (has_char SLASH body = true) by (apply existsb_exists; exists c; auto). congruence. }
  cbn [app starts_with]. change 47 with SLASH. rewrite N.eqb_sym, Hc. reflexivity.
Qed.

(* a "//" comment without further '/' and without ';': Suppression::parseComment reads
   its words: keyword, id, attributes; anything else is not a suppression comment *)
Theorem parse_comment_words body :
  has_char SLASH body = false -> has_char SEMI body = false ->
  parse_comment (47 :: 47 :: body) =
  match words body with
  | kw :: id :: ws => if existsb (str_eqb kw) KW
                      then let '(sym, ok) := attrs ws [] true in Some (mkPC id sym [] ok)
                      else None
  | _ => None
  end.
Proof.
  intros Hs Hsemi. unfold parse_comment. rewrite (no_star_slash_end body Hs). cbn [andb].
  rewrite (first_split_none SEMI body Hsemi), (before_dslash_none body Hs). reflexivity.
Qed.

Definition wordlike (w : str) : Prop :=
  w <> [] /\ nosp w = true /\ has_char SLASH w = false /\ has_char SEMI w = false.

Lemma kw_facts kw : In kw KW ->
  nosp kw = true /\ kw <> [] /\ has_char SLASH kw = false /\ has_char SEMI kw = false /\ existsb (str_eqb kw) KW = true.
Proof.
  intros H. cbn in H. destruct H as [<-|[<-|[<-|[<-|[<-|[]]]]]]; repeat split; try reflexivity; discriminate.
Qed.

(* the documented forms  // cppcheck-suppress[-begin|-end|-file|-macro] id [symbolName=sym]
   yield exactly the id and the symbol name *)
Theorem parse_comment_spec kw id sym :
  In kw KW -> wordlike id -> (sym = [] \/ wordlike sym) ->
  parse_comment (47 :: 47 :: 32 :: kw ++ 32 :: id ++ (if is_nil sym then [] else 32 :: SYMBOLNAME_EQ ++ sym))
  = Some (mkPC id sym [] true).
Proof.
  intros Hkw (Hin & Hisp & Hisl & Hise) Hsym.
  destruct (kw_facts kw Hkw) as (Hksp & Hkn & Hksl & Hkse & Hkk).
  rewrite parse_comment_words.
  - rewrite words_sp by reflexivity.
    destruct Hsym as [->|(Hsn & Hssp & Hssl & Hsse)].
    + cbn [is_nil]. rewrite app_nil_r, (words_word_sp kw 32 id Hksp Hkn eq_refl), (words_word_end id Hisp Hin), Hkk. reflexivity.
    + destruct sym as [|sc sym']; [congruence|]. cbn [is_nil].
      rewrite (words_word_sp kw 32 _ Hksp Hkn eq_refl), (words_word_sp id 32 _ Hisp Hin eq_refl).
      rewrite words_word_end.
      * rewrite Hkk. cbn. reflexivity.
      * unfold nosp. rewrite forallb_app. fold (nosp (sc :: sym')). rewrite Hssp. reflexivity.
      * discriminate.
  - destruct Hsym as [->|(Hsn & Hssp & Hssl & Hsse)]; cbn [is_nil];
      rewrite ?has_char_cons, ?has_char_app, ?has_char_cons, ?has_char_app, ?Hksl, ?Hisl, ?Hssl;
      [reflexivity|]. destruct sym; [congruence|]. cbn [is_nil]. rewrite ?has_char_cons, ?has_char_app, ?Hssl. reflexivity.
  - destruct Hsym as [->|(Hsn & Hssp & Hssl & Hsse)]; cbn [is_nil];
      rewrite ?has_char_cons, ?has_char_app, ?has_char_cons, ?has_char_app, ?Hkse, ?Hise, ?Hsse;
      [reflexivity|]. destruct sym; [congruence|]. cbn [is_nil]. rewrite ?has_char_cons, ?has_char_app, ?Hsse. reflexivity.
Qed.

(* ---------- cppcheck-suppress[a, b, ...] ---------- *)
Theorem parse_multi_brackets pre inside post :
  has_char LBR pre = false -> has_char RBR inside = false ->
  parse_multi (pre ++ LBR :: inside ++ RBR :: post) =
  match multi_items (split_str COMMA inside) with Some l => (l, true) | None => ([], false) end.
Proof.
  intros H1 H2. unfold parse_multi. rewrite (first_split_app LBR pre _ H1), (first_split_app RBR inside _ H2). reflexivity.
Qed.

Lemma multi_items_ids ids :
  Forall (fun i => i <> [] /\ nosp i = true) ids -> multi_items ids = Some (map (fun i => (i, [])) ids).
Proof.
  induction 1 as [|i ids [Hn Hs] _ IH]; [reflexivity|].
  cbn [multi_items map]. destruct i as [|c i']; [congruence|]. cbn [is_nil].
  rewrite (words_word_end (c :: i') Hs Hn). cbn [attrs]. rewrite IH. reflexivity.
Qed.

Lemma split_join ids :
  ids <> [] -> Forall (fun i => has_char COMMA i = false) ids -> split_str COMMA (join [COMMA] ids) = ids.
Proof.
  intros Hn H. induction H as [|i ids Hi Hids IH]; [congruence|].
  destruct ids as [|j ids'].
  - cbn [join]. apply split_str_none. exact Hi.
  - change (join [COMMA] (i :: j :: ids')) with (i ++ COMMA :: join [COMMA] (j :: ids')).
    rewrite (split_str_app COMMA i _ Hi), IH; [reflexivity|discriminate].
Qed.

(* the documented form  ...cppcheck-suppress[id1,id2,...]  yields exactly the listed ids *)
Theorem parse_multi_spec pre ids post :
  has_char LBR pre = false -> ids <> [] ->
  Forall (fun i => i <> [] /\ nosp i = true /\ has_char COMMA i = false /\ has_char RBR i = false) ids ->
  parse_multi (pre ++ LBR :: join [COMMA] ids ++ RBR :: post) = (map (fun i => (i, [])) ids, true).
Proof.
  intros Hpre Hn H.
  assert (Hr : has_char RBR (join [COMMA] ids) = false).
  { clear Hn. induction H as [|i ids (_ & _ & _ & Hi) _ IH]; [reflexivity|].
    destruct ids as [|j ids']; [exact Hi|].
    change (join [COMMA] (i :: j :: ids')) with (i ++ COMMA :: join [COMMA] (j :: ids')).
    rewrite has_char_app, Hi, has_char_cons, IH. reflexivity. }
  rewrite (parse_multi_brackets pre _ post Hpre Hr), split_join.
  - rewrite multi_items_ids; [reflexivity|]. revert H. apply Forall_impl. intros i (H1 & H2 & _). auto.
  - exact Hn.
  - revert H. apply Forall_impl. intros i (_ & _ & H3 & _). exact H3.
Qed.
