(* How suppressions are given (lib/suppressions.cpp): SuppressionList::parseLine,
   Suppression::toString, addSuppression's checks, parseFile,
   Suppression::parseComment, parseMultiSuppressComment.
   Executable definitions only; proofs are in Supp/ParseProofs.v. *)
From CV Require Import Base.Bytes Base.Glob Supp.Defs.
Local Open Scope N_scope.

Definition HASH : N := 35.  Definition SLASH : N := 47.  Definition COLON : N := 58.
Definition DOTC : N := 46.  Definition NL : N := 10.     Definition CR : N := 13.
Definition SEMI : N := 59.  Definition LBR : N := 91.    Definition RBR : N := 93.
Definition COMMA : N := 44.

(* std::isspace in the "C" locale *)
Definition is_sp (c : N) : bool := (c =? 32) || ((9 <=? c) && (c <=? 13)).

(* splitString(str, sep): never empty; "a:" gives ["a"; ""] *)
Fixpoint split_str (sep : N) (s : str) : list str :=
  match s with
  | [] => [[]]
  | x :: r => if x =? sep then [] :: split_str sep r
              else match split_str sep r with
                   | h :: t => (x :: h) :: t
                   | [] => [[x]]
                   end
  end.

(* text before the first '#' or "//", and whether there is one *)
Fixpoint before_comment (s : str) : str * bool :=
  match s with
  | [] => ([], false)
  | x :: r =>
      if x =? HASH then ([], true)
      else match r with
           | y :: _ => if (x =? SLASH) && (y =? SLASH) then ([], true)
                       else let '(a, b) := before_comment r in (x :: a, b)
           | [] => ([x], false)
           end
  end.

(* drop trailing white space *)
Fixpoint rstrip (s : str) : str :=
  match s with
  | [] => []
  | x :: r => match rstrip r with
              | [] => if is_sp x then [] else [x]
              | r' => x :: r'
              end
  end.

(* split at the first / at the last occurrence of c *)
Fixpoint first_split (c : N) (s : str) : str * option str :=
  match s with
  | [] => ([], None)
  | x :: r => if x =? c then ([], Some r) else let '(a, b) := first_split c r in (x :: a, b)
  end.

Fixpoint last_split (c : N) (s : str) : option (str * str) :=
  match s with
  | [] => None
  | x :: r => match last_split c r with
              | Some (a, b) => Some (x :: a, b)
              | None => if x =? c then Some ([], r) else None
              end
  end.

Definition has_char (c : N) (s : str) : bool := existsb (fun x => x =? c) s.

(* strToInt<int>: optional sign, digits only, no leading zero unless signed or alone, int range *)
Definition INT_MAX : Z := 2147483647%Z.
Definition str_to_int (s : str) : option Z :=
  match s with
  | [] => None
  | c :: r =>
      let neg := c =? 45 in
      let digits := if neg || (c =? 43) then r else s in
      if negb (neg || (c =? 43) || is_digit c) then None
      else if is_nil digits || negb (forallb is_digit digits) then None
      else if negb (is_nil r) && (c =? 48) then None
      else match N_of_dec digits with
           | None => None
           | Some n => let z := if neg then (- Z.of_N n)%Z else Z.of_N n in
                       if ((- INT_MAX - 1 <=? z) && (z <=? INT_MAX))%Z then Some z else None
           end
  end.

Inductive perr := EFileMissing | EBadLine | EExtra.

(* what parseLine fills in; all other members keep their defaults *)
Record pline := mkPL { pl_id : str; pl_file : str; pl_line : Z; pl_symbol : str; pl_poly : bool }.

Definition SYMBOL_EQ : str := [115;121;109;98;111;108;61].                 (* "symbol=" *)
Definition POLYSPACE1 : str := [112;111;108;121;115;112;97;99;101;61;49].  (* "polyspace=1" *)

Fixpoint parse_extras (parts : list str) (sym : str) (poly : bool) : option (str * bool) :=
  match parts with
  | [] => Some (sym, poly)
  | p :: r => if starts_with SYMBOL_EQ p then parse_extras r (skipn 7 p) poly
              else if str_eqb p POLYSPACE1 then parse_extras r sym true
              else None
  end.

Section WithSimplify.
  (* Path::simplifyPath: C31's model (Path/Defs.v simplify_path) in the executable *)
  Variable simp : str -> str.

  Definition parse_line (line0 : str) : pline + perr :=
    let '(pre, found) := before_comment line0 in
    let line := if found then rstrip pre else line0 in
    match split_str NL line with
    | [] => inr EExtra   (* impossible *)
    | suppr_l :: extras =>
        let '(id, rest) := first_split COLON suppr_l in
        let file_line : (str * Z) + perr :=
          match rest with
          | None => inl ([], NO_LINE)
          | Some [] => inr EFileMissing
          | Some file =>
              match last_split COLON file with
              | Some (f, l) =>
                  if has_char DOTC l then inl (simp file, NO_LINE)
                  else if is_nil f then inr EFileMissing
                  else match str_to_int l with
                       | Some z => inl (simp f, z)
                       | None => inr EBadLine
                       end
              | None => inl (simp file, NO_LINE)
              end
          end in
        match file_line with
        | inr e => inr e
        | inl (f, l) =>
            match parse_extras extras [] false with
            | Some (sym, poly) => inl (mkPL id f l sym poly)
            | None => inr EExtra
            end
        end
    end.

  (* Suppression::toString *)
  Definition to_string (p : pline) : str :=
    pl_id p
    ++ (if is_nil (pl_file p) then []
        else COLON :: pl_file p ++ (if (pl_line p =? NO_LINE)%Z then [] else COLON :: dec_of_Z (pl_line p)))
    ++ (if is_nil (pl_symbol p) then [] else NL :: SYMBOL_EQ ++ pl_symbol p)
    ++ (if pl_poly p then NL :: POLYSPACE1 else []).

  (* ---- addSuppression's checks (hash is 0 for parsed lines) ---- *)
  Definition accepted_id_char (c : N) : bool :=
    (c =? 95) || (c =? 45) || (c =? 46) || (c =? 42) || ((c <? 128) && is_alnum c).

  Fixpoint valid_glob_from (stars : nat) (p : str) : bool :=
    match p with
    | [] => true
    | c :: r => if c =? STAR then (match stars with S (S _) => false | _ => valid_glob_from (S stars) r end)
                else if c =? QM then (match stars with O => valid_glob_from stars r | _ => false end)
                else valid_glob_from O r
    end.
  Definition valid_glob (p : str) : bool := valid_glob_from O p.

  Definition same_pline (a b : pline) : bool :=
    str_eqb (pl_id a) (pl_id b) && str_eqb (pl_file a) (pl_file b) && (pl_line a =? pl_line b)%Z
    && str_eqb (pl_symbol a) (pl_symbol b).

  Definition addable (l : list pline) (p : pline) : bool :=
    negb (existsb (same_pline p) l)
    && negb (is_nil (pl_id p))
    && forallb accepted_id_char (pl_id p)
    && negb (match pl_id p with c :: _ => is_digit c | [] => false end)
    && valid_glob (pl_id p) && valid_glob (pl_file p).

  (* ---- parseFile ---- *)
  Definition cr_to_nl (s : str) : str := map (fun c => if c =? CR then NL else c) s.

  Definition first_nonspace (l : str) : str := (fix go (s : str) : str :=
    match s with [] => [] | x :: r => if is_sp x then go r else s end) l.

  (* a line that is handed to addSuppressionLine *)
  Definition relevant (l : str) : bool :=
    match first_nonspace l with
    | [] => false
    | c :: r => negb (c =? HASH) && negb ((c =? SLASH) && (match r with d :: _ => d =? SLASH | [] => false end))
    end.

  (* the lines in order; stops at the first line that does not parse or cannot be added *)
  Fixpoint add_lines (acc : list pline) (ls : list str) : list pline * bool :=
    match ls with
    | [] => (acc, true)
    | l :: r => match parse_line l with
                | inr _ => (acc, false)
                | inl p => if addable acc p then add_lines (acc ++ [p]) r else (acc, false)
                end
    end.

  (* std::getline over a whole string: the pieces between '\n', no piece after a final '\n' *)
  Fixpoint getlines (s : str) : list str :=
    match s with
    | [] => []
    | x :: r => if x =? NL then [] :: getlines r
                else match getlines r with
                     | h :: t => (x :: h) :: t
                     | [] => [[x]]
                     end
    end.

  Definition parse_file (data : str) : list pline * bool :=
    (* first pass: every line gets a '\n'; '\r' becomes '\n'; second pass: getline again *)
    let filedata := cr_to_nl (flat_map (fun l => l ++ [NL]) (getlines data)) in
    add_lines [] (filter relevant (getlines filedata)).
End WithSimplify.

(* ---- inline comments ---- *)
(* operator>> into std::string: the maximal runs of non-white-space characters *)
Fixpoint words_aux (s : str) (cur : str) : list str :=
  match s with
  | [] => match cur with [] => [] | _ => [rev cur] end
  | x :: r => if is_sp x then (match cur with [] => words_aux r [] | _ => rev cur :: words_aux r [] end)
              else words_aux r (x :: cur)
  end.
Definition words (s : str) : list str := words_aux s [].

Definition is_op_char (c : N) : bool :=
  (c =? 43) || (c =? 45) || (c =? 42) || (c =? 47) || (c =? 37) || (c =? 35) || (c =? 59).

Definition SYMBOLNAME_EQ : str := [115;121;109;98;111;108;78;97;109;101;61].  (* "symbolName=" *)

(* the attribute words after the id: last symbolName= wins; a word made of +-*/%#; ends the
   list; any other word is a "bad attribute" (second component false) *)
Fixpoint attrs (ws : list str) (sym : str) (ok : bool) : str * bool :=
  match ws with
  | [] => (sym, ok)
  | w :: r => if forallb is_op_char w then (sym, ok)
              else if starts_with SYMBOLNAME_EQ w then attrs r (skipn 11 w) ok
              else attrs r sym false
  end.

Definition KW : list str :=
  let cs := [99;112;112;99;104;101;99;107;45;115;117;112;112;114;101;115;115] in
  [cs; cs ++ [45;98;101;103;105;110]; cs ++ [45;101;110;100]; cs ++ [45;102;105;108;101]; cs ++ [45;109;97;99;114;111]].

(* position of the first ';', else of the first "//" at index >= 2: the text before it *)
Fixpoint before_dslash (s : str) : str * option str :=
  match s with
  | [] => ([], None)
  | x :: r => match r with
              | y :: r' => if (x =? SLASH) && (y =? SLASH) then ([], Some r')
                           else let '(a, b) := before_dslash r in (x :: a, b)
              | [] => ([x], None)
              end
  end.

Definition trim_sptab (s : str) : str :=
  let f := fix go (s : str) : str := match s with [] => [] | x :: r => if (x =? 32) || (x =? 9) then go r else s end in
  rev (f (rev (f s))).

Record pcomment := mkPC { pc_id : str; pc_symbol : str; pc_extra : str; pc_attr_ok : bool }.

(* Suppression::parseComment on a comment of at least two characters whose first two are the
   comment introducer ("//" or "/*"); None = "not a suppression comment" (returns false) *)
Definition parse_comment (comment0 : str) : option pcomment :=
  match comment0 with
  | c0 :: c1 :: body0 =>
      let body1 := if ends_with [42; 47] comment0 && (2 <=? N.of_nat (length body0)) then firstn (length body0 - 2) body0
                   else if ends_with [42; 47] comment0 then [] else body0 in
      (* the separator search runs over the whole comment; the introducer itself never contains ';' and
         "//" is looked for from index 2 *)
      let '(pre, extra) :=
        match first_split SEMI body1 with
        | (a, Some b) => (a, Some b)
        | (_, None) => before_dslash body1
        end in
      let extra_c := match extra with
                     | Some e => filter (fun c => c <? 128) (trim_sptab e)
                     | None => []
                     end in
      match words pre with
      | kw :: id :: ws =>
          if existsb (str_eqb kw) KW then
            let '(sym, ok) := attrs ws [] true in Some (mkPC id sym extra_c ok)
          else None
      | _ => None
      end
  | _ => None
  end.

(* parseMultiSuppressComment: (id, symbol) list and "no error" *)
Fixpoint multi_items (segs : list str) : option (list (str * str)) :=
  match segs with
  | [] => Some []
  | seg :: r =>
      if is_nil seg then multi_items r
      else match words seg with
           | [] => None
           | id :: ws => let '(sym, ok) := attrs ws [] true in
                         if ok then match multi_items r with
                                    | Some l => Some ((id, sym) :: l)
                                    | None => None
                                    end
                         else None
           end
  end.

Definition parse_multi (comment : str) : list (str * str) * bool :=
  match first_split LBR comment with
  | (_, Some after) =>
      match first_split RBR after with
      | (inside, Some _) => match multi_items (split_str COMMA inside) with
                            | Some l => (l, true)
                            | None => ([], false)
                            end
      | (_, None) => ([], false)
      end
  | (_, None) => ([], false)
  end.
