(* Proofs about the whole-run model (Supp/ExecDefs.v): the flags after any
   sequence of queries and marks are a function of the set of queries; what the
   unmatched-suppression report contains; the exit status. *)
From CV Require Import Base.Bytes Base.Glob Base.GlobProofs Supp.Defs Supp.Proofs Supp.ListProofs Supp.ExecDefs.
Require Import Permutation.
Local Open Scope N_scope.

Lemma set_flags_set_flags s a b c d : set_flags (set_flags s a b) c d = set_flags s (a || c) (b || d).
Proof. destruct s. unfold set_flags. cbn. rewrite !orb_assoc. reflexivity. Qed.

Lemma set_flags_false s : set_flags s false false = s.
Proof. destruct s. unfold set_flags. cbn. rewrite !orb_false_r. reflexivity. Qed.

Lemma existsb_perm {A} (f : A -> bool) l l' : Permutation l l' -> existsb f l = existsb f l'.
Proof.
  induction 1; cbn; try congruence.
  - rewrite !orb_assoc, (orb_comm (f y)). reflexivity.
Qed.

Lemma existsb_ext' {A} (f g : A -> bool) l : (forall x, f x = g x) -> existsb f l = existsb g l.
Proof. intros H. induction l; cbn; congruence. Qed.

Section WithPathMatch.
  Variable pm : str -> str -> bool.

  (* the finding is at the place the suppression names (line / file, or the macro) *)
  Definition located (s : supp) (e : emsg) : bool :=
    if stype_eqb (s_type s) TMacro then mem_str (s_macro s) (e_macros e)
    else line_okb s e && file_okb pm s e.

  Lemma symbol_part_some s e r : symbol_part s e = Some r -> r <> RNone.
  Proof. intros H. apply symbol_part_spec in H. destruct H as [[-> _]|[-> _]]; discriminate. Qed.

  Ltac fin1 := let H := fresh in intros H; injection H as <-; split; [discriminate|reflexivity] .
  Ltac fin2 := let H := fresh in intros H; injection H as <-; split; [reflexivity|discriminate].
  Ltac sym1 := let H := fresh in intros H; apply symbol_part_some in H; split; [exact H|reflexivity].

  Lemma is_suppressed_located s e r :
    is_suppressed pm s e = Some r -> (r <> RNone /\ located s e = true) \/ (r = RNone /\ located s e = false).
  Proof.
    unfold is_suppressed, located. destruct (stype_eqb (s_type s) TMacro).
    - unfold is_suppressed_macro.
      destruct (mem_str (s_macro s) (e_macros e)); cbn [negb andb].
      2:{ intros H; injection H as <-. right; auto. }
      destruct ((0 <? s_hash s) && negb (s_hash s =? e_hash e)).
      { intros H; injection H as <-. left; split; [discriminate|reflexivity]. }
      destruct (is_nil (s_id s)).
      { intros H; apply symbol_part_some in H. left; auto. }
      destruct (oglob (s_id s) (e_id e)) as [[|]|]; try discriminate.
      { intros H; apply symbol_part_some in H. left; auto. }
      { intros H; injection H as <-. left; split; [discriminate|reflexivity]. }
    - unfold is_suppressed_other. rewrite line_cond.
      destruct (line_okb s e); cbn [negb andb].
      2:{ intros H; injection H as <-. right; auto. }
      unfold file_okb.
      destruct (is_nil (s_file s)); cbn [negb andb orb].
      + destruct ((0 <? s_hash s) && negb (s_hash s =? e_hash e)).
        { intros H; injection H as <-. left; split; [discriminate|reflexivity]. }
        destruct (is_nil (s_id s)).
        { destruct (stype_eqb (s_type s) TBlock && _).
          - intros H; injection H as <-. left; split; [discriminate|reflexivity].
          - intros H; apply symbol_part_some in H. left; auto. }
        destruct (is_nil (e_id e)).
        { intros H; injection H as <-. left; split; [discriminate|reflexivity]. }
        destruct (oglob (s_id s) (e_id e)) as [[|]|]; try discriminate.
        { destruct (stype_eqb (s_type s) TBlock && _).
          - intros H; injection H as <-. left; split; [discriminate|reflexivity].
          - intros H; apply symbol_part_some in H. left; auto. }
        { intros H; injection H as <-. left; split; [discriminate|reflexivity]. }
      + destruct (pm (s_file s) (e_file e)); cbn [negb andb].
        2:{ intros H; injection H as <-. right; auto. }
        destruct ((0 <? s_hash s) && negb (s_hash s =? e_hash e)).
        { intros H; injection H as <-. left; split; [discriminate|reflexivity]. }
        destruct (is_nil (s_id s)).
        { destruct (stype_eqb (s_type s) TBlock && _).
          - intros H; injection H as <-. left; split; [discriminate|reflexivity].
          - intros H; apply symbol_part_some in H. left; auto. }
        destruct (is_nil (e_id e)).
        { intros H; injection H as <-. left; split; [discriminate|reflexivity]. }
        destruct (oglob (s_id s) (e_id e)) as [[|]|]; try discriminate.
        { destruct (stype_eqb (s_type s) TBlock && _).
          - intros H; injection H as <-. left; split; [discriminate|reflexivity].
          - intros H; apply symbol_part_some in H. left; auto. }
        { intros H; injection H as <-. left; split; [discriminate|reflexivity]. }
  Qed.

  (* a match is always located *)
  Lemma matches_doc_located s e : matches_doc pm s e = true -> located s e = true.
  Proof.
    unfold matches_doc, located. destruct (stype_eqb (s_type s) TMacro).
    - intros H. apply andb_prop in H. destruct H as [H _]. apply andb_prop in H. destruct H as [H _].
      apply andb_prop in H. destruct H as [H _]. exact H.
    - intros H. do 4 (apply andb_prop in H; destruct H as [H _]). exact H.
  Qed.

  Lemma is_match_eq s e s' b : is_match pm s e = Some (s', b) ->
    s' = set_flags s (matches_doc pm s e) (located s e) /\ b = matches_doc pm s e.
  Proof.
    unfold is_match. destruct (is_suppressed pm s e) as [r|] eqn:Hr; [|discriminate].
    pose proof (is_suppressed_matches_doc pm s e r Hr) as [H1 H2].
    pose proof (is_suppressed_located s e r Hr) as HL.
    destruct (matches_doc pm s e) eqn:Hm.
    - rewrite (H2 eq_refl). intros H; injection H as <- <-.
      rewrite (matches_doc_located s e Hm). auto.
    - destruct r.
      + intros H; injection H as <- <-. destruct HL as [[HL _]|[_ ->]]; [congruence|].
        rewrite set_flags_false. auto.
      + intros H; injection H as <- <-. destruct HL as [[_ ->]|[HL _]]; [auto|discriminate].
      + specialize (H1 eq_refl). discriminate.
  Qed.

  (* is the suppression consulted for (e,g) and is the finding at its place? *)
  Definition reach (g : bool) (e : emsg) (s : supp) : bool := applicable g e s && located s e.

  Definition upd (g : bool) (e : emsg) (s : supp) : supp := set_flags s (hides pm g e s) (reach g e s).

  Lemma list_is_suppressed_eq g e l : forall l' b,
    list_is_suppressed pm l e g = Some (l', b) -> l' = map (upd g e) l /\ b = existsb (hides pm g e) l.
  Proof.
    induction l as [|s l IH]; intros l' b H; cbn [list_is_suppressed] in H.
    - injection H as <- <-. auto.
    - cbn [map existsb]. unfold upd at 1, hides at 1 2, reach at 1, applicable at 1 2 3.
      destruct ((negb g && negb (is_local s))
                || (str_eqb (e_id e) UNMATCHED && negb (str_eqb (s_id s) (e_id e)))) eqn:Hskip.
      + destruct (list_is_suppressed pm l e g) as [[r' b2]|]; [|discriminate].
        injection H as <- <-. destruct (IH _ _ eq_refl) as [-> ->]. cbn [negb andb orb].
        rewrite set_flags_false. auto.
      + destruct (is_match pm s e) as [[s' b1]|] eqn:Hm; [|discriminate].
        destruct (list_is_suppressed pm l e g) as [[r' b2]|]; [|discriminate].
        injection H as <- <-. destruct (IH _ _ eq_refl) as [-> ->].
        apply is_match_eq in Hm. destruct Hm as [-> ->]. cbn [negb andb]. auto.
  Qed.

  (* ---------- flags as a function of the set of queries and marks ---------- *)
  Definition query := (emsg * bool)%type.

  Definition anyhide (Q : list query) (s : supp) : bool := existsb (fun q => hides pm (snd q) (fst q) s) Q.
  Definition anyreach (Q : list query) (s : supp) : bool := existsb (fun q => reach (snd q) (fst q) s) Q.
  Definition anymark (M : list (str * Z)) (s : supp) : bool := existsb (fun fl => mark_hit (fst fl) (snd fl) s) M.

  Definition derive (Q : list query) (M : list (str * Z)) (s : supp) : supp :=
    set_flags s (anyhide Q s) (anyreach Q s || anymark M s).

  Lemma anyhide_set_flags Q s a b : anyhide Q (set_flags s a b) = anyhide Q s.
  Proof. apply existsb_ext'. reflexivity. Qed.
  Lemma anyreach_set_flags Q s a b : anyreach Q (set_flags s a b) = anyreach Q s.
  Proof. apply existsb_ext'. reflexivity. Qed.
  Lemma anymark_set_flags M s a b : anymark M (set_flags s a b) = anymark M s.
  Proof. apply existsb_ext'. reflexivity. Qed.
  Lemma anyhide_app Q1 Q2 s : anyhide (Q1 ++ Q2) s = anyhide Q1 s || anyhide Q2 s.
  Proof. apply existsb_app. Qed.
  Lemma anyreach_app Q1 Q2 s : anyreach (Q1 ++ Q2) s = anyreach Q1 s || anyreach Q2 s.
  Proof. apply existsb_app. Qed.
  Lemma anymark_app M1 M2 s : anymark (M1 ++ M2) s = anymark M1 s || anymark M2 s.
  Proof. apply existsb_app. Qed.

  Lemma derive_nil s : derive [] [] s = s.
  Proof. unfold derive. cbn. apply set_flags_false. Qed.

  Lemma derive_derive Q1 M1 Q2 M2 s :
    derive Q2 M2 (derive Q1 M1 s) = derive (Q1 ++ Q2) (M1 ++ M2) s.
  Proof.
    unfold derive. rewrite anyhide_set_flags, anyreach_set_flags, anymark_set_flags.
    rewrite set_flags_set_flags, anyhide_app, anyreach_app, anymark_app.
    f_equal.
    destruct (anyreach Q1 s), (anymark M1 s), (anyreach Q2 s), (anymark M2 s); reflexivity.
  Qed.

  Lemma anyhide_anyreach Q s : anyhide Q s = true -> anyreach Q s = true.
  Proof.
    unfold anyhide, anyreach. intros H. apply existsb_exists in H. destruct H as [q [Hq H]].
    apply existsb_exists. exists q. split; [exact Hq|]. unfold hides in H. unfold reach.
    apply andb_prop in H. destruct H as [Ha Hm]. rewrite Ha. cbn [andb]. apply matches_doc_located. exact Hm.
  Qed.

  Lemma derive_matched_checked Q M s :
    (s_matched s = true -> s_checked s = true) ->
    s_matched (derive Q M s) = true -> s_checked (derive Q M s) = true.
  Proof.
    unfold derive. cbn. intros H0 H. apply orb_prop in H. destruct H as [H|H].
    - rewrite (H0 H). reflexivity.
    - rewrite (anyhide_anyreach _ _ H). cbn. apply orb_true_r.
  Qed.

  Lemma upd_derive g e s : upd g e s = derive [(e, g)] [] s.
  Proof. unfold upd, derive, anyhide, anyreach, anymark. cbn. rewrite !orb_false_r. reflexivity. Qed.

  Lemma map_derive_derive Q1 M1 Q2 M2 l :
    map (derive Q2 M2) (map (derive Q1 M1) l) = map (derive (Q1 ++ Q2) (M1 ++ M2)) l.
  Proof. rewrite map_map. apply map_ext. intros. apply derive_derive. Qed.

  Lemma derive_perm Q Q' M M' s : Permutation Q Q' -> Permutation M M' -> derive Q M s = derive Q' M' s.
  Proof.
    intros HQ HM. unfold derive, anyhide, anyreach, anymark.
    rewrite (existsb_perm _ _ _ HQ), (existsb_perm (fun q => reach (snd q) (fst q) s) _ _ HQ), (existsb_perm _ _ _ HM).
    reflexivity.
  Qed.

  Lemma static_derive Q M s : static (derive Q M s) = static s.
  Proof. reflexivity. Qed.

  Lemma map_static_derive Q M l : map static (map (derive Q M) l) = map static l.
  Proof. rewrite map_map. apply map_ext. intros; apply static_derive. Qed.

  (* SuppressionList::isSuppressed called any number of times *)
  Theorem list_run_derive Q : forall l l' bs,
    list_run pm l Q = Some (l', bs) -> l' = map (derive Q []) l.
  Proof.
    induction Q as [|[e g] Q IH]; intros l l' bs H; cbn [list_run] in H.
    - injection H as <- <-. rewrite (map_ext _ (fun s => s)), map_id; [reflexivity|]. intros; apply derive_nil.
    - destruct (list_is_suppressed pm l e g) as [[l1 b]|] eqn:H1; [|discriminate].
      destruct (list_run pm l1 Q) as [[l2 bs2]|] eqn:H2; [|discriminate].
      injection H as <- <-. apply list_is_suppressed_eq in H1. destruct H1 as [-> _].
      apply IH in H2. rewrite H2.
      rewrite (map_ext (upd g e) (derive [(e,g)] [])) by (intros; apply upd_derive).
      rewrite map_derive_derive. reflexivity.
  Qed.

  Lemma mark_checked_derive locs : forall l, mark_checked locs l = map (derive [] locs) l.
  Proof.
    unfold mark_checked. induction locs as [|[f ln] locs IH]; intros l; cbn [fold_left].
    - rewrite (map_ext _ (fun s => s)), map_id; [reflexivity|]. intros; apply derive_nil.
    - rewrite IH.
      rewrite (map_ext (fun s => set_flags s false (mark_hit (fst (f, ln)) (snd (f, ln)) s)) (derive [] [(f,ln)])).
      + rewrite map_derive_derive. reflexivity.
      + intros s. unfold derive, anyhide, anyreach, anymark. cbn. rewrite orb_false_r. reflexivity.
  Qed.

  (* ---------- the logger: which queries it makes to the nomsg list ---------- *)
  Fixpoint nomsg_queries (ug : bool) (nomsg nofail : list supp) (seen : list str) (ms : list (emsg * str)) : list query :=
    match ms with
    | [] => []
    | (e, text) :: r =>
        let fresh := negb (is_nil text) && negb (mem_str text seen) in
        let fwd := fresh && negb (existsb (hides pm ug e) nomsg) in
        ((e, ug) :: (if existsb (hides pm ug e) nomsg && negb ug then [(e, true)] else [])
                 (* fix 243c78e: a worker asks the global suppressions about a duplicate it drops *)
                 ++ (if negb (existsb (hides pm ug e) nomsg) && negb ug && negb (is_nil text) && mem_str text seen
                     then [(e, true)] else [])
                 ++ (if fwd && negb (existsb (hides pm true e) nofail) then [(e, true)] else []))
          ++ nomsg_queries ug nomsg nofail (if fresh then text :: seen else seen) r
    end.

  Lemma nomsg_queries_static ug n n' f f' seen ms :
    map static n' = map static n -> map static f' = map static f ->
    nomsg_queries ug n' f' seen ms = nomsg_queries ug n f seen ms.
  Proof.
    intros Hn Hf. revert seen. induction ms as [|[e t] ms IH]; intros seen; cbn [nomsg_queries]; [reflexivity|].
    rewrite (existsb_hides_static pm _ _ _ _ Hn), (existsb_hides_static pm _ _ _ _ Hf), IH. reflexivity.
  Qed.

  Lemma map_upd_derive g e l : map (upd g e) l = map (derive [(e, g)] []) l.
  Proof. apply map_ext. intros; apply upd_derive. Qed.

  Lemma logger_step_nomsg ug st e text st' b :
    logger_step pm ug st (e, text) = Some (st', b) ->
    let fresh := negb (is_nil text) && negb (mem_str text (l_seen st)) in
    let fwd := fresh && negb (existsb (hides pm ug e) (l_nomsg st)) in
    l_nomsg st' = map (derive ((e, ug) :: (if existsb (hides pm ug e) (l_nomsg st) && negb ug then [(e, true)] else [])
                                       ++ (if negb (existsb (hides pm ug e) (l_nomsg st)) && negb ug && negb (is_nil text)
                                              && mem_str text (l_seen st) then [(e, true)] else [])
                                       ++ (if fwd && negb (existsb (hides pm true e) (l_nofail st)) then [(e, true)] else [])) [])
                      (l_nomsg st).
  Proof.
    cbn [logger_step].
    destruct (list_is_suppressed pm (l_nomsg st) e ug) as [[n0 sup]|] eqn:H1; [|discriminate].
    apply list_is_suppressed_eq in H1. destruct H1 as [-> ->]. rewrite map_upd_derive.
    destruct (existsb (hides pm ug e) (l_nomsg st) && negb ug) eqn:Hw.
    { (* the worker drops the finding and asks the global suppressions too *)
      apply andb_prop in Hw. destruct Hw as [Hh Hug]. rewrite Hh. cbn [negb andb app].
      destruct (list_is_suppressed pm _ e true) as [[n1 b0]|] eqn:H0; [|discriminate].
      apply list_is_suppressed_eq in H0. destruct H0 as [-> _]. rewrite map_upd_derive, map_derive_derive.
      rewrite !andb_false_r. cbn [app].
      destruct (is_nil text); [intros H; injection H as <- <-; reflexivity|].
      destruct (mem_str text (l_seen st)); intros H; injection H as <- <-; reflexivity. }
    cbn [app].
    destruct (is_nil text) eqn:Hn; cbn [negb andb].
    { rewrite !andb_false_r. cbn [app]. intros H; injection H as <- <-. reflexivity. }
    destruct (mem_str text (l_seen st)) eqn:Hs; cbn [negb andb].
    { apply andb_false_iff in Hw.
      destruct (existsb (hides pm ug e) (l_nomsg st)) eqn:Hh; cbn [negb andb app].
      - destruct Hw as [Hw|Hw]; [discriminate|]. intros H; injection H as <- <-. reflexivity.
      - destruct ug; cbn [negb andb app].
        + intros H; injection H as <- <-. reflexivity.
        + destruct (list_is_suppressed pm _ e true) as [[n1d bd]|] eqn:Hd; [|discriminate].
          apply list_is_suppressed_eq in Hd. destruct Hd as [-> _]. rewrite map_upd_derive, map_derive_derive.
          intros H; injection H as <- <-. reflexivity. }
    replace (negb (existsb (hides pm ug e) (l_nomsg st)) && negb ug && true && false) with false
      by (rewrite andb_false_r; reflexivity).
    cbn [app].
    destruct (existsb (hides pm ug e) (l_nomsg st)) eqn:Hh; cbn [negb andb].
    { intros H; injection H as <- <-. reflexivity. }
    destruct (list_is_suppressed pm (l_nofail st) e true) as [[f1 nf]|] eqn:H2; [|discriminate].
    apply list_is_suppressed_eq in H2. destruct H2 as [-> ->].
    destruct (existsb (hides pm true e) (l_nofail st)) eqn:Hf; cbn [negb andb].
    { intros H; injection H as <- <-. reflexivity. }
    destruct (list_is_suppressed pm _ e true) as [[n2 nm]|] eqn:H3; [|discriminate].
    apply list_is_suppressed_eq in H3. destruct H3 as [-> ->]. rewrite map_upd_derive, map_derive_derive.
    intros H; injection H as <- <-. reflexivity.
  Qed.

  Theorem logger_run_nomsg ug ms : forall st st' outs,
    logger_run pm ug st ms = Some (st', outs) ->
    l_nomsg st' = map (derive (nomsg_queries ug (l_nomsg st) (l_nofail st) (l_seen st) ms) []) (l_nomsg st).
  Proof.
    induction ms as [|[e text] ms IH]; intros st st' outs H; cbn [logger_run] in H.
    - injection H as <- <-. cbn. rewrite (map_ext _ (fun s => s)), map_id; [reflexivity|]. intros; apply derive_nil.
    - destruct (logger_step pm ug st (e, text)) as [[st1 b]|] eqn:Hs; [|discriminate].
      destruct (logger_run pm ug st1 ms) as [[st2 bs]|] eqn:Hr; [|discriminate].
      injection H as <- <-.
      pose proof (logger_step_spec pm ug st e text st1 b Hs) as Hsp. cbv zeta in Hsp.
      destruct Hsp as (_ & Hn & Hf & Hseen & _).
      apply logger_step_nomsg in Hs. cbv zeta in Hs.
      apply IH in Hr. rewrite Hr, Hs, map_derive_derive.
      rewrite <- Hs. rewrite (nomsg_queries_static ug _ _ _ _ _ ms Hn Hf), Hseen.
      cbn [nomsg_queries]. reflexivity.
  Qed.

  (* ---------- one file, all files (single executor) ---------- *)
  Lemma existsb_static_gen (p : supp -> bool) (Hp : forall x, p (static x) = p x) l : forall l',
    map static l' = map static l -> existsb p l' = existsb p l.
  Proof.
    induction l as [|s l IH]; intros [|s' l'] H; try discriminate; [reflexivity|].
    cbn [map] in H.
    assert (Hs : static s' = static s) by (apply (f_equal (hd (static s))) in H; exact H).
    assert (Hl : map static l' = map static l) by (apply (f_equal (@tl _)) in H; exact H).
    cbn [existsb].
    rewrite (IH _ Hl). rewrite <- (Hp s'), Hs, Hp. reflexivity.
  Qed.

  Lemma existsb_same_params_static s l l' :
    map static l' = map static l -> existsb (same_params s) l' = existsb (same_params s) l.
  Proof. apply existsb_static_gen. reflexivity. Qed.

  Definition inline_present (l : list supp) (f : finput) : Prop :=
    Forall (fun s => existsb (same_params s) l = true) (f_inline f).

  Lemma inline_present_static l l' f : map static l' = map static l -> inline_present l f -> inline_present l' f.
  Proof.
    intros H. unfold inline_present. apply Forall_impl. intros s Hs.
    rewrite (existsb_same_params_static s _ _ H). exact Hs.
  Qed.

  Lemma add_all_present ss : forall l, Forall (fun s => existsb (same_params s) l = true) ss -> add_all l ss = l.
  Proof.
    unfold add_all. induction ss as [|s ss IH]; intros l H; cbn [fold_left]; [reflexivity|].
    inversion H as [|? ? H1 H2]; subst. unfold add_supp at 2. rewrite H1. cbn [fst]. apply IH. exact H2.
  Qed.

  Definition file_queries (ug : bool) (nomsg nofail : list supp) (f : finput) : list query :=
    (dummy (f_path f), true) :: nomsg_queries ug nomsg nofail [] (f_msgs f).

  Lemma file_queries_static ug n n' fl fl' f :
    map static n' = map static n -> map static fl' = map static fl ->
    file_queries ug n' fl' f = file_queries ug n fl f.
  Proof. intros. unfold file_queries. f_equal. apply nomsg_queries_static; assumption. Qed.

  Lemma check_file_spec ug nomsg nofail f fr :
    check_file pm ug nomsg nofail f = Some fr -> inline_present nomsg f ->
    r_nomsg fr = map (derive (file_queries ug nomsg nofail f) (f_locs f)) nomsg
    /\ map static (r_nofail fr) = map static nofail
    /\ r_out fr = spec_forward pm ug nomsg [] (f_msgs f)
    /\ r_exit fr = spec_exit pm ug nomsg nofail [] (f_msgs f).
  Proof.
    unfold check_file. intros H Hin. cbv zeta in H.
    destruct (list_is_suppressed pm nomsg (dummy (f_path f)) true) as [[n1 b1]|] eqn:H1; [|discriminate].
    apply list_is_suppressed_eq in H1. destruct H1 as [-> _]. rewrite map_upd_derive in H.
    rewrite add_all_present in H.
    2:{ apply (inline_present_static nomsg); [apply map_static_derive|exact Hin]. }
    rewrite mark_checked_derive, map_derive_derive in H. cbn [app] in H.
    match type of H with context [logger_run pm ug (mkL ?n _ _ _) _] => set (n3 := n) in * end.
    assert (Hst : map static n3 = map static nomsg) by apply map_static_derive.
    revert H.
    destruct (logger_run pm ug (mkL n3 nofail [] false) (f_msgs f)) as [[st outs]|] eqn:Hr; [|discriminate].
    intros H. injection H as <-. cbn [r_nomsg r_nofail r_out r_exit].
    pose proof (logger_run_spec pm ug _ _ _ _ Hr) as (Ho & He & _ & Hf). cbn [l_nomsg l_nofail l_seen l_exit] in *.
    apply logger_run_nomsg in Hr. cbn [l_nomsg l_nofail l_seen] in Hr.
    rewrite (nomsg_queries_static ug nomsg n3 nofail nofail [] (f_msgs f) Hst eq_refl) in Hr.
    repeat split.
    - rewrite Hr. unfold n3. rewrite map_derive_derive. rewrite app_nil_r. reflexivity.
    - exact Hf.
    - rewrite Ho. apply spec_forward_static. exact Hst.
    - rewrite He. cbn [orb]. apply spec_exit_static; [exact Hst|reflexivity].
  Qed.

  Definition single_queries (nomsg nofail : list supp) (fs : list finput) : list query :=
    flat_map (file_queries true nomsg nofail) fs.

  Lemma single_queries_static n n' fl fl' fs :
    map static n' = map static n -> map static fl' = map static fl ->
    single_queries n' fl' fs = single_queries n fl fs.
  Proof.
    intros Hn Hf. unfold single_queries. induction fs as [|f fs IH]; cbn [flat_map]; [reflexivity|].
    rewrite IH, (file_queries_static true n n' fl fl' f Hn Hf). reflexivity.
  Qed.

  Lemma existsb_spec_exit_static ug n n' fl fl' (fs : list finput) :
    map static n' = map static n -> map static fl' = map static fl ->
    existsb (fun f => spec_exit pm ug n' fl' [] (f_msgs f)) fs = existsb (fun f => spec_exit pm ug n fl [] (f_msgs f)) fs.
  Proof. intros Hn Hf. apply existsb_ext'. intros f. apply spec_exit_static; assumption. Qed.

  Theorem single_files_spec fs : forall nomsg nofail sr,
    single_files pm nomsg nofail fs = Some sr -> Forall (inline_present nomsg) fs ->
    sr_nomsg sr = map (derive (single_queries nomsg nofail fs) (flat_map f_locs fs)) nomsg
    /\ map static (sr_nofail sr) = map static nofail
    /\ sr_reported sr = flat_map (fun f => pick (spec_forward pm true nomsg [] (f_msgs f)) (f_msgs f)) fs
    /\ (sr_result sr =? 0) = negb (existsb (fun f => spec_exit pm true nomsg nofail [] (f_msgs f)) fs).
  Proof.
    induction fs as [|f fs IH]; intros nomsg nofail sr H Hin; cbn [single_files] in H.
    - injection H as <-. cbn. rewrite (map_ext _ (fun s => s)), map_id; [auto|]. intros; apply derive_nil.
    - destruct (check_file pm true nomsg nofail f) as [fr|] eqn:Hc; [|discriminate].
      destruct (single_files pm (r_nomsg fr) (r_nofail fr) fs) as [sr1|] eqn:Hs; [|discriminate].
      injection H as <-. cbn [sr_nomsg sr_nofail sr_reported sr_result].
      inversion Hin as [|? ? Hin1 Hin2]; subst.
      apply check_file_spec in Hc; [|exact Hin1]. destruct Hc as (Hn & Hf & Ho & He).
      assert (Hst : map static (r_nomsg fr) = map static nomsg) by (rewrite Hn; apply map_static_derive).
      apply IH in Hs.
      2:{ revert Hin2. apply Forall_impl. intros x. apply inline_present_static. exact Hst. }
      destruct Hs as (Hn2 & Hf2 & Hr2 & Hx2).
      rewrite (single_queries_static _ _ _ _ fs Hst Hf) in Hn2.
      repeat split.
      + rewrite Hn2, Hn, map_derive_derive. reflexivity.
      + congruence.
      + cbn [flat_map]. rewrite Hr2, Ho. f_equal. apply flat_map_ext. intros x.
        rewrite (spec_forward_static pm true _ _ [] (f_msgs x) Hst). reflexivity.
      + cbn [existsb]. rewrite (existsb_spec_exit_static true _ _ _ _ fs Hst Hf) in Hx2.
        rewrite He. destruct (spec_exit pm true nomsg nofail [] (f_msgs f)); cbn [orb negb].
        * destruct (sr_result sr1); reflexivity.
        * rewrite N.add_0_l. exact Hx2.
  Qed.

  (* ---------- the unmatched-suppression report ---------- *)
  Lemma any_filter_spec filters id b : any_filter filters id = Some b -> b = existsb (fun f => globb f id) filters.
  Proof.
    revert b. induction filters as [|x l IH]; intros b H; cbn [any_filter existsb] in *.
    - congruence.
    - destruct (oglob x id) as [[|]|] eqn:Hx; try discriminate.
      + apply oglob_spec in Hx. rewrite <- Hx. injection H as <-. reflexivity.
      + apply oglob_spec in Hx. rewrite <- Hx. cbn [orb]. auto.
  Qed.

  Definition filtered_out (filters : list str) (s : supp) : bool := existsb (fun f => globb f (s_id s)) filters.

  Lemma get_unmatched_aux_spec filters all um : forall r,
    get_unmatched_aux filters all um = Some r ->
    forall s, In s r <-> In s um /\ existsb (fun s2 => covers s2 s) all = false /\ filtered_out filters s = false.
  Proof.
    induction um as [|x um IH]; intros r H s; cbn [get_unmatched_aux] in H.
    - injection H as <-. cbn. tauto.
    - destruct (get_unmatched_aux filters all um) as [r'|] eqn:Hr; [|discriminate].
      specialize (IH _ eq_refl s).
      destruct (existsb (fun s2 => covers s2 x) all) eqn:Hc.
      + injection H as <-. rewrite IH. cbn [In]. split; [tauto|].
        intros [[->|Hi] [H1 H2]]; [congruence|tauto].
      + destruct (any_filter filters (s_id x)) as [[|]|] eqn:Hf; [| |discriminate];
          apply any_filter_spec in Hf; injection H as <-.
        * rewrite IH. cbn [In]. split; [tauto|].
          intros [[->|Hi] [H1 H2]]; [unfold filtered_out in H2; congruence|tauto].
        * cbn [In]. rewrite IH. split.
          { intros [->|Hi]; [unfold filtered_out; auto|tauto]. }
          { tauto. }
  Qed.

  Lemma existsb_filter {A} (p q : A -> bool) l : existsb p (filter q l) = existsb (fun x => q x && p x) l.
  Proof. induction l as [|x l IH]; cbn; [reflexivity|]. destruct (q x); cbn; rewrite IH; reflexivity. Qed.

  (* s is selected by the group `sel`, no selected unmatchedSuppression entry covers it, no filter applies *)
  Definition group_reports (filters : list str) (sel : supp -> bool) (l : list supp) (s : supp) : Prop :=
    In s l /\ sel s = true /\ existsb (fun s2 => sel s2 && covers s2 s) l = false /\ filtered_out filters s = false.

  Lemma get_unmatched_filter_spec filters sel l r :
    get_unmatched filters (filter sel l) = Some r -> forall s, In s r <-> group_reports filters sel l s.
  Proof.
    intros H s. unfold get_unmatched in H. rewrite (get_unmatched_aux_spec _ _ _ _ H s).
    unfold group_reports. rewrite filter_In, existsb_filter. tauto.
  Qed.

  Lemma locals_of_spec filters l paths : forall r,
    locals_of pm filters l paths = Some r ->
    forall s, In s r <-> exists p, In p paths /\ group_reports filters (unmatched_local pm p) l s.
  Proof.
    induction paths as [|p paths IH]; intros r H s; cbn [locals_of] in H.
    - injection H as <-. cbn. split; [tauto|]. intros [p [[] _]].
    - destruct (get_unmatched filters (filter (unmatched_local pm p) l)) as [a|] eqn:Ha; [|discriminate].
      destruct (locals_of pm filters l paths) as [b|] eqn:Hb; [|discriminate].
      injection H as <-. rewrite in_app_iff, (get_unmatched_filter_spec _ _ _ _ Ha s), (IH _ eq_refl s).
      cbn [In]. split.
      + intros [H|[q [Hq H]]]; [exists p; auto|exists q; auto].
      + intros [q [[<-|Hq] H]]; [auto|right; exists q; auto].
  Qed.

  (* what reportUnmatchedSuppressions emits, declaratively *)
  Definition should_report (filters : list str) (inline_enabled : bool) (l : list supp) (paths : list str) (s : supp) : Prop :=
    bail l = false
    /\ ((exists p, In p paths /\ group_reports filters (unmatched_local pm p) l s)
        \/ (inline_enabled = true /\ group_reports filters unmatched_inline l s)
        \/ group_reports filters unmatched_global l s).

  Theorem report_unmatched_spec filters ie l paths r :
    report_unmatched pm filters ie l paths = Some r -> forall s, In s r <-> should_report filters ie l paths s.
  Proof.
    unfold report_unmatched, should_report. intros H s. destruct (bail l).
    - injection H as <-. cbn. split; [tauto|]. intros [? _]; discriminate.
    - destruct (locals_of pm filters l paths) as [a|] eqn:Ha; [|discriminate].
      destruct (get_unmatched filters (filter unmatched_global l)) as [c|] eqn:Hc.
      2:{ destruct ie; [destruct (get_unmatched filters (filter unmatched_inline l))|]; discriminate. }
      destruct ie.
      + destruct (get_unmatched filters (filter unmatched_inline l)) as [b|] eqn:Hb; [|discriminate].
        injection H as <-. rewrite !in_app_iff, (locals_of_spec _ _ _ _ Ha s),
          (get_unmatched_filter_spec _ _ _ _ Hb s), (get_unmatched_filter_spec _ _ _ _ Hc s). tauto.
      + injection H as <-. rewrite !in_app_iff, (locals_of_spec _ _ _ _ Ha s),
          (get_unmatched_filter_spec _ _ _ _ Hc s). cbn [In]. split; [tauto|].
        intros [_ [H|[[H _]|H]]]; [auto|discriminate|auto].
  Qed.

  Lemma selectors_unmatched file s :
    (unmatched_local pm file s = true \/ unmatched_inline s = true \/ unmatched_global s = true) -> s_matched s = false.
  Proof.
    unfold unmatched_local, unmatched_inline, unmatched_global.
    destruct (s_matched s); [|reflexivity]. cbn. rewrite !andb_false_r. cbn. intros [H|[H|H]]; discriminate.
  Qed.

  Theorem reported_never_matched filters ie l paths s :
    should_report filters ie l paths s -> In s l /\ s_matched s = false.
  Proof.
    intros [_ [[p [_ (Hi & Hs & _)]]|[[_ (Hi & Hs & _)]|(Hi & Hs & _)]]]; split; try exact Hi.
    - apply (selectors_unmatched p). auto.
    - apply (selectors_unmatched []). auto.
    - apply (selectors_unmatched []). auto.
  Qed.

  (* some emitted unmatchedSuppression finding is not matched by an exitcode suppression *)
  Definition um_raise (nofail u : list supp) : bool :=
    existsb (fun s => negb (existsb (hides pm true (unmatched_emsg s)) nofail)) u.

  Lemma unmatched_fail_spec u : forall nofail b, unmatched_fail pm nofail u = Some b -> b = um_raise nofail u.
  Proof.
    induction u as [|s u IH]; intros nofail b H; cbn [unmatched_fail] in H.
    - injection H as <-. reflexivity.
    - destruct (list_is_suppressed pm nofail (unmatched_emsg s) true) as [[nf1 b1]|] eqn:H1; [|discriminate].
      apply list_is_suppressed_eq in H1. destruct H1 as [-> ->].
      destruct (unmatched_fail pm _ u) as [fr|] eqn:H2; [|discriminate].
      injection H as <-. apply IH in H2. rewrite H2. unfold um_raise. cbn [existsb]. f_equal.
      apply existsb_ext'. intros x. f_equal. apply existsb_hides_static.
      rewrite map_upd_derive. apply map_static_derive.
  Qed.

  Lemma um_raise_static u nofail nofail' : map static nofail' = map static nofail -> um_raise nofail' u = um_raise nofail u.
  Proof.
    intros H. unfold um_raise. apply existsb_ext'. intros x. f_equal. apply existsb_hides_static. exact H.
  Qed.

  (* ---------- the whole run, single executor ---------- *)
  Definition run_queries (nomsg nofail : list supp) (fs : list finput) (wp : list (emsg * str)) : list query :=
    single_queries nomsg nofail fs ++ nomsg_queries true nomsg nofail [] wp.

  (* some finding raises the exit code: a file's, or a whole-program one *)
  Definition findings_raise (nomsg nofail : list supp) (fs : list finput) (wp : list (emsg * str)) : bool :=
    existsb (fun f => spec_exit pm true nomsg nofail [] (f_msgs f)) fs || spec_exit pm true nomsg nofail [] wp.

  Lemma is_nil_list_map {A B} (f : A -> B) l : is_nil_list (map f l) = is_nil_list l.
  Proof. destruct l; reflexivity. Qed.

  Lemma status_arith res (a b c : bool) ec : (res =? 0) = negb a ->
    (if (if c && (N.lor res (if b then 1 else 0) =? 0) then ec else N.lor res (if b then 1 else 0)) =? 0
     then 0 else ec) = if a || b || c then ec else 0.
  Proof.
    intros H. destruct a; cbn [negb orb] in *.
    - assert (Hl : (N.lor res (if b then 1 else 0) =? 0) = false).
      { apply N.eqb_neq. intros Hl. apply N.lor_eq_0_iff in Hl. destruct Hl as [Hl _].
        apply N.eqb_neq in H. contradiction. }
      rewrite Hl, andb_false_r, Hl. reflexivity.
    - apply N.eqb_eq in H. rewrite H, N.lor_0_l. destruct b; cbn [orb N.eqb].
      + rewrite andb_false_r. reflexivity.
      + destruct c; cbn [andb]; [|reflexivity].
        destruct (ec =? 0) eqn:Hc; [apply N.eqb_eq in Hc; congruence|reflexivity].
  Qed.

  Theorem whole_run_single_spec cfg nomsg nofail fs wp o :
    whole_run pm None cfg nomsg nofail fs wp = Some o -> Forall (inline_present nomsg) fs ->
    let final := map (derive (run_queries nomsg nofail fs wp) (flat_map f_locs fs)) nomsg in
    o_nomsg o = final
    /\ o_reported o = flat_map (fun f => pick (spec_forward pm true nomsg [] (f_msgs f)) (f_msgs f)) fs
                      ++ pick (spec_forward pm true nomsg [] wp) wp
    /\ (forall s, In s (o_unmatched o) <->
                  c_info cfg = true /\ nomsg <> [] /\ should_report (c_filters cfg) (c_inline cfg) final (map f_path fs) s)
    /\ o_status o = if findings_raise nomsg nofail fs wp || um_raise nofail (o_unmatched o)
                    then c_exitcode cfg else 0.
  Proof.
    unfold whole_run, exec_files. intros H Hin.
    destruct (single_files pm nomsg nofail fs) as [sr|] eqn:Hs; [|discriminate].
    apply single_files_spec in Hs; [|exact Hin]. destruct Hs as (Hn & Hf & Hrep & Hres).
    assert (Hst : map static (sr_nomsg sr) = map static nomsg) by (rewrite Hn; apply map_static_derive).
    destruct (logger_run pm true (mkL (sr_nomsg sr) (sr_nofail sr) [] false) wp) as [[st outs]|] eqn:Hr; [|discriminate].
    pose proof (logger_run_spec pm true _ _ _ _ Hr) as (Ho & He & _ & Hf2). cbn [l_nomsg l_nofail l_seen l_exit] in *.
    apply logger_run_nomsg in Hr. cbn [l_nomsg l_nofail l_seen] in Hr.
    rewrite (nomsg_queries_static true _ _ _ _ [] wp Hst Hf), Hn, map_derive_derive, app_nil_r in Hr.
    rewrite (spec_forward_static pm true _ _ [] wp Hst) in Ho.
    rewrite (spec_exit_static pm true _ _ _ _ [] wp Hst Hf) in He. cbn [orb] in He.
    fold (run_queries nomsg nofail fs wp) in Hr.
    assert (Hnf : map static (l_nofail st) = map static nofail) by congruence.
    cbv zeta in H. rewrite Hr in H. rewrite is_nil_list_map in H.
    set (final := map (derive (run_queries nomsg nofail fs wp) (flat_map f_locs fs)) nomsg) in *.
    destruct (c_info cfg && negb (is_nil_list nomsg)) eqn:Hinfo.
    - destruct (report_unmatched pm (c_filters cfg) (c_inline cfg) final (map f_path fs)) as [u|] eqn:Hu; [|discriminate].
      destruct (unmatched_fail pm (l_nofail st) u) as [fl|] eqn:Hfl; [|discriminate].
      apply unmatched_fail_spec in Hfl. rewrite (um_raise_static u _ _ Hnf) in Hfl.
      injection H as <-. cbn [o_nomsg o_reported o_unmatched o_status].
      apply andb_prop in Hinfo. destruct Hinfo as [Hi Hne].
      split; [reflexivity|]. split; [|split].
      + rewrite Hrep, Ho. reflexivity.
      + intros s. split.
        * intros Hx. apply (report_unmatched_spec _ _ _ _ _ Hu s) in Hx. split; [exact Hi|]. split; [|exact Hx].
          intros ->. discriminate.
        * intros (_ & _ & Hx). apply (report_unmatched_spec _ _ _ _ _ Hu s). exact Hx.
      + unfold findings_raise. rewrite He, Hfl. apply status_arith. exact Hres.
    - cbn [unmatched_fail] in H. injection H as <-. cbn [o_nomsg o_reported o_unmatched o_status].
      split; [reflexivity|]. split; [|split].
      + rewrite Hrep, Ho. reflexivity.
      + intros s. split.
        * intros [].
        * intros (Hi & Hne & _). rewrite Hi in Hinfo. destruct nomsg; [congruence|discriminate].
      + unfold findings_raise. rewrite He. change (um_raise nofail []) with false.
        rewrite <- (status_arith (sr_result sr) _ (spec_exit pm true nomsg nofail [] wp) false (c_exitcode cfg) Hres). reflexivity.
  Qed.

  (* every finding handed to the logger is put to the nomsg list *)
  Lemma nomsg_queries_all ug n f ms : forall seen e t, In (e, t) ms -> In (e, ug) (nomsg_queries ug n f seen ms).
  Proof.
    induction ms as [|[e0 t0] ms IH]; intros seen e t H; [destruct H|].
    cbn [nomsg_queries]. destruct H as [H|H].
    - injection H as -> ->. cbn [app]. left. reflexivity.
    - apply in_or_app. right. eapply IH. exact H.
  Qed.

  (* and nothing else is: a query of the logger is about one of its findings *)
  Lemma nomsg_queries_only ug n f ms : forall seen e g, In (e, g) (nomsg_queries ug n f seen ms) ->
    (g = ug \/ g = true) /\ exists t, In (e, t) ms.
  Proof.
    induction ms as [|[e0 t0] ms IH]; intros seen e g H; [destruct H|].
    cbn [nomsg_queries] in H. apply in_app_or in H. destruct H as [H|H].
    - destruct H as [H|H].
      + injection H as -> ->. split; [auto|]. exists t0. left. reflexivity.
      + apply in_app_or in H. destruct H as [H|H].
        * destruct (_ && _) in H; [|destruct H]. destruct H as [H|[]]. injection H as -> ->.
          split; [auto|]. exists t0. left. reflexivity.
        * apply in_app_or in H. destruct H as [H|H].
          -- destruct (_ && _) in H; [|destruct H]. destruct H as [H|[]]. injection H as -> ->.
             split; [auto|]. exists t0. left. reflexivity.
          -- destruct (_ && _) in H; [|destruct H]. destruct H as [H|[]]. injection H as -> ->.
             split; [auto|]. exists t0. left. reflexivity.
    - apply IH in H. destruct H as [H1 [t H2]]. split; [exact H1|]. exists t. right. exact H2.
  Qed.

  Lemma existsb_false_forall {A} (p : A -> bool) l : existsb p l = false -> forall x, In x l -> p x = false.
  Proof.
    intros H x Hx. destruct (p x) eqn:Hp; [|reflexivity].
    assert (existsb p l = true) by (apply existsb_exists; exists x; auto). congruence.
  Qed.

  Lemma forall_existsb_false {A} (p : A -> bool) l : (forall x, In x l -> p x = false) -> existsb p l = false.
  Proof.
    intros H. destruct (existsb p l) eqn:He; [|reflexivity].
    apply existsb_exists in He. destruct He as [x [Hx Hp]]. rewrite (H x Hx) in Hp. discriminate.
  Qed.

  (* all findings of a run (files and whole program), whether shown, suppressed or duplicate *)
  Definition finding_of (fs : list finput) (wp : list (emsg * str)) (e : emsg) : Prop :=
    (exists f t, In f fs /\ In (e, t) (f_msgs f)) \/ (exists t, In (e, t) wp).

  Lemma run_queries_all nomsg nofail fs wp e : finding_of fs wp e -> In (e, true) (run_queries nomsg nofail fs wp).
  Proof.
    unfold run_queries, single_queries. intros [[f [t [Hf Ht]]]|[t Ht]]; apply in_or_app.
    - left. apply in_flat_map. exists f. split; [exact Hf|]. unfold file_queries. right.
      eapply nomsg_queries_all. exact Ht.
    - right. eapply nomsg_queries_all. exact Ht.
  Qed.

  Lemma run_queries_only nomsg nofail fs wp e g : In (e, g) (run_queries nomsg nofail fs wp) ->
    g = true /\ (finding_of fs wp e \/ exists f, In f fs /\ e = dummy (f_path f)).
  Proof.
    unfold run_queries, single_queries. intros H. apply in_app_or in H. destruct H as [H|H].
    - apply in_flat_map in H. destruct H as [f [Hf H]]. unfold file_queries in H. destruct H as [H|H].
      + injection H as <- <-. split; [reflexivity|]. right. exists f. auto.
      + apply nomsg_queries_only in H. destruct H as [Hg [t Ht]]. split; [destruct Hg; auto|].
        left. left. exists f, t. auto.
    - apply nomsg_queries_only in H. destruct H as [Hg [t Ht]]. split; [destruct Hg; auto|].
      left. right. exists t. auto.
  Qed.

  (* single executor: an unmatchedSuppression finding is never about a suppression that
     hides some finding of the run *)
  Theorem single_reported_hides_nothing cfg nomsg nofail fs wp o s :
    whole_run pm None cfg nomsg nofail fs wp = Some o -> Forall (inline_present nomsg) fs ->
    In s (o_unmatched o) ->
    exists s0, In s0 nomsg /\ static s = static s0 /\ s_matched s0 = false
               /\ forall e, finding_of fs wp e -> hides pm true e s0 = false.
  Proof.
    intros H Hin Hs. apply whole_run_single_spec in H; [|exact Hin]. cbv zeta in H.
    destruct H as (_ & _ & Hu & _). apply Hu in Hs. destruct Hs as (_ & _ & Hs).
    apply reported_never_matched in Hs. destruct Hs as [Hi Hm].
    apply in_map_iff in Hi. destruct Hi as [s0 [<- Hi]]. exists s0. split; [exact Hi|]. split; [reflexivity|].
    unfold derive in Hm. cbn in Hm. apply orb_false_elim in Hm. destruct Hm as [Hm1 Hm2].
    split; [exact Hm1|]. intros e He.
    apply (existsb_false_forall _ _ Hm2 (e, true)). apply run_queries_all. exact He.
  Qed.

  Lemma dummy_hides_nothing g p s : is_nil (s_id s) = false -> hides pm g (dummy p) s = false.
  Proof.
    intros Hid. unfold hides, matches_doc. destruct (applicable g (dummy p) s); [|reflexivity]. cbn [andb].
    destruct (stype_eqb (s_type s) TMacro).
    - cbn. reflexivity.
    - rewrite Hid. cbn. rewrite !andb_false_r. reflexivity.
  Qed.

  Lemma anyhide_run_queries nomsg nofail fs wp s0 :
    is_nil (s_id s0) = false -> (forall e, finding_of fs wp e -> hides pm true e s0 = false) ->
    anyhide (run_queries nomsg nofail fs wp) s0 = false.
  Proof.
    intros Hid Hno. apply forall_existsb_false. intros [e g] Hq. cbn [fst snd].
    apply run_queries_only in Hq. destruct Hq as [-> [He|[f [_ ->]]]].
    - apply Hno. exact He.
    - apply dummy_hides_nothing. exact Hid.
  Qed.

  Lemma bail_no_entry l : (forall x, In x l -> str_eqb (s_id x) UNMATCHED = false) -> bail l = false.
  Proof. intros H. apply forall_existsb_false. intros x Hx. rewrite (H x Hx). reflexivity. Qed.

  Lemma covers_no_entry (sel : supp -> bool) l s :
    (forall x, In x l -> str_eqb (s_id x) UNMATCHED = false) -> existsb (fun s2 => sel s2 && covers s2 s) l = false.
  Proof.
    intros H. apply forall_existsb_false. intros x Hx. unfold covers. rewrite (H x Hx).
    cbn. apply andb_false_r.
  Qed.

  (* single executor, completeness: a global (no file) suppression that hides no finding of
     the run is reported, when no unmatchedSuppression entry and no filter stands in the way *)
  Theorem single_global_unmatched_reported cfg nomsg nofail fs wp o s0 :
    whole_run pm None cfg nomsg nofail fs wp = Some o -> Forall (inline_present nomsg) fs ->
    c_info cfg = true ->
    In s0 nomsg -> s_matched s0 = false -> s_inline s0 = false -> s_file s0 = [] -> s_hash s0 = 0 ->
    is_nil (s_id s0) = false -> str_eqb (s_id s0) CHECKERSREPORT = false ->
    (forall x, In x nomsg -> str_eqb (s_id x) UNMATCHED = false) ->
    filtered_out (c_filters cfg) s0 = false ->
    (forall e, finding_of fs wp e -> hides pm true e s0 = false) ->
    exists s, In s (o_unmatched o) /\ static s = static s0.
  Proof.
    intros H Hin Hinfo Hi Hm Hinl Hfile Hhash Hid Hcr Hnoum Hfil Hno.
    apply whole_run_single_spec in H; [|exact Hin]. cbv zeta in H. destruct H as (_ & _ & Hu & _).
    set (Q := run_queries nomsg nofail fs wp) in *. set (M := flat_map f_locs fs) in *.
    exists (derive Q M s0). split; [|reflexivity]. apply Hu. split; [exact Hinfo|]. split.
    { intros ->. destruct Hi. }
    assert (Hnoum' : forall x, In x (map (derive Q M) nomsg) -> str_eqb (s_id x) UNMATCHED = false).
    { intros x Hx. apply in_map_iff in Hx. destruct Hx as [x0 [<- Hx0]]. apply (Hnoum x0 Hx0). }
    split; [apply bail_no_entry; exact Hnoum'|]. right. right.
    unfold group_reports. split; [apply in_map; exact Hi|]. split.
    - unfold unmatched_global, derive, is_local. cbn. rewrite Hinl, Hm, Hfile, Hhash, Hcr.
      unfold Q. rewrite (anyhide_run_queries nomsg nofail fs wp s0 Hid Hno). cbn.
      rewrite andb_false_r. reflexivity.
    - split; [apply covers_no_entry; exact Hnoum'|]. exact Hfil.
  Qed.

  (* ---------- exit status in terms of what was shown ---------- *)
  Definition not_nofail (nofail : list supp) (m : emsg * str) : bool := negb (existsb (hides pm true (fst m)) nofail).

  Lemma spec_exit_shown n f ms : forall seen,
    spec_exit pm true n f seen ms = existsb (not_nofail f) (pick (spec_forward pm true n seen ms) ms).
  Proof.
    induction ms as [|[e t] ms IH]; intros seen; cbn [spec_exit spec_forward pick existsb]; [reflexivity|].
    rewrite IH.
    destruct (negb (is_nil t) && negb (mem_str t seen)); cbn [andb].
    - destruct (existsb (hides pm true e) n); cbn [negb andb orb]; [reflexivity|].
      cbn [existsb]. unfold not_nofail at 2. cbn [fst]. rewrite andb_true_r. reflexivity.
    - reflexivity.
  Qed.

  Lemma existsb_flat_map {A B} (p : B -> bool) (g : A -> list B) l :
    existsb p (flat_map g l) = existsb (fun x => existsb p (g x)) l.
  Proof. induction l as [|x l IH]; cbn; [reflexivity|]. rewrite existsb_app, IH. reflexivity. Qed.

  (* everything the run shows: the findings handed to the output and the unmatchedSuppression findings *)
  Definition um_finding (s : supp) : emsg * str := (unmatched_emsg s, []).
  Definition all_shown (o : outcome) : list (emsg * str) := o_reported o ++ map um_finding (o_unmatched o).

  Lemma um_raise_shown nofail u : um_raise nofail u = existsb (not_nofail nofail) (map um_finding u).
  Proof. unfold um_raise. induction u as [|s u IH]; cbn [map existsb]; [reflexivity|]. rewrite IH. reflexivity. Qed.

  Theorem single_status_shown cfg nomsg nofail fs wp o :
    whole_run pm None cfg nomsg nofail fs wp = Some o -> Forall (inline_present nomsg) fs ->
    o_status o = if existsb (not_nofail nofail) (all_shown o) then c_exitcode cfg else 0.
  Proof.
    intros H Hin. apply whole_run_single_spec in H; [|exact Hin]. cbv zeta in H.
    destruct H as (_ & Hr & _ & Hs). rewrite Hs. unfold all_shown. rewrite (existsb_app _ (o_reported o)), <- um_raise_shown, Hr.
    unfold findings_raise.
    rewrite existsb_app, existsb_flat_map, <- spec_exit_shown.
    rewrite (existsb_ext' (fun f => spec_exit pm true nomsg nofail [] (f_msgs f))
                          (fun x => existsb (not_nofail nofail) (pick (spec_forward pm true nomsg [] (f_msgs x)) (f_msgs x)))).
    - reflexivity.
    - intros f. apply spec_exit_shown.
  Qed.

  Theorem status_zero_default k cfg nomsg nofail fs wp o :
    whole_run pm k cfg nomsg nofail fs wp = Some o -> c_exitcode cfg = 0 -> o_status o = 0.
  Proof.
    unfold whole_run. intros H Hz.
    destruct (exec_files pm k nomsg nofail fs) as [sr|]; [|discriminate].
    destruct (logger_run pm true _ wp) as [[st outs]|]; [|discriminate].
    cbv zeta in H.
    destruct (if c_info cfg && negb (is_nil_list (l_nomsg st)) then _ else _) as [u|]; [|discriminate].
    destruct (unmatched_fail pm (l_nofail st) u) as [fl|]; [|discriminate].
    injection H as <-. cbn [o_status]. rewrite Hz. destruct (_ =? 0); reflexivity.
  Qed.

  (* every executor: what is reported as unmatched carries no matched flag *)
  Theorem reported_flag_unmatched k cfg nomsg nofail fs wp o s :
    whole_run pm k cfg nomsg nofail fs wp = Some o -> In s (o_unmatched o) ->
    In s (o_nomsg o) /\ s_matched s = false.
  Proof.
    unfold whole_run. intros H Hs.
    destruct (exec_files pm k nomsg nofail fs) as [sr|]; [|discriminate].
    destruct (logger_run pm true _ wp) as [[st outs]|]; [|discriminate].
    cbv zeta in H.
    destruct (c_info cfg && negb (is_nil_list (l_nomsg st))).
    - destruct (report_unmatched pm (c_filters cfg) (c_inline cfg) (l_nomsg st) (map f_path fs)) as [u|] eqn:Hu; [|discriminate].
      destruct (unmatched_fail pm (l_nofail st) u) as [fl|]; [|discriminate].
      injection H as <-. cbn [o_unmatched o_nomsg] in *.
      apply (report_unmatched_spec _ _ _ _ _ Hu s) in Hs. apply reported_never_matched in Hs. exact Hs.
    - cbn [unmatched_fail] in H. injection H as <-. destruct Hs.
  Qed.

  (* ---------- state transfer from workers: updates commute ---------- *)
  Lemma same_params_set_flags s x a b : same_params s (set_flags x a b) = same_params s x.
  Proof. reflexivity. Qed.

  Lemma update_state_static l : forall s, map static (fst (update_state l s)) = map static l.
  Proof.
    induction l as [|x l IH]; intros s; cbn [update_state]; [reflexivity|].
    destruct (same_params s x); [reflexivity|].
    specialize (IH s). destruct (update_state l s) as [r b]. cbn [fst map] in *. rewrite IH. reflexivity.
  Qed.

  Lemma update_state_cons s x l :
    fst (update_state (x :: l) s) = if same_params s x then set_flags x (s_matched s) (s_checked s) :: l
                                    else x :: fst (update_state l s).
  Proof. cbn [update_state]. destruct (same_params s x); [reflexivity|]. destruct (update_state l s); reflexivity. Qed.

  Lemma update_state_comm l : forall a b,
    fst (update_state (fst (update_state l a)) b) = fst (update_state (fst (update_state l b)) a).
  Proof.
    induction l as [|x l IH]; intros a b; [reflexivity|].
    rewrite (update_state_cons a x l), (update_state_cons b x l).
    destruct (same_params a x) eqn:Ha, (same_params b x) eqn:Hb; rewrite !update_state_cons;
      rewrite ?same_params_set_flags, ?Ha, ?Hb.
    - rewrite !set_flags_set_flags.
      rewrite (orb_comm (s_matched a)), (orb_comm (s_checked a)). reflexivity.
    - reflexivity.
    - reflexivity.
    - rewrite IH. reflexivity.
  Qed.

  Definition update_all (l : list supp) (us : list supp) : list supp :=
    fold_left (fun p s => fst (update_state p s)) us l.

  (* the parent's final flags do not depend on the order in which worker records arrive *)
  Theorem update_all_perm us us' : Permutation us us' -> forall l, update_all l us = update_all l us'.
  Proof.
    unfold update_all. induction 1; intros l0; cbn [fold_left].
    - reflexivity.
    - apply IHPermutation.
    - rewrite update_state_comm. reflexivity.
    - rewrite IHPermutation1. apply IHPermutation2.
  Qed.

  (* ---------- thread / process executors: the lists keep their suppressions, the
     per-file exit codes are those of the documented rule ---------- *)
  Lemma same_params_refl s : same_params s s = true.
  Proof.
    unfold same_params. rewrite !(proj2 (str_eqb_eq _ _) eq_refl), Z.eqb_refl, N.eqb_refl, eqb_reflx. reflexivity.
  Qed.

  Lemma present_of_static w p s : map static w = map static p -> In s w -> existsb (same_params s) p = true.
  Proof.
    intros H Hs. apply (in_map static) in Hs. rewrite H in Hs. apply in_map_iff in Hs.
    destruct Hs as [x [Hx Hi]]. apply existsb_exists. exists x. split; [exact Hi|].
    change (same_params s x) with (same_params s (static x)). rewrite Hx.
    change (same_params s (static s)) with (same_params s s). apply same_params_refl.
  Qed.

  Lemma add_or_update_present p s : existsb (same_params s) p = true -> add_or_update p s = fst (update_state p s).
  Proof. intros H. unfold add_or_update, add_supp. rewrite H. reflexivity. Qed.

  Lemma transfer_thread_static w : forall p,
    (forall s, In s w -> existsb (same_params s) p = true) -> map static (transfer_thread p w) = map static p.
  Proof.
    unfold transfer_thread. induction w as [|s w IH]; intros p H; cbn [fold_left]; [reflexivity|].
    assert (Hs : existsb (same_params s) p = true) by (apply H; left; reflexivity).
    assert (Hp : map static (if s_inline s then add_or_update p s
                             else if negb (is_local s) then fst (update_state p s) else p) = map static p).
    { destruct (s_inline s); [rewrite add_or_update_present by exact Hs; apply update_state_static|].
      destruct (negb (is_local s)); [apply update_state_static|reflexivity]. }
    rewrite IH; [exact Hp|]. intros x Hx. rewrite (existsb_same_params_static x _ _ Hp). apply H. right. exact Hx.
  Qed.

  Lemma transfer_process_static w : forall p,
    (forall s, In s w -> existsb (same_params s) p = true) -> map static (transfer_process p w) = map static p.
  Proof.
    unfold transfer_process. induction w as [|s w IH]; intros p H; cbn [fold_left]; [reflexivity|].
    assert (Hs : existsb (same_params s) p = true) by (apply H; left; reflexivity).
    assert (Hp : map static (if s_inline s || s_checked s then add_or_update p s else p) = map static p).
    { destruct (s_inline s || s_checked s); [rewrite add_or_update_present by exact Hs; apply update_state_static|reflexivity]. }
    rewrite IH; [exact Hp|]. intros x Hx. rewrite (existsb_same_params_static x _ _ Hp). apply H. right. exact Hx.
  Qed.

  Lemma has_to_log_static ms : forall n seen n2 seen2 bs,
    has_to_log pm n seen ms = Some (n2, seen2, bs) -> map static n2 = map static n.
  Proof.
    induction ms as [|[e t] ms IH]; intros n seen n2 seen2 bs H; cbn [has_to_log] in H.
    - injection H as <- _ _. reflexivity.
    - destruct (list_is_suppressed pm n (no_macros e) true) as [[n1 sup]|] eqn:H1; [|discriminate].
      apply list_is_suppressed_eq in H1. destruct H1 as [-> _].
      destruct (has_to_log pm _ _ ms) as [[[n3 seen3] bs3]|] eqn:H2; [|discriminate].
      injection H as <- _ _. apply IH in H2. rewrite H2, map_upd_derive. apply map_static_derive.
  Qed.

  Theorem multi_files_spec k bn bf fs : forall n f seen sr,
    multi_files pm k bn bf n f seen fs = Some sr ->
    map static n = map static bn -> map static f = map static bf -> Forall (inline_present bn) fs ->
    map static (sr_nomsg sr) = map static bn /\ map static (sr_nofail sr) = map static bf
    /\ (sr_result sr =? 0) = negb (existsb (fun x => spec_exit pm false bn bf [] (f_msgs x)) fs).
  Proof.
    induction fs as [|x fs IH]; intros n f seen sr H Hn Hf Hin; cbn [multi_files] in H.
    - injection H as <-. cbn. auto.
    - cbv zeta in H. inversion Hin as [|? ? Hin1 Hin2]; subst.
      set (wn := match k with EThread => n | EProcess => bn end) in *.
      set (wf := match k with EThread => f | EProcess => bf end) in *.
      assert (Hwn : map static wn = map static bn) by (destruct k; [exact Hn|reflexivity]).
      assert (Hwf : map static wf = map static bf) by (destruct k; [exact Hf|reflexivity]).
      destruct (check_file pm false wn wf x) as [fr|] eqn:Hc; [|discriminate].
      apply check_file_spec in Hc; [|apply (inline_present_static bn); [exact Hwn|exact Hin1]].
      destruct Hc as (Hrn & Hrf & _ & Hex).
      assert (Hrs : map static (r_nomsg fr) = map static bn) by (rewrite Hrn, map_static_derive; exact Hwn).
      rewrite (spec_exit_static pm false _ _ _ _ [] (f_msgs x) Hwn Hwf) in Hex.
      set (pn := match k with EThread => transfer_thread (r_nomsg fr) (r_nomsg fr) | EProcess => n end) in *.
      assert (Hpn : map static pn = map static bn).
      { destruct k; [|exact Hn]. unfold pn. rewrite transfer_thread_static; [exact Hrs|].
        intros s Hs. apply (present_of_static (r_nomsg fr)); [reflexivity|exact Hs]. }
      destruct (has_to_log pm pn seen (pick (r_out fr) (f_msgs x))) as [[[pn1 seen1] shows]|] eqn:Hh; [|discriminate].
      apply has_to_log_static in Hh.
      set (pn2 := match k with EThread => pn1 | EProcess => transfer_process pn1 (r_nomsg fr) end) in *.
      assert (Hpn2 : map static pn2 = map static bn).
      { destruct k; unfold pn2; [congruence|]. rewrite transfer_process_static; [congruence|].
        intros s Hs. apply (present_of_static (r_nomsg fr)); [congruence|exact Hs]. }
      set (pf := match k with EThread => r_nofail fr | EProcess => f end) in *.
      assert (Hpf : map static pf = map static bf) by (destruct k; unfold pf; congruence).
      destruct (multi_files pm k bn bf pn2 pf seen1 fs) as [sr1|] eqn:Hm; [|discriminate].
      injection H as <-. cbn [sr_nomsg sr_nofail sr_result].
      apply IH in Hm; [|exact Hpn2|exact Hpf|exact Hin2]. destruct Hm as (H1 & H2 & H3).
      split; [exact H1|]. split; [exact H2|].
      cbn [existsb]. rewrite Hex. destruct (spec_exit pm false bn bf [] (f_msgs x)); cbn [orb negb].
      + destruct (sr_result sr1); reflexivity.
      + rewrite N.add_0_l. exact H3.
  Qed.

  (* single executor, completeness for file-local suppressions without a line *)
  Theorem single_local_unmatched_reported cfg nomsg nofail fs wp o s0 p :
    whole_run pm None cfg nomsg nofail fs wp = Some o -> Forall (inline_present nomsg) fs ->
    c_info cfg = true ->
    In s0 nomsg -> s_matched s0 = false -> s_inline s0 = false -> is_local s0 = true -> s_line s0 = NO_LINE ->
    stype_eqb (s_type s0) TMacro = false -> s_hash s0 = 0 ->
    is_nil (s_id s0) = false -> str_eqb (s_id s0) CHECKERSREPORT = false ->
    In p (map f_path fs) -> pm (s_file s0) p = true ->
    (forall x, In x nomsg -> str_eqb (s_id x) UNMATCHED = false) ->
    filtered_out (c_filters cfg) s0 = false ->
    (forall e, finding_of fs wp e -> hides pm true e s0 = false) ->
    exists s, In s (o_unmatched o) /\ static s = static s0.
  Proof.
    intros H Hin Hinfo Hi Hm Hinl Hloc Hline Hty Hhash Hid Hcr Hp Hpm Hnoum Hfil Hno.
    apply whole_run_single_spec in H; [|exact Hin]. cbv zeta in H. destruct H as (_ & _ & Hu & _).
    set (Q := run_queries nomsg nofail fs wp) in *. set (M := flat_map f_locs fs) in *.
    exists (derive Q M s0). split; [|reflexivity]. apply Hu. split; [exact Hinfo|]. split.
    { intros ->. destruct Hi. }
    assert (Hnoum' : forall x, In x (map (derive Q M) nomsg) -> str_eqb (s_id x) UNMATCHED = false).
    { intros x Hx. apply in_map_iff in Hx. destruct Hx as [x0 [<- Hx0]]. apply (Hnoum x0 Hx0). }
    split; [apply bail_no_entry; exact Hnoum'|]. left. exists p. split; [exact Hp|].
    unfold group_reports. split; [apply in_map; exact Hi|]. split.
    - unfold unmatched_local, derive. cbn.
      change (is_local (set_flags s0 (anyhide Q s0) (anyreach Q s0 || anymark M s0))) with (is_local s0).
      rewrite Hinl, Hm, Hline, Hty, Hhash, Hcr, Hloc, Hpm.
      unfold Q. rewrite (anyhide_run_queries nomsg nofail fs wp s0 Hid Hno). reflexivity.
    - split; [apply covers_no_entry; exact Hnoum'|]. exact Hfil.
  Qed.

  (* thread / process executors: the status *)
  Theorem whole_run_multi_status k cfg nomsg nofail fs wp o :
    whole_run pm (Some k) cfg nomsg nofail fs wp = Some o -> Forall (inline_present nomsg) fs ->
    o_status o = if existsb (fun x => spec_exit pm false nomsg nofail [] (f_msgs x)) fs
                    || spec_exit pm true nomsg nofail [] wp
                    || um_raise nofail (o_unmatched o)
                 then c_exitcode cfg else 0.
  Proof.
    unfold whole_run, exec_files. intros H Hin.
    destruct (multi_files pm k nomsg nofail nomsg nofail [] fs) as [sr|] eqn:Hs; [|discriminate].
    apply multi_files_spec in Hs; [|reflexivity|reflexivity|exact Hin]. destruct Hs as (Hn & Hf & Hres).
    destruct (logger_run pm true (mkL (sr_nomsg sr) (sr_nofail sr) [] false) wp) as [[st outs]|] eqn:Hr; [|discriminate].
    pose proof (logger_run_spec pm true _ _ _ _ Hr) as (_ & He & _ & Hf2). cbn [l_nomsg l_nofail l_seen l_exit] in *.
    rewrite (spec_exit_static pm true _ _ _ _ [] wp Hn Hf) in He. cbn [orb] in He.
    assert (Hnf : map static (l_nofail st) = map static nofail) by congruence.
    cbv zeta in H.
    destruct (if c_info cfg && negb (is_nil_list (l_nomsg st)) then _ else _) as [u|]; [|discriminate].
    destruct (unmatched_fail pm (l_nofail st) u) as [fl|] eqn:Hfl; [|discriminate].
    apply unmatched_fail_spec in Hfl. rewrite (um_raise_static u _ _ Hnf) in Hfl.
    injection H as <-. cbn [o_status o_unmatched]. rewrite He, Hfl. apply status_arith. exact Hres.
  Qed.
End WithPathMatch.

(* ---------- witnesses (PathMatch instance: equality on plain names) ---------- *)
Definition pm_eq (a b : str) : bool := str_eqb a b.
Definition S_NULLPOINTER : str := [110;117;108;108;80;111;105;110;116;101;114].
Definition S_MEMLEAK : str := [109;101;109;108;101;97;107].
Definition S_AC : str := [97;46;99].
Definition mk_plain (id file : str) : supp := mkSupp id file NO_LINE NO_LINE NO_LINE TUnique [] [] 0 false false false false.

(* C24: --suppress=nullPointer --suppress=nullPointer:a.c, one nullPointer finding in a.c *)
Definition w24_nomsg : list supp := [mk_plain S_NULLPOINTER []; mk_plain S_NULLPOINTER S_AC].
Definition w24_finding : emsg := mkEmsg 0 S_NULLPOINTER S_AC 3 [] [].
Definition w24_files : list finput := [mkF S_AC [] [] [(w24_finding, [109])]].
Definition w24_cfg : config := mkC 0 true false [].

(* before fix 524f0f5 the thread and process executors reported the global entry here *)
Lemma witness_executors_agree :
  exists o1 o2,
    whole_run pm_eq None w24_cfg w24_nomsg [] w24_files [] = Some o1
    /\ whole_run pm_eq (Some EThread) w24_cfg w24_nomsg [] w24_files [] = Some o2
    /\ whole_run pm_eq (Some EProcess) w24_cfg w24_nomsg [] w24_files [] = Some o2
    /\ o_unmatched o1 = [] /\ o_unmatched o2 = [].
Proof. eexists. eexists. vm_compute. repeat split; reflexivity. Qed.

(* C25: --suppress=memleak (matches nothing), --exitcode-suppressions with the line
   unmatchedSuppression, --error-exitcode=7, --enable=information, a.c without findings *)
Definition w25_nomsg : list supp := [mk_plain S_MEMLEAK []].
Definition w25_nofail : list supp := [mk_plain UNMATCHED []].
Definition w25_files : list finput := [mkF S_AC [] [] []].
Definition w25_cfg : config := mkC 7 true false [].

(* before fix 7b7622c the status was 7 here: the only finding of the run is the
   unmatchedSuppression one and it is matched by the exitcode suppression *)
Lemma witness_unmatched_honours_nofail :
  exists o,
    whole_run pm_eq None w25_cfg w25_nomsg w25_nofail w25_files [] = Some o
    /\ o_reported o = []
    /\ forallb (fun s => existsb (hides pm_eq true (unmatched_emsg s)) w25_nofail) (o_unmatched o) = true
    /\ o_unmatched o <> []
    /\ o_status o = 0.
Proof. eexists. vm_compute. repeat split; try reflexivity. discriminate. Qed.

(* and without the exitcode suppression it still is 7 *)
Lemma witness_unmatched_raises :
  exists o, whole_run pm_eq None w25_cfg w25_nomsg [] w25_files [] = Some o /\ o_reported o = [] /\ o_status o = 7.
Proof. eexists. vm_compute. repeat split; reflexivity. Qed.
