(* Proofs about the whole-run model (Supp/ExecDefs.v): the flags after any
   sequence of queries and marks are a function of the set of queries; what the
   unmatched-suppression report contains; the exit status. *)
From CV Require Import Base.Bytes Base.Glob Base.GlobProofs Supp.Defs Supp.Proofs Supp.ListProofs Supp.ExecDefs.
Require Import Permutation.
Local Open Scope N_scope.

Lemma set_flags_set_flags s a b c d : set_flags (set_flags s a b) c d = set_flags s (a || c) (b || d).
Proof. destruct s. unfold set_flags. cbn. rewrite !orb_assoc. reflexivity. Qed.

Lemma set_flags_false s : set_flags s false false = s.
Proof. destruct s. unfold set_flags. cbn. rewrite !orb_false_r. reflexivity. Qed.

Lemma existsb_perm {A} (f : A -> bool) l l' : Permutation l l' -> existsb f l = existsb f l'.
Proof.
  induction 1; cbn; try congruence.
  - rewrite !orb_assoc, (orb_comm (f y)). reflexivity.
Qed.

Lemma existsb_ext' {A} (f g : A -> bool) l : (forall x, f x = g x) -> existsb f l = existsb g l.
Proof. intros H. induction l; cbn; congruence. Qed.

Section WithPathMatch.
  Variable pm : str -> str -> bool.

  (* the finding is at the place the suppression names (line / file, or the macro) *)
  Definition located (s : supp) (e : emsg) : bool :=
    if stype_eqb (s_type s) TMacro then mem_str (s_macro s) (e_macros e)
    else line_okb s e && file_okb pm s e.

  Lemma symbol_part_some s e r : symbol_part s e = Some r -> r <> RNone.
  Proof. intros H. apply symbol_part_spec in H. destruct H as [[-> _]|[-> _]]; discriminate. Qed.

  Ltac fin1 := let H := fresh in intros H; injection H as <-; split; [discriminate|reflexivity] .
  Ltac fin2 := let H := fresh in intros H; injection H as <-; split; [reflexivity|discriminate].
  Ltac sym1 := let H := fresh in intros H; apply symbol_part_some in H; split; [exact H|reflexivity].

  Lemma is_suppressed_located s e r :
    is_suppressed pm s e = Some r -> (r <> RNone /\ located s e = true) \/ (r = RNone /\ located s e = false).
  Proof.
    unfold is_suppressed, located. destruct (stype_eqb (s_type s) TMacro).
    - unfold is_suppressed_macro.
      destruct (mem_str (s_macro s) (e_macros e)); cbn [negb andb].
      2:{ intros H; injection H as <-. right; auto. }
      destruct ((0 <? s_hash s) && negb (s_hash s =? e_hash e)).
      { intros H; injection H as <-. left; split; [discriminate|reflexivity]. }
      destruct (is_nil (s_id s)).
      { intros H; apply symbol_part_some in H. left; auto. }
      destruct (oglob (s_id s) (e_id e)) as [[|]|]; try discriminate.
      { intros H; apply symbol_part_some in H. left; auto. }
      { intros H; injection H as <-. left; split; [discriminate|reflexivity]. }
    - unfold is_suppressed_other. rewrite line_cond.
      destruct (line_okb s e); cbn [negb andb].
      2:{ intros H; injection H as <-. right; auto. }
      unfold file_okb.
      destruct (is_nil (s_file s)); cbn [negb andb orb].
      + destruct ((0 <? s_hash s) && negb (s_hash s =? e_hash e)).
        { intros H; injection H as <-. left; split; [discriminate|reflexivity]. }
        destruct (is_nil (s_id s)).
        { destruct (stype_eqb (s_type s) TBlock && _).
          - intros H; injection H as <-. left; split; [discriminate|reflexivity].
          - intros H; apply symbol_part_some in H. left; auto. }
        destruct (is_nil (e_id e)).
        { intros H; injection H as <-. left; split; [discriminate|reflexivity]. }
        destruct (oglob (s_id s) (e_id e)) as [[|]|]; try discriminate.
        { destruct (stype_eqb (s_type s) TBlock && _).
          - intros H; injection H as <-. left; split; [discriminate|reflexivity].
          - intros H; apply symbol_part_some in H. left; auto. }
        { intros H; injection H as <-. left; split; [discriminate|reflexivity]. }
      + destruct (pm (s_file s) (e_file e)); cbn [negb andb].
        2:{ intros H; injection H as <-. right; auto. }
        destruct ((0 <? s_hash s) && negb (s_hash s =? e_hash e)).
        { intros H; injection H as <-. left; split; [discriminate|reflexivity]. }
        destruct (is_nil (s_id s)).
        { destruct (stype_eqb (s_type s) TBlock && _).
          - intros H; injection H as <-. left; split; [discriminate|reflexivity].
          - intros H; apply symbol_part_some in H. left; auto. }
        destruct (is_nil (e_id e)).
        { intros H; injection H as <-. left; split; [discriminate|reflexivity]. }
        destruct (oglob (s_id s) (e_id e)) as [[|]|]; try discriminate.
        { destruct (stype_eqb (s_type s) TBlock && _).
          - intros H; injection H as <-. left; split; [discriminate|reflexivity].
          - intros H; apply symbol_part_some in H. left; auto. }
        { intros H; injection H as <-. left; split; [discriminate|reflexivity]. }
  Qed.

  (* a match is always located *)
  Lemma matches_doc_located s e : matches_doc pm s e = true -> located s e = true.
  Proof.
    unfold matches_doc, located. destruct (stype_eqb (s_type s) TMacro).
    - intros H. apply andb_prop in H. destruct H as [H _]. apply andb_prop in H. destruct H as [H _].
      apply andb_prop in H. destruct H as [H _]. exact H.
    - intros H. do 4 (apply andb_prop in H; destruct H as [H _]). exact H.
  Qed.

  Lemma is_match_eq s e s' b : is_match pm s e = Some (s', b) ->
    s' = set_flags s (matches_doc pm s e) (located s e) /\ b = matches_doc pm s e.
  Proof.
    unfold is_match. destruct (is_suppressed pm s e) as [r|] eqn:Hr; [|discriminate].
    pose proof (is_suppressed_matches_doc pm s e r Hr) as [H1 H2].
    pose proof (is_suppressed_located s e r Hr) as HL.
    destruct (matches_doc pm s e) eqn:Hm.
    - rewrite (H2 eq_refl). intros H; injection H as <- <-.
      rewrite (matches_doc_located s e Hm). auto.
    - destruct r.
      + intros H; injection H as <- <-. destruct HL as [[HL _]|[_ ->]]; [congruence|].
        rewrite set_flags_false. auto.
      + intros H; injection H as <- <-. destruct HL as [[_ ->]|[HL _]]; [auto|discriminate].
      + specialize (H1 eq_refl). discriminate.
  Qed.

  (* is the suppression consulted for (e,g) and is the finding at its place? *)
  Definition reach (g : bool) (e : emsg) (s : supp) : bool := applicable g e s && located s e.

  Definition upd (g : bool) (e : emsg) (s : supp) : supp := set_flags s (hides pm g e s) (reach g e s).

  Lemma list_is_suppressed_eq g e l : forall l' b,
    list_is_suppressed pm l e g = Some (l', b) -> l' = map (upd g e) l /\ b = existsb (hides pm g e) l.
  Proof.
    induction l as [|s l IH]; intros l' b H; cbn [list_is_suppressed] in H.
    - injection H as <- <-. auto.
    - cbn [map existsb]. unfold upd at 1, hides at 1 2, reach at 1, applicable at 1 2 3.
      destruct ((negb g && negb (is_local s))
                || (str_eqb (e_id e) UNMATCHED && negb (str_eqb (s_id s) (e_id e)))) eqn:Hskip.
      + destruct (list_is_suppressed pm l e g) as [[r' b2]|]; [|discriminate].
        injection H as <- <-. destruct (IH _ _ eq_refl) as [-> ->]. cbn [negb andb orb].
        rewrite set_flags_false. auto.
      + destruct (is_match pm s e) as [[s' b1]|] eqn:Hm; [|discriminate].
        destruct (list_is_suppressed pm l e g) as [[r' b2]|]; [|discriminate].
        injection H as <- <-. destruct (IH _ _ eq_refl) as [-> ->].
        apply is_match_eq in Hm. destruct Hm as [-> ->]. cbn [negb andb]. auto.
  Qed.

  (* ---------- flags as a function of the set of queries and marks ---------- *)
  Definition query := (emsg * bool)%type.

  Definition anyhide (Q : list query) (s : supp) : bool := existsb (fun q => hides pm (snd q) (fst q) s) Q.
  Definition anyreach (Q : list query) (s : supp) : bool := existsb (fun q => reach (snd q) (fst q) s) Q.
  Definition anymark (M : list (str * Z)) (s : supp) : bool := existsb (fun fl => mark_hit (fst fl) (snd fl) s) M.

  Definition derive (Q : list query) (M : list (str * Z)) (s : supp) : supp :=
    set_flags s (anyhide Q s) (anyreach Q s || anymark M s).

  Lemma anyhide_set_flags Q s a b : anyhide Q (set_flags s a b) = anyhide Q s.
  Proof. apply existsb_ext'. reflexivity. Qed.
  Lemma anyreach_set_flags Q s a b : anyreach Q (set_flags s a b) = anyreach Q s.
  Proof. apply existsb_ext'. reflexivity. Qed.
  Lemma anymark_set_flags M s a b : anymark M (set_flags s a b) = anymark M s.
  Proof. apply existsb_ext'. reflexivity. Qed.
  Lemma anyhide_app Q1 Q2 s : anyhide (Q1 ++ Q2) s = anyhide Q1 s || anyhide Q2 s.
  Proof. apply existsb_app. Qed.
  Lemma anyreach_app Q1 Q2 s : anyreach (Q1 ++ Q2) s = anyreach Q1 s || anyreach Q2 s.
  Proof. apply existsb_app. Qed.
  Lemma anymark_app M1 M2 s : anymark (M1 ++ M2) s = anymark M1 s || anymark M2 s.
  Proof. apply existsb_app. Qed.

  Lemma derive_nil s : derive [] [] s = s.
  Proof. unfold derive. cbn. apply set_flags_false. Qed.

  Lemma derive_derive Q1 M1 Q2 M2 s :
    derive Q2 M2 (derive Q1 M1 s) = derive (Q1 ++ Q2) (M1 ++ M2) s.
  Proof.
    unfold derive. rewrite anyhide_set_flags, anyreach_set_flags, anymark_set_flags.
    rewrite set_flags_set_flags, anyhide_app, anyreach_app, anymark_app.
    f_equal.
    destruct (anyreach Q1 s), (anymark M1 s), (anyreach Q2 s), (anymark M2 s); reflexivity.
  Qed.

  Lemma upd_derive g e s : upd g e s = derive [(e, g)] [] s.
  Proof. unfold upd, derive, anyhide, anyreach, anymark. cbn. rewrite !orb_false_r. reflexivity. Qed.

  Lemma map_derive_derive Q1 M1 Q2 M2 l :
    map (derive Q2 M2) (map (derive Q1 M1) l) = map (derive (Q1 ++ Q2) (M1 ++ M2)) l.
  Proof. rewrite map_map. apply map_ext. intros. apply derive_derive. Qed.

  Lemma derive_perm Q Q' M M' s : Permutation Q Q' -> Permutation M M' -> derive Q M s = derive Q' M' s.
  Proof.
    intros HQ HM. unfold derive, anyhide, anyreach, anymark.
    rewrite (existsb_perm _ _ _ HQ), (existsb_perm (fun q => reach (snd q) (fst q) s) _ _ HQ), (existsb_perm _ _ _ HM).
    reflexivity.
  Qed.

  Lemma static_derive Q M s : static (derive Q M s) = static s.
  Proof. reflexivity. Qed.

  Lemma map_static_derive Q M l : map static (map (derive Q M) l) = map static l.
  Proof. rewrite map_map. apply map_ext. intros; apply static_derive. Qed.

  (* SuppressionList::isSuppressed called any number of times *)
  Theorem list_run_derive Q : forall l l' bs,
    list_run pm l Q = Some (l', bs) -> l' = map (derive Q []) l.
  Proof.
    induction Q as [|[e g] Q IH]; intros l l' bs H; cbn [list_run] in H.
    - injection H as <- <-. rewrite (map_ext _ (fun s => s)), map_id; [reflexivity|]. intros; apply derive_nil.
    - destruct (list_is_suppressed pm l e g) as [[l1 b]|] eqn:H1; [|discriminate].
      destruct (list_run pm l1 Q) as [[l2 bs2]|] eqn:H2; [|discriminate].
      injection H as <- <-. apply list_is_suppressed_eq in H1. destruct H1 as [-> _].
      apply IH in H2. rewrite H2.
      rewrite (map_ext (upd g e) (derive [(e,g)] [])) by (intros; apply upd_derive).
      rewrite map_derive_derive. reflexivity.
  Qed.

  Lemma mark_checked_derive locs : forall l, mark_checked locs l = map (derive [] locs) l.
  Proof.
    unfold mark_checked. induction locs as [|[f ln] locs IH]; intros l; cbn [fold_left].
    - rewrite (map_ext _ (fun s => s)), map_id; [reflexivity|]. intros; apply derive_nil.
    - rewrite IH.
      rewrite (map_ext (fun s => set_flags s false (mark_hit (fst (f, ln)) (snd (f, ln)) s)) (derive [] [(f,ln)])).
      + rewrite map_derive_derive. reflexivity.
      + intros s. unfold derive, anyhide, anyreach, anymark. cbn. rewrite orb_false_r. reflexivity.
  Qed.

  (* ---------- the logger: which queries it makes to the nomsg list ---------- *)
  Fixpoint nomsg_queries (ug : bool) (nomsg nofail : list supp) (seen : list str) (ms : list (emsg * str)) : list query :=
    match ms with
    | [] => []
    | (e, text) :: r =>
        let fresh := negb (is_nil text) && negb (mem_str text seen) in
        let fwd := fresh && negb (existsb (hides pm ug e) nomsg) in
        ((e, ug) :: (if fwd && negb (existsb (hides pm true e) nofail) then [(e, true)] else []))
          ++ nomsg_queries ug nomsg nofail (if fresh then text :: seen else seen) r
    end.

  Lemma nomsg_queries_static ug n n' f f' seen ms :
    map static n' = map static n -> map static f' = map static f ->
    nomsg_queries ug n' f' seen ms = nomsg_queries ug n f seen ms.
  Proof.
    intros Hn Hf. revert seen. induction ms as [|[e t] ms IH]; intros seen; cbn [nomsg_queries]; [reflexivity|].
    rewrite (existsb_hides_static pm _ _ _ _ Hn), (existsb_hides_static pm _ _ _ _ Hf), IH. reflexivity.
  Qed.

  Lemma map_upd_derive g e l : map (upd g e) l = map (derive [(e, g)] []) l.
  Proof. apply map_ext. intros; apply upd_derive. Qed.

  Lemma logger_step_nomsg ug st e text st' b :
    logger_step pm ug st (e, text) = Some (st', b) ->
    let fresh := negb (is_nil text) && negb (mem_str text (l_seen st)) in
    let fwd := fresh && negb (existsb (hides pm ug e) (l_nomsg st)) in
    l_nomsg st' = map (derive ((e, ug) :: (if fwd && negb (existsb (hides pm true e) (l_nofail st)) then [(e, true)] else [])) [])
                      (l_nomsg st).
  Proof.
    cbn [logger_step].
    destruct (list_is_suppressed pm (l_nomsg st) e ug) as [[n1 sup]|] eqn:H1; [|discriminate].
    apply list_is_suppressed_eq in H1. destruct H1 as [-> ->]. rewrite map_upd_derive.
    destruct (is_nil text) eqn:Hn; cbn [negb andb].
    { intros H; injection H as <- <-. reflexivity. }
    destruct (mem_str text (l_seen st)) eqn:Hs; cbn [negb andb].
    { intros H; injection H as <- <-. reflexivity. }
    destruct (existsb (hides pm ug e) (l_nomsg st)) eqn:Hh; cbn [negb andb].
    { intros H; injection H as <- <-. reflexivity. }
    destruct (list_is_suppressed pm (l_nofail st) e true) as [[f1 nf]|] eqn:H2; [|discriminate].
    apply list_is_suppressed_eq in H2. destruct H2 as [-> ->].
    destruct (existsb (hides pm true e) (l_nofail st)) eqn:Hf; cbn [negb andb].
    { intros H; injection H as <- <-. reflexivity. }
    destruct (list_is_suppressed pm _ e true) as [[n2 nm]|] eqn:H3; [|discriminate].
    apply list_is_suppressed_eq in H3. destruct H3 as [-> ->]. rewrite map_upd_derive, map_derive_derive.
    intros H; injection H as <- <-. reflexivity.
  Qed.

  Theorem logger_run_nomsg ug ms : forall st st' outs,
    logger_run pm ug st ms = Some (st', outs) ->
    l_nomsg st' = map (derive (nomsg_queries ug (l_nomsg st) (l_nofail st) (l_seen st) ms) []) (l_nomsg st).
  Proof.
    induction ms as [|[e text] ms IH]; intros st st' outs H; cbn [logger_run] in H.
    - injection H as <- <-. cbn. rewrite (map_ext _ (fun s => s)), map_id; [reflexivity|]. intros; apply derive_nil.
    - destruct (logger_step pm ug st (e, text)) as [[st1 b]|] eqn:Hs; [|discriminate].
      destruct (logger_run pm ug st1 ms) as [[st2 bs]|] eqn:Hr; [|discriminate].
      injection H as <- <-.
      pose proof (logger_step_spec pm ug st e text st1 b Hs) as Hsp. cbv zeta in Hsp.
      destruct Hsp as (_ & Hn & Hf & Hseen & _).
      apply logger_step_nomsg in Hs. cbv zeta in Hs.
      apply IH in Hr. rewrite Hr, Hs, map_derive_derive.
      rewrite <- Hs. rewrite (nomsg_queries_static ug _ _ _ _ _ ms Hn Hf), Hseen.
      cbn [nomsg_queries]. reflexivity.
  Qed.
End WithPathMatch.
