(* Entry point of the extracted executable for C24/C25: the cases of Supp/Run.v
   plus the whole-run model of Supp/ExecDefs.v. *)
From CV Require Import Base.Bytes Base.Glob Supp.Defs Supp.Run Supp.ExecDefs.
Local Open Scope N_scope.

Definition take_loc (l : list str) : option ((str * Z) * list str) :=
  match l with
  | f :: ln :: r => Some ((f, zd ln), r)
  | _ => None
  end.

(* op: kind ("A" add, "U" update, "O" add-or-update) + suppression *)
Definition take_op (l : list str) : option ((str * supp) * list str) :=
  match l with
  | k :: r => match take_supp r with
              | Some (s, r') => Some ((k, s), r')
              | None => None
              end
  | [] => None
  end.

Definition apply_op (st : list supp * list str) (o : str * supp) : list supp * list str :=
  let '(l, out) := st in
  let '(k, s) := o in
  if str_eqb k [65] then let '(l', ok) := add_supp l s in (l', out ++ [str_of_bool ok])
  else if str_eqb k [85] then let '(l', ok) := update_state l s in (l', out ++ [str_of_bool ok])
  else (add_or_update l s, out ++ [[79]]).

Definition ident_out (l : list supp) : list str :=
  flat_map (fun s => [s_id s; s_file s; dec_of_Z (s_line s); str_of_bool (s_matched s); str_of_bool (s_checked s)]) l.

Definition um_out (l : list supp) : list str :=
  (* ErrorMessage::FileLocation keeps the simplified path *)
  flat_map (fun s => [simp (s_file s); dec_of_Z (if is_nil (s_file s) then 0%Z else if (s_line s =? NO_LINE)%Z then 0%Z else s_line s); s_id s]) l.

Definition take_file (l : list str) : option (finput * list str) :=
  match l with
  | path :: r0 =>
      match take_list take_supp r0 with
      | Some (inls, r1) =>
          match take_list take_loc r1 with
          | Some (locs, r2) =>
              match take_list take_emsg_t r2 with
              | Some (ms, r3) => Some (mkF (simp path) inls locs ms, r3)
              | None => None
              end
          | None => None
          end
      | None => None
      end
  | [] => None
  end.

(* SuppressionList::parseLine simplifies the file name of a command-line / file suppression *)
Definition simp_supp (s : supp) : supp :=
  mkSupp (s_id s) (simp (s_file s)) (s_line s) (s_begin s) (s_end s) (s_type s) (s_symbol s)
         (s_macro s) (s_hash s) (s_next s) (s_inline s) (s_matched s) (s_checked s).

Definition kind_of (s : str) : option ekind :=
  match N_of_dec s with
  | Some 1 => Some EThread
  | Some 2 => Some EProcess
  | _ => None
  end.

(* tags: "ops" "mark" "report" "whole" and, as in Supp/Run.v (whose decoders are reused;
   its `run` itself is not referenced so that the extracted entry point keeps its name), "list" "logger" "unmatched" *)
Definition run (fields : list str) : list str :=
  match fields with
  | [] => BAD
  | tag :: args =>
      if tag_is tag [111;112;115] then
        match take_list take_supp args with
        | Some (l, r) =>
            match take_list take_op r with
            | Some (ops, _) =>
                let '(l', out) := fold_left apply_op ops (add_all [] l, []) in
                out ++ [[124]] ++ ident_out l'
            | None => BAD
            end
        | None => BAD
        end
      else if tag_is tag [109;97;114;107] then
        match take_list take_supp args with
        | Some (l, r) =>
            match take_list take_loc r with
            | Some (locs, _) => flags_out (mark_checked locs (add_all [] l))
            | None => BAD
            end
        | None => BAD
        end
      else if tag_is tag [114;101;112;111;114;116] then
        (* inline_enabled filters... supps... paths... *)
        match args with
        | ie :: r0 =>
            match take_list take_str r0 with
            | Some (filters, r1) =>
                match take_list take_supp r1 with
                | Some (l, r2) =>
                    match take_list take_str r2 with
                    | Some (paths, _) =>
                        match report_unmatched pm_run filters (bool_of_str ie) (add_all [] l) (map simp paths) with
                        | Some u => str_of_bool (negb (is_nil_list u)) :: um_out u
                        | None => FUEL
                        end
                    | None => BAD
                    end
                | None => BAD
                end
            | None => BAD
            end
        | [] => BAD
        end
      else if tag_is tag [119;104;111;108;101] then
        (* kind exitcode info inline filters... nomsg... nofail... files... wp... *)
        match args with
        | k :: ec :: info :: inle :: r0 =>
            match take_list take_str r0 with
            | Some (filters, r1) =>
                match take_list take_supp r1 with
                | Some (nomsg, r2) =>
                    match take_list take_supp r2 with
                    | Some (nofail, r3) =>
                        match take_list take_file r3 with
                        | Some (files, r4) =>
                            match take_list take_emsg_t r4 with
                            | Some (wp, _) =>
                                match whole_run pm_run (kind_of k)
                                        (mkC (nd ec) (bool_of_str info) (bool_of_str inle) filters)
                                        (add_all [] (map simp_supp nomsg)) (add_all [] (map simp_supp nofail)) files wp with
                                | Some o =>
                                    dec_of_N (o_status o) :: dec_of_N (N.of_nat (length (o_reported o)))
                                      :: map snd (o_reported o) ++ um_out (o_unmatched o)
                                | None => FUEL
                                end
                            | None => BAD
                            end
                        | None => BAD
                        end
                    | None => BAD
                    end
                | None => BAD
                end
            | None => BAD
            end
        | _ => BAD
        end
      else if tag_is tag [108;105;115;116] then
        match take_list take_supp args with
        | Some (l, r) =>
            match take_list take_emsg_g r with
            | Some (es, _) =>
                match list_run pm_run l es with
                | Some (l', bs) => map str_of_bool bs ++ flags_out l'
                | None => FUEL
                end
            | None => BAD
            end
        | None => BAD
        end
      else if tag_is tag [108;105;115;116;110] then
        (* "listn": as "list", suppression file names simplified as parseLine does (property evaluation of C25) *)
        match take_list take_supp args with
        | Some (l, r) =>
            match take_list take_emsg_g r with
            | Some (es, _) =>
                match list_run pm_run l es with
                | Some (l', bs) => map str_of_bool bs ++ flags_out l'
                | None => FUEL
                end
            | None => BAD
            end
        | None => BAD
        end
      else if tag_is tag [108;111;103;103;101;114] then
        match args with
        | g :: r0 =>
            match take_list take_supp r0 with
            | Some (nomsg, r1) =>
                match take_list take_supp r1 with
                | Some (nofail, r2) =>
                    match take_list take_emsg_t r2 with
                    | Some (ms, _) =>
                        match logger_run pm_run (bool_of_str g) (mkL nomsg nofail [] false) ms with
                        | Some (st, bs) =>
                            map str_of_bool bs ++ [str_of_bool (l_exit st)]
                                ++ flags_out (l_nomsg st) ++ flags_out (l_nofail st)
                        | None => FUEL
                        end
                    | None => BAD
                    end
                | None => BAD
                end
            | None => BAD
            end
        | [] => BAD
        end
      else if tag_is tag [117;110;109;97;116;99;104;101;100] then
        match args with
        | file :: r => match take_supp r with
                       | Some (s, _) => [str_of_bool (unmatched_local pm_run (simp file) s);
                                         str_of_bool (unmatched_global s);
                                         str_of_bool (unmatched_inline s)]
                       | None => BAD
                       end
        | [] => BAD
        end
      else BAD
  end.
