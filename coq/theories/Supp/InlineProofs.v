(* Proofs about addInlineSuppressions as modelled in Supp/InlineDefs.v. *)
From CV Require Import Base.Bytes Base.Glob Supp.Defs Supp.ParseDefs Supp.PairDefs Supp.DispatchDefs Supp.InlineDefs.
Require Import Lia ZifyBool.
Local Open Scope N_scope.

Definition code (t : tok) : Prop := t_comment t = false.

(* code tokens are passed over; after the first one the file is no longer "only comments" *)
Lemma walk_code pre : Forall code pre -> forall f before rest only st,
  walk (length pre + f) before (pre ++ rest) only st = walk f (rev pre ++ before) rest (only && is_nil pre) st.
Proof.
  induction 1 as [|t pre Ht _ IH]; intros f before rest only st.
  - cbn. rewrite andb_true_r. reflexivity.
  - cbn [length plus app walk]. unfold code in Ht. rewrite Ht. cbn [negb].
    rewrite IH. cbn [rev is_nil andb]. rewrite <- app_assoc, andb_false_r. reflexivity.
Qed.

Lemma walk_code_end ts : Forall code ts -> forall f before only st, walk f before ts only st = st.
Proof.
  induction 1 as [|t ts Ht _ IH]; intros f before only st; destruct f; cbn [walk]; try reflexivity.
  unfold code in Ht. rewrite Ht. cbn [negb]. apply IH.
Qed.

Lemma following_code k post : t_comment k = false -> following (k :: post) = ([], 0, k :: post, None).
Proof. intros H. cbn [following]. rewrite H. reflexivity. Qed.

Lemma dispatch_brace : dispatch BRACE = DNot.
Proof. reflexivity. Qed.

(* a suppression comment that starts its line (only code on earlier lines before it, code after it):
   the suppression is attached to the line of the next code token *)
Theorem comment_before_code pre c k post i sy :
  Forall code pre -> code k -> Forall code post -> t_comment c = true ->
  sameline (hd_opt (rev pre)) (Some c) = false ->
  dispatch (t_text c) = DOk TUnique [(i, sy)] false -> valid_inline_id i = true ->
  inline_suppressions (pre ++ c :: k :: post) = ([mkIS i sy TUnique (t_line k) NO_LINE NO_LINE false], 0).
Proof.
  intros Hpre Hk Hpost Hc Hsl Hd Hv. unfold inline_suppressions.
  replace (S (length (pre ++ c :: k :: post))) with (length pre + S (S (S (length post))))%nat
    by (rewrite app_length; cbn [length]; lia).
  remember (S (S (length post))) as F eqn:HF. clear HF.
  rewrite (walk_code pre Hpre), app_nil_r.
  cbn [walk]. rewrite Hc. cbn [negb]. unfold entries_of. rewrite Hd. rewrite Hsl.
  rewrite (following_code k post Hk). rewrite Nat.sub_diag. cbn [firstn rev app map fst snd].
  cbn [fold_left handle hd_opt tl].
  assert (Hb : str_eqb (t_text c) BRACE = false).
  { destruct (str_eqb (t_text c) BRACE) eqn:E; [|reflexivity]. apply str_eqb_eq in E. rewrite E, dispatch_brace in Hd. discriminate. }
  assert (Hn : match hd_opt (rev pre) with
               | Some _ => match hd_opt post with
                           | Some n => negb (sameline (hd_opt (rev pre)) (Some c)) && (t_line k + 1 =? t_line n)%Z && str_eqb (t_text c) BRACE
                           | None => false
                           end
               | None => false
               end = false).
  { destruct (hd_opt (rev pre)); [|reflexivity]. destruct (hd_opt post); [|reflexivity]. rewrite Hb. apply andb_false_r. }
  rewrite Hn. unfold add_isup. cbn [existsb orb is_id]. rewrite Hv. cbn [negb app].
  cbn [i_added i_pending i_bad]. rewrite (walk_code_end post Hpost). cbn. reflexivity.
Qed.

(* the special case of the manual: "{" on its own line followed by a suppression comment, the next
   token on the next line: the suppression holds for this and the next line *)
Definition brace_rule (pp : option tok) (p c : tok) (n : option tok) : bool :=
  match pp, n with
  | Some _, Some n' => negb (sameline pp (Some p)) && (t_line c + 1 =? t_line n')%Z && str_eqb (t_text p) BRACE
  | _, _ => false
  end.

(* a suppression comment after code on the same line: the suppression is attached to that line *)
Theorem comment_after_code pre p c post i sy :
  Forall code pre -> code p -> Forall code post -> t_comment c = true ->
  t_line p = t_line c ->
  dispatch (t_text c) = DOk TUnique [(i, sy)] false -> valid_inline_id i = true ->
  inline_suppressions (pre ++ p :: c :: post)
  = ([mkIS i sy TUnique (t_line c) NO_LINE NO_LINE (brace_rule (hd_opt (rev pre)) p c (hd_opt post))], 0).
Proof.
  intros Hpre Hp Hpost Hc Hl Hd Hv. unfold inline_suppressions.
  replace (pre ++ p :: c :: post) with ((pre ++ [p]) ++ c :: post) by (rewrite <- app_assoc; reflexivity).
  replace (S (length ((pre ++ [p]) ++ c :: post))) with (length (pre ++ [p]) + S (S (length post)))%nat
    by (rewrite !app_length; cbn [length]; lia).
  remember (S (length post)) as F eqn:HF. clear HF.
  assert (Hpp : Forall code (pre ++ [p])) by (apply Forall_app; split; [exact Hpre|constructor; [exact Hp|constructor]]).
  rewrite (walk_code (pre ++ [p]) Hpp), app_nil_r, rev_app_distr. cbn [rev app].
  cbn [walk]. rewrite Hc. cbn [negb]. unfold entries_of. rewrite Hd.
  cbn [hd_opt sameline]. rewrite Hl, Z.eqb_refl.
  cbn [map fst snd fold_left handle tl hd_opt].
  unfold add_isup. cbn [existsb orb is_id i_added i_pending i_bad]. rewrite Hv. cbn [negb app].
  rewrite (walk_code_end post Hpost). unfold brace_rule. cbn [i_added i_pending i_bad length].
  destruct (hd_opt (rev pre)); destruct (hd_opt post); reflexivity.
Qed.

(* cppcheck-suppress-file: accepted only while nothing but comments came before it *)
Theorem file_comment pre c k post i sy :
  Forall code pre -> code k -> Forall code post -> t_comment c = true ->
  sameline (hd_opt (rev pre)) (Some c) = false ->
  dispatch (t_text c) = DOk TFile [(i, sy)] false -> valid_inline_id i = true ->
  inline_suppressions (pre ++ c :: k :: post)
  = if is_nil pre then ([mkIS i sy TFile (t_line c) NO_LINE NO_LINE false], 0) else ([], 1).
Proof.
  intros Hpre Hk Hpost Hc Hsl Hd Hv. unfold inline_suppressions.
  replace (S (length (pre ++ c :: k :: post))) with (length pre + S (S (S (length post))))%nat
    by (rewrite app_length; cbn [length]; lia).
  remember (S (S (length post))) as F eqn:HF. clear HF.
  rewrite (walk_code pre Hpre), app_nil_r.
  cbn [walk]. rewrite Hc. cbn [negb]. unfold entries_of. rewrite Hd. rewrite Hsl.
  rewrite (following_code k post Hk). rewrite Nat.sub_diag. cbn [firstn rev app map fst snd].
  cbn [fold_left handle hd_opt tl andb].
  destruct pre as [|p0 pre']; cbn [is_nil andb].
  - unfold add_isup. cbn [existsb orb is_id i_added i_pending i_bad]. rewrite Hv. cbn [negb app].
    rewrite (walk_code_end post Hpost). cbn. reflexivity.
  - cbn [i_added i_pending i_bad]. rewrite (walk_code_end post Hpost). cbn. reflexivity.
Qed.
