(* addInlineSuppressions (lib/preprocessor.cpp) over the token sequence of one file:
   which suppressions the inline comments of a file add, on which lines.
   A token is its line and either a code token (its text) or a comment (its text).
   Executable definitions only. *)
From CV Require Import Base.Bytes Base.Glob Supp.Defs Supp.ParseDefs Supp.PairDefs Supp.DispatchDefs.
Local Open Scope N_scope.

Record tok := mkTok { t_line : Z; t_comment : bool; t_text : str }.

(* a suppression as the list receives it *)
Record isup := mkIS { is_id : str; is_sym : str; is_type : stype; is_line : Z; is_begin : Z; is_end : Z; is_next : bool }.

Record istate := mkIst { i_added : list isup; i_pending : list bev; i_bad : N }.

Definition sameline (a b : option tok) : bool :=
  match a, b with Some x, Some y => (t_line x =? t_line y)%Z | _, _ => false end.

(* addSuppression: refused for an invalid id and for a repetition of
   (id, line, symbol, thisAndNextLine) -- the file name is the same throughout *)
Definition same_isup (a b : isup) : bool :=
  str_eqb (is_id a) (is_id b) && (is_line a =? is_line b)%Z && str_eqb (is_sym a) (is_sym b)
  && Bool.eqb (is_next a) (is_next b).

Definition valid_inline_id (i : str) : bool :=
  negb (is_nil i) && forallb accepted_id_char i
  && negb (match i with c :: _ => is_digit c | [] => false end) && valid_glob i.

Definition add_isup (l : list isup) (s : isup) : list isup :=
  if existsb (same_isup s) l || negb (valid_inline_id (is_id s)) then l else l ++ [s].

(* the entries one comment contributes: (type, id, symbol, line of the comment); bad reports *)
Definition entries_of (c : tok) : list (stype * str * str * Z) * N :=
  match dispatch (t_text c) with
  | DNot => ([], 0)
  | DBad => ([], 1)
  | DOk ty items bad => (map (fun it => (ty, fst it, snd it, t_line c)) items, if bad then 1 else 0)
  end.

Definition is_supp_comment (c : tok) : bool :=
  match dispatch (t_text c) with DOk _ _ _ => true | _ => false end.

(* the comments directly following (the `while (tok->comment)` loop): their entries, and the
   rest of the token sequence starting at the first non-comment token (or [] at the end) *)
Fixpoint following (ts : list tok) : list (stype * str * str * Z) * N * list tok * option tok :=
  (* entries, bad, remaining from the stop token on, last comment seen if the sequence ended *)
  match ts with
  | [] => ([], 0, [], None)
  | t :: r =>
      if t_comment t then
        let '(e1, b1) := entries_of t in
        match r with
        | [] => (e1, b1, [t], None)        (* no next token: tok stays on this comment *)
        | _ => let '(e2, b2, rest, x) := following r in (e1 ++ e2, b1 + b2, rest, x)
        end
      else ([], 0, ts, None)
  end.

Definition BRACE : str := [123].

(* one entry handed to the list, target = the token the suppression is attached to *)
Definition handle (only : bool) (prev2 prev next : option tok) (target : tok)
           (st : istate) (e : stype * str * str * Z) : istate :=
  let '(ty, i, sy, cl) := e in
  match ty with
  | TBlock => st
  | TBlockBegin => mkIst (i_added st) (i_pending st ++ [mkBE false i sy cl]) (i_bad st)
  | TBlockEnd =>
      let ev := mkBE true i sy cl in
      match last_line (i_pending st) with
      | None => mkIst (i_added st) (i_pending st) (i_bad st + 1)
      | Some ll =>
          match take_begin ll ev (i_pending st) with
          | Some (b, rest) =>
              mkIst (add_isup (i_added st) (mkIS i sy TBlock (be_line b) (be_line b) cl false)) rest (i_bad st)
          | None => mkIst (i_added st) (i_pending st) (i_bad st + 1)
          end
      end
  | TUnique | TMacro =>
      let nxt := match prev, prev2, next with
                 | Some p, Some _, Some n =>
                     negb (sameline prev2 prev) && (t_line target + 1 =? t_line n)%Z && str_eqb (t_text p) BRACE
                 | _, _, _ => false
                 end in
      mkIst (add_isup (i_added st) (mkIS i sy ty (t_line target) NO_LINE NO_LINE nxt)) (i_pending st) (i_bad st)
  | TFile =>
      if only then mkIst (add_isup (i_added st) (mkIS i sy TFile cl NO_LINE NO_LINE false)) (i_pending st) (i_bad st)
      else mkIst (i_added st) (i_pending st) (i_bad st + 1)
  end.

Definition hd_opt {A} (l : list A) : option A := match l with x :: _ => Some x | [] => None end.

(* the main loop; `before` holds the tokens already passed, last first; fuel = number of tokens *)
Fixpoint walk (fuel : nat) (before : list tok) (ts : list tok) (only : bool) (st : istate) : istate :=
  match fuel with
  | O => st
  | S f =>
      match ts with
      | [] => st
      | t :: r =>
          if negb (t_comment t) then walk f (t :: before) r false st
          else
            match dispatch (t_text t) with
            | DNot => walk f (t :: before) r only st
            | DBad => walk f (t :: before) r only (mkIst (i_added st) (i_pending st) (i_bad st + 1))
            | DOk _ _ _ =>
                let '(e0, b0) := entries_of t in
                if sameline (hd_opt before) (Some t) then
                  (* code before the comment on its line: the comment itself is the target *)
                  let st1 := fold_left (handle only (hd_opt (tl before)) (hd_opt before) (hd_opt r) t)
                                       e0 (mkIst (i_added st) (i_pending st) (i_bad st + b0)) in
                  walk f (t :: before) r only st1
                else
                  match r with
                  | [] =>
                      let st1 := fold_left (handle only (hd_opt (tl before)) (hd_opt before) None t)
                                           e0 (mkIst (i_added st) (i_pending st) (i_bad st + b0)) in
                      st1
                  | _ =>
                      let '(e1, b1, rest, _) := following r in
                      (* the tokens skipped: t and the comments of r before `rest` *)
                      let skipped := firstn (length r - length rest) r in
                      let before' := rev skipped ++ t :: before in
                      match rest with
                      | [] => st   (* unreachable: following keeps at least one token of a non-empty sequence *)
                      | target :: after =>
                          let st1 := fold_left (handle only (hd_opt (tl before')) (hd_opt before') (hd_opt after) target)
                                               (e0 ++ e1) (mkIst (i_added st) (i_pending st) (i_bad st + b0 + b1)) in
                          walk f (target :: before') after only st1
                      end
                  end
            end
      end
  end.

Definition inline_suppressions (ts : list tok) : list isup * N :=
  let st := walk (S (length ts)) [] ts true (mkIst [] [] 0) in
  (i_added st, i_bad st + N.of_nat (length (i_pending st))).
